#!/bin/bash
# tools/take_variants.sh <letter>...: stores the refactorings delivered under /tmp/rf5-<letter>-out as
# variants/v5<letter><n>.{diff,md} and runs every check on each (SUITE=1: the whole suite must pass too).
for k in "$@"; do
  for n in 1 2 3; do
    [ -f /tmp/rf5-$k-out/v$n.diff ] || continue
    cp /tmp/rf5-$k-out/v$n.diff /verif/variants/v5$k$n.diff
    cp /tmp/rf5-$k-out/v$n.md /verif/variants/v5$k$n.md 2>/dev/null
  done
  SUITE=1 JOBS=${JOBS:-3} /verif/tools/try_variants.sh v5$k
done
