#!/bin/bash
# R=<round> tools/take_variants.sh <letter>...: stores the refactorings delivered under
# /tmp/rf<round>-<letter>-out as variants/v<round><letter><n>.{diff,md} and runs every check on
# each (the whole suite must pass too).  Default round: 5.
R=${R:-5}
for k in "$@"; do
  for n in 1 2 3; do
    [ -f /tmp/rf$R-$k-out/v$n.diff ] || continue
    cp /tmp/rf$R-$k-out/v$n.diff /verif/variants/v$R$k$n.diff
    cp /tmp/rf$R-$k-out/v$n.md /verif/variants/v$R$k$n.md 2>/dev/null
  done
  SUITE=1 JOBS=${JOBS:-3} /verif/tools/try_variants.sh v$R$k
done
