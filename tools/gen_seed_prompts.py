#!/usr/bin/env python3
"""Writes, for every property, the prompt handed to an independent sub-agent that
seeds property-breaking changes (round N): property text only, a scratch
worktree, and one-line descriptions of the changes already delivered (to keep
rounds different).  Nothing from /verif's machinery is in the prompt.
usage: gen_seed_prompts.py <round> <template> <outdir>"""
import json, sys, os, glob, re
rnd, tmpl, out = sys.argv[1], open(sys.argv[2]).read(), sys.argv[3]
props = [json.loads(l) for l in open('/verif/properties.jsonl')]
os.makedirs(out, exist_ok=True)
for p in props:
    pid = p['id']
    known = []
    for d in sorted(glob.glob(f'/verif/seeded/{pid}-*')):
        try:
            meta = json.load(open(d + '/meta.json'))
        except Exception:
            continue
        desc = ''
        try:
            for line in open(d + '/notes.md'):
                line = line.strip().lstrip('#').strip()
                if line:
                    desc = line
                    break
        except Exception:
            pass
        if not desc:
            continue
        known.append('- files %s: %s' % (', '.join(meta.get('files_changed', [])), desc[:220]))
    text = tmpl.replace('@ID@', pid).replace('@ROUND@', rnd).replace('@TITLE@', p.get('title', '')).replace('@STATEMENT@', p.get('statement', '')).replace('@QUANT@', p.get('quantifier', {}).get('text', '')).replace('@KNOWN@', '\n'.join(known))
    open(f'{out}/agent{rnd}-prompt-{pid}.txt', 'w').write(text)
print('wrote', len(props))
