#!/bin/bash
# vwt.sh <variant> <props…>: apply variants/<variant>.diff to a scratch worktree /tmp/vwt-<variant> (kept) and run the given checks on it.
v=$1; shift
wt=/tmp/vwt-$v
if [ ! -d $wt ]; then git -C /repo worktree add -q --detach $wt HEAD && git -C $wt apply /verif/variants/$v.diff || exit 2; fi
/verif/build.sh >/dev/null || exit 2
for p in "$@"; do UGO_REPO=$wt UGOLINT_EVDIR=/tmp/ev-vwt /verif/bin/ugolint $p quick 2>&1 | grep -E "\] (violation|undecided):|obligations" | cut -c1-${W:-500}; done
