#!/bin/bash
# tools/reconfirm_seeds.sh [seed-prefix]: re-runs the demonstration of every stored seeded
# change against /repo's CURRENT HEAD (each in its own scratch worktree, removed afterwards):
# the demo must still fail with the patch and pass without it.  Repairs made in /repo after a
# seed was delivered can neutralise it (the seeded mistake no longer breaks the property);
# such seeds are listed as STALE and are not counted as misses.  Runs ${JOBS:-6} at a time.
export GOFLAGS=-mod=mod GOPROXY=off GOSUMDB=off GOTOOLCHAIN=local GOWORK=off
one() {
  d=$1; seed=$(basename $d); wt=/tmp/wt-reconf-$seed
  f=$d/demo_test.go; [ -f $f ] || { echo "$seed: NO-DEMO"; return; }
  git -C /repo worktree remove --force $wt 2>/dev/null; rm -rf $wt
  git -C /repo worktree add -q --detach $wt HEAD || { echo "$seed: WORKTREE FAILED"; return; }
  pkgname=$(grep -m1 "^package" $f | awk '{print $2}')
  case $pkgname in
   ugo_test|ugo) dir=. ;; encoder_test|encoder) dir=encoder ;; json_test|json) dir=stdlib/json ;;
   importers_test|importers) dir=importers ;; parser_test|parser) dir=parser ;; strings_test|strings) dir=stdlib/strings ;;
   time_test|time) dir=stdlib/time ;; fmt_test|fmt) dir=stdlib/fmt ;; main) dir=cmd/ugo ;; *) dir=. ;;
  esac
  rx=$(grep -o "^func Test[A-Za-z0-9_]*" $f | sed 's/func //' | tr '\n' '|' | sed 's/|$//')
  extra=""; case $seed in C08-m1|C08-r10m2|C19-r10m1) extra="-race";; esac  # demonstrations that are deterministic only under the race detector
  cp $f $wt/$dir/zz_seed_demo_test.go
  ( cd $wt && timeout 300 go test -vet=off -count=1 $extra -run "^($rx)\$" ./$dir ) >/dev/null 2>&1; worc=$?
  if ! git -C $wt apply $d/patch.diff 2>/dev/null; then echo "$seed: DOES-NOT-APPLY"; git -C /repo worktree remove --force $wt; return; fi
  ( cd $wt && timeout 300 go test -vet=off -count=1 $extra -run "^($rx)\$" ./$dir ) >/dev/null 2>&1; wrc=$?
  if [ $wrc -ne 0 ] && [ $worc -eq 0 ]; then echo "$seed: ok"; elif [ $worc -ne 0 ]; then echo "$seed: DEMO-FAILS-ON-CLEAN-TREE (rc=$worc)"; else echo "$seed: STALE (demo passes with the patch)"; fi
  git -C /repo worktree remove --force $wt
}
export -f one
ls -d /verif/seeded/${1:-C}*/ | xargs -P ${JOBS:-6} -I{} bash -c 'one {}'
