#!/bin/bash
# Confirms the round-11 seeded changes delivered under /tmp/wt11-<id>-out as seeded/<id>-r11m<i>.
for id in "$@"; do
 for m in m1 m2 m3; do
  f=/tmp/wt11-$id-out/${m}_demo_test.go; [ -f $f ] || continue
  seed=$id-r11$m
  [ -f /verif/seeded/$seed/demo_output_with_patch.txt ] && { echo "$seed already confirmed"; continue; }
  pkgname=$(grep -m1 "^package" $f | awk '{print $2}')
  case $pkgname in
   ugo_test|ugo) dir=. ;;
   encoder_test|encoder) dir=encoder ;;
   json_test|json) dir=stdlib/json ;;
   importers_test|importers) dir=importers ;;
   parser_test|parser) dir=parser ;;
   strings_test|strings) dir=stdlib/strings ;;
   time_test|time) dir=stdlib/time ;;
   fmt_test|fmt) dir=stdlib/fmt ;;
   *) dir=. ;;
  esac
  rx=$(grep -o "^func Test[A-Za-z0-9_]*" $f | sed 's/func //' | tr '\n' '|' | sed 's/|$//')
  git -C /tmp/wt11-$id checkout -q --detach $(git -C /repo rev-parse HEAD) 2>/dev/null
  out=$(/verif/tools/confirm_seed.sh $seed $id /tmp/wt11-$id /tmp/wt11-$id-out/$m.diff $f $dir "^($rx)\$" 2>&1 | tail -2 | tr '\n' ' ')
  echo "$seed dir=$dir: $out"
  [ -d /verif/seeded/$seed ] && cp /tmp/wt11-$id-out/$m.md /verif/seeded/$seed/notes.md
 done
done
