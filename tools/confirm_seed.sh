#!/bin/bash
# tools/confirm_seed.sh <seed-id> <prop> <worktree> <patch.diff> <demo_test.go> <pkgdir-relative> <go-test-run-regex> [extra go test flags]
# Confirms a seeded change independently: the patch applies to a clean worktree,
# builds, the whole existing suite passes with it, the demonstration fails with
# it and passes without it.  On success stores it under /verif/seeded/<seed-id>/.
set -u
id=$1; prop=$2; wt=$3; patch=$4; demo=$5; pkg=$6; rx=$7; shift 7; extra="$*"
export GOFLAGS=-mod=mod GOPROXY=off GOSUMDB=off GOTOOLCHAIN=local GOWORK=off
clean() { git -C "$wt" checkout -q -- . ; git -C "$wt" clean -fdq; }
clean
git -C "$wt" apply "$patch" || { echo "FAIL: patch does not apply"; exit 1; }
( cd "$wt" && go build ./... ) || { echo "FAIL: build"; clean; exit 1; }
suite=$( cd "$wt" && go test -vet=off -count=1 ./... 2>&1 ); src=$?
echo "$suite" | grep -v "no test files" | tail -12
[ $src -eq 0 ] || { echo "FAIL: suite fails with the patch"; clean; exit 1; }
cp "$demo" "$wt/$pkg/zz_seed_demo_test.go"
with=$( cd "$wt" && go test -vet=off -count=1 $extra -run "$rx" "./$pkg" 2>&1 ); wrc=$?
clean
cp "$demo" "$wt/$pkg/zz_seed_demo_test.go"
without=$( cd "$wt" && go test -vet=off -count=1 $extra -run "$rx" "./$pkg" 2>&1 ); worc=$?
clean
echo "demo with patch rc=$wrc; without rc=$worc"
if [ $wrc -ne 0 ] && [ $worc -eq 0 ]; then
  d=/verif/seeded/$id; mkdir -p $d
  cp "$patch" $d/patch.diff; cp "$demo" $d/demo_test.go
  echo "$with" | tail -25 > $d/demo_output_with_patch.txt
  echo "CONFIRMED $id"
else
  echo "NOT CONFIRMED"; echo "$with" | tail -15; echo "---"; echo "$without" | tail -15
  exit 1
fi
