#!/usr/bin/env python3
# make_meta.py <round-tag e.g. r4> : writes seeded/<id>/meta.json for the confirmed seeds of a
# round that have none yet, from notes.md, patch.diff and seeded/RESULTS.json (the sweep run
# BEFORE any rule was added for that round = detection at delivery).
import json,os,re,sys,glob
V='/verif'; tag=sys.argv[1]
res=json.load(open(os.environ.get('META_RESULTS',V+'/seeded/RESULTS.json')))
for d in sorted(glob.glob(V+'/seeded/*-%sm*'%tag)):
    seed=os.path.basename(d)
    if os.path.exists(d+'/meta.json') or not os.path.exists(d+'/demo_output_with_patch.txt'): continue
    prop=seed.split('-')[0]
    files=sorted(set(re.findall(r'^\+\+\+ b/(\S+)',open(d+'/patch.diff').read(),re.M)))
    notes=open(d+'/notes.md').read() if os.path.exists(d+'/notes.md') else ''
    m=re.search(r'(?is)(what is needed[^\n]*|needs? to manifest[^\n]*|to manifest[^\n]*)\n+(.*?)(\n#|\n\n\n|\Z)',notes)
    need=(m.group(2).strip().replace('\n',' ')[:600]) if m else ''
    r=res.get(seed,{})
    meta={"seed":seed,"property_broken":prop,
      "source":"independent sub-agent given only the property text, a scratch worktree and one-line descriptions of the earlier changes to avoid (round %s)"%tag[1:],
      "files_changed":files,"needs_to_manifest":need,
      "confirmed_by":"tools/confirm_seed.sh: patch applies to a clean worktree of /repo HEAD, go build ./... succeeds, the whole existing suite passes with the patch, demo_test.go fails with the patch and passes without it",
      "detected_when_delivered":bool(r) and 'error' not in r,"detected_by_checks":sorted(k for k in r if k!='error'),"reports":r,
      "detection":"detected" if r and 'error' not in r else "missed"}
    json.dump(meta,open(d+'/meta.json','w'),indent=1)
    print(seed,meta['detection'],meta['detected_by_checks'])
