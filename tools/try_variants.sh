#!/bin/bash
# Applies each behaviour-preserving variant under /verif/variants (optionally only
# those whose name starts with $1) to its own scratch worktree, checks that it
# builds (SUITE=1: and that the whole suite passes), and runs every check:
# any new violation is a false alarm of the machinery.  Runs ${JOBS:-6} at a time.
export GOFLAGS=-mod=mod GOPROXY=off GOSUMDB=off GOTOOLCHAIN=local GOWORK=off
/verif/build.sh || exit 2
# a private copy of the analyser: rebuilding /verif/bin/ugolint while this runs does not disturb it
export UGOLINT_BIN=$(mktemp /tmp/ugolint-var-XXXXXX); cp /verif/bin/ugolint $UGOLINT_BIN; chmod +x $UGOLINT_BIN; trap 'rm -f $UGOLINT_BIN' EXIT
props=$(python3 -c "import json;print(' '.join(c['property_id'] for c in json.load(open('/verif/MANIFEST.json'))['checks']))")
one() {
  v=$1; name=$(basename $v .diff); wt=/tmp/wt-var-$name; ev=/tmp/ev-var-$name
  git -C /repo worktree remove --force $wt 2>/dev/null; rm -rf $wt
  git -C /repo worktree add -q --detach $wt HEAD || { echo "$name: WORKTREE FAILED"; return; }
  if ! git -C $wt apply $v 2>/dev/null; then echo "$name: DOES NOT APPLY"; git -C /repo worktree remove --force $wt; return; fi
  if ! ( cd $wt && go build ./... ) >/dev/null 2>&1; then echo "$name: BUILD FAILS"; git -C /repo worktree remove --force $wt; return; fi
  if [ -n "$SUITE" ] && ! ( cd $wt && go test -vet=off -count=1 ./... ) >/dev/null 2>&1; then echo "$name: SUITE FAILS (not behaviour preserving?)"; git -C /repo worktree remove --force $wt; return; fi
  bad=""; msgs=""
  for p in $PROPS; do
    out=$(UGO_REPO=$wt UGOLINT_EVDIR=$ev $UGOLINT_BIN $p quick 2>&1); rc=$?
    if [ $rc -ne 0 ]; then bad="$bad $p"; msgs="$msgs$(echo "$out" | grep -E "\] (violation|undecided):" | cut -c1-300 | head -4)
"; fi
  done
  [ -n "$msgs" ] && printf "%s" "$msgs"
  echo "$name: ${bad:-silent}"
  git -C /repo worktree remove --force $wt; rm -rf $ev
}
export -f one; export PROPS="$props"
ls /verif/variants/${1:-v}*.diff | xargs -P ${JOBS:-6} -I{} bash -c 'one {}'
