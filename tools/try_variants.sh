#!/bin/bash
# Applies each behaviour-preserving variant under /verif/variants to a scratch
# worktree, checks that it builds and the suite passes, and runs every check:
# any new violation is a false alarm of the machinery.
wt=/tmp/wt-variants
git -C /repo worktree remove --force $wt 2>/dev/null
git -C /repo worktree add -q --detach $wt HEAD
export GOFLAGS=-mod=mod GOPROXY=off GOSUMDB=off GOTOOLCHAIN=local GOWORK=off
props=$(python3 -c "import json;print(' '.join(c['property_id'] for c in json.load(open('/verif/MANIFEST.json'))['checks']))")
for v in /verif/variants/${1:-v}*.diff; do
  git -C $wt checkout -q -- . ; git -C $wt clean -fdq
  git -C $wt apply $v || { echo "$(basename $v): DOES NOT APPLY"; continue; }
  ( cd $wt && go build ./... && go test -vet=off -count=1 ./... >/dev/null 2>&1 ) || { echo "$(basename $v): BUILD/SUITE FAILS (not behaviour preserving?)"; continue; }
  bad=""
  for p in $props; do
    out=$(UGO_REPO=$wt UGOLINT_EVDIR=/tmp/ev-variants /verif/bin/ugolint $p quick 2>&1); rc=$?
    if [ $rc -ne 0 ]; then bad="$bad $p"; echo "$out" | grep -E "\] (violation|undecided):" | cut -c1-240 | head -4; fi
  done
  echo "$(basename $v): ${bad:-silent}"
done
git -C /repo worktree remove --force $wt; rm -rf /tmp/ev-variants
