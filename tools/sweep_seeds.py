#!/usr/bin/env python3
# Runs every claimed check (quick) against every seeded change, each in its own
# scratch worktree of /repo (removed afterwards), and records which checks
# report a violation that the unchanged tree does not.
import json, os, subprocess, sys, tempfile, shutil, concurrent.futures as cf
V='/verif'
man=json.load(open(V+'/MANIFEST.json'))
props=[c['property_id'] for c in man['checks']]
only=sys.argv[1:]
seeds=sorted(d for d in os.listdir(V+'/seeded') if os.path.isfile(V+'/seeded/'+d+'/patch.diff'))
if only: seeds=[s for s in seeds if s in only or s.split('-')[0] in only]
env=dict(os.environ, GOFLAGS='-mod=mod', GOPROXY='off', GOSUMDB='off', GOTOOLCHAIN='local', GOWORK='off')
subprocess.run([V+'/build.sh'], check=True, env=env)
# a private copy of the analyser: rebuilding /verif/bin/ugolint while the sweep runs does not disturb it
# SWEEP_BIN: another analyser build (e.g. the one committed when a round of seeds was delivered); SWEEP_OUT: where to write the results
BIN=tempfile.mktemp(prefix='ugolint-sweep-'); shutil.copy2(os.environ.get('SWEEP_BIN',V+'/bin/ugolint'),BIN)
import atexit; atexit.register(lambda: os.path.exists(BIN) and os.remove(BIN))
def run_seed(seed):
    wt=tempfile.mkdtemp(prefix='wt-sweep-')
    os.rmdir(wt)
    subprocess.run(['git','-C','/repo','worktree','add','-q','--detach',wt,os.environ.get('SWEEP_REPO_REV','HEAD')],check=True)
    res={}
    try:
        r=subprocess.run(['git','-C',wt,'apply',V+'/seeded/'+seed+'/patch.diff'],capture_output=True,text=True)
        if r.returncode!=0:
            return seed,{'error':'patch does not apply: '+r.stderr[:200]}
        ev=tempfile.mkdtemp(prefix='ev-')
        for p in props:
            e=dict(env, UGO_REPO=wt, UGOLINT_EVDIR=ev)
            r=subprocess.run([BIN,p,'quick'],capture_output=True,text=True,env=e)
            lines=[l for l in r.stdout.splitlines() if ': violation:' in l or ': undecided:' in l]
            if r.returncode!=0:
                res[p]=[l[:300] for l in lines][:6] or ['exit %d'%r.returncode]
        shutil.rmtree(ev,ignore_errors=True)
    finally:
        subprocess.run(['git','-C','/repo','worktree','remove','--force',wt])
    return seed,res
out={}
with cf.ThreadPoolExecutor(max_workers=8) as ex:
    for seed,res in ex.map(run_seed,seeds):
        out[seed]=res
        own=seed.split('-')[0]
        print(seed, 'DETECTED by '+','.join(sorted(res)) if res else 'missed', '(own property: %s)'%('yes' if own in res else 'no'))
RES=os.environ.get('SWEEP_OUT',V+'/seeded/RESULTS.json')
prev={}
if os.path.exists(RES) and only:
    prev=json.load(open(RES))
prev.update(out)
json.dump(prev,open(RES,'w'),indent=1,sort_keys=True)
