#!/bin/sh
# tools/trymut.sh <worktree> <patch.diff> <prop> [<prop>...]
# Applies a seeded patch in a scratch worktree, runs the given checks against
# that tree (evidence redirected to a temp dir), and reverts the worktree.
wt=$1; patch=$2; shift 2
git -C "$wt" checkout -q -- . && git -C "$wt" clean -fdq
git -C "$wt" apply "$patch" || { echo "patch does not apply"; exit 3; }
tmp=$(mktemp -d)
for p in "$@"; do
  out=$(UGO_REPO="$wt" UGOLINT_EVDIR="$tmp" /verif/check "$p" quick 2>&1)
  rc=$?
  echo "== $p rc=$rc"
  echo "$out" | grep -v "^KNOWN-FINDING\|^VIOLATION\|^note:" | cut -c1-400 | head -20
done
rm -rf "$tmp"
git -C "$wt" checkout -q -- . && git -C "$wt" clean -fdq
