#!/bin/bash
# Confirms every seeded change delivered by the sub-agents under /tmp/wt-<id>-out.
for id in C01 C02 C04 C05 C06 C07 C08 C09 C10 C11 C12 C13 C14 C15 C16 C17 C18 C19 C20; do
 for m in m1 m2; do
  f=/tmp/wt-$id-out/${m}_demo_test.go; [ -f $f ] || continue
  [ -d /verif/seeded/$id-$m ] && [ -f /verif/seeded/$id-$m/demo_output_with_patch.txt ] && { echo "$id-$m already confirmed"; continue; }
  pkgname=$(grep -m1 "^package" $f | awk '{print $2}')
  case $pkgname in
   ugo_test|ugo) dir=. ;;
   encoder_test|encoder) dir=encoder ;;
   json_test|json) dir=stdlib/json ;;
   importers_test|importers) dir=importers ;;
   *) dir=. ;;
  esac
  rx=$(grep -o "^func Test[A-Za-z0-9_]*" $f | sed 's/func //' | tr '\n' '|' | sed 's/|$//')
  extra=""
  [ "$id-$m" = "C08-m1" ] && extra="-race"
  out=$(/verif/tools/confirm_seed.sh $id-$m $id /tmp/wt-$id /tmp/wt-$id-out/$m.diff $f $dir "^($rx)\$" $extra 2>&1 | tail -2 | tr '\n' ' ')
  echo "$id-$m dir=$dir: $out"
 done
done
