package main

import (
	"fmt"
	"go/ast"
	"go/constant"
	"go/token"
	"go/types"
	"sort"
	"strings"

	"golang.org/x/tools/go/ssa"
)

func init() {
	props["C05"] = propC05
}

func optimizerFuncs(c *Ctx) []*ssa.Function {
	var out []*ssa.Function
	for _, f := range c.L.RepoFuncs(func(pp string) bool { return pp == modPath }) {
		g := f
		for g.Parent() != nil {
			g = g.Parent()
		}
		if r := g.Signature.Recv(); r != nil && (isNamed(r.Type(), modPath, "SimpleOptimizer") || isNamed(r.Type(), modPath, "optimizerEval")) {
			out = append(out, f)
		}
	}
	return out
}

// recoverBarrier describes a function with a deferred closure that calls
// recover() and swallows values of the listed types (re-panicking others).
type recoverBarrier struct {
	fn       *ssa.Function
	swallows []types.Type // empty = swallows everything
	all      bool
}

func findRecoverBarriers(l *Loaded) map[*ssa.Function]*recoverBarrier {
	out := map[*ssa.Function]*recoverBarrier{}
	for _, fn := range l.RepoFuncs(nil) {
		eachInstr(fn, func(ins ssa.Instruction) {
			d, ok := ins.(*ssa.Defer)
			if !ok {
				return
			}
			var clo *ssa.Function
			switch v := d.Call.Value.(type) {
			case *ssa.MakeClosure:
				clo, _ = v.Fn.(*ssa.Function)
			case *ssa.Function:
				clo = v
			}
			if clo == nil {
				return
			}
			rb := &recoverBarrier{fn: fn}
			has := false
			repanics := false
			eachInstr(clo, func(ci ssa.Instruction) {
				switch x := ci.(type) {
				case *ssa.Call:
					if b, ok := x.Call.Value.(*ssa.Builtin); ok && b.Name() == "recover" {
						has = true
						if x.Referrers() != nil {
							for _, r := range *x.Referrers() {
								if ta, ok := r.(*ssa.TypeAssert); ok {
									rb.swallows = append(rb.swallows, ta.AssertedType)
								}
							}
						}
					}
				case *ssa.Panic:
					repanics = true
				}
			})
			if has {
				rb.all = !repanics
				out[fn] = rb
			}
		})
	}
	return out
}

func propC05(c *Ctx) {
	l := c.L
	// ---- fold-guard ---------------------------------------------------------------
	rf := c.Rule("fold-guard", "every integer / % and signed shift in the optimizer's constant-folding code is dominated by a zero / sign test of the divisor / count (otherwise Compile panics on a constant expression such as 1 % 0)", 2)
	ruleArithGuard(c, rf, optimizerFuncs(c))

	rrb := c.Rule("rollback-boundary", "rolling the module store back to a count removes exactly the entries whose index is >= that count", 1)
	ruleRollbackBoundary(c, rrb)
	rls := c.Rule("loop-stutter", "no loop of the scanner, parser, optimizer or compiler has an effect-free cycle on which every loop variable keeps its value (Compile terminates: a necessary condition only)", 1)
	ruleLoopStutter(c, rls, l.RepoFuncs(func(p string) bool { return p == modPath || p == modPath+"/parser" || p == modPath+"/token" }), 60)
	rgo := c.Rule("global-operand-interned", "every emitted OpGetGlobal / OpSetGlobal takes its operand from interning the global's name in the constants of the current compilation: Bytecode from a re-used symbol table (an Eval session after a fragment that failed to compile) stays well formed", 1)
	ruleGlobalOperandInterned(c, rgo)
	rse := c.Rule("scan-loop-eof", "every character-reading loop of the scanner has an exit that stays open when every read of the current character yields the end-of-input sentinel (an unterminated construct at the end of the input does not spin)", 8)
	ruleScanLoopEOF(c, rse)
	rtw := c.Rule("trace-writer-guard", "every write to a trace writer field of the compiler / optimizer lies behind a test that the field is not nil (the Trace* flags are independent of the writer)", 6)
	ruleTraceWriterGuard(c, rtw)
	rfx := c.Rule("fixpoint-reset", "the optimizer's pass loop resets, inside the loop, the change counter whose being zero ends it: the number of passes does not grow with the budget (Compile terminates whatever OptimizerLimit is)", 1)
	ruleFixpointReset(c, rfx)

	// ---- cap-check ----------------------------------------------------------------
	rc := c.Rule("cap-check", "wherever compiled Bytecode leaves the compiler with a nil error (script, imported module, function literal), every such return is dominated by the NumLocals limit comparison made on that very Bytecode's Main function, on the not-exceeding side", 3)
	bcFn := l.Method(modPath, "Compiler", "Bytecode")
	_, fMain := l.structField(modPath, "Bytecode", "Main")
	_, fNumLocals := l.structField(modPath, "CompiledFunction", "NumLocals")
	if c.Anchor(rc, "Compiler.Bytecode / Bytecode.Main / CompiledFunction.NumLocals", bcFn != nil && fMain >= 0 && fNumLocals >= 0) {
		for _, ci := range l.StaticCallers(bcFn) {
			fn := ci.Parent()
			call, ok := ci.(*ssa.Call)
			if !ok {
				continue
			}
			// only functions that report errors hand the bytecode on
			res := fn.Signature.Results()
			if res.Len() == 0 || !isErrorType(res.At(res.Len()-1).Type()) {
				continue
			}
			key := fmt.Sprintf("%s | Bytecode()", fnName(fn))
			isLimitOf := func(v ssa.Value) bool {
				// load(&(load(&bc.Main)).NumLocals) with bc the call result
				u, ok := v.(*ssa.UnOp)
				if !ok {
					return false
				}
				fa, ok := isFieldAddrOf(u.X, modPath, "CompiledFunction", fNumLocals)
				if !ok {
					return false
				}
				u2, ok := fa.X.(*ssa.UnOp)
				if !ok {
					return false
				}
				fa2, ok := isFieldAddrOf(u2.X, modPath, "Bytecode", fMain)
				return ok && fa2.X == ssa.Value(call)
			}
			var bad []string
			nret := 0
			for _, b := range fn.Blocks {
				ret, ok := b.Instrs[len(b.Instrs)-1].(*ssa.Return)
				if !ok || !call.Block().Dominates(b) {
					continue
				}
				ev := ret.Results[len(ret.Results)-1]
				if cst, ok := ev.(*ssa.Const); !ok || !cst.IsNil() {
					continue
				}
				nret++
				guarded := false
				for _, g := range guardEdges(b) {
					bo, ok := g.If.Cond.(*ssa.BinOp)
					if !ok {
						continue
					}
					op := bo.Op
					var k ssa.Value
					if isLimitOf(bo.X) {
						k = bo.Y
					} else if isLimitOf(bo.Y) {
						k = bo.X
						op = flipOp(op)
					} else {
						continue
					}
					if _, isC := k.(*ssa.Const); !isC {
						continue
					}
					if !g.Truth {
						op = negOp(op)
					}
					if op == token.LEQ || op == token.LSS {
						guarded = true
					}
				}
				if !guarded {
					bad = append(bad, l.Pos(ret.Pos()))
				}
			}
			if nret == 0 {
				c.Und(rc, key, l.Pos(ci.Pos()), "no success return found after the Bytecode() call: shape not modelled")
				continue
			}
			c.Check(rc, key, l.Pos(ci.Pos()), len(bad) == 0, fmt.Sprintf("%d success returns, all behind the NumLocals limit test of this bytecode", nret),
				"success return(s) at "+strings.Join(bad, ", ")+" not dominated by a limit test of bc.Main.NumLocals of the bytecode just built: a function with too many locals is accepted (and the emitter then panics or the VM indexes past its frame)")
		}
	}

	// ---- panic-reach ------------------------------------------------------------------
	rp := c.Rule("panic-reach", "every explicit panic reachable in the call graph from the compile entry points is recovered on every call path by a deferred recover that swallows its value type, or is an audited unreachable-by-construction site", 5)
	var roots []*ssa.Function
	for _, n := range []string{"Compile", "compileScript"} {
		f := l.Func(modPath, n)
		if c.Anchor(rp, "function "+n, f != nil) {
			roots = append(roots, f)
		}
	}
	if f := l.Method(modPath, "Compiler", "Compile"); c.Anchor(rp, "Compiler.Compile", f != nil) {
		roots = append(roots, f)
	}
	if f := l.Method(modPath, "Eval", "Run"); c.Anchor(rp, "Eval.Run", f != nil) {
		roots = append(roots, f)
	}
	if len(roots) >= 3 {
		barriers := findRecoverBarriers(l)
		g := l.VTA()
		inRepo := func(f *ssa.Function) bool { return strings.HasPrefix(funcPkgPath(f), modPath) }
		// the compile path never enters the VM except through the optimizer's
		// private evaluator, which runs under recover; the VM's own panics are C06's subject
		vmRun := l.Method(modPath, "VM", "Run")
		full := Reach(g, func(f *ssa.Function) bool { return !inRepo(f) || f == vmRun }, roots...)
		type site struct {
			fn *ssa.Function
			p  *ssa.Panic
		}
		var sites []site
		for f := range full {
			if !inRepo(f) || f == vmRun {
				continue
			}
			eachInstr(f, func(ins ssa.Instruction) {
				if p, ok := ins.(*ssa.Panic); ok && p.Pos().IsValid() {
					sites = append(sites, site{f, p})
				}
			})
		}
		sort.Slice(sites, func(i, j int) bool {
			if fnName(sites[i].fn) != fnName(sites[j].fn) {
				return fnName(sites[i].fn) < fnName(sites[j].fn)
			}
			return sites[i].p.Pos() < sites[j].p.Pos()
		})
		c.extra["functions_reachable_from_compile_entries"] = len(full)
		{
			// ---- const-slice-bound: the trace helpers cut an indentation prefix out of a
			// constant string; the cut never exceeds the constant's length whatever the
			// nesting depth of the script (deeply nested valid scripts must compile with
			// tracing on as they do with tracing off)
			rcs := c.Rule("const-slice-bound", "a constant string sliced by a computed length on the compile path (the indentation of the compiler, optimizer and parser traces) is sliced inside its length on every path: the upper bound is established by the loop or comparison that precedes the slice, for every nesting depth", 3)
			pb := ptrBitsOf(l)
			nn := 0
			var fl []*ssa.Function
			for f := range full {
				if inRepo(f) && f != vmRun && len(f.Blocks) > 0 {
					fl = append(fl, f)
				}
			}
			for _, f := range sortedFuncs(funcSet(fl)) {
				eachInstr(f, func(ins ssa.Instruction) {
					sl, ok := ins.(*ssa.Slice)
					if !ok || sl.High == nil {
						return
					}
					k, ok := sl.X.(*ssa.Const)
					if !ok || k.Value == nil || k.Value.Kind() != constant.String {
						return
					}
					if _, isConst := sl.High.(*ssa.Const); isConst {
						return
					}
					nn++
					n := int64(len(constant.StringVal(k.Value)))
					r := rangeAt(sl.High, sl.Block(), pb)
					okb := r.hi <= n || linLEConst(sl.High, n, sl.Block(), pb)
					c.Check(rcs, fnName(f)+" | constant string sliced to a computed length", l.Pos(sl.Pos()), okb, fmt.Sprintf("upper bound proven <= %d", n),
						fmt.Sprintf("the slice's upper bound %s is not proven <= %d, the length of the constant string: with tracing on, a valid script nested deeper than the constant allows makes Compile panic with 'slice bounds out of range' (tracing off compiles it)", describe(sl.High), n))
				})
			}
			if nn == 0 {
				c.Und(rcs, "trace indentation helpers", "-", "no constant string is sliced by a computed length on the compile path")
			}
		}
		for _, s := range sites {
			vt := s.p.X.Type()
			if mi, ok := s.p.X.(*ssa.MakeInterface); ok {
				vt = mi.X.Type()
			}
			// a panic that sits in a small unexported helper shared by one or two functions
			// is reported under those functions (the obligation, and a known finding on it,
			// survives the extraction of `mustX` helpers)
			owners := []*ssa.Function{s.fn}
			// (only for the `if err != nil { panic(err) }` shape: the helper forwards the
			// error of a call as a panic; a helper's own "cannot happen" panic stays its own)
			forwardsErr := false
			{
				v := s.p.X
				for i := 0; i < 3; i++ {
					switch x := v.(type) {
					case *ssa.ChangeInterface:
						v = x.X
					case *ssa.MakeInterface:
						v = x.X
					}
				}
				if ex, ok := v.(*ssa.Extract); ok {
					if _, isCall := ex.Tuple.(*ssa.Call); isCall && isErrorType(ex.Type()) {
						forwardsErr = true
					}
				}
			}
			if forwardsErr && s.fn.Parent() == nil && s.fn.Object() != nil && !s.fn.Object().Exported() && s.fn.Signature.Recv() == nil && !l.AddressTaken(s.fn) {
				seenO := map[*ssa.Function]bool{}
				var os []*ssa.Function
				for _, ci := range l.RealCallers(s.fn) {
					if p := ci.Parent(); p != nil && !seenO[p] {
						seenO[p] = true
						os = append(os, p)
					}
				}
				if len(os) >= 1 && len(os) <= 2 {
					owners = sortedFuncs(funcSet(os))
				}
			}
			key := fmt.Sprintf("%s | panic(%s)", fnName(owners[0]), tstr(vt))
			// a panic inside a deferred recover closure that re-raises is the barrier's own re-panic
			if par := s.fn.Parent(); par != nil && barriers[par] != nil {
				c.Ok(rp, key, l.Pos(s.p.Pos()), "re-panic inside the recovering closure: forwards values the barrier does not own")
				continue
			}
			// reachable without crossing a barrier that swallows this type?
			swallowing := func(f *ssa.Function) bool {
				rb := barriers[f]
				if rb == nil || f == s.fn {
					return false
				}
				if rb.all {
					return true
				}
				for _, t := range rb.swallows {
					if types.Identical(t, vt) {
						return true
					}
				}
				return false
			}
			pruned := Reach(g, func(f *ssa.Function) bool { return !inRepo(f) || f == vmRun || swallowing(f) }, roots...)
			if !pruned[s.fn] {
				c.Ok(rp, key, l.Pos(s.p.Pos()), "every call path from the compile entries passes a deferred recover that swallows "+tstr(vt))
				continue
			}
			for _, o := range owners {
				if len(owners) > 1 && !pruned[o] {
					continue
				}
				c.Bad(rp, fmt.Sprintf("%s | panic(%s)", fnName(o), tstr(vt)), l.Pos(s.p.Pos()), "explicit panic reachable from Compile without a recover that swallows its value: Compile panics instead of returning an error if this statement executes")
			}
		}
	}

	rer := c.Rule("eval-recover", "the optimizer's private VM, which runs candidate expressions during Compile, is created with recovery enabled (the panic-reach rule excludes the VM on that ground)", 1)
	ruleEvalRecover(c, rer)

	if vf := getVMFacts(c, rer); vf != nil {
		rod := c.Rule("operand-decode", "every multi-byte operand the VM reads from the instruction stream is assembled big-endian from adjacent bytes, matching MakeInstruction (well-formed bytecode is read back as it was written)", 3)
		ruleOperandDecode(c, rod, vf, "")
	}

	// ---- op-table ---------------------------------------------------------------------
	propOpTable(c)
	rpp := c.Rule("parser-progress", "every token-driven loop of the parser consumes at least one token per iteration on every path (Compile always terminates)", 10)
	ruleParserProgress(c, rpp)
	rnn := c.Rule("node-nonnil", "every pointer-typed AST field that the compiler or optimizer dereferences without a nil test is stored by the parser with a value that is non-nil on every path", 3)
	ruleNodeNonNil(c, rnn)
	rdk := c.Rule("defined-symbol-kind", "an instruction is emitted with the index of a symbol obtained from DefineLocal only where the symbol is fresh or its Constant / Scope field has been tested (a literal constant has index -1)", 4)
	ruleDefinedSymbolKind(c, rdk)
	rcs := c.Rule("constlit-source", "every value stored into Symbol.constLit is a literal of a kind the emitter handles (result of constLitFromExpr, an in-place literal of such a kind, or the literal of a symbol known to be of scope ScopeConstLit): this is what makes the default-arm panics of constLiteral.emit / toExpr unreachable", 3)
	ruleConstLitSource(c, rcs)
	rcr := c.Rule("compile-rollback", "compiling an Eval fragment after an earlier fragment failed to compile never indexes a constant that was not stored: the session's module store is rolled back on the compile-error path", 1)
	ruleCompileRollbackAuto(c, rcr)
}

func isErrorType(t types.Type) bool {
	n, ok := t.(*types.Named)
	return ok && n.Obj().Pkg() == nil && n.Obj().Name() == "error"
}

// opcodeWidths reads the OpcodeOperands composite literal of package pkgPath:
// opcode constant value -> operand widths.
func opcodeWidths(l *Loaded, pkgPath string) (map[int64][]int64, map[int64]string) {
	p := l.ByPath[pkgPath]
	widths := map[int64][]int64{}
	names := map[int64]string{}
	if p == nil {
		return widths, names
	}
	for _, f := range p.Syntax {
		for _, d := range f.Decls {
			gd, ok := d.(*ast.GenDecl)
			if !ok || gd.Tok != token.VAR {
				continue
			}
			for _, sp := range gd.Specs {
				vs := sp.(*ast.ValueSpec)
				for i, n := range vs.Names {
					if n.Name != "OpcodeOperands" || i >= len(vs.Values) {
						continue
					}
					cl, ok := vs.Values[i].(*ast.CompositeLit)
					if !ok {
						continue
					}
					for _, el := range cl.Elts {
						kv, ok := el.(*ast.KeyValueExpr)
						if !ok {
							continue
						}
						tv, ok := p.TypesInfo.Types[kv.Key]
						if !ok || tv.Value == nil {
							continue
						}
						k, _ := constant.Int64Val(tv.Value)
						var ws []int64
						if vcl, ok := kv.Value.(*ast.CompositeLit); ok {
							for _, w := range vcl.Elts {
								if wtv, ok := p.TypesInfo.Types[w]; ok && wtv.Value != nil {
									wv, _ := constant.Int64Val(wtv.Value)
									ws = append(ws, wv)
								}
							}
						}
						widths[k] = ws
						if id, ok := kv.Key.(*ast.Ident); ok {
							names[k] = id.Name
						}
					}
				}
			}
		}
	}
	return widths, names
}

func caseConsts(info *types.Info, cl *ast.CaseClause) []int64 {
	var out []int64
	for _, x := range cl.List {
		if tv, ok := info.Types[x]; ok && tv.Value != nil {
			if v, ok := constant.Int64Val(tv.Value); ok {
				out = append(out, v)
			}
		}
	}
	return out
}

func propOpTable(c *Ctx) {
	l := c.L
	r := c.Rule("op-table", "the opcode tables agree for every opcode: OpcodeOperands and OpcodeNames have an entry, the encoder arm of MakeInstruction appends exactly the sum of the operand widths (or the opcode takes the default no-operand path), the VM dispatch loop has an arm, and every operand width used in the table is handled by MakeInstruction's range check and by ReadOperands", 40)
	p := l.ByPath[modPath]
	widths, names := opcodeWidths(l, modPath)
	if !c.Anchor(r, "OpcodeOperands literal with at least 40 keyed entries", len(widths) >= 40) {
		return
	}
	info := p.TypesInfo
	// OpcodeNames keys
	nameKeys := map[int64]bool{}
	for _, f := range p.Syntax {
		for _, d := range f.Decls {
			gd, ok := d.(*ast.GenDecl)
			if !ok || gd.Tok != token.VAR {
				continue
			}
			for _, sp := range gd.Specs {
				vs := sp.(*ast.ValueSpec)
				for i, n := range vs.Names {
					if n.Name == "OpcodeNames" && i < len(vs.Values) {
						if cl, ok := vs.Values[i].(*ast.CompositeLit); ok {
							for _, el := range cl.Elts {
								if kv, ok := el.(*ast.KeyValueExpr); ok {
									if tv, ok := info.Types[kv.Key]; ok && tv.Value != nil {
										k, _ := constant.Int64Val(tv.Value)
										nameKeys[k] = true
									}
								}
							}
						}
					}
				}
			}
		}
	}
	// MakeInstruction: switch over opcodes, bytes appended per arm; width switch
	mkObj, _ := p.Types.Scope().Lookup("MakeInstruction").(*types.Func)
	rdObj, _ := p.Types.Scope().Lookup("ReadOperands").(*types.Func)
	mk, rd := l.Decl(mkObj), l.Decl(rdObj)
	if !c.Anchor(r, "MakeInstruction / ReadOperands declarations", mk != nil && rd != nil) {
		return
	}
	opConsts := opcodeConsts(l)
	isOpConst := func(x ast.Expr) bool {
		id, ok := ast.Unparen(x).(*ast.Ident)
		if !ok {
			return false
		}
		_, is := opConsts[info.Uses[id]]
		return is
	}
	appended := map[int64]int{} // opcode -> bytes appended after the opcode byte
	hasDefault := false
	var widthCasesD func(fd *ast.FuncDecl, depth int) map[int64]bool
	widthCases := func(fd *ast.FuncDecl) map[int64]bool { return widthCasesD(fd, 0) }
	widthCasesD = func(fd *ast.FuncDecl, depth int) map[int64]bool {
		out := map[int64]bool{}
		ast.Inspect(fd.Body, func(n ast.Node) bool {
			// the width switch may live in a helper called from here
			if call, ok := n.(*ast.CallExpr); ok && depth < 2 {
				var id *ast.Ident
				switch f := ast.Unparen(call.Fun).(type) {
				case *ast.Ident:
					id = f
				case *ast.SelectorExpr:
					id = f.Sel
				}
				if id != nil {
					if fo, ok := info.Uses[id].(*types.Func); ok && fo.Pkg() == p.Types {
						if hd := l.Decl(fo); hd != nil && hd != fd && hd.Body != nil {
							for k := range widthCasesD(hd, depth+1) {
								out[k] = true
							}
						}
					}
				}
				return true
			}
			sw, ok := n.(*ast.SwitchStmt)
			if !ok || sw.Tag == nil {
				return true
			}
			// a switch whose cases are plain integer literals 1,2,4...
			allLit := true
			var ks []int64
			for _, cc := range sw.Body.List {
				cl := cc.(*ast.CaseClause)
				for _, x := range cl.List {
					if _, isLit := ast.Unparen(x).(*ast.BasicLit); !isLit {
						allLit = false
					}
				}
				ks = append(ks, caseConsts(info, cl)...)
			}
			if allLit && len(ks) > 0 {
				for _, k := range ks {
					out[k] = true
				}
			}
			return true
		})
		return out
	}
	ast.Inspect(mk.Body, func(n ast.Node) bool {
		sw, ok := n.(*ast.SwitchStmt)
		if !ok || sw.Tag == nil {
			return true
		}
		nOps := 0
		for _, cc := range sw.Body.List {
			for _, x := range cc.(*ast.CaseClause).List {
				if isOpConst(x) {
					nOps++
				}
			}
		}
		if nOps < 10 {
			return true
		}
		for _, cc := range sw.Body.List {
			cl := cc.(*ast.CaseClause)
			if cl.List == nil {
				hasDefault = true
				continue
			}
			nb := -1
			ast.Inspect(cl, func(m ast.Node) bool {
				call, ok := m.(*ast.CallExpr)
				if !ok {
					return true
				}
				if id, ok := call.Fun.(*ast.Ident); ok && id.Name == "append" && info.Uses[id] == types.Universe.Lookup("append") && !call.Ellipsis.IsValid() {
					if nb < 0 {
						nb = 0
					}
					nb += len(call.Args) - 1
				}
				return true
			})
			for _, k := range caseConsts(info, cl) {
				appended[k] = nb
			}
		}
		return false
	})
	mkWidths, rdWidths := widthCases(mk), widthCases(rd)
	_, vmsw := vmLoopSwitch(l)
	vmArms := map[int64]bool{}
	if c.Anchor(r, "VM dispatch switch", vmsw != nil) {
		for _, cc := range vmsw.Body.List {
			for _, k := range caseConsts(info, cc.(*ast.CaseClause)) {
				vmArms[k] = true
			}
		}
	}
	var keys []int64
	for k := range widths {
		keys = append(keys, k)
	}
	sort.Slice(keys, func(i, j int) bool { return keys[i] < keys[j] })
	pos := l.Pos(mk.Pos())
	for _, k := range keys {
		var sum int64
		var probs []string
		for _, w := range widths[k] {
			sum += w
			if !mkWidths[w] {
				probs = append(probs, fmt.Sprintf("operand width %d has no range check in MakeInstruction", w))
			}
			if !rdWidths[w] {
				probs = append(probs, fmt.Sprintf("operand width %d is not handled by ReadOperands", w))
			}
		}
		if !nameKeys[k] {
			probs = append(probs, "no OpcodeNames entry")
		}
		if nb, ok := appended[k]; ok {
			if nb < 0 {
				nb = 0 // arm returns the buffer as is
			}
			if int64(nb) != sum {
				probs = append(probs, fmt.Sprintf("MakeInstruction appends %d operand bytes, table says %d", nb, sum))
			}
		} else {
			probs = append(probs, fmt.Sprintf("no MakeInstruction arm (the default arm reports an unknown opcode, which the emitter turns into a panic); table says %d operand bytes", sum))
		}
		_ = hasDefault
		if vmsw != nil && !vmArms[k] {
			probs = append(probs, "no arm in the VM dispatch loop")
		}
		c.Check(r, fmt.Sprintf("opcode %s", names[k]), pos, len(probs) == 0, fmt.Sprintf("widths %v", widths[k]), strings.Join(probs, "; "))
	}
}
