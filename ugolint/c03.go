package main

import (
	"fmt"
	"go/token"
	"go/types"
	"strings"

	"golang.org/x/tools/go/ssa"
)

// C03 - finally runs exactly once on every exit path and the pending outcome
// survives it.  The behaviour quantifies over nestings x exits x histories and
// is not decided.  What is decided are structural necessary conditions of the
// mechanism the compiler and the VM implement it with; each of them was found
// violated on the pinned tree (or by a seeded change) with a failing program.

func init() {
	props["C03"] = propC03
	metas["C03"] = propMeta{
		Text:      "Decides structural necessary conditions of the try/catch/finally mechanism, each of which was found violated with a failing program: (finalizer-before-return) the return statement's compiler emits OpFinalizer before OpReturn on every path on which the try depth is not -1; (finalizer-before-jump) break / continue emit OpFinalizer with the loop's try depth + 1 before the jump whenever the loop's try depth differs from the current one; (counter-balance) the compile-time try depth is decremented on every successful path after it was incremented; (try-end-pop) the instruction that ends a try statement pops the consumed handler when nothing is pending; (pending-err-per-handler) the error parked while a finally / catch block runs lives in a per-handler slot, so a try statement nested in that block cannot lose it; (handler-active) a frame is handed to the handler switch only after hasActiveHandler succeeded for that frame; (throw-reentry) the unwinding routine is not re-entered from its own callees. Does NOT decide that finally runs exactly once for every nesting, exit kind and activation history, nor which outcome wins - that needs an exploration of the handler protocol against an independent semantics (a different technique family; see DESIGN.md section 4). 'other'.",
		Note:      trustedNote,
		Technique: "static analysis: must-pass-through and guard rules over the compiler's emitters of OpFinalizer / OpReturn / OpJump, dominance and value-flow rules over the VM's handler list",
		DesignRef: "DESIGN.md sections 3 and 4, C03",
	}
}

func propC03(c *Ctx) {
	rfr := c.Rule("finalizer-before-return", "the compiler of the return statement emits OpFinalizer before OpReturn on every path on which the compile-time try depth is not -1: a return inside try / catch runs the pending finally blocks first", 1)
	ruleFinalizerBeforeReturn(c, rfr)
	rfj := c.Rule("finalizer-before-jump", "break and continue emit OpFinalizer (operand: the loop's try depth + 1) before their jump whenever the loop was entered at another try depth than the current one: leaving a try statement through a loop jump runs its finally block, and only the finally blocks of the try statements really left", 2)
	ruleFinalizerBeforeJump(c, rfj)
	rcb := c.Rule("counter-balance", "the compile-time try depth (and every other nesting counter) is decremented on every successful path after it was incremented: later statements of the same compilation see the true depth", 2)
	ruleCounterBalance(c, rcb)
	rtp := c.Rule("try-end-pop", "the instruction that ends a try statement pops the statement's consumed handler when neither an error nor a return is pending: try statements that already completed have no influence on later ones", 1)
	ruleTryEndPop(c, rtp)
	rpe := c.Rule("pending-err-per-handler", "the error parked while a finally or catch block runs is kept per handler: a try statement nested in that block cannot clear it", 1)
	rulePendingErrPerHandler(c, rpe)
	rha := c.Rule("handler-active", "an error is delivered to a frame only if hasActiveHandler succeeded for that frame: a try statement whose finally block is running does not take the error again", 2)
	ruleHandlerActive(c, rha)
	rtr := c.Rule("throw-reentry", "the unwinding routine is not re-entered from the functions it calls while the VM's frame state is only partly switched", 1)
	ruleThrowReentry(c, rtr)
}

// emitsOp: ins is a call of Compiler.emit with the given opcode constant.
func emitsOp(l *Loaded, ins ssa.Instruction, emit *ssa.Function, op int64) (*ssa.Call, bool) {
	cl, ok := ins.(*ssa.Call)
	if !ok || cl.Call.StaticCallee() != emit || len(cl.Call.Args) < 3 {
		return nil, false
	}
	k, ok := constInt64(cl.Call.Args[2])
	return cl, ok && k == op
}

// funcsWithParam: Compiler methods (and their closures) with a parameter of
// type *parser.<name>.
func funcsWithParam(l *Loaded, name string) []*ssa.Function {
	t := l.NamedType(parserPath, name)
	if t == nil {
		return nil
	}
	var out []*ssa.Function
	for _, fn := range l.RepoFuncs(func(pp string) bool { return pp == modPath }) {
		for _, p := range fn.Params {
			if pt, ok := p.Type().(*types.Pointer); ok && types.Identical(pt.Elem(), t) {
				out = append(out, fn)
				break
			}
		}
	}
	return out
}

func ruleFinalizerBeforeReturn(c *Ctx, rule string) {
	l := c.L
	emit := l.Method(modPath, "Compiler", "emit")
	opRet, ok1 := constOf(l, modPath, "OpReturn")
	opFin, ok2 := constOf(l, modPath, "OpFinalizer")
	_, fTCI := l.structField(modPath, "Compiler", "tryCatchIndex")
	fns := funcsWithParam(l, "ReturnStmt")
	if !c.Anchor(rule, "Compiler.emit / OpReturn / OpFinalizer / Compiler.tryCatchIndex / a compiler of *parser.ReturnStmt", emit != nil && ok1 && ok2 && fTCI >= 0 && len(fns) > 0) {
		return
	}
	isFin := func(ins ssa.Instruction) bool { _, ok := emitsOp(l, ins, emit, opFin); return ok }
	n := 0
	for _, fn := range fns {
		// the tests of the try depth: If on a comparison of load(c.tryCatchIndex) with a constant
		type test struct {
			iff    *ssa.If
			inTry  int // successor index taken when the depth is not -1
			others int
		}
		var tests []test
		for _, b := range fn.Blocks {
			iff, ok := b.Instrs[len(b.Instrs)-1].(*ssa.If)
			if !ok {
				continue
			}
			bo, ok := iff.Cond.(*ssa.BinOp)
			if !ok {
				continue
			}
			ld, ok := bo.X.(*ssa.UnOp)
			if !ok {
				continue
			}
			if _, ok := isFieldAddrOf(ld.X, modPath, "Compiler", fTCI); !ok {
				continue
			}
			k, ok := constInt64(bo.Y)
			if !ok {
				continue
			}
			// which outcome means "inside a try statement" (depth >= 0)
			in := -1
			switch {
			case bo.Op == token.GTR && k == -1, bo.Op == token.GEQ && k == 0, bo.Op == token.NEQ && k == -1:
				in = 0
			case bo.Op == token.LEQ && k == -1, bo.Op == token.LSS && k == 0, bo.Op == token.EQL && k == -1:
				in = 1
			}
			if in >= 0 {
				tests = append(tests, test{iff, in, 1 - in})
			}
		}
		eachInstr(fn, func(ins ssa.Instruction) {
			ret, ok := emitsOp(l, ins, emit, opRet)
			if !ok {
				return
			}
			n++
			key := fnName(fn) + " | OpReturn emitted"
			if k := countKey(key); k > 1 {
				key += fmt.Sprintf(" #%d", k)
			}
			// some test of the try depth must reach this emission, and from its
			// in-try outcome every path to the emission passes an OpFinalizer emission
			reached, good := false, true
			for _, t := range tests {
				succ := t.iff.Block().Succs[t.inTry]
				if !(succ == ret.Block() || blockReaches(succ, ret.Block())) {
					continue
				}
				reached = true
				first := succ.Instrs[0]
				if isFin(first) {
					continue
				}
				if _, ok := mustPassBefore(first, isFin, func(x ssa.Instruction) bool { return x == ssa.Instruction(ret) }); !ok {
					good = false
				}
			}
			c.Check(rule, key, l.Pos(ret.Pos()), reached && good, "preceded by OpFinalizer on every path on which the try depth is not -1",
				"OpReturn can be emitted inside a try statement without OpFinalizer before it (or the try depth is not consulted at all): a return from the try or catch body leaves the function without running the pending finally blocks")
		})
	}
	resetKeyCount()
	if n == 0 {
		c.Und(rule, "compiler of the return statement", "-", "no OpReturn emission found in a function that takes a *parser.ReturnStmt")
	}
}

func ruleFinalizerBeforeJump(c *Ctx, rule string) {
	l := c.L
	emit := l.Method(modPath, "Compiler", "emit")
	opJump, ok1 := constOf(l, modPath, "OpJump")
	opFin, ok2 := constOf(l, modPath, "OpFinalizer")
	_, fTCI := l.structField(modPath, "Compiler", "tryCatchIndex")
	_, fLast := l.structField(modPath, "loopStmts", "lastTryCatchIndex")
	fns := funcsWithParam(l, "BranchStmt")
	if !c.Anchor(rule, "Compiler.emit / OpJump / OpFinalizer / Compiler.tryCatchIndex / loopStmts.lastTryCatchIndex / a compiler of *parser.BranchStmt", emit != nil && ok1 && ok2 && fTCI >= 0 && fLast >= 0 && len(fns) > 0) {
		return
	}
	isLoad := func(v ssa.Value, pkg, typ string, f int) bool {
		ld, ok := v.(*ssa.UnOp)
		if !ok || ld.Op != token.MUL {
			return false
		}
		_, ok = isFieldAddrOf(ld.X, pkg, typ, f)
		return ok
	}
	n := 0
	for _, fn := range fns {
		eachInstr(fn, func(ins ssa.Instruction) {
			jmp, ok := emitsOp(l, ins, emit, opJump)
			if !ok {
				return
			}
			n++
			key := fnName(fn) + " | jump of break / continue"
			if k := countKey(key); k > 1 {
				key += fmt.Sprintf(" #%d", k)
			}
			// (a) the depths were compared and found equal on the way here
			same := false
			for _, g := range guardEdges(jmp.Block()) {
				bo, ok := g.If.Cond.(*ssa.BinOp)
				if !ok || (bo.Op != token.EQL && bo.Op != token.NEQ) {
					continue
				}
				a := isLoad(bo.X, modPath, "loopStmts", fLast) && isLoad(bo.Y, modPath, "Compiler", fTCI)
				b := isLoad(bo.Y, modPath, "loopStmts", fLast) && isLoad(bo.X, modPath, "Compiler", fTCI)
				if (a || b) && (bo.Op == token.EQL) == g.Truth {
					same = true
				}
			}
			// (b) or an OpFinalizer with operand lastTryCatchIndex + 1 precedes it in its block
			fin := false
			for _, x := range jmp.Block().Instrs {
				if x == ssa.Instruction(jmp) {
					break
				}
				if fc, ok := emitsOp(l, x, emit, opFin); ok && len(fc.Call.Args) >= 4 {
					// the variadic operand slice holds lastTryCatchIndex + 1
					okOperand := false
					eachInstr(fn, func(y ssa.Instruction) {
						st, isSt := y.(*ssa.Store)
						if !isSt || y.Block() != jmp.Block() {
							return
						}
						if bo, isBo := st.Val.(*ssa.BinOp); isBo && bo.Op == token.ADD && isLoad(bo.X, modPath, "loopStmts", fLast) {
							if k, isK := constInt64(bo.Y); isK && k == 1 {
								okOperand = true
							}
						}
					})
					fin = okOperand
				}
			}
			c.Check(rule, key, l.Pos(jmp.Pos()), same || fin, "either the loop's try depth equals the current one, or OpFinalizer(loop depth + 1) is emitted first",
				"the jump of a break / continue can be emitted at another try depth than the loop's without OpFinalizer(loop's depth + 1) before it: leaving a try statement through the loop jump skips its finally block, or runs the finally blocks of try statements that are not left")
		})
	}
	resetKeyCount()
	if n == 0 {
		c.Und(rule, "compiler of break / continue", "-", "no OpJump emission found in a function that takes a *parser.BranchStmt")
	}
}

var _ = strings.Contains
