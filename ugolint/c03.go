package main

import (
	"fmt"
	"go/token"
	"go/types"
	"strings"

	"golang.org/x/tools/go/ssa"
)

// C03 - finally runs exactly once on every exit path and the pending outcome
// survives it.  The behaviour quantifies over nestings x exits x histories and
// is not decided.  What is decided are structural necessary conditions of the
// mechanism the compiler and the VM implement it with; each of them was found
// violated on the pinned tree (or by a seeded change) with a failing program.

func init() {
	props["C03"] = propC03
	metas["C03"] = propMeta{
		Text:      "Decides structural necessary conditions of the try/catch/finally mechanism, each of which was found violated with a failing program: (finalizer-before-return) the return statement's compiler emits OpFinalizer before OpReturn on every path on which the try depth is not -1; (finalizer-before-jump) break / continue emit OpFinalizer with the loop's try depth + 1 before the jump whenever the loop's try depth differs from the current one; (counter-balance) the compile-time try depth is decremented on every successful path after it was incremented; (try-end-pop) the instruction that ends a try statement pops the consumed handler when nothing is pending; (pending-err-per-handler) the error parked while a finally / catch block runs lives in a per-handler slot, so a try statement nested in that block cannot lose it; (handler-active) a frame is handed to the handler switch only after hasActiveHandler succeeded for that frame; (throw-reentry) the unwinding routine is not re-entered from its own callees; (loop-record-current) the loop record consulted by break / continue is filled from the current depths on every path; (active-skips-all) the active-handler test loops over the handler list; (handler-consume) entering catch / finally clears the handler's positions; (finalizer-walk-bounded) the finalizer's walk over consumed handlers tests its bound on every step. Does NOT decide that finally runs exactly once for every nesting, exit kind and activation history, nor which outcome wins - that needs an exploration of the handler protocol against an independent semantics (a different technique family; see DESIGN.md section 4). 'other'.",
		Note:      trustedNote,
		Technique: "static analysis: must-pass-through and guard rules over the compiler's emitters of OpFinalizer / OpReturn / OpJump, dominance and value-flow rules over the VM's handler list",
		DesignRef: "DESIGN.md sections 3 and 4, C03",
	}
}

func propC03(c *Ctx) {
	rfr := c.Rule("finalizer-before-return", "the compiler of the return statement emits OpFinalizer before OpReturn on every path on which the compile-time try depth is not -1: a return inside try / catch runs the pending finally blocks first", 1)
	ruleFinalizerBeforeReturn(c, rfr)
	rfj := c.Rule("finalizer-before-jump", "break and continue emit OpFinalizer (operand: the loop's try depth + 1) before their jump whenever the loop was entered at another try depth than the current one: leaving a try statement through a loop jump runs its finally block, and only the finally blocks of the try statements really left", 1)
	ruleFinalizerBeforeJump(c, rfj)
	rlr := c.Rule("loop-record-current", "the record that break / continue consult holds the compiler's try depth and finally depth as they are when the loop is entered: the function handing it out stores them on every path", 1)
	ruleLoopRecordCurrent(c, rlr)
	ras := c.Rule("active-skips-all", "the test for a handler that can take an error walks down the handler list in a loop: any number of consumed handlers (nested finally blocks in progress) is skipped", 1)
	ruleActiveSkipsAll(c, ras)
	rhc := c.Rule("handler-consume", "entering a catch block clears the handler's catch position and entering a finally block clears both positions on every path on which the frame has a handler: an error thrown inside the block is not delivered to the same statement again", 3)
	ruleHandlerConsume(c, rhc)
	rfw := c.Rule("finalizer-walk-bounded", "the walk of OpFinalizer over consumed handlers tests its bound on every step: handlers of the try statements that enclose the loop being left are never touched", 1)
	ruleFinalizerWalkBounded(c, rfw)
	rsp := c.Rule("stack-index-paired", "the compiler's stack of open loops and the index of the innermost one move together: break / continue are always recorded on the loop they belong to", 1)
	ruleStackIndexPaired(c, rsp)
	rcb := c.Rule("counter-balance", "the compile-time try depth (and every other nesting counter) is decremented on every successful path after it was incremented: later statements of the same compilation see the true depth", 2)
	ruleCounterBalance(c, rcb)
	rtp := c.Rule("try-end-pop", "the instruction that ends a try statement pops the statement's consumed handler when neither an error nor a return is pending: try statements that already completed have no influence on later ones", 1)
	ruleTryEndPop(c, rtp)
	rpe := c.Rule("pending-err-per-handler", "the error parked while a finally or catch block runs is kept per handler: a try statement nested in that block cannot clear it", 1)
	rulePendingErrPerHandler(c, rpe)
	rha := c.Rule("handler-active", "an error is delivered to a frame only if hasActiveHandler succeeded for that frame: a try statement whose finally block is running does not take the error again", 2)
	ruleHandlerActive(c, rha)
	rtr := c.Rule("throw-reentry", "the unwinding routine is not re-entered from the functions it calls while the VM's frame state is only partly switched", 1)
	ruleThrowReentry(c, rtr)
}

// emitsOp: ins is a call of Compiler.emit with the given opcode constant.
func emitsOp(l *Loaded, ins ssa.Instruction, emit *ssa.Function, op int64) (*ssa.Call, bool) {
	cl, ok := ins.(*ssa.Call)
	if !ok || cl.Call.StaticCallee() != emit || len(cl.Call.Args) < 3 {
		return nil, false
	}
	k, ok := constInt64(cl.Call.Args[2])
	return cl, ok && k == op
}

// funcsWithParam: Compiler methods (and their closures) with a parameter of
// type *parser.<name>.
func funcsWithParam(l *Loaded, name string) []*ssa.Function {
	t := l.NamedType(parserPath, name)
	if t == nil {
		return nil
	}
	var out []*ssa.Function
	for _, fn := range l.RepoFuncs(func(pp string) bool { return pp == modPath }) {
		for _, p := range fn.Params {
			if pt, ok := p.Type().(*types.Pointer); ok && types.Identical(pt.Elem(), t) {
				out = append(out, fn)
				break
			}
		}
	}
	return out
}

func ruleFinalizerBeforeReturn(c *Ctx, rule string) {
	l := c.L
	emit := l.Method(modPath, "Compiler", "emit")
	opRet, ok1 := constOf(l, modPath, "OpReturn")
	opFin, ok2 := constOf(l, modPath, "OpFinalizer")
	_, fTCI := l.structField(modPath, "Compiler", "tryCatchIndex")
	fns := funcsWithParam(l, "ReturnStmt")
	if !c.Anchor(rule, "Compiler.emit / OpReturn / OpFinalizer / Compiler.tryCatchIndex / a compiler of *parser.ReturnStmt", emit != nil && ok1 && ok2 && fTCI >= 0 && len(fns) > 0) {
		return
	}
	isFin := func(ins ssa.Instruction) bool { _, ok := emitsOp(l, ins, emit, opFin); return ok }
	n := 0
	for _, fn := range fns {
		// the tests of the try depth: If on a comparison of load(c.tryCatchIndex) with a constant
		type test struct {
			iff    *ssa.If
			inTry  int // successor index taken when the depth is not -1
			others int
		}
		var tests []test
		for _, b := range fn.Blocks {
			iff, ok := b.Instrs[len(b.Instrs)-1].(*ssa.If)
			if !ok {
				continue
			}
			bo, ok := iff.Cond.(*ssa.BinOp)
			if !ok {
				continue
			}
			ld, ok := bo.X.(*ssa.UnOp)
			if !ok {
				continue
			}
			if _, ok := isFieldAddrOf(ld.X, modPath, "Compiler", fTCI); !ok {
				continue
			}
			k, ok := constInt64(bo.Y)
			if !ok {
				continue
			}
			// which outcome means "inside a try statement" (depth >= 0)
			in := -1
			switch {
			case bo.Op == token.GTR && k == -1, bo.Op == token.GEQ && k == 0, bo.Op == token.NEQ && k == -1:
				in = 0
			case bo.Op == token.LEQ && k == -1, bo.Op == token.LSS && k == 0, bo.Op == token.EQL && k == -1:
				in = 1
			}
			if in >= 0 {
				tests = append(tests, test{iff, in, 1 - in})
			}
		}
		eachInstr(fn, func(ins ssa.Instruction) {
			ret, ok := emitsOp(l, ins, emit, opRet)
			if !ok {
				return
			}
			n++
			key := fnName(fn) + " | OpReturn emitted"
			if k := countKey(key); k > 1 {
				key += fmt.Sprintf(" #%d", k)
			}
			// some test of the try depth must reach this emission, and from its
			// in-try outcome every path to the emission passes an OpFinalizer emission
			reached, good := false, true
			for _, t := range tests {
				succ := t.iff.Block().Succs[t.inTry]
				if !(succ == ret.Block() || blockReaches(succ, ret.Block())) {
					continue
				}
				reached = true
				first := succ.Instrs[0]
				if isFin(first) {
					continue
				}
				if _, ok := mustPassBefore(first, isFin, func(x ssa.Instruction) bool { return x == ssa.Instruction(ret) }); !ok {
					good = false
				}
			}
			c.Check(rule, key, l.Pos(ret.Pos()), reached && good, "preceded by OpFinalizer on every path on which the try depth is not -1",
				"OpReturn can be emitted inside a try statement without OpFinalizer before it (or the try depth is not consulted at all): a return from the try or catch body leaves the function without running the pending finally blocks")
		})
	}
	resetKeyCount()
	if n == 0 {
		c.Und(rule, "compiler of the return statement", "-", "no OpReturn emission found in a function that takes a *parser.ReturnStmt")
	}
}

func ruleFinalizerBeforeJump(c *Ctx, rule string) {
	l := c.L
	emit := l.Method(modPath, "Compiler", "emit")
	opJump, ok1 := constOf(l, modPath, "OpJump")
	opFin, ok2 := constOf(l, modPath, "OpFinalizer")
	_, fTCI := l.structField(modPath, "Compiler", "tryCatchIndex")
	_, fLast := l.structField(modPath, "loopStmts", "lastTryCatchIndex")
	fns := funcsWithParam(l, "BranchStmt")
	if !c.Anchor(rule, "Compiler.emit / OpJump / OpFinalizer / Compiler.tryCatchIndex / loopStmts.lastTryCatchIndex / a compiler of *parser.BranchStmt", emit != nil && ok1 && ok2 && fTCI >= 0 && fLast >= 0 && len(fns) > 0) {
		return
	}
	isLoad := func(v ssa.Value, pkg, typ string, f int) bool {
		ld, ok := v.(*ssa.UnOp)
		if !ok || ld.Op != token.MUL {
			return false
		}
		_, ok = isFieldAddrOf(ld.X, pkg, typ, f)
		return ok
	}
	// The loop record remembers, per loop, compiler counters as they were when the
	// loop was entered: (field of loopStmts, field of Compiler) pairs, read off the
	// function that builds the record.  One pair is the try depth.  A second one
	// must be a counter that the emitter of OpSetupFinally raises around the
	// finally body: inside a finally body the try depth is already back to the
	// outer value, so the try depth alone cannot tell a jump that leaves the finally
	// block (the statement's consumed handler, with its pending error or return,
	// must be dropped) from a jump that stays inside it.
	cs, _ := l.structField(modPath, "Compiler", "tryCatchIndex")
	ls, _ := l.structField(modPath, "loopStmts", "lastTryCatchIndex")
	opSF, okSF := constOf(l, modPath, "OpSetupFinally")
	type pair struct{ h, g int }
	var pairs []pair
	raisedAroundFinally := map[int]bool{}
	for _, fn := range l.RepoFuncs(func(pp string) bool { return pp == modPath }) {
		emitsSF := false
		eachInstr(fn, func(ins ssa.Instruction) {
			if _, ok := emitsOp(l, ins, emit, opSF); ok && okSF {
				emitsSF = true
			}
			st, ok := ins.(*ssa.Store)
			if !ok {
				return
			}
			fa, ok := st.Addr.(*ssa.FieldAddr)
			if !ok {
				return
			}
			pt, ok := fa.X.Type().Underlying().(*types.Pointer)
			if !ok || ls == nil || !types.Identical(pt.Elem().Underlying(), ls) {
				return
			}
			ld, ok := st.Val.(*ssa.UnOp)
			if !ok || ld.Op != token.MUL {
				return
			}
			ga, ok := ld.X.(*ssa.FieldAddr)
			if !ok {
				return
			}
			gt, ok := ga.X.Type().Underlying().(*types.Pointer)
			if !ok || cs == nil || !types.Identical(gt.Elem().Underlying(), cs) {
				return
			}
			pairs = append(pairs, pair{fa.Field, ga.Field})
		})
		if emitsSF {
			// counters incremented in the emitter of OpSetupFinally
			eachInstr(fn, func(ins ssa.Instruction) {
				st, ok := ins.(*ssa.Store)
				if !ok {
					return
				}
				fa, ok := st.Addr.(*ssa.FieldAddr)
				if !ok {
					return
				}
				if gt, ok := fa.X.Type().Underlying().(*types.Pointer); !ok || cs == nil || !types.Identical(gt.Elem().Underlying(), cs) {
					return
				}
				if bo, ok := st.Val.(*ssa.BinOp); ok && bo.Op == token.ADD {
					if k, ok := constInt64(bo.Y); ok && k == 1 {
						raisedAroundFinally[fa.Field] = true
					}
				}
			})
		}
	}
	var required []pair
	hasFinallyPair := false
	for _, p := range pairs {
		if p.g == fTCI && p.h == fLast {
			required = append(required, p)
		} else if raisedAroundFinally[p.g] && p.g != fTCI {
			required = append(required, p)
			hasFinallyPair = true
		}
	}
	n := 0
	for _, fn := range fns {
		eachInstr(fn, func(ins ssa.Instruction) {
			jmp, ok := emitsOp(l, ins, emit, opJump)
			if !ok {
				return
			}
			n++
			key := fnName(fn) + " | jump of break / continue"
			if k := countKey(key); k > 1 {
				key += fmt.Sprintf(" #%d", k)
			}
			// every acyclic path from the function's entry to the jump either passes an
			// emission of OpFinalizer whose operand is 1 + the loop's remembered depths, or has
			// compared every remembered counter with its current value and found it equal
			finBlocks := map[*ssa.BasicBlock]bool{}
			for _, b := range fn.Blocks {
				for _, x := range b.Instrs {
					if fc, ok := emitsOp(l, x, emit, opFin); ok && len(fc.Call.Args) >= 4 {
						// the operand: 1 + the sum of the counters the loop remembered (the
						// handlers of the try statements around the loop - those whose body
						// and those whose finally block encloses it - keep their places)
						okOperand := false
						for _, y := range b.Instrs {
							st, isSt := y.(*ssa.Store)
							if !isSt {
								continue
							}
							var leaves []ssa.Value
							var flat func(v ssa.Value, d int)
							flat = func(v ssa.Value, d int) {
								if bo, isBo := v.(*ssa.BinOp); isBo && bo.Op == token.ADD && d < 4 {
									flat(bo.X, d+1)
									flat(bo.Y, d+1)
									return
								}
								leaves = append(leaves, v)
							}
							flat(st.Val, 0)
							if len(leaves) != len(required)+1 {
								continue
							}
							ones, fields := 0, map[int]int{}
							for _, lf := range leaves {
								if k, isK := constInt64(lf); isK && k == 1 {
									ones++
									continue
								}
								for _, p := range required {
									if isLoad(lf, modPath, "loopStmts", p.h) {
										fields[p.h]++
									}
								}
							}
							if ones == 1 && len(fields) == len(required) {
								okOperand = true
							}
						}
						if okOperand {
							finBlocks[b] = true
						}
					}
				}
			}
			same, fin := hasFinallyPair, false
			paths, complete := acyclicPaths(fn, jmp.Block(), 4000)
			allOK := complete && len(paths) > 0
			for _, pth := range paths {
				passesFin := false
				for _, b := range pth.blocks {
					if finBlocks[b] && (b != jmp.Block() || instrIndexIn(b, finCallIn(l, b, emit, opFin)) < instrIndexIn(b, jmp)) {
						passesFin = true
					}
				}
				if passesFin {
					continue
				}
				eqAll := hasFinallyPair
				for _, p := range required {
					found := false
					for _, g := range pth.edges {
						bo, ok := g.If.Cond.(*ssa.BinOp)
						if !ok || (bo.Op != token.EQL && bo.Op != token.NEQ) {
							continue
						}
						a := isLoad(bo.X, modPath, "loopStmts", p.h) && isLoad(bo.Y, modPath, "Compiler", p.g)
						b := isLoad(bo.Y, modPath, "loopStmts", p.h) && isLoad(bo.X, modPath, "Compiler", p.g)
						if (a || b) && (bo.Op == token.EQL) == g.Truth {
							found = true
						}
					}
					if !found {
						eqAll = false
					}
				}
				if !eqAll {
					allOK = false
				}
			}
			same = allOK
			c.Check(rule, key, l.Pos(jmp.Pos()), same || fin, "either the loop's try depth and finally depth equal the current ones, or OpFinalizer(loop depth + 1) is emitted first",
				"the jump of a break / continue can be emitted without OpFinalizer(loop's depth + 1) before it although the jump may leave a try statement of the loop body or the FINALLY BLOCK of one (inside a finally body the try depth is already the outer one, so it needs a counter of its own): leaving through the loop jump skips a finally block, or leaves the statement's consumed handler with its pending error / return on the frame (`try { for { try { throw \"E\" } finally { break } }; X } finally { B }` re-throws E after X)")
		})
	}
	resetKeyCount()
	if n == 0 {
		c.Und(rule, "compiler of break / continue", "-", "no OpJump emission found in a function that takes a *parser.BranchStmt")
	}
}

var _ = strings.Contains

type cfgPath struct {
	blocks []*ssa.BasicBlock
	edges  []guardEdge
}

// acyclicPaths enumerates the acyclic paths from fn's entry block to target
// (blocks visited and branch outcomes taken).  complete is false when the
// budget was exhausted.
func acyclicPaths(fn *ssa.Function, target *ssa.BasicBlock, budget int) (out []cfgPath, complete bool) {
	if len(fn.Blocks) == 0 {
		return nil, false
	}
	complete = true
	onPath := map[*ssa.BasicBlock]bool{}
	var blocks []*ssa.BasicBlock
	var edges []guardEdge
	var rec func(b *ssa.BasicBlock)
	rec = func(b *ssa.BasicBlock) {
		if !complete || onPath[b] {
			return
		}
		if !(b == target || blockReaches(b, target)) {
			return
		}
		onPath[b] = true
		blocks = append(blocks, b)
		if b == target {
			budget--
			if budget < 0 {
				complete = false
			} else {
				out = append(out, cfgPath{append([]*ssa.BasicBlock(nil), blocks...), append([]guardEdge(nil), edges...)})
			}
		} else {
			iff, isIf := b.Instrs[len(b.Instrs)-1].(*ssa.If)
			for i, s := range b.Succs {
				ne := len(edges)
				if isIf && len(b.Succs) == 2 && b.Succs[0] != b.Succs[1] {
					edges = append(edges, guardEdge{iff, i == 0})
				}
				rec(s)
				edges = edges[:ne]
			}
		}
		blocks = blocks[:len(blocks)-1]
		onPath[b] = false
	}
	rec(fn.Blocks[0])
	return out, complete
}

func instrIndexIn(b *ssa.BasicBlock, ins ssa.Instruction) int {
	for i, x := range b.Instrs {
		if x == ins {
			return i
		}
	}
	return -1
}

// finCallIn: the first emission of op in block b (nil if none).
func finCallIn(l *Loaded, b *ssa.BasicBlock, emit *ssa.Function, op int64) ssa.Instruction {
	for _, x := range b.Instrs {
		if fc, ok := emitsOp(l, x, emit, op); ok {
			return fc
		}
	}
	return nil
}

// ---- C03/loop-record-current ----------------------------------------------------------------------------------------------------
// The record a loop's break / continue statements consult holds the compiler's
// try depth (and finally depth) AS THEY ARE WHEN THE LOOP IS ENTERED.  In the
// function that hands out the record, every path to a return stores each of
// these fields from the compiler's current counter: a record recycled from an
// earlier loop of the same nesting level without them decides "finalizer or
// plain jump" with the depths of that earlier loop.
func ruleLoopRecordCurrent(c *Ctx, rule string) {
	l := c.L
	cs, _ := l.structField(modPath, "Compiler", "tryCatchIndex")
	ls, _ := l.structField(modPath, "loopStmts", "lastTryCatchIndex")
	lsT := l.NamedType(modPath, "loopStmts")
	if !c.Anchor(rule, "Compiler / loopStmts", cs != nil && ls != nil && lsT != nil) {
		return
	}
	n := 0
	for _, fn := range l.RepoFuncs(func(pp string) bool { return pp == modPath }) {
		// functions returning *loopStmts
		res := fn.Signature.Results()
		if res.Len() != 1 {
			continue
		}
		pt, ok := res.At(0).Type().(*types.Pointer)
		if !ok || !types.Identical(pt.Elem(), lsT) {
			continue
		}
		// the (record field, compiler field) pairs this function stores
		type pair struct{ h, g int }
		seen := map[pair]bool{}
		isPairStore := func(ins ssa.Instruction) (pair, bool) {
			st, ok := ins.(*ssa.Store)
			if !ok {
				return pair{}, false
			}
			fa, ok := st.Addr.(*ssa.FieldAddr)
			if !ok {
				return pair{}, false
			}
			if p, ok := fa.X.Type().Underlying().(*types.Pointer); !ok || !types.Identical(p.Elem().Underlying(), ls) {
				return pair{}, false
			}
			ld, ok := st.Val.(*ssa.UnOp)
			if !ok || ld.Op != token.MUL {
				return pair{}, false
			}
			ga, ok := ld.X.(*ssa.FieldAddr)
			if !ok {
				return pair{}, false
			}
			if p, ok := ga.X.Type().Underlying().(*types.Pointer); !ok || !types.Identical(p.Elem().Underlying(), cs) {
				return pair{}, false
			}
			return pair{fa.Field, ga.Field}, true
		}
		eachInstr(fn, func(ins ssa.Instruction) {
			if p, ok := isPairStore(ins); ok {
				seen[p] = true
			}
		})
		if len(seen) == 0 {
			continue
		}
		// only the functions that hand a record to a caller for a NEW loop: not mere accessors
		for p := range seen {
			p := p
			n++
			_, ok := mustPassBefore(fn.Blocks[0].Instrs[0], func(ins ssa.Instruction) bool {
				q, ok := isPairStore(ins)
				return ok && q == p
			}, isReturn)
			c.Check(rule, fmt.Sprintf("%s | loop record field %s", fnName(fn), ls.Field(p.h).Name()), l.Pos(fn.Pos()), ok, "stored from the compiler's current "+cs.Field(p.g).Name()+" on every path to the return",
				"the function can hand out a loop record whose "+ls.Field(p.h).Name()+" was not set from the compiler's current "+cs.Field(p.g).Name()+" (a recycled record): break / continue of the new loop decide between a plain jump and OpFinalizer with the depth of an EARLIER loop - a finally block is skipped, or the enclosing try's finally runs in the middle of the loop")
		}
	}
	if n == 0 {
		c.Und(rule, "builder of the loop record", "-", "no function returning *loopStmts stores a compiler counter into it")
	}
}

// ---- C03/active-skips-all -------------------------------------------------------------------------------------------------------
// A handler stays consumed for as long as its finally block runs, and finally
// blocks nest: any number of consumed handlers can lie above the nearest
// handler that can still take an error.  The test that decides whether a frame
// can take an error walks down the handler list in a LOOP (a cycle of its
// control-flow graph reads the handlers' catch / finally positions); a test
// that skips a bounded number of consumed handlers lets an error thrown in a
// doubly nested finally block escape the catch of its own function.
func ruleActiveSkipsAll(c *Ctx, rule string) {
	l := c.L
	active := l.Method(modPath, "errHandlers", "hasActiveHandler")
	_, fCatch := l.structField(modPath, "errHandler", "catch")
	_, fFin := l.structField(modPath, "errHandler", "finally")
	if !c.Anchor(rule, "errHandlers.hasActiveHandler / errHandler.catch / errHandler.finally", active != nil && fCatch >= 0 && fFin >= 0) {
		return
	}
	inCycle := false
	eachInstrDeep(active, 1, func(ins ssa.Instruction) {
		fa, ok := ins.(*ssa.FieldAddr)
		if !ok {
			return
		}
		if _, ok := isFieldAddrOf(fa, modPath, "errHandler", fa.Field); !ok || (fa.Field != fCatch && fa.Field != fFin) {
			return
		}
		b := fa.Block()
		for _, s := range b.Succs {
			if s == b || blockReaches(s, b) {
				inCycle = true
			}
		}
	})
	c.Check(rule, "errHandlers.hasActiveHandler | search for a handler that can take the error", l.Pos(active.Pos()), inCycle, "the handlers' catch / finally positions are examined inside a loop",
		"the test for an active handler examines a bounded number of handlers (no loop): with two or more consumed handlers on top (a finally block inside a finally block) the frame is reported as having no handler, and an error thrown there escapes the function's own catch")
}

// ---- C03/handler-consume --------------------------------------------------------------------------------------------------------
// Entering a catch block consumes the handler's catch position, entering a
// finally block consumes both positions: every path through the function that
// executes OpSetupCatch (OpSetupFinally) on which the frame has a handler stores
// zero into the handler's catch (catch and finally) field.  A finally block
// entered with the catch position still armed lets an error thrown IN the
// finally block be caught by the statement's own catch, after which the finally
// block runs a second time.
func ruleHandlerConsume(c *Ctx, rule string) {
	l := c.L
	_, fCatch := l.structField(modPath, "errHandler", "catch")
	_, fFin := l.structField(modPath, "errHandler", "finally")
	sc := l.Method(modPath, "VM", "xOpSetupCatch")
	sf := l.Method(modPath, "VM", "xOpSetupFinally")
	hasH := l.Method(modPath, "errHandlers", "hasHandler")
	if !c.Anchor(rule, "VM.xOpSetupCatch / VM.xOpSetupFinally / errHandler.catch / errHandler.finally", sc != nil && sf != nil && fCatch >= 0 && fFin >= 0) {
		return
	}
	zeroStore := func(field int) func(ssa.Instruction) bool {
		return viaDeep(func(ins ssa.Instruction) bool {
			st, ok := ins.(*ssa.Store)
			if !ok {
				return false
			}
			if _, ok := isFieldAddrOf(st.Addr, modPath, "errHandler", field); !ok {
				return false
			}
			k, ok := constInt64(st.Val)
			return ok && k == 0
		})
	}
	lastM := l.Method(modPath, "errHandlers", "last")
	check := func(fn *ssa.Function, what string, fields ...int) {
		// the tests "does the frame have a handler": hasHandler(), or a comparison of
		// last() with nil; hasSucc is the successor taken when it has one
		type test struct {
			iff     *ssa.If
			hasSucc *ssa.BasicBlock
		}
		var tests []test
		for _, b := range fn.Blocks {
			if len(b.Instrs) == 0 {
				continue
			}
			iff, isIf := b.Instrs[len(b.Instrs)-1].(*ssa.If)
			if !isIf {
				continue
			}
			switch cnd := iff.Cond.(type) {
			case *ssa.Call:
				if hasH != nil && cnd.Call.StaticCallee() == hasH {
					tests = append(tests, test{iff, b.Succs[0]})
				}
			case *ssa.BinOp:
				if cnd.Op != token.EQL && cnd.Op != token.NEQ {
					continue
				}
				for _, pr := range [][2]ssa.Value{{cnd.X, cnd.Y}, {cnd.Y, cnd.X}} {
					k, isNil := pr[1].(*ssa.Const)
					cl, isCall := pr[0].(*ssa.Call)
					if isNil && k.IsNil() && isCall && lastM != nil && cl.Call.StaticCallee() == lastM {
						if cnd.Op == token.EQL {
							tests = append(tests, test{iff, b.Succs[1]})
						} else {
							tests = append(tests, test{iff, b.Succs[0]})
						}
					}
				}
			}
		}
		for _, f := range fields {
			pred := zeroStore(f)
			ok := true
			for _, t := range tests {
				first := t.hasSucc.Instrs[0]
				if pred(first) {
					continue
				}
				if _, good := mustPassBefore(first, pred, isReturn); !good {
					ok = false
				}
			}
			// no path reaches a return without either such a test or the store
			isTest := func(ins ssa.Instruction) bool {
				for _, t := range tests {
					if ins == ssa.Instruction(t.iff) {
						return true
					}
				}
				return false
			}
			first := fn.Blocks[0].Instrs[0]
			if !pred(first) && !isTest(first) {
				if _, good := mustPassBefore(first, func(x ssa.Instruction) bool { return pred(x) || isTest(x) }, isReturn); !good {
					ok = false
				}
			}
			name := "catch"
			if f == fFin {
				name = "finally"
			}
			c.Check(rule, fmt.Sprintf("%s | handler's %s position", fnName(fn), name), l.Pos(fn.Pos()), ok, "cleared on every path on which the frame has a handler",
				"entering the "+what+" block does not clear the handler's "+name+" position on every path: the handler is not consumed, so an error thrown inside the block is delivered to the same statement again (its own catch takes an error thrown in its finally block, which then runs twice)")
		}
	}
	check(sc, "catch", fCatch)
	check(sf, "finally", fCatch, fFin)
}

// ---- C03/finalizer-walk-bounded -----------------------------------------------------------------------------------------------
// OpFinalizer(upto) runs / drops the handlers with index >= upto only: the
// handlers below belong to try statements that enclose the loop being left (or
// the statement being returned from) and stay.  The walk that drops consumed
// handlers therefore tests its bound on every step: the comparison with the
// `upto` parameter lies on the cycle of the function's control-flow graph (or,
// written without a loop, the function pops at most once).  A bound tested only
// on entry lets the walk continue into the enclosing statements' handlers: the
// enclosing finally block runs early and again at its proper place.
func ruleFinalizerWalkBounded(c *Ctx, rule string) {
	l := c.L
	ff := l.Method(modPath, "errHandlers", "findFinally")
	if !c.Anchor(rule, "errHandlers.findFinally", ff != nil && len(ff.Params) == 2) {
		return
	}
	upto := ff.Params[1]
	onCycle := func(b *ssa.BasicBlock) bool {
		for _, s := range b.Succs {
			if s == b || blockReaches(s, b) {
				return true
			}
		}
		return false
	}
	hasLoop, boundInLoop := false, false
	for _, b := range ff.Blocks {
		if !onCycle(b) {
			continue
		}
		hasLoop = true
		iff, ok := b.Instrs[len(b.Instrs)-1].(*ssa.If)
		if !ok {
			continue
		}
		if derivesFrom(iff.Cond, func(v ssa.Value) bool { return v == ssa.Value(upto) }, 4) {
			boundInLoop = true
		}
	}
	c.Check(rule, "errHandlers.findFinally | walk over consumed handlers", l.Pos(ff.Pos()), !hasLoop || boundInLoop, "the bound is tested on every step of the walk",
		"the walk that drops consumed handlers does not compare with its bound inside the loop: after a consumed handler it continues below the bound into the handlers of the try statements that enclose the loop - their finally block runs at the break / continue and again at its proper place, and their catch is gone")
}
