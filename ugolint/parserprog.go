package main

import (
	"fmt"
	"go/constant"
	"go/token"
	"go/types"
	"sort"
	"strings"

	"golang.org/x/tools/go/callgraph"
	"golang.org/x/tools/go/ssa"
)

// Progress analysis of the recursive-descent parser (C05: Compile terminates).
//
// State: "the current token has not been consumed since the start, and it is
// one of the tokens in S".  While nothing has been consumed every load of
// Parser.token yields the same value, so branch conditions that compare it
// with token constants split S; a side with an empty set is infeasible.  An
// instruction ADVANCES when it stores Parser.token (the scanner was asked for
// the next token) or calls a function that, entered in the current state,
// advances on every path to its returns (context-sensitive summaries keyed by
// function and token set; dynamic calls through function values use the VTA
// call graph and all callees must advance).  Parser.advance, the error
// synchroniser, counts as advancing: it may return without consuming at most
// ten times at one position (syncPos / syncCount) and consumes from then on.
//
// The rule: for every loop of the parser whose conditions read the current
// token, no path leads from the loop header back to the header without
// advancing.  A path that does is an input on which the parser repeats one
// error forever (errors on the same line are discarded, so the error limit
// does not stop it).

type tokSet [2]uint64

func (s tokSet) has(k int64) bool { return k >= 0 && k < 128 && s[k/64]&(1<<uint(k%64)) != 0 }
func (s tokSet) empty() bool      { return s[0] == 0 && s[1] == 0 }
func (s tokSet) with(k int64) tokSet {
	if k >= 0 && k < 128 {
		s[k/64] |= 1 << uint(k%64)
	}
	return s
}
func (s tokSet) without(k int64) tokSet {
	if k >= 0 && k < 128 {
		s[k/64] &^= 1 << uint(k%64)
	}
	return s
}
func (s tokSet) only(k int64) tokSet {
	var o tokSet
	if s.has(k) {
		o = o.with(k)
	}
	return o
}

type parserProg struct {
	l       *Loaded
	fTok    int
	advance *ssa.Function
	all     tokSet
	names   map[int64]string
	memo    map[string]int // 1 advances, 2 does not, 3 in progress
	cg      *callgraph.Graph
	witness string
}

func newParserProg(l *Loaded) *parserProg {
	pp := &parserProg{l: l, memo: map[string]int{}, names: map[int64]string{}}
	_, pp.fTok = l.structField(parserPath, "Parser", "token")
	pp.advance = l.Method(parserPath, "Parser", "advance")
	for n, v := range tokenConsts(l) {
		if v >= 0 && v < 128 {
			pp.all = pp.all.with(v)
			pp.names[v] = n
		}
	}
	return pp
}

func (pp *parserProg) show(s tokSet) string {
	if s == pp.all {
		return "any token"
	}
	var ns []string
	for k := int64(0); k < 128; k++ {
		if s.has(k) {
			ns = append(ns, pp.names[k])
		}
	}
	sort.Strings(ns)
	if len(ns) > 6 {
		return fmt.Sprintf("%v... (%d tokens)", ns[:6], len(ns))
	}
	return fmt.Sprint(ns)
}

// isTokenLoad: v is a load of Parser.token (or a copy of such a load through
// phi-free value flow).
func (pp *parserProg) isTokenLoad(v ssa.Value) bool {
	u, ok := v.(*ssa.UnOp)
	if !ok || u.Op != token.MUL {
		return false
	}
	_, ok = isFieldAddrOf(u.X, parserPath, "Parser", pp.fTok)
	return ok
}

// split refines S by a branch condition: the sets for the true and the false
// successor.
func (pp *parserProg) split(cond ssa.Value, S tokSet) (tokSet, tokSet) {
	switch c := cond.(type) {
	case *ssa.UnOp:
		if c.Op == token.NOT {
			t, f := pp.split(c.X, S)
			return f, t
		}
	case *ssa.BinOp:
		if c.Op != token.EQL && c.Op != token.NEQ {
			break
		}
		for _, pr := range [][2]ssa.Value{{c.X, c.Y}, {c.Y, c.X}} {
			if !pp.isTokenLoad(pr[0]) {
				continue
			}
			k, ok := constInt64(pr[1])
			if !ok {
				continue
			}
			eq, ne := S.only(k), S.without(k)
			if c.Op == token.EQL {
				return eq, ne
			}
			return ne, eq
		}
	}
	return S, S
}

// advancesAt: the instruction consumes a token when executed in state S.
func (pp *parserProg) advancesAt(ins ssa.Instruction, S tokSet, depth int) bool {
	switch x := ins.(type) {
	case *ssa.Store:
		if _, ok := isFieldAddrOf(x.Addr, parserPath, "Parser", pp.fTok); ok {
			return true
		}
	case *ssa.Call:
		if f := x.Call.StaticCallee(); f != nil {
			if f == pp.advance {
				return true
			}
			if funcPkgPath(f) == parserPath && len(f.Blocks) > 0 {
				return pp.fnAdvances(f, S, depth+1)
			}
			return false
		}
		// dynamic call (a spec parser passed as a function value): every
		// possible callee must advance
		if pp.cg == nil {
			pp.cg = pp.l.VTA()
		}
		node := pp.cg.Nodes[x.Parent()]
		if node == nil {
			return false
		}
		n, all := 0, true
		for _, e := range node.Out {
			if e.Site != ssa.CallInstruction(x) {
				continue
			}
			g := e.Callee.Func
			if funcPkgPath(g) != parserPath || len(g.Blocks) == 0 {
				all = false
				continue
			}
			n++
			if !pp.fnAdvances(g, S, depth+1) {
				all = false
			}
		}
		return n > 0 && all
	}
	return false
}

// fnAdvances: entered with an unconsumed current token in S, fn consumes a
// token on every path to a return.
func (pp *parserProg) fnAdvances(fn *ssa.Function, S tokSet, depth int) bool {
	key := fmt.Sprintf("%p/%x/%x", fn, S[0], S[1])
	switch pp.memo[key] {
	case 1:
		return true
	case 2, 3:
		return false // 3: recursion before any progress on this path
	}
	if depth > 40 {
		return false
	}
	pp.memo[key] = 3
	ok := pp.explore(fn.Blocks[0], 0, S, depth, func(ins ssa.Instruction) bool { _, r := ins.(*ssa.Return); return r }, nil)
	if ok {
		pp.memo[key] = 1
	} else {
		pp.memo[key] = 2
	}
	return ok
}

// explore walks every path from (b, idx) in state S until an advancing
// instruction; it returns false when a path reaches an instruction satisfying
// target (or the block stop) without having advanced.
func (pp *parserProg) explore(b *ssa.BasicBlock, idx int, S tokSet, depth int, target func(ssa.Instruction) bool, stop *ssa.BasicBlock) bool {
	type key struct {
		b *ssa.BasicBlock
		s tokSet
	}
	seen := map[key]bool{}
	var rec func(b *ssa.BasicBlock, idx int, S tokSet) bool
	rec = func(b *ssa.BasicBlock, idx int, S tokSet) bool {
		for i := idx; i < len(b.Instrs); i++ {
			ins := b.Instrs[i]
			if target(ins) {
				if pp.witness == "" {
					pp.witness = fmt.Sprintf("%s with the current token in %s", pp.l.Pos(ins.Pos()), pp.show(S))
				}
				return false
			}
			if cl, ok := ins.(*ssa.Call); ok && isNoReturn(cl.Call.StaticCallee()) {
				return true
			}
			if _, ok := ins.(*ssa.Panic); ok {
				return true
			}
			if pp.advancesAt(ins, S, depth) {
				return true
			}
		}
		var st, sf tokSet
		iff, isIf := b.Instrs[len(b.Instrs)-1].(*ssa.If)
		if isIf && len(b.Succs) == 2 {
			st, sf = pp.split(iff.Cond, S)
		}
		for i, s := range b.Succs {
			ns := S
			if isIf && len(b.Succs) == 2 {
				if i == 0 {
					ns = st
				} else {
					ns = sf
				}
				if ns.empty() {
					continue // infeasible for every token in S
				}
			}
			if s == stop {
				if pp.witness == "" {
					pp.witness = fmt.Sprintf("back at the loop header with the current token in %s", pp.show(ns))
				}
				return false
			}
			k := key{s, ns}
			if seen[k] {
				continue
			}
			seen[k] = true
			if !rec(s, 0, ns) {
				return false
			}
		}
		return true
	}
	return rec(b, idx, S)
}

// ruleParserProgress: see the file comment.
func ruleParserProgress(c *Ctx, rule string) {
	l := c.L
	next := l.Method(parserPath, "Parser", "next")
	pp := newParserProg(l)
	if !c.Anchor(rule, "parser.Parser.next / Parser.token / token constants", next != nil && pp.fTok >= 0 && !pp.all.empty()) {
		return
	}
	n := 0
	for _, fn := range l.RepoFuncs(func(p string) bool { return p == parserPath }) {
		if r := fn.Signature.Recv(); r == nil || !isNamed(r.Type(), parserPath, "Parser") {
			continue
		}
		for _, h := range fn.Blocks {
			isHeader := false
			for _, p := range h.Preds {
				if h.Dominates(p) {
					isHeader = true
				}
			}
			if !isHeader {
				continue
			}
			// only token-driven loops: some condition inside the loop reads p.token
			tokenDriven := false
			for _, b := range fn.Blocks {
				if !(h.Dominates(b) && blockReaches(b, h)) {
					continue
				}
				iff, ok := b.Instrs[len(b.Instrs)-1].(*ssa.If)
				if !ok {
					continue
				}
				if derivesFrom(iff.Cond, func(v ssa.Value) bool {
					_, ok := isFieldAddrOf(v, parserPath, "Parser", pp.fTok)
					return ok
				}, 4) {
					tokenDriven = true
				}
			}
			if !tokenDriven {
				continue
			}
			n++
			pp.witness = ""
			ok := pp.explore(h, 0, pp.all, 0, func(ssa.Instruction) bool { return false }, h)
			key := fmt.Sprintf("%s | loop #%d", fnName(fn), loopOrdinal(fn, h))
			c.Check(rule, key, l.Pos(loopPos(h)), ok, "every iteration consumes a token",
				"an iteration of this token-driven loop can complete without consuming a token ("+pp.witness+"): on such an input the parser repeats the same error forever and Compile never returns")
		}
	}
	c.extra["parser_progress_summaries"] = len(pp.memo)
	if n == 0 {
		c.Und(rule, "token-driven loops of the parser", "-", "none found: anchor lost")
	}
}

func loopOrdinal(fn *ssa.Function, h *ssa.BasicBlock) int {
	k := 0
	for _, b := range fn.Blocks {
		hdr := false
		for _, p := range b.Preds {
			if b.Dominates(p) {
				hdr = true
			}
		}
		if hdr {
			k++
		}
		if b == h {
			return k
		}
	}
	return k
}

func loopPos(h *ssa.BasicBlock) token.Pos {
	for _, ins := range h.Instrs {
		if ins.Pos() != token.NoPos {
			return ins.Pos()
		}
	}
	for _, s := range h.Succs {
		for _, ins := range s.Instrs {
			if ins.Pos() != token.NoPos {
				return ins.Pos()
			}
		}
	}
	return token.NoPos
}

var _ = types.Typ

// ---- C05/node-nonnil ----------------------------------------------------------------------------------------
// The compiler and the optimizer dereference some pointer-typed fields of AST
// nodes without a nil test (stmt.Key.Name, node.Body.Stmts, ...).  For every
// such field, every value the PARSER stores into it must be non-nil on every
// path: a fresh node, the result of a parser function all of whose returns are
// non-nil, a checked assertion result, or a merge of those.  A `switch len(x)`
// without a default arm that leaves the field nil yields an AST on which
// Compile panics.
func ruleNodeNonNil(c *Ctx, rule string) {
	l := c.L
	pp := l.ByPath[parserPath]
	if !c.Anchor(rule, "package parser", pp != nil) {
		return
	}
	type tf struct {
		t *types.Named
		f int
	}
	isNodePtrField := func(fa *ssa.FieldAddr) (tf, bool) {
		pt, ok := fa.X.Type().Underlying().(*types.Pointer)
		if !ok {
			return tf{}, false
		}
		nt, ok := pt.Elem().(*types.Named)
		if !ok || nt.Obj().Pkg() == nil || nt.Obj().Pkg().Path() != parserPath {
			return tf{}, false
		}
		st, ok := nt.Underlying().(*types.Struct)
		if !ok {
			return tf{}, false
		}
		if _, isPtr := st.Field(fa.Field).Type().Underlying().(*types.Pointer); !isPtr {
			return tf{}, false
		}
		return tf{nt, fa.Field}, true
	}
	// 1. fields dereferenced without a nil test by the consumers of the AST
	required := map[tf]string{}
	for _, fn := range l.RepoFuncs(func(p string) bool { return p == modPath }) {
		eachInstr(fn, func(ins ssa.Instruction) {
			fa, ok := ins.(*ssa.FieldAddr)
			if !ok {
				return
			}
			k, ok := isNodePtrField(fa)
			if !ok || fa.Referrers() == nil {
				return
			}
			for _, r := range *fa.Referrers() {
				ld, ok := r.(*ssa.UnOp)
				if !ok || ld.Op != token.MUL || ld.Referrers() == nil {
					continue
				}
				for _, u := range *ld.Referrers() {
					deref := false
					switch x := u.(type) {
					case *ssa.FieldAddr:
						deref = x.X == ssa.Value(ld)
					case *ssa.UnOp:
						deref = x.Op == token.MUL && x.X == ssa.Value(ld)
					}
					if !deref {
						continue
					}
					ui := u.(ssa.Instruction)
					guarded := false
					for _, g := range guardEdges(ui.Block()) {
						if bo, ok := g.If.Cond.(*ssa.BinOp); ok && (bo.Op == token.NEQ || bo.Op == token.EQL) {
							for _, pr := range [][2]ssa.Value{{bo.X, bo.Y}, {bo.Y, bo.X}} {
								if k2, ok := pr[1].(*ssa.Const); ok && k2.IsNil() && (pr[0] == ssa.Value(ld) || exprEq(pr[0], ld)) && (bo.Op == token.NEQ) == g.Truth {
									guarded = true
								}
							}
						}
					}
					if !guarded {
						if _, had := required[k]; !had {
							required[k] = fnName(fn)
						}
					}
				}
			}
		})
	}
	// 2. non-nil summaries of parser functions
	memo := map[[2]interface{}]int{}
	var nonNilVal func(v ssa.Value, d int) bool
	var nonNilFn func(f *ssa.Function, idx, d int) bool
	nonNilFn = func(f *ssa.Function, idx, d int) bool {
		key := [2]interface{}{f, idx}
		if r, ok := memo[key]; ok {
			return r != 2 // in progress (3) counts as non-nil: greatest fixpoint over recursion
		}
		if len(f.Blocks) == 0 || d > 8 {
			return false
		}
		memo[key] = 3
		ok := true
		n := 0
		for _, b := range f.Blocks {
			if ret, isRet := b.Instrs[len(b.Instrs)-1].(*ssa.Return); isRet && len(ret.Results) > idx {
				n++
				if !nonNilVal(ret.Results[idx], d+1) {
					ok = false
				}
			}
		}
		if ok && n > 0 {
			memo[key] = 1
			return true
		}
		memo[key] = 2
		return false
	}
	nonNilVal = func(v ssa.Value, d int) bool {
		if d > 10 {
			return false
		}
		switch x := v.(type) {
		case *ssa.Alloc:
			return true
		case *ssa.Const:
			return !x.IsNil()
		case *ssa.MakeInterface:
			return true
		case *ssa.ChangeType:
			return nonNilVal(x.X, d+1)
		case *ssa.Phi:
			for i, e := range x.Edges {
				if e == v {
					continue
				}
				if nonNilVal(e, d+1) {
					continue
				}
				// a comma-ok assertion result merged after its ok test
				if guardedOnEdge(e, x.Block().Preds[i], x.Block()) {
					continue
				}
				return false
			}
			return true
		case *ssa.Call:
			if f := x.Call.StaticCallee(); f != nil && funcPkgPath(f) == parserPath {
				return nonNilFn(f, 0, d+1)
			}
		case *ssa.Extract:
			// value of a comma-ok assertion: non-nil where ok was tested true
			if ta, ok := x.Tuple.(*ssa.TypeAssert); ok && ta.CommaOk && x.Index == 0 {
				return false // decided per use by guardedOnEdge / guards of the store
			}
			// one result of a parser function with several results
			if cl, ok := x.Tuple.(*ssa.Call); ok {
				if f := cl.Call.StaticCallee(); f != nil && funcPkgPath(f) == parserPath {
					return nonNilFn(f, x.Index, d+1)
				}
			}
		case *ssa.UnOp:
			// load of a local that is only ever assigned non-nil values
			if al, ok := x.X.(*ssa.Alloc); ok && x.Op == token.MUL && al.Referrers() != nil {
				n := 0
				for _, r := range *al.Referrers() {
					if st, ok := r.(*ssa.Store); ok && st.Addr == ssa.Value(al) {
						n++
						if !nonNilVal(st.Val, d+1) {
							return false
						}
					}
				}
				return n > 0
			}
		}
		return false
	}
	// 3. every store of the parser into a required field
	n := 0
	var keys []tf
	for k := range required {
		keys = append(keys, k)
	}
	sort.Slice(keys, func(i, j int) bool {
		a, b := keys[i], keys[j]
		if a.t.Obj().Name() != b.t.Obj().Name() {
			return a.t.Obj().Name() < b.t.Obj().Name()
		}
		return a.f < b.f
	})
	c.extra["ast_fields_dereferenced_unchecked"] = len(keys)
	for _, fn := range l.RepoFuncs(func(p string) bool { return p == parserPath }) {
		eachInstr(fn, func(ins ssa.Instruction) {
			st, ok := ins.(*ssa.Store)
			if !ok {
				return
			}
			fa, ok := st.Addr.(*ssa.FieldAddr)
			if !ok {
				return
			}
			k, ok := isNodePtrField(fa)
			if !ok {
				return
			}
			user, req := required[k]
			if !req {
				return
			}
			n++
			good := nonNilVal(st.Val, 0)
			if !good {
				// stored under a guard that establishes non-nil
				for _, g := range guardEdges(st.Block()) {
					if bo, ok := g.If.Cond.(*ssa.BinOp); ok && bo.Op == token.NEQ && g.Truth {
						for _, pr := range [][2]ssa.Value{{bo.X, bo.Y}, {bo.Y, bo.X}} {
							if k2, ok := pr[1].(*ssa.Const); ok && k2.IsNil() && pr[0] == st.Val {
								good = true
							}
						}
					}
					if ex, ok := st.Val.(*ssa.Extract); ok && g.Truth {
						if okv, isEx := g.If.Cond.(*ssa.Extract); isEx && okv.Tuple == ex.Tuple && okv.Index == 1 {
							good = true
						}
					}
				}
			}
			fname := k.t.Underlying().(*types.Struct).Field(k.f).Name()
			key := fmt.Sprintf("%s | %s.%s = %s", fnName(fn), k.t.Obj().Name(), fname, describe(st.Val))
			c.Check(rule, key, l.Pos(st.Pos()), good, "non-nil on every path (dereferenced unchecked by "+user+")",
				"the parser can store nil into "+k.t.Obj().Name()+"."+fname+", which "+user+" dereferences without a nil test: Compile panics (nil pointer dereference) on the input that takes this path")
		})
	}
	if n == 0 {
		c.Und(rule, "stores into AST pointer fields", "-", "none found: anchor lost")
	}
}

// guardedOnEdge: v is the value of a comma-ok type assertion and the edge
// pred->blk is taken only when its ok result is true.
func guardedOnEdge(v ssa.Value, pred, blk *ssa.BasicBlock) bool {
	ex, ok := v.(*ssa.Extract)
	if !ok || ex.Index != 0 {
		return false
	}
	ta, ok := ex.Tuple.(*ssa.TypeAssert)
	if !ok || !ta.CommaOk {
		return false
	}
	isOK := func(c ssa.Value) bool {
		e, ok := c.(*ssa.Extract)
		return ok && e.Tuple == ssa.Value(ta) && e.Index == 1
	}
	if iff, ok := pred.Instrs[len(pred.Instrs)-1].(*ssa.If); ok && len(pred.Succs) == 2 && isOK(iff.Cond) && pred.Succs[0] == blk && pred.Succs[1] != blk {
		return true
	}
	for _, g := range guardEdges(pred) {
		if isOK(g.If.Cond) && g.Truth {
			return true
		}
	}
	return false
}

// ---- C05/defined-symbol-kind ----------------------------------------------------------------------------------
// DefineLocal returns the EXISTING symbol of a name already present in the
// table, whatever its kind: a compile-time literal constant has index -1 and no
// stack slot.  Every instruction the compiler emits with the Index of a symbol
// obtained from DefineLocal is therefore emitted only where the symbol is known
// to be fresh (the `exists` result is false) or after its Constant / Scope field
// has been tested; otherwise a name that shadows a literal constant (`try {
// const e = 1 } catch e {}`) makes the emitter panic on operand -1.
func ruleDefinedSymbolKind(c *Ctx, rule string) {
	l := c.L
	def := l.Method(modPath, "SymbolTable", "DefineLocal")
	emit := l.Method(modPath, "Compiler", "emit")
	_, fIdx := l.structField(modPath, "Symbol", "Index")
	_, fConst := l.structField(modPath, "Symbol", "Constant")
	_, fScope := l.structField(modPath, "Symbol", "Scope")
	if !c.Anchor(rule, "SymbolTable.DefineLocal / Compiler.emit / Symbol.Index, Constant, Scope", def != nil && emit != nil && fIdx >= 0 && fConst >= 0 && fScope >= 0) {
		return
	}
	opDefine, okDef := constOf(l, modPath, "OpDefineLocal")
	// DefineLocal itself: "already exists" is reported only after a test of the
	// found symbol's Scope (a builtin cached by Resolve is not a definition)
	{
		okAll, nret := true, 0
		for _, b := range def.Blocks {
			ret, ok := b.Instrs[len(b.Instrs)-1].(*ssa.Return)
			if !ok || len(ret.Results) != 2 {
				continue
			}
			k, ok := ret.Results[1].(*ssa.Const)
			if !ok || k.Value == nil || !constant.BoolVal(k.Value) {
				continue
			}
			nret++
			tested := false
			for _, g := range guardEdges(b) {
				if derivesFrom(g.If.Cond, func(v ssa.Value) bool {
					fa, ok := v.(*ssa.FieldAddr)
					return ok && fa.Field == fScope && isNamed(fa.X.Type(), modPath, "Symbol")
				}, 5) {
					tested = true
				}
			}
			if !tested {
				okAll = false
			}
		}
		c.Check(rule, "SymbolTable.DefineLocal | reports an existing symbol", l.Pos(def.Pos()), okAll && nret > 0, "only after a test of its Scope",
			"DefineLocal returns whatever the table holds under the name as 'already defined', including a builtin that Resolve cached at file scope: `x := append([], 1); append, y := [7, 2]` then defines `append` in the slot numbered like the builtin (the value of x is overwritten; an index beyond NumLocals is emitted)")
	}
	n := 0
	for _, dc := range l.StaticCallers(def) {
		call, ok := dc.(*ssa.Call)
		if !ok || call.Referrers() == nil {
			continue
		}
		fn := call.Parent()
		var sym, exists ssa.Value
		for _, r := range *call.Referrers() {
			if ex, ok := r.(*ssa.Extract); ok {
				if ex.Index == 0 {
					sym = ex
				} else {
					exists = ex
				}
			}
		}
		if sym == nil {
			continue
		}
		// a name that cannot be declared by a script (contains ':') is always fresh or an internal duplicate
		if len(call.Call.Args) > 1 {
			if k, ok := call.Call.Args[1].(*ssa.Const); ok && k.Value != nil && strings.Contains(k.Value.ExactString(), ":") {
				continue
			}
		}
		eachInstr(fn, func(ins ssa.Instruction) {
			ec, ok := ins.(*ssa.Call)
			if !ok || ec.Call.StaticCallee() != emit {
				return
			}
			usesIdx := false
			operands := append([]ssa.Value{}, ec.Call.Args...)
			if len(ec.Call.Args) > 0 {
				operands = append(operands, variadicElems(ec.Call.Args[len(ec.Call.Args)-1])...)
			}
			for _, a := range operands {
				if derivesFrom(a, func(v ssa.Value) bool {
					u, ok := v.(*ssa.UnOp)
					if !ok {
						return false
					}
					fa, ok := isFieldAddrOf(u.X, modPath, "Symbol", fIdx)
					return ok && fa.X == sym
				}, 6) {
					usesIdx = true
				}
			}
			if !usesIdx {
				return
			}
			n++
			good := false
			// a DEFINITION (OpDefineLocal) with a symbol that may already exist can
			// run at file scope, where the table also holds globals: it needs a
			// test of the symbol's Scope; for other opcodes a test of Constant
			// (literal constants are the only index-less symbols a block holds)
			// is enough
			isDefine := false
			if len(ec.Call.Args) > 2 {
				if k, ok := constInt64(ec.Call.Args[2]); ok && okDef && k == opDefine {
					isDefine = true
				}
			}
			qualifies := func(g guardEdge) bool {
				// exists == false
				if exists != nil && g.If.Cond == exists && !g.Truth {
					return true
				}
				// a test that involves the symbol's Scope (or Constant) field
				return derivesFrom(g.If.Cond, func(v ssa.Value) bool {
					fa, ok := v.(*ssa.FieldAddr)
					if !ok || fa.X != sym {
						return false
					}
					return fa.Field == fScope || (fa.Field == fConst && !isDefine)
				}, 5)
			}
			for _, g := range guardEdges(ec.Block()) {
				if qualifies(g) {
					good = true
				}
			}
			if !good {
				// a disjunction (`exists && scope != local` -> error): every feasible
				// path to the emit has taken one qualifying branch
				if paths, ok := pathGuardSets(ec.Block()); ok && len(paths) > 0 {
					all := true
					for _, p := range paths {
						one := false
						for _, g := range p {
							if qualifies(g) {
								one = true
							}
						}
						if !one {
							all = false
						}
					}
					good = all
				}
			}
			key := fmt.Sprintf("%s | emit(..., DefineLocal(%s).Index)", fnName(fn), describe(call.Call.Args[1]))
			c.Check(rule, key, l.Pos(ec.Pos()), good, "the symbol is fresh or its kind was tested",
				"an instruction is emitted with the index of a symbol that DefineLocal may have found already present as a literal constant (index -1): the emitter panics inside Compile")
		})
	}
	if n == 0 {
		c.Und(rule, "emit with the index of a DefineLocal result", "-", "none found: anchor lost")
	}
}

// ---- C05/constlit-source -----------------------------------------------------------------------------------------
// The "cannot happen" panics in constLiteral.emit / toExpr (default arms over
// the kinds a literal constant can hold) are unreachable only while every value
// stored into Symbol.constLit is (a) the result of constLitFromExpr, (b) a
// literal whose value is of one of the kinds constLitFromExpr produces, or (c)
// the constLit of a symbol known to be a literal constant (obtained from a
// lookup that returns only symbols of scope ScopeConstLit).  Copying it from a
// symbol that is merely Constant stores an empty literal, and the next use of
// the name panics inside Compile.
func ruleConstLitSource(c *Ctx, rule string) {
	l := c.L
	_, fScope := l.structField(modPath, "Symbol", "Scope")
	from := l.Func(modPath, "constLitFromExpr")
	scopeCL, okS := constOf(l, modPath, "ScopeConstLit")
	// the literal type is the result type of constLitFromExpr; its payload is its
	// field of interface type; Symbol carries it in its field of that type
	fCL, fVal := -1, -1
	if from != nil && from.Signature.Results().Len() == 1 {
		litT := from.Signature.Results().At(0).Type()
		if st, ok := litT.Underlying().(*types.Struct); ok {
			for i := 0; i < st.NumFields(); i++ {
				if _, isI := st.Field(i).Type().Underlying().(*types.Interface); isI && fVal < 0 {
					fVal = i
				}
			}
		}
		if symT := l.NamedType(modPath, "Symbol"); symT != nil {
			if st, ok := symT.Underlying().(*types.Struct); ok {
				for i := 0; i < st.NumFields(); i++ {
					if types.Identical(st.Field(i).Type(), litT) {
						fCL = i
					}
				}
			}
		}
	}
	if !c.Anchor(rule, "Symbol.constLit / Symbol.Scope / constLiteral.value / constLitFromExpr / ScopeConstLit", fCL >= 0 && fScope >= 0 && fVal >= 0 && from != nil && okS) {
		return
	}
	// kinds produced by constLitFromExpr
	kinds := map[string]bool{}
	eachInstr(from, func(ins ssa.Instruction) {
		if mi, ok := ins.(*ssa.MakeInterface); ok {
			kinds[tstr(mi.X.Type())] = true
		}
	})
	// lookups that return only ScopeConstLit symbols when asked for that scope:
	// every non-nil return is guarded by Scope == the scope parameter
	scopeFiltered := func(f *ssa.Function) (int, bool) {
		pi := -1
		for i, p := range f.Params {
			if isNamed(p.Type(), modPath, "SymbolScope") {
				pi = i
			}
		}
		if pi < 0 {
			return -1, false
		}
		for _, b := range f.Blocks {
			ret, ok := b.Instrs[len(b.Instrs)-1].(*ssa.Return)
			if !ok || len(ret.Results) != 1 {
				continue
			}
			if k, ok := ret.Results[0].(*ssa.Const); ok && k.IsNil() {
				continue
			}
			guarded := false
			for _, g := range guardEdges(b) {
				bo, ok := g.If.Cond.(*ssa.BinOp)
				if !ok || (bo.Op != token.EQL && bo.Op != token.NEQ) || (bo.Op == token.EQL) != g.Truth {
					continue
				}
				for _, pr := range [][2]ssa.Value{{bo.X, bo.Y}, {bo.Y, bo.X}} {
					if pr[1] != ssa.Value(f.Params[pi]) {
						continue
					}
					if u, ok := pr[0].(*ssa.UnOp); ok {
						if fa, ok := isFieldAddrOf(u.X, modPath, "Symbol", fScope); ok && fa.X == ret.Results[0] {
							guarded = true
						}
					}
				}
			}
			if !guarded {
				return pi, false
			}
		}
		return pi, true
	}
	isLitSymbol := func(s ssa.Value, at *ssa.BasicBlock) bool {
		if cl, ok := s.(*ssa.Call); ok {
			if f := cl.Call.StaticCallee(); f != nil && funcPkgPath(f) == modPath && len(f.Blocks) > 0 {
				if pi, ok := scopeFiltered(f); ok && pi < len(cl.Call.Args) {
					if k, ok := constInt64(cl.Call.Args[pi]); ok && k == scopeCL {
						return true
					}
				}
			}
		}
		// or a test of the symbol's scope on the way to the store
		for _, g := range guardEdges(at) {
			bo, ok := g.If.Cond.(*ssa.BinOp)
			if !ok || (bo.Op != token.EQL && bo.Op != token.NEQ) || (bo.Op == token.EQL) != g.Truth {
				continue
			}
			for _, pr := range [][2]ssa.Value{{bo.X, bo.Y}, {bo.Y, bo.X}} {
				if k, ok := constInt64(pr[1]); !ok || k != scopeCL {
					continue
				}
				if u, ok := pr[0].(*ssa.UnOp); ok {
					if fa, ok := isFieldAddrOf(u.X, modPath, "Symbol", fScope); ok && fa.X == s {
						return true
					}
				}
			}
		}
		return false
	}
	n := 0
	for _, fn := range l.RepoFuncs(func(p string) bool { return p == modPath }) {
		eachInstr(fn, func(ins ssa.Instruction) {
			st, ok := ins.(*ssa.Store)
			if !ok {
				return
			}
			if _, ok := isFieldAddrOf(st.Addr, modPath, "Symbol", fCL); !ok {
				return
			}
			n++
			good, why := false, "the stored value is not recognised as a literal constant"
			switch v := st.Val.(type) {
			case *ssa.Call:
				good = v.Call.StaticCallee() == from
			case *ssa.UnOp:
				if al, ok := v.X.(*ssa.Alloc); ok && al.Referrers() != nil {
					// a constLiteral{value: X} built in place
					good = true
					seenVal := false
					for _, r := range *al.Referrers() {
						fa, ok := r.(*ssa.FieldAddr)
						if !ok || fa.Field != fVal || fa.Referrers() == nil {
							continue
						}
						for _, rr := range *fa.Referrers() {
							if s2, ok := rr.(*ssa.Store); ok && s2.Addr == ssa.Value(fa) {
								seenVal = true
								mi, ok := s2.Val.(*ssa.MakeInterface)
								if !ok || !kinds[tstr(mi.X.Type())] {
									good = false
									why = "a literal of a kind constLitFromExpr never produces (" + describe(s2.Val) + ")"
								}
							}
						}
					}
					if !seenVal {
						good, why = false, "an empty constLiteral"
					}
				} else if fa, ok := isFieldAddrOf(v.X, modPath, "Symbol", fCL); ok {
					good = isLitSymbol(fa.X, st.Block())
					why = "copied from a symbol that is not known to be a literal constant (scope ScopeConstLit)"
				}
			}
			c.Check(rule, fmt.Sprintf("%s | symbol.constLit = %s", fnName(fn), describe(st.Val)), l.Pos(st.Pos()), good, "a literal of a handled kind", why+": the symbol carries an empty literal and the next use of the name reaches the 'unexpected object type' panic inside Compile")
		})
	}
	if n == 0 {
		c.Und(rule, "stores to Symbol.constLit", "-", "none found: anchor lost")
	}
}
