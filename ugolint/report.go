package main

import (
	"encoding/json"
	"fmt"
	"os"
	"path/filepath"
	"sort"
	"strconv"
	"strings"
	"time"
)

type Outcome string

const (
	Discharged   Outcome = "discharged"
	Audited      Outcome = "audited"
	KnownFinding Outcome = "known-finding"
	Violation    Outcome = "violation"
	Undecided    Outcome = "undecided"
	Info         Outcome = "info"
)

// Obl is one rule instance (obligation).  Key identifies the construct without
// line numbers or source text; Pos is for diagnosis only.
type Obl struct {
	Rule    string  `json:"rule"`
	Key     string  `json:"construct"`
	Pos     string  `json:"pos"`
	Outcome Outcome `json:"outcome"`
	Detail  string  `json:"detail,omitempty"`
	Config  string  `json:"config,omitempty"`
	Reason  string  `json:"reason,omitempty"` // audit / finding text
}

type ruleInfo struct {
	Doc   string
	Floor int
}

type Ctx struct {
	Prop   string
	Tier   string
	L      *Loaded
	obls   []Obl
	rules  map[string]*ruleInfo
	order  []string
	notes  []string
	seen   map[string]int // ordinal counter for identical keys
	start  time.Time
	extra  map[string]any
	sens   []sensResult
	onlyRK string // replay: restrict output to this rule|key
}

func newCtx(prop, tier string, l *Loaded) *Ctx {
	return &Ctx{Prop: prop, Tier: tier, L: l, rules: map[string]*ruleInfo{}, seen: map[string]int{}, start: time.Now(), extra: map[string]any{}}
}

// Rule declares a rule of the running property with its documentation and
// the minimum number of instances that must be found on any tree.
func (c *Ctx) Rule(name, doc string, floor int) string {
	id := c.Prop + "/" + name
	if _, ok := c.rules[id]; !ok {
		c.rules[id] = &ruleInfo{Doc: doc, Floor: floor}
		c.order = append(c.order, id)
	}
	return id
}

func (c *Ctx) add(rule, key, pos string, o Outcome, detail string) {
	if _, ok := c.rules[rule]; !ok {
		panic("undeclared rule " + rule)
	}
	cfg := ""
	if c.L != nil {
		cfg = c.L.Config
	}
	// identical constructs in one function get an ordinal
	k := rule + "|" + key + "|" + cfg
	c.seen[k]++
	if n := c.seen[k]; n > 1 {
		key = key + " #" + strconv.Itoa(n)
	}
	c.obls = append(c.obls, Obl{Rule: rule, Key: key, Pos: pos, Outcome: o, Detail: detail, Config: cfg})
}

func (c *Ctx) Ok(rule, key, pos, detail string)  { c.add(rule, key, pos, Discharged, detail) }
func (c *Ctx) Bad(rule, key, pos, detail string) { c.add(rule, key, pos, Violation, detail) }
func (c *Ctx) Und(rule, key, pos, detail string) { c.add(rule, key, pos, Undecided, detail) }
func (c *Ctx) Note(format string, a ...any)      { c.notes = append(c.notes, fmt.Sprintf(format, a...)) }
func (c *Ctx) Check(rule, key, pos string, ok bool, okDetail, badDetail string) {
	if ok {
		c.Ok(rule, key, pos, okDetail)
	} else {
		c.Bad(rule, key, pos, badDetail)
	}
}

// Anchor reports a missing anchor as an undecided obligation of the rule and
// returns false when v is nil.
func (c *Ctx) Anchor(rule, what string, present bool) bool {
	if !present {
		c.Und(rule, "anchor "+what, "-", "unresolved anchor: "+what+" (renamed or removed; the rule cannot be evaluated)")
	}
	return present
}

// ---- audit and known findings ----------------------------------------------

type auditEntry struct {
	Rule   string `json:"rule"`
	Key    string `json:"construct"`
	Reason string `json:"reason"`
}

type findingEntry struct {
	Status   string `json:"status"` // "known" or "fixed"
	Property string `json:"property"`
	Rule     string `json:"rule"`
	Key      string `json:"construct"`
	What     string `json:"what"`
	Input    string `json:"failing_input,omitempty"`
	Commit   string `json:"commit,omitempty"`
	Line     string `json:"line,omitempty"` // the "fixed: property=.." line
}

func verifDir() string {
	if d := os.Getenv("VERIF_DIR"); d != "" {
		return d
	}
	exe, err := os.Executable()
	if err == nil {
		d := filepath.Dir(filepath.Dir(exe))
		if _, err := os.Stat(filepath.Join(d, "properties.jsonl")); err == nil {
			return d
		}
	}
	return "/verif"
}

func loadJSON(path string, v any) error {
	b, err := os.ReadFile(path)
	if err != nil {
		return err
	}
	return json.Unmarshal(b, v)
}

type finishResult struct {
	violations int
	known      int
}

// classify applies floors, the audit table and the known findings to the
// collected obligations (no output, no files).
func (c *Ctx) classify() int {
	vd := verifDir()
	var audits []auditEntry
	var findings []findingEntry
	if err := loadJSON(filepath.Join(vd, "audit.json"), &audits); err != nil && !os.IsNotExist(err) {
		fmt.Println("ERROR: audit.json:", err)
		return 2
	}
	if err := loadJSON(filepath.Join(vd, "known_findings.json"), &findings); err != nil && !os.IsNotExist(err) {
		fmt.Println("ERROR: known_findings.json:", err)
		return 2
	}
	auditBy := map[string]*auditEntry{}
	for i := range audits {
		auditBy[audits[i].Rule+"|"+audits[i].Key] = &audits[i]
	}
	findBy := map[string]*findingEntry{}
	for i := range findings {
		f := &findings[i]
		if f.Status == "known" {
			findBy[f.Rule+"|"+f.Key] = f
		}
	}
	usedAudit := map[string]bool{}
	usedFinding := map[string]bool{}
	// floors
	count := map[string]int{}
	for _, o := range c.obls {
		if o.Outcome != Info {
			count[o.Rule]++
		}
	}
	hostCfg := ""
	if c.L != nil {
		hostCfg = c.L.Config
	}
	for _, id := range c.order {
		ri := c.rules[id]
		if count[id] < ri.Floor {
			c.obls = append(c.obls, Obl{Rule: id, Key: "floor", Pos: "-", Outcome: Undecided, Config: hostCfg,
				Detail: fmt.Sprintf("rule matched %d instances, fewer than the structural minimum %d: anchors vanished, the rule would pass vacuously", count[id], ri.Floor)})
		}
	}
	for i := range c.obls {
		o := &c.obls[i]
		if o.Outcome != Violation && o.Outcome != Undecided {
			continue
		}
		k := o.Rule + "|" + o.Key
		if a, ok := auditBy[k]; ok && o.Outcome == Violation {
			o.Outcome, o.Reason = Audited, a.Reason
			usedAudit[k] = true
			continue
		}
		if f, ok := findBy[k]; ok && o.Outcome == Violation {
			o.Outcome, o.Reason = KnownFinding, f.What
			usedFinding[k] = true
		}
	}
	// stale entries (warnings)
	for k, a := range auditBy {
		if strings.HasPrefix(a.Rule, c.Prop+"/") && !usedAudit[k] {
			c.Note("stale audit entry (matches nothing on this tree): %s", k)
		}
	}
	for k, f := range findBy {
		if f.Property == c.Prop && strings.HasPrefix(f.Rule, c.Prop+"/") && !usedFinding[k] {
			c.Note("known finding no longer detected (repaired or construct changed): %s", k)
		}
	}

	return 0
}

func (c *Ctx) finish() int {
	if rc := c.classify(); rc != 0 {
		return rc
	}
	vd := verifDir()

	sort.SliceStable(c.obls, func(i, j int) bool {
		a, b := c.obls[i], c.obls[j]
		if a.Rule != b.Rule {
			return a.Rule < b.Rule
		}
		if a.Key != b.Key {
			return a.Key < b.Key
		}
		return a.Config < b.Config
	})

	nViol, nKnown, nAud, nDis, nInfo := 0, 0, 0, 0, 0
	evDir := filepath.Join(vd, "evidence")
	if d := os.Getenv("UGOLINT_EVDIR"); d != "" {
		evDir = d // trial runs against scratch trees must not overwrite the evidence
	}
	os.MkdirAll(filepath.Join(evDir, "replay"), 0o755)
	// remove stale replay files of this property
	old, _ := filepath.Glob(filepath.Join(evDir, "replay", c.Prop+"-*.json"))
	for _, f := range old {
		os.Remove(f)
	}
	printedKnown := map[string]bool{}
	var violLines []string
	for _, o := range c.obls {
		switch o.Outcome {
		case Discharged:
			nDis++
		case Audited:
			nAud++
		case Info:
			nInfo++
		case KnownFinding:
			nKnown++
			k := o.Rule + "|" + o.Key
			if !printedKnown[k] {
				printedKnown[k] = true
				fmt.Printf("KNOWN-FINDING: property=%s %s [%s] at %s: %s\n", c.Prop, o.Rule, o.Key, o.Pos, o.Reason)
			}
		case Violation, Undecided:
			nViol++
			rp := filepath.Join(evDir, "replay", fmt.Sprintf("%s-%d.json", c.Prop, nViol))
			b, _ := json.MarshalIndent(map[string]any{"property": c.Prop, "rule": o.Rule, "construct": o.Key, "pos": o.Pos, "outcome": o.Outcome, "detail": o.Detail, "config": o.Config, "rule_doc": c.rules[o.Rule].Doc}, "", " ")
			os.WriteFile(rp, b, 0o644)
			fmt.Printf("%s: %s: [%s] %s: %s\n", o.Pos, o.Rule, o.Key, o.Outcome, o.Detail)
			violLines = append(violLines, fmt.Sprintf("VIOLATION property=%s replay=%s", c.Prop, rp))
		}
	}
	for _, n := range c.notes {
		fmt.Println("note:", n)
	}
	c.writeEvidence(evDir, nViol, nKnown, nAud, nDis, nInfo)
	fmt.Printf("%s %s: %d obligations: %d discharged, %d audited, %d known findings, %d violations/undecided (%.1fs)\n",
		c.Prop, c.Tier, nDis+nAud+nKnown+nViol, nDis, nAud, nKnown, nViol, time.Since(c.start).Seconds())
	for _, l := range violLines {
		fmt.Println(l)
	}
	if nViol > 0 {
		return 1
	}
	return 0
}

func (c *Ctx) writeEvidence(evDir string, nViol, nKnown, nAud, nDis, nInfo int) {
	type ruleStat struct {
		Rule      string         `json:"rule"`
		Doc       string         `json:"doc"`
		Floor     int            `json:"floor"`
		Instances int            `json:"instances"`
		Outcomes  map[string]int `json:"outcomes"`
	}
	stats := map[string]*ruleStat{}
	var rs []*ruleStat
	for _, id := range c.order {
		s := &ruleStat{Rule: id, Doc: c.rules[id].Doc, Floor: c.rules[id].Floor, Outcomes: map[string]int{}}
		stats[id] = s
		rs = append(rs, s)
	}
	distinct := map[string]bool{}
	for _, o := range c.obls {
		s := stats[o.Rule]
		if o.Outcome != Info {
			s.Instances++
			distinct[o.Rule+"|"+o.Key] = true
		}
		s.Outcomes[string(o.Outcome)]++
	}
	// samples: every non-discharged obligation plus up to 6 discharged per rule
	var samples []Obl
	per := map[string]int{}
	for _, o := range c.obls {
		if o.Outcome == Discharged || o.Outcome == Info {
			if per[o.Rule+string(o.Outcome)] >= 6 {
				continue
			}
			per[o.Rule+string(o.Outcome)]++
		}
		samples = append(samples, o)
	}
	seed, _ := strconv.Atoi(os.Getenv("VERIF_SEED"))
	total := nDis + nAud + nKnown + nViol
	cov := map[string]any{
		"explanation":         explainOf(c.Prop),
		"obligations":         total,
		"discharged":          nDis,
		"audited":             nAud,
		"known_findings":      nKnown,
		"violations":          nViol,
		"informational":       nInfo,
		"evaluations":         total,
		"distinct_nontrivial": len(distinct),
		"rule":                "one obligation per (rule, construct): a construct is a call site, switch arm, table cell, field or function named by role; distinct = distinct (rule, construct) keys; every obligation is non-trivial in that it names a construct that exists in the analysed tree",
		"rules":               rs,
		"samples":             samples,
		"checker_cmd":         "./check " + c.Prop + " " + c.Tier,
		"trusted_base":        []string{"go/types and go/ssa of golang.org/x/tools v0.29.0", "go/packages loading of the build configuration analysed", "audit.json (one named construct per exception)"},
		"exhaustive":          true,
		"notes":               c.notes,
	}
	if c.L != nil {
		var pk []string
		nf := 0
		for _, p := range c.L.Pkgs {
			pk = append(pk, p.PkgPath)
		}
		nf = len(c.L.RepoFuncs(nil))
		cov["packages_analysed"] = pk
		cov["repo_functions_analysed"] = nf
		cov["source_dir"] = c.L.Dir
	}
	for k, v := range c.extra {
		cov[k] = v
	}
	if len(c.sens) > 0 {
		cov["sensitivity"] = c.sens
	}
	ev := map[string]any{
		"property_id": c.Prop,
		"tier":        c.Tier,
		"seed":        seed,
		"level":       "other",
		"coverage":    cov,
		"assumptions": []string{
			"the Go type checker and SSA construction are correct for the analysed build configuration",
			"each audit.json exception is correct for the single construct it names (reason recorded there)",
			"the structural clauses decided are necessary, not sufficient, conditions of the behavioural property (see coverage.explanation)",
		},
		"wall_s":     time.Since(c.start).Seconds(),
		"violations": nViol,
	}
	b, _ := json.MarshalIndent(ev, "", " ")
	if err := os.WriteFile(filepath.Join(evDir, c.Prop+".json"), b, 0o644); err != nil {
		fmt.Println("ERROR: writing evidence:", err)
	}
}

type sensResult struct {
	Name     string `json:"mutation"`
	Rule     string `json:"rule"`
	Result   string `json:"result"` // detected | insensitive | skipped
	Reported string `json:"reported,omitempty"`
}

var propExplain = map[string]string{}

func explainOf(prop string) string {
	if s := propExplain[prop]; s != "" {
		return s
	}
	if m, ok := metas[prop]; ok && m.Text != "" {
		return m.Text
	}
	return "structural clauses of " + prop + " (see DESIGN.md section 3)"
}
