package main

import (
	"fmt"
	"go/ast"
	"go/constant"
	"go/token"
	"go/types"
	"sort"
	"strings"

	"golang.org/x/tools/go/ssa"
)

func init() {
	props["C01"] = propC01
}

// litObjPairs reads the literal-node -> object-type mapping from the type
// switch of constLitFromExpr (the compiler's literal -> constant direction).
func litObjPairs(l *Loaded) map[string]string {
	p := l.ByPath[modPath]
	out := map[string]string{}
	fo, _ := p.Types.Scope().Lookup("constLitFromExpr").(*types.Func)
	fd := l.Decl(fo)
	if fd == nil {
		return out
	}
	info := p.TypesInfo
	ast.Inspect(fd.Body, func(n ast.Node) bool {
		cl, ok := n.(*ast.CaseClause)
		if !ok || len(cl.List) != 1 {
			return true
		}
		lt := info.TypeOf(cl.List[0])
		if lt == nil || namedOf(lt) == nil {
			return true
		}
		for _, s := range cl.Body {
			if as, ok := s.(*ast.AssignStmt); ok && len(as.Rhs) == 1 {
				if t := info.TypeOf(as.Rhs[0]); t != nil && namedOf(t) != nil {
					// value = Undefined has static type Object: use the initialiser's type
					if id, ok := ast.Unparen(as.Rhs[0]).(*ast.Ident); ok {
						if v, ok := info.Uses[id].(*types.Var); ok && v.Parent() == p.Types.Scope() {
							if it := initType(p, v); it != nil {
								t = it
							}
						}
					}
					out[namedOf(lt).Obj().Name()] = namedOf(t).Obj().Name()
				}
			}
		}
		return true
	})
	return out
}

func propC01(c *Ctx) {
	l := c.L
	p := l.ByPath[modPath]
	info := p.TypesInfo

	// ---- fold-guard -----------------------------------------------------------------
	rf := c.Rule("fold-guard", "every integer / % and signed shift in the optimizer's folding code has a dominating zero / sign test (otherwise the optimizer crashes on a constant expression instead of leaving it to the evaluator)", 2)
	ruleArithGuard(c, rf, optimizerFuncs(c))

	// ---- lit-roundtrip -----------------------------------------------------------------
	rl := c.Rule("lit-roundtrip", "the evaluator's object -> literal table (slowEvalExpr) is the inverse of the compiler's literal -> object table (constLitFromExpr) on every constant kind, and each conversion is between identical underlying types", 7)
	pairs := litObjPairs(l)
	if c.Anchor(rl, "constLitFromExpr type switch (at least 7 literal kinds)", len(pairs) >= 7) {
		slow := l.Decl(methodObj(p.Types, "SimpleOptimizer", "slowEvalExpr"))
		if c.Anchor(rl, "SimpleOptimizer.slowEvalExpr", slow != nil) {
			back := map[string]string{}
			ast.Inspect(slow.Body, func(n ast.Node) bool {
				cl, ok := n.(*ast.CaseClause)
				if !ok || len(cl.List) != 1 {
					return true
				}
				ot := info.TypeOf(cl.List[0])
				if ot == nil || namedOf(ot) == nil {
					return true
				}
				ast.Inspect(cl, func(m ast.Node) bool {
					if lit, ok := m.(*ast.CompositeLit); ok {
						if lt := info.TypeOf(lit); lt != nil && namedOf(lt) != nil && namedOf(lt).Obj().Pkg() != nil && namedOf(lt).Obj().Pkg().Path() == parserPath {
							back[namedOf(ot).Obj().Name()] = namedOf(lt).Obj().Name()
						}
					}
					return true
				})
				return true
			})
			var lits []string
			for k := range pairs {
				lits = append(lits, k)
			}
			sort.Strings(lits)
			for _, lit := range lits {
				obj := pairs[lit]
				c.Check(rl, lit+" <-> "+obj, l.Pos(slow.Pos()), back[obj] == lit, "inverse pair", fmt.Sprintf("the compiler turns %s into %s but the evaluator turns %s into %q: a folded constant changes kind", lit, obj, obj, back[obj]))
			}
		}
	}

	// the third table: constLiteral.toExpr (constant -> literal substituted for an identifier)
	if te := l.Decl(methodObj(p.Types, "constLiteral", "toExpr")); c.Anchor(rl, "constLiteral.toExpr", te != nil) && len(pairs) >= 7 {
		back := map[string]string{}
		ast.Inspect(te.Body, func(n ast.Node) bool {
			cl, ok := n.(*ast.CaseClause)
			if !ok || len(cl.List) != 1 {
				return true
			}
			ot := info.TypeOf(cl.List[0])
			if ot == nil || namedOf(ot) == nil {
				return true
			}
			ast.Inspect(cl, func(m ast.Node) bool {
				if lit, ok := m.(*ast.CompositeLit); ok {
					if lt := info.TypeOf(lit); lt != nil && namedOf(lt) != nil && namedOf(lt).Obj().Pkg() != nil && namedOf(lt).Obj().Pkg().Path() == parserPath {
						back[namedOf(ot).Obj().Name()] = namedOf(lt).Obj().Name()
					}
				}
				return true
			})
			return true
		})
		var lits []string
		for k := range pairs {
			lits = append(lits, k)
		}
		sort.Strings(lits)
		for _, lit := range lits {
			obj := pairs[lit]
			c.Check(rl, "toExpr: "+obj+" -> "+lit, l.Pos(te.Pos()), back[obj] == lit, "inverse pair", fmt.Sprintf("a %s constant substituted for an identifier becomes a %q literal, which the compiler turns into another object kind than %s: the optimized program computes with a different type (e.g. uint constant folded with int semantics)", obj, back[obj], obj))
		}
	}

	// ---- falsy-agree ----------------------------------------------------------------------
	ry := c.Rule("falsy-agree", "the optimizer's truthiness of a literal is the IsFalsy of the object the literal denotes (dead-branch elimination must choose the branch the VM would take): each arm of isLiteralFalsy calls IsFalsy on the object type paired with its literal kind", 6)
	falsyFn, _ := p.Types.Scope().Lookup("isLiteralFalsy").(*types.Func)
	if fd := l.Decl(falsyFn); c.Anchor(ry, "isLiteralFalsy", fd != nil) {
		ast.Inspect(fd.Body, func(n ast.Node) bool {
			cl, ok := n.(*ast.CaseClause)
			if !ok || len(cl.List) != 1 {
				return true
			}
			lt := info.TypeOf(cl.List[0])
			if lt == nil || namedOf(lt) == nil {
				return true
			}
			lit := namedOf(lt).Obj().Name()
			want, known := pairs[lit]
			key := "isLiteralFalsy | case " + lit
			for _, s := range cl.Body {
				ret, ok := s.(*ast.ReturnStmt)
				if !ok || len(ret.Results) == 0 {
					continue
				}
				x := ast.Unparen(ret.Results[0])
				if want == "Bool" {
					// !v.Value
					u, ok := x.(*ast.UnaryExpr)
					c.Check(ry, key, l.Pos(ret.Pos()), ok && u.Op == token.NOT, "negation of the literal's value", "a boolean literal's falsiness is not the negation of its value")
					continue
				}
				call, ok := x.(*ast.CallExpr)
				good := false
				got := exprShape(info, x, nil)
				if ok {
					if sel, ok := call.Fun.(*ast.SelectorExpr); ok && sel.Sel.Name == "IsFalsy" {
						rt := info.TypeOf(sel.X)
						if id, ok := ast.Unparen(sel.X).(*ast.Ident); ok {
							if v, ok := info.Uses[id].(*types.Var); ok && v.Parent() == p.Types.Scope() {
								if it := initType(p, v); it != nil {
									rt = it
								}
							}
						}
						if rt != nil && namedOf(rt) != nil && known && namedOf(rt).Obj().Name() == want {
							good = true
						}
					}
				}
				c.Check(ry, key, l.Pos(ret.Pos()), good, "calls "+want+".IsFalsy", fmt.Sprintf("falsiness of a %s is computed as %s instead of %s(...).IsFalsy(): the optimizer and the VM disagree for some literal (e.g. 0.0, which is truthy for the VM)", lit, got, want))
			}
			return true
		})
	}

	// ---- fold-agree ----------------------------------------------------------------------------
	ra := c.Rule("fold-agree", "every cell of the optimizer's hand-written binary folding tables applies the Go operator that the VM's BinaryOp applies for the same token and operand types (table of (literal kind, token) against the operator table extracted from the run-time code)", 12)
	tb := newTabber(l)
	toks := tokenConsts(l)
	tokName := map[int64]string{}
	for n, v := range toks {
		tokName[v] = n
	}
	for _, fn := range []string{"binaryopInts", "binaryopFloats", "binaryop"} {
		fd := l.Decl(methodObj(p.Types, "SimpleOptimizer", fn))
		if !c.Anchor(ra, "SimpleOptimizer."+fn, fd != nil) {
			continue
		}
		// literal kind of the operands: the parameter types / asserted types
		ast.Inspect(fd.Body, func(n ast.Node) bool {
			cl, ok := n.(*ast.CaseClause)
			if !ok {
				return true
			}
			for _, x := range cl.List {
				tv, ok := info.Types[x]
				if !ok || tv.Value == nil || !isNamed(tv.Type, modPath+"/token", "Token") {
					continue
				}
				k, _ := constInt(tv)
				tn := tokName[k]
				// binary expressions on <lit>.Value operands inside this clause
				ast.Inspect(cl, func(m ast.Node) bool {
					be, ok := m.(*ast.BinaryExpr)
					if !ok {
						return true
					}
					lk, rk := litKindOfValue(info, be.X), litKindOfValue(info, be.Y)
					if lk == "" || rk == "" || lk != rk {
						return true
					}
					obj, ok := pairs[lk]
					if !ok {
						return true
					}
					T := l.NamedType(modPath, obj)
					if T == nil {
						return true
					}
					switch be.Op {
					case token.EQL, token.NEQ, token.LSS, token.GTR, token.LEQ, token.GEQ, token.LAND, token.LOR:
						return true // guards, not folded results
					}
					bc := summariseBO(tb, T, T, k)
					key := fmt.Sprintf("%s | %s %s %s", fn, lk, tn, rk)
					has := false
					for _, op := range bc.ops {
						if op == be.Op.String() {
							has = true
						}
					}
					c.Check(ra, key, l.Pos(be.Pos()), has && len(bc.undecided) == 0, "folds with "+be.Op.String()+" like "+obj+".BinaryOp",
						fmt.Sprintf("the optimizer folds %s %s %s with Go operator %s but %s.BinaryOp applies %v for this token", lk, tn, rk, be.Op, obj, bc.ops))
					return true
				})
			}
			return true
		})
	}
	// string concatenation: the only folded string cell is guarded by op == token.Add
	// (covered by the generic scan above only for switch clauses), check it explicitly
	if bfn := l.Method(modPath, "SimpleOptimizer", "binaryop"); bfn != nil {
		addTok := int64(-1)
		for k, n := range tokName {
			if n == "Add" {
				addTok = k
			}
		}
		eachInstr(bfn, func(ins ssa.Instruction) {
			bo, ok := ins.(*ssa.BinOp)
			if !ok || bo.Op != token.ADD {
				return
			}
			if bt, ok := bo.X.Type().Underlying().(*types.Basic); !ok || bt.Info()&types.IsString == 0 {
				return
			}
			// every feasible path to the concatenation has taken the branch op == token.Add
			guarded := false
			for _, g := range guardEdges(bo.Block()) {
				cmp, ok := g.If.Cond.(*ssa.BinOp)
				if !ok || (cmp.Op != token.EQL && cmp.Op != token.NEQ) {
					continue
				}
				for _, pr := range [][2]ssa.Value{{cmp.X, cmp.Y}, {cmp.Y, cmp.X}} {
					if _, isParam := pr[0].(*ssa.Parameter); !isParam {
						continue
					}
					if k, ok := constInt64(pr[1]); ok && k == addTok && (cmp.Op == token.EQL) == g.Truth {
						guarded = true
					}
				}
			}
			c.Check(ra, "binaryop | StringLit Add StringLit", l.Pos(bo.Pos()), guarded, "string concatenation folded only for token.Add", "string literals are concatenated for a token other than +")
		})
	}

	rsa := c.Rule("scope-agree", "the optimizer forgets shadowed names only at syntax for which every compiler function that compiles the node's contents forks the symbol table (otherwise a name declared there is still in the compiler's scope, e.g. in sibling catch/finally bodies, while the optimizer folds the builtin again)", 1)
	ruleScopeAgree(c, rsa)
	rfe := c.Rule("fold-err-agree", "wherever the VM's operator cell returns an error for some operands of a token (zero divisor), the folding table declines under a test of the operand instead of folding to a value", 2)
	ruleFoldErrAgree(c, rfe)
	rfr := c.Rule("fold-range-agree", "for / % << >> on ints the folding table folds only right operands for which the VM's operator computes a value (operand range at the folding instruction within the range at the VM's instruction)", 4)
	ruleFoldRangeAgree(c, rfr)
	ria := c.Rule("init-always", "the init statement of an if/for statement is compiled whatever the statement's condition is (a condition folded to a literal must not change what else is compiled)", 1)
	ruleInitAlways(c, ria)

	// ---- symtab-current ---------------------------------------------------------------------------
	rs := c.Rule("symtab-current", "whenever the compiler (re)initialises its optimizer, the optimizer's view of the symbol table is set from the compiler's CURRENT scope table: every store to the optimizer's table field takes a parameter, and every caller passes the compiler's symbolTable (a stale table makes the optimizer replace an identifier that a nested scope shadowed)", 2)
	_, fComp := l.structField(modPath, "SimpleOptimizer", "compSymTab")
	_, fSym := l.structField(modPath, "Compiler", "symbolTable")
	if c.Anchor(rs, "SimpleOptimizer.compSymTab / Compiler.symbolTable", fComp >= 0 && fSym >= 0) {
		for _, fn := range l.RepoFuncs(func(pp string) bool { return pp == modPath }) {
			eachInstr(fn, func(ins ssa.Instruction) {
				st, ok := ins.(*ssa.Store)
				if !ok {
					return
				}
				if _, ok := isFieldAddrOf(st.Addr, modPath, "SimpleOptimizer", fComp); !ok {
					return
				}
				prm, isParam := st.Val.(*ssa.Parameter)
				key := fmt.Sprintf("%s | compSymTab = %s", fnName(fn), describe(st.Val))
				if !isParam {
					c.Bad(rs, key, l.Pos(st.Pos()), "the optimizer's symbol-table view is set from something other than a parameter (e.g. its own previous value): after the compiler enters a nested scope the optimizer keeps resolving names in the outer one")
					return
				}
				idx := -1
				for i, q := range fn.Params {
					if q == prm {
						idx = i
					}
				}
				good, n := true, 0
				for _, ci := range l.StaticCallers(fn) {
					if r := ci.Parent().Signature.Recv(); r == nil || !isNamed(r.Type(), modPath, "Compiler") {
						continue
					}
					n++
					a := ci.Common().Args[idx]
					u, ok := a.(*ssa.UnOp)
					if !ok {
						good = false
						continue
					}
					if _, ok := isFieldAddrOf(u.X, modPath, "Compiler", fSym); !ok {
						good = false
					}
				}
				c.Check(rs, key, l.Pos(st.Pos()), good && n > 0, fmt.Sprintf("parameter; %d compiler call site(s) pass c.symbolTable", n), "a compiler call site does not pass its current symbolTable")
			})
		}
	}

	// ---- bind-cover --------------------------------------------------------------------------------
	rb := c.Rule("bind-cover", "every syntactic way of binding a name (every *Ident / []*Ident field of the parser's AST nodes, audited non-binding fields aside) is passed to the optimizer's shadow tracking: a binding form the compiler honours and the optimizer ignores lets a shadowed builtin be folded as the builtin", 5)
	ruleBindCover(c, rb)

	// ---- eval-inherit / shadow-define ----------------------------------------------------------------
	ri := c.Rule("eval-inherit", "the evaluator re-inherits disabled and shadowed builtin names before compiling each candidate expression", 3)
	if roles := resolveSymtabRoles(c, ri); roles != nil {
		ruleEvalInherit(c, ri, roles)
		rra := c.Rule("reset-always", "the function that prepares the optimizer's evaluator empties its symbol table on every path (reset or a new table) before the builtin states are inherited", 1)
		ruleResetAlways(c, rra, roles)
		rrt := c.Rule("reset-total", "reset removes every symbol of the evaluator's table: no builtin resolved by an earlier evaluation survives to be found before the shadowed names are consulted", 1)
		ruleResetTotal(c, rrt, roles)
	}
	rccf := c.Rule("const-cache-float", "a Float constant reaches the value-keyed constant cache only after the sign of a zero has been examined (0.0 and -0.0 are one map key; the optimizer folds -0.0 into a literal, the plain compiler negates at run time)", 1)
	ruleConstCacheFloat(c, rccf)
	rse := c.Rule("shared-expr-no-rewrite", "an expression that is compiled once per member of a const group (implicit repetition) is not rewritten in place by the compile-time folder: every call of the folder is guarded by the compiler's shared-expression flag and the function that carries the expression over raises it", 2)
	ruleSharedExprNoRewrite(c, rse)
	rle := c.Rule("lookup-every-scope", "the name lookup behind the optimizer's constant substitution visits every enclosing symbol table (it steps to the direct parent): a definition that hides an outer literal constant is always seen", 1)
	ruleLookupEveryScope(c, rle)
	rrr := c.Rule("rewrite-by-result", "the optimizer rewrites the tree only by putting the result of a folding / evaluating call in the place of the folded expression: no sub-expression is moved from one node to another", 10)
	ruleRewriteByResult(c, rrr)
	rdk := c.Rule("decl-kind-agree", "the optimizer's scope tracking handles every declaration kind (param, global, var, const) the compiler declares names for: every kind compared with GenDecl.Tok in the compiler is compared in the optimizer", 1)
	ruleDeclKindAgree(c, rdk)
	rla := c.Rule("assign-lhs-all", "the optimizer registers every target of an assignment / definition as shadowing: the registering loop is bounded by the length of the left-hand side", 1)
	ruleAssignLHSAll(c, rla)
	rsd := c.Rule("shadow-define", "every symbol-table definer records that the name shadows a builtin (the compiler-side source of the evaluator's shadow set)", 4)
	ruleShadowDefine(c, rsd)
}

func constInt(tv types.TypeAndValue) (int64, bool) {
	if tv.Value == nil {
		return 0, false
	}
	return constantInt64(tv)
}

// litKindOfValue: x is `<expr>.Value` with <expr> of type *parser.XLit: returns "XLit".
func litKindOfValue(info *types.Info, x ast.Expr) string {
	sel, ok := ast.Unparen(x).(*ast.SelectorExpr)
	if !ok || sel.Sel.Name != "Value" {
		return ""
	}
	t := info.TypeOf(sel.X)
	n := namedOf(t)
	if n == nil || n.Obj().Pkg() == nil || n.Obj().Pkg().Path() != parserPath || !strings.HasSuffix(n.Obj().Name(), "Lit") {
		return ""
	}
	return n.Obj().Name()
}

func methodObj(pkg *types.Package, typ, name string) *types.Func {
	tn, ok := pkg.Scope().Lookup(typ).(*types.TypeName)
	if !ok {
		return nil
	}
	obj, _, _ := types.LookupFieldOrMethod(types.NewPointer(tn.Type()), true, pkg, name)
	fn, _ := obj.(*types.Func)
	return fn
}

// ruleBindCover: Ident-typed fields of parser nodes vs. arguments of optimizerScope.define.
func ruleBindCover(c *Ctx, rule string) {
	l := c.L
	pp := l.ByPath[parserPath]
	define := l.Method(modPath, "optimizerScope", "define")
	identT := l.NamedType(parserPath, "Ident")
	if !c.Anchor(rule, "parser.Ident / optimizerScope.define", pp != nil && define != nil && identT != nil) {
		return
	}
	_, fName := l.structField(parserPath, "Ident", "Name")
	// covered: (struct, field) pairs whose Ident's Name reaches define
	covered := map[string]bool{}
	lhsIdent := false
	// the *Ident values whose Name reaches define, following wrappers that take the *Ident as a parameter
	var identSrcs []ssa.Value
	var addSrc func(v ssa.Value, depth int)
	addSrc = func(v ssa.Value, depth int) {
		if p, ok := v.(*ssa.Parameter); ok && depth < 3 && types.Identical(p.Type(), types.NewPointer(identT)) {
			fn := p.Parent()
			idx := -1
			for i, q := range fn.Params {
				if q == p {
					idx = i
				}
			}
			for _, ci := range l.StaticCallers(fn) {
				if a := ci.Common().Args; idx >= 0 && idx < len(a) {
					addSrc(a[idx], depth+1)
				}
			}
			return
		}
		identSrcs = append(identSrcs, v)
	}
	for _, ci := range l.StaticCallers(define) {
		arg := ci.Common().Args[1]
		u, ok := arg.(*ssa.UnOp)
		if !ok {
			continue
		}
		fa, ok := isFieldAddrOf(u.X, parserPath, "Ident", fName)
		if !ok {
			continue
		}
		addSrc(fa.X, 0)
	}
	for _, src0 := range identSrcs {
		// where does the *Ident come from?
		src := src0
		for depth := 0; depth < 6 && src != nil; depth++ {
			switch x := src.(type) {
			case *ssa.UnOp:
				src = x.X
				continue
			case *ssa.IndexAddr: // element of a []*Ident field
				src = x.X
				continue
			case *ssa.Extract:
				// v, ok := lhs.(*parser.Ident): identifier on the left of an assignment
				if ta, ok := x.Tuple.(*ssa.TypeAssert); ok && types.Identical(ta.AssertedType, types.NewPointer(identT)) {
					lhsIdent = true
				}
				src = nil
				continue
			case *ssa.FieldAddr:
				if pt, ok := x.X.Type().Underlying().(*types.Pointer); ok {
					if n := namedOf(pt.Elem()); n != nil {
						st := n.Underlying().(*types.Struct)
						covered[n.Obj().Name()+"."+st.Field(x.Field).Name()] = true
					}
				}
			}
			break
		}
	}
	// reference set: Ident-typed fields of node structs in package parser
	isIdentField := func(t types.Type) bool {
		if types.Identical(t, types.NewPointer(identT)) {
			return true
		}
		if s, ok := t.Underlying().(*types.Slice); ok {
			return types.Identical(s.Elem(), types.NewPointer(identT))
		}
		return false
	}
	// IdentList wraps the parameter list: a field of type *IdentList counts through IdentList.List
	var names []string
	for _, n := range pp.Types.Scope().Names() {
		tn, ok := pp.Types.Scope().Lookup(n).(*types.TypeName)
		if !ok {
			continue
		}
		st, ok := tn.Type().Underlying().(*types.Struct)
		if !ok {
			continue
		}
		for i := 0; i < st.NumFields(); i++ {
			if isIdentField(st.Field(i).Type()) {
				names = append(names, n+"."+st.Field(i).Name())
			}
		}
	}
	sort.Strings(names)
	for _, k := range names {
		c.Check(rule, k, l.Pos(define.Pos()), covered[k], "its name reaches optimizerScope.define",
			"the optimizer never records names bound through "+k+" as shadowing a builtin: a script that binds a builtin's name this way and calls it has the builtin folded at compile time")
	}
	c.Check(rule, "identifier on the left of an assignment", l.Pos(define.Pos()), lhsIdent, "assignment targets reach optimizerScope.define", "names assigned with := or = are not recorded by the optimizer's shadow tracking")
}

func constantInt64(tv types.TypeAndValue) (int64, bool) {
	return constant.Int64Val(tv.Value)
}
