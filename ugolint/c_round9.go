package main

import (
	"fmt"
	"go/token"
	"go/types"
	"sort"
	"strings"

	"golang.org/x/tools/go/ssa"
)

// ---- C02/operand-forwarded ----------------------------------------------------------------------------------------------------
// The call routines of the VM hand the operands of the call instruction
// (argument count, spread flag) on to one another.  Sibling agreement: where one
// call site of a VM routine passes, for a parameter, a byte read from the
// instruction stream, every other call site of that routine passes
//   - a byte read from the instruction stream,
//   - its own parameter of the same kind (forwarding), or
//   - anything else only where a read of the same operand (same offset from
//     the instruction pointer) lies on every path to the call: the routine has
//     consulted the operand itself (e.g. it spread the arguments already).
// A constant passed on a path that never looked at the operand ignores what the
// compiler encoded: `o.f(args...)` through an indexable object would be called
// with the array as a single argument.
func isPtrTo(t types.Type, elem types.Type) bool {
	pt, ok := t.Underlying().(*types.Pointer)
	return ok && types.Identical(pt.Elem(), elem)
}

func ruleOperandForwarded(c *Ctx, rule string) {
	l := c.L
	vf := getVMFacts(c, rule)
	if vf == nil {
		return
	}
	fCur, fIP := vf.field("curInsts"), vf.field("ip")
	if !c.Anchor(rule, "VM.curInsts / VM.ip", fCur >= 0 && fIP >= 0) {
		return
	}
	// operandOffset: v is (a conversion of) vm.curInsts[vm.ip+k]; returns k
	operandOffset := func(v ssa.Value) (int64, bool) {
		for i := 0; i < 4; i++ {
			if cv, ok := v.(*ssa.Convert); ok {
				v = cv.X
				continue
			}
			break
		}
		ld, ok := v.(*ssa.UnOp)
		if !ok || ld.Op != token.MUL {
			return 0, false
		}
		ia, ok := ld.X.(*ssa.IndexAddr)
		if !ok {
			return 0, false
		}
		base, ok := ia.X.(*ssa.UnOp)
		if !ok {
			return 0, false
		}
		fa, ok := base.X.(*ssa.FieldAddr)
		if !ok || fa.Field != fCur {
			return 0, false
		}
		if _, isVM := vf.isVMFieldAddr(fa); !isVM {
			return 0, false
		}
		bo, ok := ia.Index.(*ssa.BinOp)
		if !ok || bo.Op != token.ADD {
			return 0, false
		}
		for _, pr := range [][2]ssa.Value{{bo.X, bo.Y}, {bo.Y, bo.X}} {
			k, isK := constInt64(pr[1])
			ipl, isL := pr[0].(*ssa.UnOp)
			if !isK || !isL {
				continue
			}
			if ifa, ok := ipl.X.(*ssa.FieldAddr); ok && ifa.Field == fIP {
				if _, isVM := vf.isVMFieldAddr(ifa); isVM {
					return k, true
				}
			}
		}
		return 0, false
	}
	type slot struct {
		fn *ssa.Function
		pi int
	}
	offs := map[slot]map[int64]bool{}
	var vmFns []*ssa.Function
	for _, fn := range vf.reachFns {
		if funcPkgPath(fn) == modPath && len(fn.Blocks) > 0 {
			vmFns = append(vmFns, fn)
		}
	}
	type site struct {
		caller *ssa.Function
		call   ssa.CallInstruction
		callee *ssa.Function
	}
	var sites []site
	for _, fn := range vmFns {
		eachInstr(fn, func(ins ssa.Instruction) {
			ci, ok := ins.(ssa.CallInstruction)
			if !ok {
				return
			}
			g := ci.Common().StaticCallee()
			if g == nil || funcPkgPath(g) != modPath || len(g.Blocks) == 0 || g.Signature.Recv() == nil || !isPtrTo(g.Signature.Recv().Type(), vf.vmT) {
				return
			}
			sites = append(sites, site{fn, ci, g})
			for i, a := range ci.Common().Args {
				if k, ok := operandOffset(a); ok && i < len(g.Params) {
					s := slot{g, i}
					if offs[s] == nil {
						offs[s] = map[int64]bool{}
					}
					offs[s][k] = true
				}
			}
		})
	}
	// forwarding closes the set: a parameter handed on for an operand slot is one itself
	for changed := true; changed; {
		changed = false
		for _, st := range sites {
			for i, a := range st.call.Common().Args {
				p, ok := a.(*ssa.Parameter)
				if !ok || i >= len(st.callee.Params) {
					continue
				}
				pi := -1
				for k, q := range st.caller.Params {
					if q == p {
						pi = k
					}
				}
				from, to := slot{st.caller, pi}, slot{st.callee, i}
				if pi < 0 || offs[from] == nil {
					continue
				}
				if offs[to] == nil {
					offs[to] = map[int64]bool{}
				}
				for k := range offs[from] {
					if !offs[to][k] {
						offs[to][k] = true
						changed = true
					}
				}
			}
		}
	}
	for _, st := range sites {
		for i, a := range st.call.Common().Args {
			s := slot{st.callee, i}
			if offs[s] == nil || i >= len(st.callee.Params) {
				continue
			}
			key := fmt.Sprintf("%s | %s(%s = …)", fnName(st.caller), st.callee.Name(), st.callee.Params[i].Name())
			if _, ok := operandOffset(a); ok {
				c.Ok(rule, key, l.Pos(st.call.Pos()), "a byte of the instruction stream")
				continue
			}
			if p, ok := a.(*ssa.Parameter); ok {
				pi := -1
				for k, q := range st.caller.Params {
					if q == p {
						pi = k
					}
				}
				if pi >= 0 && offs[slot{st.caller, pi}] != nil {
					c.Ok(rule, key, l.Pos(st.call.Pos()), "the routine's own operand parameter, forwarded")
					continue
				}
			}
			// anything else: the operand was read on every path to the call
			var ks []int64
			for k := range offs[s] {
				ks = append(ks, k)
			}
			sort.Slice(ks, func(a, b int) bool { return ks[a] < ks[b] })
			consulted := false
			eachInstr(st.caller, func(x ssa.Instruction) {
				v, ok := x.(ssa.Value)
				if !ok {
					return
				}
				if k, ok := operandOffset(v); ok && offs[s][k] && instrDominates(x, st.call) {
					consulted = true
				}
			})
			c.Check(rule, key, l.Pos(st.call.Pos()), consulted, "not the operand itself, but the routine read the operand on every path to the call",
				fmt.Sprintf("the argument %s is neither the instruction's operand (offset %v, which sibling call sites pass) nor forwarded, and no read of that operand lies on every path to the call: what the compiler encoded (spread flag, argument count) is ignored on this path", describe(a), ks))
		}
	}
}

// ---- C18/decoded-opaque -----------------------------------------------------------------------------------------------------------
// DecodeObject returns whatever type the input names; containers that came
// through gob can hold nil elements at any depth.  On the decode path a decoded
// object is therefore only ever looked at through a type assertion / type
// switch (which cannot panic in the comma-ok or switch form and is covered by
// the `assert` rule otherwise), stored, or returned: no method is invoked on it.
// `obj.String()` on a decoded Array{nil} dereferences the nil element.
func ruleDecodedOpaque(c *Ctx, rule string, fns []*ssa.Function) {
	l := c.L
	dec := l.Func(encPath, "DecodeObject")
	if !c.Anchor(rule, "encoder.DecodeObject", dec != nil) {
		return
	}
	n := 0
	for _, fn := range fns {
		eachInstr(fn, func(ins ssa.Instruction) {
			cl, ok := ins.(*ssa.Call)
			if !ok || cl.Call.StaticCallee() != dec || cl.Referrers() == nil {
				return
			}
			for _, r := range *cl.Referrers() {
				ex, ok := r.(*ssa.Extract)
				if !ok || ex.Index != 0 {
					continue
				}
				n++
				// values the object flows to without changing: phis and locals it is stored in
				seen := map[ssa.Value]bool{}
				var invoked []ssa.CallInstruction
				var walk func(v ssa.Value)
				walk = func(v ssa.Value) {
					if seen[v] || v.Referrers() == nil {
						return
					}
					seen[v] = true
					for _, u := range *v.Referrers() {
						switch x := u.(type) {
						case ssa.CallInstruction:
							if x.Common().IsInvoke() && x.Common().Value == v {
								invoked = append(invoked, x)
							}
						case *ssa.Phi:
							walk(x)
						case *ssa.ChangeInterface:
							walk(x)
						case *ssa.Store:
							if al, ok := x.Addr.(*ssa.Alloc); ok && x.Val == v && al.Referrers() != nil {
								for _, ar := range *al.Referrers() {
									if ld, ok := ar.(*ssa.UnOp); ok && ld.Op == token.MUL {
										walk(ld)
									}
								}
							}
						}
					}
				}
				walk(ex)
				// a method that no Object implementation of the library lets look into
				// its contents (TypeName: a constant string everywhere) is harmless
				kept := invoked[:0]
				for _, iv := range invoked {
					if !shallowObjectMethod(l, iv.Common().Method.Name()) {
						kept = append(kept, iv)
					}
				}
				invoked = kept
				key := fmt.Sprintf("%s | object decoded at DecodeObject call", fnName(fn))
				if len(invoked) == 0 {
					c.Ok(rule, key, l.Pos(cl.Pos()), "only asserted, stored or returned")
					continue
				}
				var ms []string
				for _, iv := range invoked {
					ms = append(ms, iv.Common().Method.Name()+"() at "+l.Pos(iv.Pos()))
				}
				c.Bad(rule, key, l.Pos(invoked[0].Pos()), "a method is invoked on an object of whatever type the input names ("+strings.Join(ms, ", ")+"): a gob-encoded container with a nil element (Array{nil}) makes the method dereference nil - the decoder panics instead of returning an error")
			}
		})
	}
	c.extra["decoded_objects_followed"] = n
}

var shallowMemo = map[string]bool{}

// shallowObjectMethod: for every type of the library packages that implements
// ugo.Object, the method's body (with the repository functions it calls, three
// levels deep) invokes no interface method and calls no function value: it
// cannot reach the contents of a container.
func shallowObjectMethod(l *Loaded, name string) bool {
	if r, ok := shallowMemo[name]; ok {
		return r
	}
	res := true
	up := l.ByPath[modPath]
	var obj *types.Interface
	if up != nil {
		if tn, ok := up.Types.Scope().Lookup("Object").(*types.TypeName); ok {
			obj, _ = tn.Type().Underlying().(*types.Interface)
		}
	}
	if obj == nil {
		shallowMemo[name] = false
		return false
	}
	var pure func(f *ssa.Function, depth int) bool
	pure = func(f *ssa.Function, depth int) bool {
		if f == nil || len(f.Blocks) == 0 {
			// no body: a standard library function is accepted (it cannot call back into an Object it was not given)
			return f != nil && !strings.HasPrefix(funcPkgPath(f), modPath)
		}
		if depth > 3 {
			return false
		}
		ok := true
		eachInstr(f, func(ins ssa.Instruction) {
			ci, isCall := ins.(ssa.CallInstruction)
			if !isCall {
				return
			}
			cc := ci.Common()
			if cc.IsInvoke() {
				ok = false
				return
			}
			g := cc.StaticCallee()
			if g == nil {
				if _, isB := cc.Value.(*ssa.Builtin); !isB {
					ok = false
				}
				return
			}
			if strings.HasPrefix(funcPkgPath(g), modPath) && !pure(g, depth+1) {
				ok = false
			}
			// an Object handed to a standard library function (fmt.Sprint) is formatted through its methods
			if !strings.HasPrefix(funcPkgPath(g), modPath) {
				for _, a := range cc.Args {
					if _, isI := a.Type().Underlying().(*types.Interface); isI {
						ok = false
					}
					if sl, isS := a.Type().Underlying().(*types.Slice); isS {
						if _, isI := sl.Elem().Underlying().(*types.Interface); isI {
							ok = false
						}
					}
				}
			}
		})
		return ok
	}
	n := 0
	for _, p := range l.Pkgs {
		if !isLibPkg(p.PkgPath) {
			continue
		}
		for _, nm := range p.Types.Scope().Names() {
			tn, ok := p.Types.Scope().Lookup(nm).(*types.TypeName)
			if !ok || tn.IsAlias() {
				continue
			}
			if _, isI := tn.Type().Underlying().(*types.Interface); isI {
				continue
			}
			for _, t := range []types.Type{tn.Type(), types.NewPointer(tn.Type())} {
				if !types.Implements(t, obj) {
					continue
				}
				sel := types.NewMethodSet(t).Lookup(p.Types, name)
				if sel == nil {
					continue
				}
				n++
				if f := l.Prog.MethodValue(sel); !pure(f, 0) {
					res = false
				}
				break
			}
		}
	}
	if n == 0 {
		res = false
	}
	shallowMemo[name] = res
	return res
}
