package main

import (
	"fmt"
	"go/token"
	"go/types"
	"sort"

	"golang.org/x/tools/go/ssa"
)

// ---- C02/operand-forwarded ----------------------------------------------------------------------------------------------------
// The call routines of the VM hand the operands of the call instruction
// (argument count, spread flag) on to one another.  Sibling agreement: where one
// call site of a VM routine passes, for a parameter, a byte read from the
// instruction stream, every other call site of that routine passes
//   - a byte read from the instruction stream,
//   - its own parameter of the same kind (forwarding), or
//   - anything else only where a read of the same operand (same offset from
//     the instruction pointer) lies on every path to the call: the routine has
//     consulted the operand itself (e.g. it spread the arguments already).
// A constant passed on a path that never looked at the operand ignores what the
// compiler encoded: `o.f(args...)` through an indexable object would be called
// with the array as a single argument.
func isPtrTo(t types.Type, elem types.Type) bool {
	pt, ok := t.Underlying().(*types.Pointer)
	return ok && types.Identical(pt.Elem(), elem)
}

func ruleOperandForwarded(c *Ctx, rule string) {
	l := c.L
	vf := getVMFacts(c, rule)
	if vf == nil {
		return
	}
	fCur, fIP := vf.field("curInsts"), vf.field("ip")
	if !c.Anchor(rule, "VM.curInsts / VM.ip", fCur >= 0 && fIP >= 0) {
		return
	}
	// operandOffset: v is (a conversion of) vm.curInsts[vm.ip+k]; returns k
	operandOffset := func(v ssa.Value) (int64, bool) {
		for i := 0; i < 4; i++ {
			if cv, ok := v.(*ssa.Convert); ok {
				v = cv.X
				continue
			}
			break
		}
		ld, ok := v.(*ssa.UnOp)
		if !ok || ld.Op != token.MUL {
			return 0, false
		}
		ia, ok := ld.X.(*ssa.IndexAddr)
		if !ok {
			return 0, false
		}
		base, ok := ia.X.(*ssa.UnOp)
		if !ok {
			return 0, false
		}
		fa, ok := base.X.(*ssa.FieldAddr)
		if !ok || fa.Field != fCur {
			return 0, false
		}
		if _, isVM := vf.isVMFieldAddr(fa); !isVM {
			return 0, false
		}
		bo, ok := ia.Index.(*ssa.BinOp)
		if !ok || bo.Op != token.ADD {
			return 0, false
		}
		for _, pr := range [][2]ssa.Value{{bo.X, bo.Y}, {bo.Y, bo.X}} {
			k, isK := constInt64(pr[1])
			ipl, isL := pr[0].(*ssa.UnOp)
			if !isK || !isL {
				continue
			}
			if ifa, ok := ipl.X.(*ssa.FieldAddr); ok && ifa.Field == fIP {
				if _, isVM := vf.isVMFieldAddr(ifa); isVM {
					return k, true
				}
			}
		}
		return 0, false
	}
	type slot struct {
		fn *ssa.Function
		pi int
	}
	offs := map[slot]map[int64]bool{}
	var vmFns []*ssa.Function
	for _, fn := range vf.reachFns {
		if funcPkgPath(fn) == modPath && len(fn.Blocks) > 0 {
			vmFns = append(vmFns, fn)
		}
	}
	type site struct {
		caller *ssa.Function
		call   ssa.CallInstruction
		callee *ssa.Function
	}
	var sites []site
	for _, fn := range vmFns {
		eachInstr(fn, func(ins ssa.Instruction) {
			ci, ok := ins.(ssa.CallInstruction)
			if !ok {
				return
			}
			g := ci.Common().StaticCallee()
			if g == nil || funcPkgPath(g) != modPath || len(g.Blocks) == 0 || g.Signature.Recv() == nil || !isPtrTo(g.Signature.Recv().Type(), vf.vmT) {
				return
			}
			sites = append(sites, site{fn, ci, g})
			for i, a := range ci.Common().Args {
				if k, ok := operandOffset(a); ok && i < len(g.Params) {
					s := slot{g, i}
					if offs[s] == nil {
						offs[s] = map[int64]bool{}
					}
					offs[s][k] = true
				}
			}
		})
	}
	// forwarding closes the set: a parameter handed on for an operand slot is one itself
	for changed := true; changed; {
		changed = false
		for _, st := range sites {
			for i, a := range st.call.Common().Args {
				p, ok := a.(*ssa.Parameter)
				if !ok || i >= len(st.callee.Params) {
					continue
				}
				pi := -1
				for k, q := range st.caller.Params {
					if q == p {
						pi = k
					}
				}
				from, to := slot{st.caller, pi}, slot{st.callee, i}
				if pi < 0 || offs[from] == nil {
					continue
				}
				if offs[to] == nil {
					offs[to] = map[int64]bool{}
				}
				for k := range offs[from] {
					if !offs[to][k] {
						offs[to][k] = true
						changed = true
					}
				}
			}
		}
	}
	for _, st := range sites {
		for i, a := range st.call.Common().Args {
			s := slot{st.callee, i}
			if offs[s] == nil || i >= len(st.callee.Params) {
				continue
			}
			key := fmt.Sprintf("%s | %s(%s = …)", fnName(st.caller), st.callee.Name(), st.callee.Params[i].Name())
			if _, ok := operandOffset(a); ok {
				c.Ok(rule, key, l.Pos(st.call.Pos()), "a byte of the instruction stream")
				continue
			}
			if p, ok := a.(*ssa.Parameter); ok {
				pi := -1
				for k, q := range st.caller.Params {
					if q == p {
						pi = k
					}
				}
				if pi >= 0 && offs[slot{st.caller, pi}] != nil {
					c.Ok(rule, key, l.Pos(st.call.Pos()), "the routine's own operand parameter, forwarded")
					continue
				}
			}
			// anything else: the operand was read on every path to the call
			var ks []int64
			for k := range offs[s] {
				ks = append(ks, k)
			}
			sort.Slice(ks, func(a, b int) bool { return ks[a] < ks[b] })
			consulted := false
			eachInstr(st.caller, func(x ssa.Instruction) {
				v, ok := x.(ssa.Value)
				if !ok {
					return
				}
				if k, ok := operandOffset(v); ok && offs[s][k] && instrDominates(x, st.call) {
					consulted = true
				}
			})
			c.Check(rule, key, l.Pos(st.call.Pos()), consulted, "not the operand itself, but the routine read the operand on every path to the call",
				fmt.Sprintf("the argument %s is neither the instruction's operand (offset %v, which sibling call sites pass) nor forwarded, and no read of that operand lies on every path to the call: what the compiler encoded (spread flag, argument count) is ignored on this path", describe(a), ks))
		}
	}
}
