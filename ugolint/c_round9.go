package main

import (
	"fmt"
	"go/ast"
	"go/constant"
	"go/token"
	"go/types"
	"sort"
	"strings"

	"golang.org/x/tools/go/ssa"
)

// ---- C02/operand-forwarded ----------------------------------------------------------------------------------------------------
// The call routines of the VM hand the operands of the call instruction
// (argument count, spread flag) on to one another.  Sibling agreement: where one
// call site of a VM routine passes, for a parameter, a byte read from the
// instruction stream, every other call site of that routine passes
//   - a byte read from the instruction stream,
//   - its own parameter of the same kind (forwarding), or
//   - anything else only where a read of the same operand (same offset from
//     the instruction pointer) lies on every path to the call: the routine has
//     consulted the operand itself (e.g. it spread the arguments already).
// A constant passed on a path that never looked at the operand ignores what the
// compiler encoded: `o.f(args...)` through an indexable object would be called
// with the array as a single argument.
func isPtrTo(t types.Type, elem types.Type) bool {
	pt, ok := t.Underlying().(*types.Pointer)
	return ok && types.Identical(pt.Elem(), elem)
}

func ruleOperandForwarded(c *Ctx, rule string) {
	l := c.L
	vf := getVMFacts(c, rule)
	if vf == nil {
		return
	}
	fCur, fIP := vf.field("curInsts"), vf.field("ip")
	if !c.Anchor(rule, "VM.curInsts / VM.ip", fCur >= 0 && fIP >= 0) {
		return
	}
	// operandOffset: v is (a conversion of) vm.curInsts[vm.ip+k]; returns k
	operandOffset := func(v ssa.Value) (int64, bool) {
		for i := 0; i < 4; i++ {
			if cv, ok := v.(*ssa.Convert); ok {
				v = cv.X
				continue
			}
			break
		}
		ld, ok := v.(*ssa.UnOp)
		if !ok || ld.Op != token.MUL {
			return 0, false
		}
		ia, ok := ld.X.(*ssa.IndexAddr)
		if !ok {
			return 0, false
		}
		base, ok := ia.X.(*ssa.UnOp)
		if !ok {
			return 0, false
		}
		fa, ok := base.X.(*ssa.FieldAddr)
		if !ok || fa.Field != fCur {
			return 0, false
		}
		if _, isVM := vf.isVMFieldAddr(fa); !isVM {
			return 0, false
		}
		bo, ok := ia.Index.(*ssa.BinOp)
		if !ok || bo.Op != token.ADD {
			return 0, false
		}
		for _, pr := range [][2]ssa.Value{{bo.X, bo.Y}, {bo.Y, bo.X}} {
			k, isK := constInt64(pr[1])
			ipl, isL := pr[0].(*ssa.UnOp)
			if !isK || !isL {
				continue
			}
			if ifa, ok := ipl.X.(*ssa.FieldAddr); ok && ifa.Field == fIP {
				if _, isVM := vf.isVMFieldAddr(ifa); isVM {
					return k, true
				}
			}
		}
		return 0, false
	}
	type slot struct {
		fn *ssa.Function
		pi int
	}
	offs := map[slot]map[int64]bool{}
	var vmFns []*ssa.Function
	for _, fn := range vf.reachFns {
		if funcPkgPath(fn) == modPath && len(fn.Blocks) > 0 {
			vmFns = append(vmFns, fn)
		}
	}
	type site struct {
		caller *ssa.Function
		call   ssa.CallInstruction
		callee *ssa.Function
	}
	var sites []site
	for _, fn := range vmFns {
		eachInstr(fn, func(ins ssa.Instruction) {
			ci, ok := ins.(ssa.CallInstruction)
			if !ok {
				return
			}
			g := ci.Common().StaticCallee()
			if g == nil || funcPkgPath(g) != modPath || len(g.Blocks) == 0 || g.Signature.Recv() == nil || !isPtrTo(g.Signature.Recv().Type(), vf.vmT) {
				return
			}
			sites = append(sites, site{fn, ci, g})
			for i, a := range ci.Common().Args {
				if k, ok := operandOffset(a); ok && i < len(g.Params) {
					s := slot{g, i}
					if offs[s] == nil {
						offs[s] = map[int64]bool{}
					}
					offs[s][k] = true
				}
			}
		})
	}
	// forwarding closes the set: a parameter handed on for an operand slot is one itself
	for changed := true; changed; {
		changed = false
		for _, st := range sites {
			for i, a := range st.call.Common().Args {
				p, ok := a.(*ssa.Parameter)
				if !ok || i >= len(st.callee.Params) {
					continue
				}
				pi := -1
				for k, q := range st.caller.Params {
					if q == p {
						pi = k
					}
				}
				from, to := slot{st.caller, pi}, slot{st.callee, i}
				if pi < 0 || offs[from] == nil {
					continue
				}
				if offs[to] == nil {
					offs[to] = map[int64]bool{}
				}
				for k := range offs[from] {
					if !offs[to][k] {
						offs[to][k] = true
						changed = true
					}
				}
			}
		}
	}
	for _, st := range sites {
		for i, a := range st.call.Common().Args {
			s := slot{st.callee, i}
			if offs[s] == nil || i >= len(st.callee.Params) {
				continue
			}
			key := fmt.Sprintf("%s | %s(%s = …)", fnName(st.caller), st.callee.Name(), st.callee.Params[i].Name())
			if _, ok := operandOffset(a); ok {
				c.Ok(rule, key, l.Pos(st.call.Pos()), "a byte of the instruction stream")
				continue
			}
			if p, ok := a.(*ssa.Parameter); ok {
				pi := -1
				for k, q := range st.caller.Params {
					if q == p {
						pi = k
					}
				}
				if pi >= 0 && offs[slot{st.caller, pi}] != nil {
					c.Ok(rule, key, l.Pos(st.call.Pos()), "the routine's own operand parameter, forwarded")
					continue
				}
			}
			// anything else: the operand was read on every path to the call
			var ks []int64
			for k := range offs[s] {
				ks = append(ks, k)
			}
			sort.Slice(ks, func(a, b int) bool { return ks[a] < ks[b] })
			consulted := false
			eachInstr(st.caller, func(x ssa.Instruction) {
				v, ok := x.(ssa.Value)
				if !ok {
					return
				}
				if k, ok := operandOffset(v); ok && offs[s][k] && instrDominates(x, st.call) {
					consulted = true
				}
			})
			c.Check(rule, key, l.Pos(st.call.Pos()), consulted, "not the operand itself, but the routine read the operand on every path to the call",
				fmt.Sprintf("the argument %s is neither the instruction's operand (offset %v, which sibling call sites pass) nor forwarded, and no read of that operand lies on every path to the call: what the compiler encoded (spread flag, argument count) is ignored on this path", describe(a), ks))
		}
	}
}

// ---- C18/decoded-opaque -----------------------------------------------------------------------------------------------------------
// DecodeObject returns whatever type the input names; containers that came
// through gob can hold nil elements at any depth.  On the decode path a decoded
// object is therefore only ever looked at through a type assertion / type
// switch (which cannot panic in the comma-ok or switch form and is covered by
// the `assert` rule otherwise), stored, or returned: no method is invoked on it.
// `obj.String()` on a decoded Array{nil} dereferences the nil element.
func ruleDecodedOpaque(c *Ctx, rule string, fns []*ssa.Function) {
	l := c.L
	dec := l.Func(encPath, "DecodeObject")
	if !c.Anchor(rule, "encoder.DecodeObject", dec != nil) {
		return
	}
	n := 0
	for _, fn := range fns {
		eachInstr(fn, func(ins ssa.Instruction) {
			cl, ok := ins.(*ssa.Call)
			if !ok || cl.Call.StaticCallee() != dec || cl.Referrers() == nil {
				return
			}
			for _, r := range *cl.Referrers() {
				ex, ok := r.(*ssa.Extract)
				if !ok || ex.Index != 0 {
					continue
				}
				n++
				// values the object flows to without changing: phis and locals it is stored in
				seen := map[ssa.Value]bool{}
				var invoked []ssa.CallInstruction
				var walk func(v ssa.Value)
				walk = func(v ssa.Value) {
					if seen[v] || v.Referrers() == nil {
						return
					}
					seen[v] = true
					for _, u := range *v.Referrers() {
						switch x := u.(type) {
						case ssa.CallInstruction:
							if x.Common().IsInvoke() && x.Common().Value == v {
								invoked = append(invoked, x)
							}
						case *ssa.Phi:
							walk(x)
						case *ssa.ChangeInterface:
							walk(x)
						case *ssa.Store:
							if al, ok := x.Addr.(*ssa.Alloc); ok && x.Val == v && al.Referrers() != nil {
								for _, ar := range *al.Referrers() {
									if ld, ok := ar.(*ssa.UnOp); ok && ld.Op == token.MUL {
										walk(ld)
									}
								}
							}
						}
					}
				}
				walk(ex)
				// a method that no Object implementation of the library lets look into
				// its contents (TypeName: a constant string everywhere) is harmless
				kept := invoked[:0]
				for _, iv := range invoked {
					if !shallowObjectMethod(l, iv.Common().Method.Name()) {
						kept = append(kept, iv)
					}
				}
				invoked = kept
				key := fmt.Sprintf("%s | object decoded at DecodeObject call", fnName(fn))
				if len(invoked) == 0 {
					c.Ok(rule, key, l.Pos(cl.Pos()), "only asserted, stored or returned")
					continue
				}
				var ms []string
				for _, iv := range invoked {
					ms = append(ms, iv.Common().Method.Name()+"() at "+l.Pos(iv.Pos()))
				}
				c.Bad(rule, key, l.Pos(invoked[0].Pos()), "a method is invoked on an object of whatever type the input names ("+strings.Join(ms, ", ")+"): a gob-encoded container with a nil element (Array{nil}) makes the method dereference nil - the decoder panics instead of returning an error")
			}
		})
	}
	c.extra["decoded_objects_followed"] = n
}

var shallowMemo = map[string]bool{}

// shallowObjectMethod: for every type of the library packages that implements
// ugo.Object, the method's body (with the repository functions it calls, three
// levels deep) invokes no interface method and calls no function value: it
// cannot reach the contents of a container.
func shallowObjectMethod(l *Loaded, name string) bool {
	if r, ok := shallowMemo[name]; ok {
		return r
	}
	res := true
	up := l.ByPath[modPath]
	var obj *types.Interface
	if up != nil {
		if tn, ok := up.Types.Scope().Lookup("Object").(*types.TypeName); ok {
			obj, _ = tn.Type().Underlying().(*types.Interface)
		}
	}
	if obj == nil {
		shallowMemo[name] = false
		return false
	}
	var pure func(f *ssa.Function, depth int) bool
	pure = func(f *ssa.Function, depth int) bool {
		if f == nil || len(f.Blocks) == 0 {
			// no body: a standard library function is accepted (it cannot call back into an Object it was not given)
			return f != nil && !strings.HasPrefix(funcPkgPath(f), modPath)
		}
		if depth > 3 {
			return false
		}
		ok := true
		eachInstr(f, func(ins ssa.Instruction) {
			ci, isCall := ins.(ssa.CallInstruction)
			if !isCall {
				return
			}
			cc := ci.Common()
			if cc.IsInvoke() {
				ok = false
				return
			}
			g := cc.StaticCallee()
			if g == nil {
				if _, isB := cc.Value.(*ssa.Builtin); !isB {
					ok = false
				}
				return
			}
			if strings.HasPrefix(funcPkgPath(g), modPath) && !pure(g, depth+1) {
				ok = false
			}
			// an Object handed to a standard library function (fmt.Sprint) is formatted through its methods
			if !strings.HasPrefix(funcPkgPath(g), modPath) {
				for _, a := range cc.Args {
					if _, isI := a.Type().Underlying().(*types.Interface); isI {
						ok = false
					}
					if sl, isS := a.Type().Underlying().(*types.Slice); isS {
						if _, isI := sl.Elem().Underlying().(*types.Interface); isI {
							ok = false
						}
					}
				}
			}
		})
		return ok
	}
	n := 0
	for _, p := range l.Pkgs {
		if !isLibPkg(p.PkgPath) {
			continue
		}
		for _, nm := range p.Types.Scope().Names() {
			tn, ok := p.Types.Scope().Lookup(nm).(*types.TypeName)
			if !ok || tn.IsAlias() {
				continue
			}
			if _, isI := tn.Type().Underlying().(*types.Interface); isI {
				continue
			}
			for _, t := range []types.Type{tn.Type(), types.NewPointer(tn.Type())} {
				if !types.Implements(t, obj) {
					continue
				}
				sel := types.NewMethodSet(t).Lookup(p.Types, name)
				if sel == nil {
					continue
				}
				n++
				if f := l.Prog.MethodValue(sel); !pure(f, 0) {
					res = false
				}
				break
			}
		}
	}
	if n == 0 {
		res = false
	}
	shallowMemo[name] = res
	return res
}

// ---- loop-stutter (C05, C18, C19) ---------------------------------------------------------------------------------------------------
// A cycle of the control-flow graph on which nothing happens: every instruction
// on it is free of effects (no call, store, send, map update, iterator step,
// channel receive) and every phi of the loop header receives, along the cycle,
// its own value.  If such a path is taken once the machine state at the header
// is the same as before, the same branches are taken again, and the loop never
// ends.  (An `else { break }` dropped from a loop that follows a chain of
// wrapped errors: for an error that has no Unwrap the loop spins.)
// Decides the absence of such cycles, not termination in general.
func ruleLoopStutter(c *Ctx, rule string, fns []*ssa.Function, minLoops int) {
	l := c.L
	pureInstr := func(ins ssa.Instruction) bool {
		switch x := ins.(type) {
		case *ssa.Phi, *ssa.BinOp, *ssa.Extract, *ssa.If, *ssa.Jump, *ssa.Convert, *ssa.ChangeType, *ssa.ChangeInterface,
			*ssa.MakeInterface, *ssa.FieldAddr, *ssa.Field, *ssa.IndexAddr, *ssa.Index, *ssa.Lookup, *ssa.Slice, *ssa.DebugRef,
			*ssa.Alloc, *ssa.MakeSlice, *ssa.MakeMap, *ssa.MakeClosure, *ssa.SliceToArrayPointer, *ssa.MultiConvert:
			return true
		case *ssa.TypeAssert:
			return x.CommaOk
		case *ssa.UnOp:
			return x.Op != token.ARROW
		case *ssa.Call:
			if b, ok := x.Call.Value.(*ssa.Builtin); ok {
				switch b.Name() {
				case "len", "cap", "min", "max", "real", "imag", "complex":
					return true
				}
			}
			return false
		}
		return false
	}
	pureBlock := func(b *ssa.BasicBlock) bool {
		for _, ins := range b.Instrs {
			if !pureInstr(ins) {
				return false
			}
		}
		return true
	}
	loops, cycles := 0, 0
	for _, fn := range fns {
		for _, h := range fn.Blocks {
			// a loop header: some predecessor is dominated by it (back edge)
			isHeader := false
			for _, p := range h.Preds {
				if h.Dominates(p) {
					isHeader = true
				}
			}
			if !isHeader {
				continue
			}
			loops++
			key := fmt.Sprintf("%s | loop #%d", fnName(fn), loops)
			_ = key
			if !pureBlock(h) {
				continue
			}
			// depth-first over effect-free blocks dominated by the header, back to the header
			var path []*ssa.BasicBlock
			onPath := map[*ssa.BasicBlock]bool{}
			var found []*ssa.BasicBlock
			steps := 0
			var dfs func(b *ssa.BasicBlock)
			dfs = func(b *ssa.BasicBlock) {
				if found != nil || steps > 20000 {
					return
				}
				steps++
				path = append(path, b)
				onPath[b] = true
				for _, s := range b.Succs {
					if s == h {
						// resolve the header's phis along path
						predOf := map[*ssa.BasicBlock]*ssa.BasicBlock{}
						for i := 1; i < len(path); i++ {
							predOf[path[i]] = path[i-1]
						}
						predOf[h] = b
						var resolve func(v ssa.Value, d int) ssa.Value
						resolve = func(v ssa.Value, d int) ssa.Value {
							phi, ok := v.(*ssa.Phi)
							if !ok || d > 16 || phi.Block() == h || !onPath[phi.Block()] {
								return v
							}
							p := predOf[phi.Block()]
							for i, q := range phi.Block().Preds {
								if q == p {
									return resolve(phi.Edges[i], d+1)
								}
							}
							return v
						}
						same := true
						for _, ins := range h.Instrs {
							phi, ok := ins.(*ssa.Phi)
							if !ok {
								break
							}
							for i, q := range h.Preds {
								if q == b && resolve(phi.Edges[i], 0) != ssa.Value(phi) {
									same = false
								}
							}
						}
						if same {
							found = append([]*ssa.BasicBlock(nil), path...)
							return
						}
						continue
					}
					if onPath[s] || !h.Dominates(s) || !pureBlock(s) {
						continue
					}
					dfs(s)
				}
				path = path[:len(path)-1]
				onPath[b] = false
			}
			dfs(h)
			if found != nil {
				cycles++
				var bs []string
				for _, b := range found {
					bs = append(bs, fmt.Sprint(b.Index))
				}
				pos := l.Pos(fn.Pos())
				for _, b := range found {
					for _, ins := range b.Instrs {
						if ins.Pos().IsValid() {
							pos = l.Pos(ins.Pos())
							break
						}
					}
					if pos != l.Pos(fn.Pos()) {
						break
					}
				}
				c.Bad(rule, fmt.Sprintf("%s | effect-free cycle", fnName(fn)), pos, "the loop has a cycle (blocks "+strings.Join(bs, " -> ")+" -> "+bs[0]+") on which no instruction has an effect and every loop variable keeps its value: once taken, it is taken for ever (the call never returns)")
			}
		}
	}
	c.Ok(rule, "loops examined", "-", fmt.Sprintf("%d loops in %d functions, %d effect-free cycles", loops, len(fns), cycles))
	c.extra["loops_examined/"+rule] = loops
	if loops < minLoops {
		c.Und(rule, "loop count", "-", fmt.Sprintf("only %d loops found in scope: the rule lost its subject", loops))
	}
}

// ---- C19/lock-release-on-panic (also C17) -----------------------------------------------------------------------------------------
// A mutex that is not released by a deferred call stays locked when a panic
// passes through the function.  The json encoder reports errors by panicking
// (recovered in Marshal), the VM recovers Go panics of builtins: both continue
// to run scripts afterwards, and the next operation on the locked object never
// returns.  For every Lock / RLock of the library that has no deferred release
// in the same function: no call made while the lock is held can panic, where a
// call can panic if it is dynamic (function value, interface method) or reaches,
// through static calls inside the repository, an explicit panic or a dynamic call.
func ruleLockReleaseOnPanic(c *Ctx, rule string) {
	l := c.L
	isLockType := func(t types.Type) bool {
		if p, ok := t.Underlying().(*types.Pointer); ok {
			t = p.Elem()
		}
		n := namedOf(t)
		if n == nil || n.Obj().Pkg() == nil {
			return false
		}
		pp, nm := n.Obj().Pkg().Path(), n.Obj().Name()
		return (pp == "sync" && (nm == "Mutex" || nm == "RWMutex")) || (pp == modPath && nm == "SyncMap")
	}
	lockCall := func(ins ssa.Instruction, names ...string) (ssa.Value, bool) {
		ci, ok := ins.(ssa.CallInstruction)
		if !ok {
			return nil, false
		}
		f := ci.Common().StaticCallee()
		if f == nil || f.Signature.Recv() == nil || len(ci.Common().Args) == 0 || !isLockType(f.Signature.Recv().Type()) {
			return nil, false
		}
		for _, n := range names {
			if f.Name() == n {
				a := ci.Common().Args[0]
				for {
					if ct, ok := a.(*ssa.ChangeType); ok {
						a = ct.X
						continue
					}
					break
				}
				return a, true
			}
		}
		return nil, false
	}
	memo := map[*ssa.Function]int{}
	var mayPanic func(f *ssa.Function, depth int) bool
	mayPanic = func(f *ssa.Function, depth int) bool {
		if f == nil {
			return true
		}
		if !strings.HasPrefix(funcPkgPath(f), modPath) || len(f.Blocks) == 0 {
			return false // the Go library is taken not to panic on the values it is given here
		}
		if r, ok := memo[f]; ok {
			return r == 1
		}
		if depth > 6 {
			return true
		}
		memo[f] = 2
		res := false
		eachInstr(f, func(ins ssa.Instruction) {
			if res {
				return
			}
			switch x := ins.(type) {
			case *ssa.Panic:
				res = true
			case ssa.CallInstruction:
				cc := x.Common()
				if _, isB := cc.Value.(*ssa.Builtin); isB {
					return
				}
				if _, isL := lockCall(ins, "Lock", "RLock", "Unlock", "RUnlock"); isL {
					return
				}
				g := cc.StaticCallee()
				if g == nil {
					if mc, ok := cc.Value.(*ssa.MakeClosure); ok {
						g, _ = mc.Fn.(*ssa.Function)
					}
				}
				if g == nil || mayPanic(g, depth+1) {
					res = true
				}
			}
		})
		if res {
			memo[f] = 1
		} else {
			memo[f] = 0
		}
		return res
	}
	n := 0
	for _, fn := range l.RepoFuncs(func(p string) bool { return isLibPkg(p) }) {
		fn := fn
		eachInstr(fn, func(ins ssa.Instruction) {
			if _, isDefer := ins.(*ssa.Defer); isDefer {
				return
			}
			base, ok := lockCall(ins, "Lock", "RLock")
			if !ok {
				return
			}
			n++
			key := fmt.Sprintf("%s | lock of %s", fnName(fn), describe(base))
			deferred := false
			eachInstr(fn, func(d ssa.Instruction) {
				df, isDefer := d.(*ssa.Defer)
				if !isDefer {
					return
				}
				if b, ok := lockCall(df, "Unlock", "RUnlock"); ok && (b == base || exprEq(b, base)) {
					deferred = true
				}
			})
			if deferred {
				c.Ok(rule, key, l.Pos(ins.Pos()), "released by a deferred call")
				return
			}
			// the region in which the lock is held: reachable from the lock, not behind an explicit release
			var bad []string
			seen := map[*ssa.BasicBlock]bool{}
			var walk func(b *ssa.BasicBlock, from int)
			walk = func(b *ssa.BasicBlock, from int) {
				for _, x := range b.Instrs[from:] {
					if ub, ok := lockCall(x, "Unlock", "RUnlock"); ok && (ub == base || exprEq(ub, base)) {
						if _, isDefer := x.(*ssa.Defer); !isDefer {
							return
						}
					}
					ci, isCall := x.(ssa.CallInstruction)
					if !isCall {
						continue
					}
					if _, isDefer := x.(*ssa.Defer); isDefer {
						continue
					}
					cc := ci.Common()
					if _, isB := cc.Value.(*ssa.Builtin); isB {
						continue
					}
					if _, isL := lockCall(x, "Lock", "RLock", "Unlock", "RUnlock"); isL {
						continue
					}
					g := cc.StaticCallee()
					if g == nil {
						if mc, ok := cc.Value.(*ssa.MakeClosure); ok {
							g, _ = mc.Fn.(*ssa.Function)
						}
					}
					if g == nil {
						bad = append(bad, "dynamic call at "+l.Pos(x.Pos()))
					} else if mayPanic(g, 0) {
						bad = append(bad, g.Name()+" at "+l.Pos(x.Pos()))
					}
				}
				for _, s := range b.Succs {
					if !seen[s] {
						seen[s] = true
						walk(s, 0)
					}
				}
			}
			for i, x := range ins.Block().Instrs {
				if x == ins {
					walk(ins.Block(), i+1)
				}
			}
			if len(bad) > 4 {
				bad = append(bad[:4:4], "…")
			}
			c.Check(rule, key, l.Pos(ins.Pos()), len(bad) == 0, "no deferred release, and no call that can panic while the lock is held",
				"the lock has no deferred release and calls made while it is held can panic ("+strings.Join(bad, ", ")+"): the panic is recovered further up (Marshal, a VM with recovery) with the lock still held, and the next operation on the object blocks for ever")
		})
	}
	c.extra["lock_sites"] = n
}

// ---- C02/operand-read-cover (also C05, C12) ------------------------------------------------------------------------------------
// The dispatch arm of an opcode that reads operands reads every operand byte
// the opcode table gives the instruction: each offset 1..W from the instruction
// pointer (W = the sum of the operand widths), counting the routines the arm
// calls.  (Reads beyond W are a look-ahead at the next instruction - the
// tail-call test - and are not judged.)  An arm that assembles a 4-byte jump target from its
// two low bytes runs every program correctly until a function grows past 64 KiB.
func ruleOperandReadCover(c *Ctx, rule string) {
	l := c.L
	p := l.ByPath[modPath]
	fd, sw := vmLoopSwitch(l)
	if !c.Anchor(rule, "VM dispatch switch over Opcode", sw != nil && p != nil) {
		return
	}
	info := p.TypesInfo
	widths := opcodeOperandWidths(l)
	if !c.Anchor(rule, "OpcodeOperands table", len(widths) >= 30) {
		return
	}
	// every function of the package, by object
	decls := map[types.Object]*ast.FuncDecl{}
	for _, f := range p.Syntax {
		for _, d := range f.Decls {
			if m, ok := d.(*ast.FuncDecl); ok && m.Body != nil {
				decls[info.Defs[m.Name]] = m
			}
		}
	}
	// offsets: every `X.curInsts[X.ip + k]` (or `[X.ip]` = 0) under n, following calls of methods on the receiver
	visiting := map[*ast.FuncDecl]bool{}
	var offsets func(n ast.Node, depth int, out map[int64]bool, opaque *bool)
	offsets = func(n ast.Node, depth int, out map[int64]bool, opaque *bool) {
		ast.Inspect(n, func(x ast.Node) bool {
			switch e := x.(type) {
			case *ast.IndexExpr:
				sel, ok := ast.Unparen(e.X).(*ast.SelectorExpr)
				if !ok || sel.Sel.Name != "curInsts" {
					return true
				}
				idx := ast.Unparen(e.Index)
				if be, ok := idx.(*ast.BinaryExpr); ok && be.Op == token.ADD {
					if tv, ok := info.Types[be.Y]; ok && tv.Value != nil {
						if k, ok := constant.Int64Val(tv.Value); ok {
							if s, ok := ast.Unparen(be.X).(*ast.SelectorExpr); ok && s.Sel.Name == "ip" {
								out[k] = true
								return true
							}
						}
					}
					*opaque = true
				}
			case *ast.SliceExpr:
				if sel, ok := ast.Unparen(e.X).(*ast.SelectorExpr); ok && sel.Sel.Name == "curInsts" {
					*opaque = true // a slice of the stream handed on: not modelled
				}
			case *ast.CallExpr:
				var callee types.Object
				switch f := ast.Unparen(e.Fun).(type) {
				case *ast.SelectorExpr:
					callee = info.Uses[f.Sel]
				case *ast.Ident:
					callee = info.Uses[f]
				}
				if m := decls[callee]; m != nil && m != fd && depth < 3 && !visiting[m] {
					visiting[m] = true
					offsets(m.Body, depth+1, out, opaque)
					visiting[m] = false
				}
			}
			return true
		})
	}
	n := 0
	for obj, w := range widths {
		v, ok := constant.Int64Val(obj.(*types.Const).Val())
		if !ok {
			continue
		}
		arm := opcodeArm(l, sw, v)
		if arm == nil {
			continue
		}
		got := map[int64]bool{}
		opaque := false
		for _, st := range arm.Body {
			offsets(st, 0, got, &opaque)
		}
		delete(got, 0)
		var miss, extra []string
		for k := int64(1); k <= int64(w); k++ {
			if !got[k] {
				miss = append(miss, fmt.Sprint(k))
			}
		}
		for k := range got {
			if k > int64(w) {
				extra = append(extra, fmt.Sprint(k))
			}
		}
		sort.Strings(extra)
		key := "arm " + obj.Name()
		pos := l.Pos(arm.Pos())
		n++
		switch {
		case opaque && len(miss) > 0:
			c.Ok(rule, key, pos, "reads operands through a computed offset or a slice of the stream (not modelled)")
		case len(miss) > 0 && len(got) > 0:
			c.Bad(rule, key, pos, fmt.Sprintf("the instruction has %d operand byte(s); the arm reads some of them but never the byte(s) at ip+%s: an operand is assembled from fewer bytes than the compiler writes (values above the narrower range decode wrongly)", w, strings.Join(miss, ", ip+")))
		case len(miss) > 0:
			c.Ok(rule, key, pos, fmt.Sprintf("reads none of its %d operand byte(s) (the operand is not needed at run time)", w))
		case len(extra) > 0:
			// looking at the instruction that follows (the tail-call test does) is not an operand read
			c.Ok(rule, key, pos, fmt.Sprintf("reads ip+1..ip+%d, and looks ahead at ip+%s", w, strings.Join(extra, ", ip+")))
		default:
			c.Ok(rule, key, pos, fmt.Sprintf("reads exactly ip+1..ip+%d", w))
		}
	}
	c.extra["opcode_arms_compared"] = n
}

// opcodeOperandWidths: opcode constant -> total operand bytes, from the OpcodeOperands literal.
func opcodeOperandWidths(l *Loaded) map[types.Object]int {
	out := map[types.Object]int{}
	p := l.ByPath[modPath]
	if p == nil {
		return out
	}
	for _, f := range p.Syntax {
		for _, d := range f.Decls {
			gd, ok := d.(*ast.GenDecl)
			if !ok || gd.Tok != token.VAR {
				continue
			}
			for _, sp := range gd.Specs {
				vs := sp.(*ast.ValueSpec)
				for i, nm := range vs.Names {
					if nm.Name != "OpcodeOperands" || i >= len(vs.Values) {
						continue
					}
					cl, ok := vs.Values[i].(*ast.CompositeLit)
					if !ok {
						continue
					}
					for _, el := range cl.Elts {
						kv, ok := el.(*ast.KeyValueExpr)
						if !ok {
							continue
						}
						id, ok := kv.Key.(*ast.Ident)
						if !ok {
							continue
						}
						co, ok := p.TypesInfo.Uses[id].(*types.Const)
						if !ok {
							continue
						}
						total := 0
						okW := true
						if vl, ok := kv.Value.(*ast.CompositeLit); ok {
							for _, we := range vl.Elts {
								tv, ok := p.TypesInfo.Types[we]
								if !ok || tv.Value == nil {
									okW = false
									continue
								}
								k, _ := constant.Int64Val(tv.Value)
								total += int(k)
							}
						} else {
							okW = false
						}
						if okW {
							out[co] = total
						}
					}
				}
			}
		}
	}
	return out
}

// ---- param-used (C10, C12) -----------------------------------------------------------------------------------------------------------
// State is handed down the compile pipeline in parameters (the session's module
// store, the options, the parent compiler's tables).  A parameter of an
// unexported function that the function never looks at means the caller's state
// is silently dropped: compileScript ignoring the module store it is given
// numbers every fragment's modules from 0 while the VM's module cache persists.
// Judged for unexported functions that are only called directly (no method
// values, no interface satisfaction to keep a signature for), for named
// parameters (a parameter named _ is declared unused) of the types that carry
// compile or session state (module store, symbol table, options, module map,
// compiler, optimizer, constant pool).
func ruleParamUsed(c *Ctx, rule string, pkgFilter func(string) bool) {
	l := c.L
	n := 0
	for _, fn := range l.RepoFuncs(pkgFilter) {
		if fn.Object() == nil || fn.Object().Exported() || fn.Parent() != nil || len(fn.Blocks) == 0 || fn.Synthetic != "" {
			continue
		}
		if fn.Signature.Recv() != nil {
			continue // methods keep signatures for interfaces
		}
		if l.AddressTaken(fn) || len(l.RealCallers(fn)) == 0 {
			continue
		}
		for i, p := range fn.Params {
			if p.Name() == "_" || p.Name() == "" {
				continue
			}
			// only parameters that carry compile / session state: the module store, symbol
			// tables, options, module maps, the constant pool (an unused int or string is
			// nobody's lost state)
			state := false
			for _, nm := range []string{"moduleStore", "SymbolTable", "CompilerOptions", "ModuleMap", "Compiler", "SimpleOptimizer"} {
				if isNamed(p.Type(), modPath, nm) {
					state = true
				}
			}
			if sl, ok := p.Type().Underlying().(*types.Slice); ok && isNamed(sl.Elem(), modPath, "Object") {
				state = true
			}
			if !state {
				continue
			}
			n++
			used := p.Referrers() != nil && len(*p.Referrers()) > 0
			if used {
				// only DebugRefs do not count
				used = false
				for _, r := range *p.Referrers() {
					if _, isD := r.(*ssa.DebugRef); !isD {
						used = true
					}
				}
			}
			c.Check(rule, fmt.Sprintf("%s | parameter %d (%s)", fnName(fn), i, tstr(p.Type())), l.Pos(p.Pos()), used, "used",
				"the function never looks at this parameter: what its callers hand down (session module store, options, parent tables) is silently dropped")
		}
	}
	c.extra["parameters_examined"] = n
}

// ---- C14/arity-with-variadic -------------------------------------------------------------------------------------------------------
// NumParams of a compiled function counts the rest parameter of a variadic
// function.  Any test of an argument count against NumParams that does not also
// look at Variadic treats `func(c, ...rest)` as a function of two mandatory
// parameters (or rejects it for "exactly one parameter").  Every function of
// the library that compares a value derived from a CompiledFunction's
// NumParams also reads a CompiledFunction's Variadic.
func ruleArityWithVariadic(c *Ctx, rule string) {
	l := c.L
	_, fNP := l.structField(modPath, "CompiledFunction", "NumParams")
	_, fVar := l.structField(modPath, "CompiledFunction", "Variadic")
	if !c.Anchor(rule, "CompiledFunction.NumParams / Variadic", fNP >= 0 && fVar >= 0) {
		return
	}
	n := 0
	for _, fn := range l.RepoFuncs(func(p string) bool { return isLibPkg(p) }) {
		var cmp ssa.Instruction
		readsVar := false
		eachInstr(fn, func(ins ssa.Instruction) {
			if ld, ok := ins.(*ssa.UnOp); ok && ld.Op == token.MUL {
				if _, ok := isFieldAddrOf(ld.X, modPath, "CompiledFunction", fVar); ok {
					readsVar = true
				}
			}
			bo, ok := ins.(*ssa.BinOp)
			if !ok {
				return
			}
			switch bo.Op {
			case token.EQL, token.NEQ, token.LSS, token.LEQ, token.GTR, token.GEQ:
			default:
				return
			}
			isNP := func(v ssa.Value) bool {
				return derivesFrom(v, func(x ssa.Value) bool {
					ld, ok := x.(*ssa.UnOp)
					if !ok || ld.Op != token.MUL {
						return false
					}
					_, ok = isFieldAddrOf(ld.X, modPath, "CompiledFunction", fNP)
					return ok
				}, 4)
			}
			if isNP(bo.X) || isNP(bo.Y) {
				if cmp == nil {
					cmp = ins
				}
			}
		})
		if cmp == nil {
			continue
		}
		n++
		c.Check(rule, fmt.Sprintf("%s | comparison on NumParams", fnName(fn)), l.Pos(cmp.Pos()), readsVar, "the function also reads Variadic",
			"an argument count (or a constant) is compared with NumParams in a function that never looks at Variadic: NumParams includes the rest parameter, so a variadic callee such as func(c, ...rest) is treated as having two mandatory parameters - called from Go it is refused or mis-bound where the same call inside a script works")
	}
	if n == 0 {
		c.Und(rule, "comparisons on NumParams", "-", "no comparison on CompiledFunction.NumParams found")
	}
}

// ---- C14/invoke-result-identity -----------------------------------------------------------------------------------------------------
// What Invoke returns to Go is what the call produced: on every path the
// returned Object is the first result of a call that returns (Object, error)
// - the child VM's Run, the callee's own Call - or the Undefined singleton.
// A copy, a conversion or any other method result in its place detaches the
// Go caller from the aggregate the script function returned (writes through it
// are lost), which a call inside the script never does.
func ruleInvokeResultIdentity(c *Ctx, rule string) {
	l := c.L
	inv := l.Method(modPath, "Invoker", "Invoke")
	if !c.Anchor(rule, "Invoker.Invoke", inv != nil) {
		return
	}
	n := 0
	for _, b := range inv.Blocks {
		ret, ok := b.Instrs[len(b.Instrs)-1].(*ssa.Return)
		if !ok || len(ret.Results) != 2 {
			continue
		}
		seen := map[ssa.Value]bool{}
		var bad []string
		var leaf func(v ssa.Value)
		leaf = func(v ssa.Value) {
			if seen[v] {
				return
			}
			seen[v] = true
			switch x := v.(type) {
			case *ssa.Phi:
				for _, e := range x.Edges {
					leaf(e)
				}
			case *ssa.Extract:
				if cl, ok := x.Tuple.(*ssa.Call); ok && x.Index == 0 {
					if tup, ok := cl.Type().(*types.Tuple); ok && tup.Len() == 2 && isErrorType(tup.At(1).Type()) {
						return
					}
				}
				bad = append(bad, describe(v))
			case *ssa.UnOp:
				if _, isG := x.X.(*ssa.Global); isG && x.Op == token.MUL {
					return
				}
				if al, ok := x.X.(*ssa.Alloc); ok && al.Referrers() != nil {
					for _, r := range *al.Referrers() {
						if st, ok := r.(*ssa.Store); ok && st.Addr == ssa.Value(al) {
							leaf(st.Val)
						}
					}
					return
				}
				bad = append(bad, describe(v))
			case *ssa.Const:
				return
			default:
				bad = append(bad, describe(v))
			}
		}
		leaf(returnedValue(ret, 0))
		n++
		c.Check(rule, fmt.Sprintf("Invoker.Invoke | return #%d", n), l.Pos(ret.Pos()), len(bad) == 0, "the first result of an (Object, error) call, or Undefined",
			"Invoke returns "+strings.Join(bad, ", ")+" - not the object the call produced but something computed from it: an aggregate returned by the script function reaches Go as a different object than the one a caller inside the script gets")
	}
	if n == 0 {
		c.Und(rule, "returns of Invoke", l.Pos(inv.Pos()), "no return with two results found")
	}
}

// ---- C12/map-key-agree ---------------------------------------------------------------------------------------------------------------
// A registry kept in a map field is looked up with the key it was stored under:
// over all lookups, updates and deletes of one string-keyed map field of a
// struct of the package, the key is normalised the same way (not at all, or by
// the same function).  Cleaning the module name at the lookup and not at the
// insertion makes every import of "./counter" miss: the module is compiled
// again under a new index and its body runs once per import expression.
func ruleMapKeyAgree(c *Ctx, rule string, pkgFilter func(string) bool) {
	l := c.L
	type acc struct {
		shape string
		pos   string
		what  string
	}
	byField := map[string][]acc{}
	// shapesOf: the forms the key can take; a parameter of a function that is only
	// called directly stands for the arguments at its call sites
	shapesOf := func(v ssa.Value) []string {
		var rec func(v ssa.Value, d int) []string
		rec = func(v ssa.Value, d int) []string {
			if d > 5 {
				return []string{"·"}
			}
			switch x := v.(type) {
			case *ssa.Convert:
				return rec(x.X, d+1)
			case *ssa.ChangeType:
				return rec(x.X, d+1)
			case *ssa.Parameter:
				fn := x.Parent()
				if fn != nil && fn.Object() != nil && !fn.Object().Exported() && !l.AddressTaken(fn) {
					if cs := l.RealCallers(fn); len(cs) > 0 {
						pi := -1
						for k, q := range fn.Params {
							if q == x {
								pi = k
							}
						}
						var out []string
						for _, ci := range cs {
							if a := ci.Common().Args; pi >= 0 && pi < len(a) {
								out = append(out, rec(a[pi], d+1)...)
							}
						}
						if len(out) > 0 {
							return out
						}
					}
				}
			case *ssa.Call:
				if f := x.Call.StaticCallee(); f != nil && len(x.Call.Args) >= 1 {
					if b, ok := x.Type().Underlying().(*types.Basic); ok && b.Info()&types.IsString != 0 {
						for _, a := range x.Call.Args {
							if ab, ok := a.Type().Underlying().(*types.Basic); ok && ab.Info()&types.IsString != 0 {
								var out []string
								for _, in := range rec(a, d+1) {
									out = append(out, funcPkgPath(f)+"."+f.Name()+"("+in+")")
								}
								return out
							}
						}
					}
				}
			}
			return []string{"·"}
		}
		return uniq(sortedCopy(rec(v, 0)))
	}
	shapeOf := func(v ssa.Value) string { return strings.Join(shapesOf(v), " | ") }
	fieldOf := func(m ssa.Value) (string, bool) {
		ld, ok := m.(*ssa.UnOp)
		if !ok || ld.Op != token.MUL {
			return "", false
		}
		fa, ok := ld.X.(*ssa.FieldAddr)
		if !ok {
			return "", false
		}
		pt, ok := fa.X.Type().Underlying().(*types.Pointer)
		if !ok {
			return "", false
		}
		n := namedOf(pt.Elem())
		st, ok2 := pt.Elem().Underlying().(*types.Struct)
		if n == nil || !ok2 || n.Obj().Pkg() == nil || !pkgFilter(n.Obj().Pkg().Path()) {
			return "", false
		}
		mt, ok := st.Field(fa.Field).Type().Underlying().(*types.Map)
		if !ok {
			return "", false
		}
		if kb, ok := mt.Key().Underlying().(*types.Basic); !ok || kb.Info()&types.IsString == 0 {
			return "", false
		}
		return n.Obj().Name() + "." + st.Field(fa.Field).Name(), true
	}
	for _, fn := range l.RepoFuncs(pkgFilter) {
		eachInstr(fn, func(ins ssa.Instruction) {
			switch x := ins.(type) {
			case *ssa.Lookup:
				if f, ok := fieldOf(x.X); ok {
					byField[f] = append(byField[f], acc{shapeOf(x.Index), l.Pos(x.Pos()), "lookup in " + fnName(fn)})
				}
			case *ssa.MapUpdate:
				if f, ok := fieldOf(x.Map); ok {
					byField[f] = append(byField[f], acc{shapeOf(x.Key), l.Pos(x.Pos()), "update in " + fnName(fn)})
				}
			case *ssa.Call:
				if b, ok := x.Call.Value.(*ssa.Builtin); ok && b.Name() == "delete" && len(x.Call.Args) == 2 {
					if f, ok := fieldOf(x.Call.Args[0]); ok {
						byField[f] = append(byField[f], acc{shapeOf(x.Call.Args[1]), l.Pos(x.Pos()), "delete in " + fnName(fn)})
					}
				}
			}
		})
	}
	var fields []string
	for f := range byField {
		fields = append(fields, f)
	}
	sort.Strings(fields)
	n := 0
	for _, f := range fields {
		as := byField[f]
		if len(as) < 2 {
			continue
		}
		n++
		shapes := map[string]acc{}
		for _, a := range as {
			if _, ok := shapes[a.shape]; !ok {
				shapes[a.shape] = a
			}
		}
		if len(shapes) == 1 {
			c.Ok(rule, "map field "+f, as[0].pos, fmt.Sprintf("%d accesses, one key form (%s)", len(as), as[0].shape))
			continue
		}
		var ds []string
		for s, a := range shapes {
			ds = append(ds, fmt.Sprintf("%s (%s at %s)", s, a.what, a.pos))
		}
		sort.Strings(ds)
		c.Bad(rule, "map field "+f, as[0].pos, "the map is accessed with keys normalised in different ways: "+strings.Join(ds, "; ")+" - an entry stored under one form is not found under the other")
	}
	if n < 3 {
		c.Und(rule, "string-keyed map fields", "-", fmt.Sprintf("only %d string-keyed map fields with several accesses found", n))
	}
}

// ---- C16/emit-node ------------------------------------------------------------------------------------------------------------------
// The position of a calling frame is read from the source map at the
// instruction that follows the call - which may be any instruction the
// compiler emits for the enclosing construct, synthetic jumps included.  A
// function that compiles a syntax node (it has a parameter of a parser node
// type) therefore never emits an instruction with a nil node: the source map
// would hold "no position" there and the frame prints as "-".
func ruleEmitNode(c *Ctx, rule string) {
	l := c.L
	emit := l.Method(modPath, "Compiler", "emit")
	pp := l.ByPath[modPath+"/parser"]
	if !c.Anchor(rule, "Compiler.emit / parser.Node", emit != nil && pp != nil && len(emit.Params) >= 2) {
		return
	}
	var nodeI *types.Interface
	if tn, ok := pp.Types.Scope().Lookup("Node").(*types.TypeName); ok {
		nodeI, _ = tn.Type().Underlying().(*types.Interface)
	}
	if !c.Anchor(rule, "parser.Node", nodeI != nil) {
		return
	}
	n := 0
	for _, fn := range l.RepoFuncs(func(p string) bool { return p == modPath }) {
		hasNode := false
		for _, p := range fn.Params[min(1, len(fn.Params)):] {
			if types.Implements(p.Type(), nodeI) {
				hasNode = true
			}
		}
		if fn.Parent() != nil {
			for _, p := range fn.Parent().Params {
				if types.Implements(p.Type(), nodeI) {
					hasNode = true
				}
			}
		}
		eachInstr(fn, func(ins ssa.Instruction) {
			ci, ok := ins.(ssa.CallInstruction)
			if !ok || ci.Common().StaticCallee() != emit || len(ci.Common().Args) < 2 {
				return
			}
			n++
			k, isConst := ci.Common().Args[1].(*ssa.Const)
			if !isConst || !k.IsNil() {
				return
			}
			key := fmt.Sprintf("%s | emit(nil, …)", fnName(fn))
			c.Check(rule, key, l.Pos(ins.Pos()), !hasNode, "emitted outside the compilation of a syntax node (the implicit final return)",
				"an instruction is emitted without a node while compiling a syntax node: the source map has no position at that instruction, and a frame whose call is followed by it is reported as '-' in the stack trace")
		})
	}
	c.Ok(rule, "emit call sites", l.Pos(emit.Pos()), fmt.Sprintf("%d calls of emit examined", n))
	if n < 50 {
		c.Und(rule, "emit call sites (count)", "-", fmt.Sprintf("only %d calls of Compiler.emit found", n))
	}
}

// ---- loop-err-checked (C20, C19) -----------------------------------------------------------------------------------------------------
// An error returned by a call made inside a loop is looked at before the loop
// goes round again: the error result is compared with nil (or returned) inside
// the loop.  Assigned to a variable that is only tested after the loop, every
// error but the last iteration's is overwritten - a slice with an unsupported
// value in any position but the last converts "successfully", with a nil
// Object in the hole.
func ruleLoopErrChecked(c *Ctx, rule string, fns []*ssa.Function, floor int) {
	l := c.L
	n := 0
	for _, fn := range fns {
		eachInstr(fn, func(ins ssa.Instruction) {
			cl, ok := ins.(*ssa.Call)
			if !ok || cl.Referrers() == nil {
				return
			}
			tup, ok := cl.Type().(*types.Tuple)
			if !ok || tup.Len() < 2 || !isErrorType(tup.At(tup.Len()-1).Type()) {
				return
			}
			b := cl.Block()
			// innermost loop around the call
			var h *ssa.BasicBlock
			for _, cand := range fn.Blocks {
				if !(cand == b || cand.Dominates(b)) || !blockReaches(b, cand) {
					continue
				}
				back := false
				for _, p := range cand.Preds {
					if cand.Dominates(p) {
						back = true
					}
				}
				if back && (h == nil || h.Dominates(cand)) {
					h = cand
				}
			}
			if h == nil {
				return
			}
			inL := func(x *ssa.BasicBlock) bool { return (x == h || h.Dominates(x)) && blockReaches(x, h) }
			var errv *ssa.Extract
			for _, r := range *cl.Referrers() {
				if ex, ok := r.(*ssa.Extract); ok && ex.Index == tup.Len()-1 {
					errv = ex
				}
			}
			callee := "call"
			if f := cl.Call.StaticCallee(); f != nil {
				callee = f.Name()
			} else if cl.Call.IsInvoke() {
				callee = cl.Call.Method.Name()
			}
			key := fmt.Sprintf("%s | error of %s() in a loop", fnName(fn), callee)
			if errv == nil || errv.Referrers() == nil || len(*errv.Referrers()) == 0 {
				return // discarded outright: other rules (err-nil-use) judge that
			}
			n++
			checked := false
			seen := map[ssa.Value]bool{}
			var follow func(v ssa.Value, d int)
			follow = func(v ssa.Value, d int) {
				if seen[v] || d > 4 || v.Referrers() == nil {
					return
				}
				seen[v] = true
				for _, r := range *v.Referrers() {
					switch x := r.(type) {
					case *ssa.BinOp:
						if (x.Op == token.EQL || x.Op == token.NEQ) && inL(x.Block()) {
							checked = true
						}
					case *ssa.Return:
						checked = true // returned from inside the loop (or handed straight on)
					case *ssa.Store:
						// spilled named result: loads of the cell inside the loop
						if al, ok := x.Addr.(*ssa.Alloc); ok && al.Referrers() != nil {
							for _, ar := range *al.Referrers() {
								if ld, ok := ar.(*ssa.UnOp); ok && ld.Op == token.MUL && inL(ld.Block()) && (ld.Block() != x.Block() || instrDominates(x, ld)) {
									follow(ld, d+1)
								}
							}
						}
						// stored into a captured cell or field: recorded for someone else to test
						if _, isAlloc := x.Addr.(*ssa.Alloc); !isAlloc {
							checked = true
						}
					case *ssa.Phi:
						if inL(x.Block()) && x.Block() != h {
							follow(x, d+1)
						}
					case *ssa.MakeInterface, *ssa.ChangeInterface:
						follow(r.(ssa.Value), d+1)
					case ssa.CallInstruction:
						checked = true // handed to a function (wrapping, recording)
					}
				}
			}
			follow(errv, 0)
			c.Check(rule, key, l.Pos(cl.Pos()), checked, "tested, returned or handed on inside the loop",
				"the error of a call made in a loop is not looked at inside the loop (only the variable's last value is tested afterwards): the errors of all iterations but the last are overwritten")
		})
	}
	if n < floor {
		c.Und(rule, "calls with an error result inside loops", "-", fmt.Sprintf("only %d found, fewer than the %d confirmed by hand", n, floor))
	}
}

// ---- C04/encode-guard-survives --------------------------------------------------------------------------------------------------------
// "Encoding the decoded Bytecode and decoding it once more gives an equivalent
// program": whatever the encoder's decisions depend on must survive decoding.
// Every branch condition of the encoding functions that reads a field of one of
// the encoded structs reads a field that the decoding functions store.  A field
// nothing restores (a look-up cache such as the file set's last-used file) is
// set on a freshly compiled Bytecode and empty on a decoded one: a section
// written "only if the cache is set" is silently dropped the second time round.
func ruleEncodeGuardSurvives(c *Ctx, rule string) {
	l := c.L
	dec := decodeFuncs(c, rule)
	if dec == nil {
		return
	}
	type fld struct {
		t *types.Named
		i int
	}
	stored := map[fld]bool{}
	typesSeen := map[*types.Named]bool{}
	canon := func(t types.Type) *types.Named {
		if p, ok := t.Underlying().(*types.Pointer); ok {
			t = p.Elem()
		}
		n := namedOf(t)
		if n == nil {
			return nil
		}
		// the encoder's shim types (type Bytecode ugo.Bytecode) stand for the types they copy
		if n.Obj().Pkg() != nil && n.Obj().Pkg().Path() == encPath {
			for _, pp := range []string{modPath, parserPath} {
				if p := l.ByPath[pp]; p != nil {
					if tn, ok := p.Types.Scope().Lookup(n.Obj().Name()).(*types.TypeName); ok && types.Identical(tn.Type().Underlying(), n.Underlying()) {
						if nn := namedOf(tn.Type()); nn != nil {
							return nn
						}
					}
				}
			}
		}
		return n
	}
	for _, fn := range dec {
		eachInstr(fn, func(ins ssa.Instruction) {
			switch x := ins.(type) {
			case *ssa.Store:
				if fa, ok := x.Addr.(*ssa.FieldAddr); ok {
					if n := canon(fa.X.Type()); n != nil {
						stored[fld{n, fa.Field}] = true
						typesSeen[n] = true
					}
				}
			}
		})
	}
	if !c.Anchor(rule, "fields stored by the decoding functions (found fewer than 10)", len(stored) >= 10) {
		return
	}
	// encoding functions: MarshalBinary / Encode methods and what they reach inside the package
	var roots []*ssa.Function
	for _, f := range l.RepoFuncs(func(pp string) bool { return pp == encPath }) {
		if f.Parent() == nil && f.Synthetic == "" && (f.Name() == "MarshalBinary" || f.Name() == "Encode" || strings.HasPrefix(f.Name(), "EncodeBytecode")) {
			roots = append(roots, f)
		}
	}
	enc := staticReach(roots, func(f *ssa.Function) bool { return strings.HasPrefix(funcPkgPath(f), encPath) && len(f.Blocks) > 0 })
	n := 0
	for _, fn := range enc {
		isDec := false
		for _, d := range dec {
			if d == fn {
				isDec = true
			}
		}
		if isDec {
			continue
		}
		for _, b := range fn.Blocks {
			iff, ok := b.Instrs[len(b.Instrs)-1].(*ssa.If)
			if !ok {
				continue
			}
			var reads []*ssa.FieldAddr
			seen := map[ssa.Value]bool{}
			var rec func(v ssa.Value, d int)
			rec = func(v ssa.Value, d int) {
				if v == nil || seen[v] || d > 5 {
					return
				}
				seen[v] = true
				switch x := v.(type) {
				case *ssa.BinOp:
					rec(x.X, d+1)
					rec(x.Y, d+1)
				case *ssa.UnOp:
					if fa, ok := x.X.(*ssa.FieldAddr); ok {
						reads = append(reads, fa)
						return
					}
					rec(x.X, d+1)
				case *ssa.Call:
					if bi, ok := x.Call.Value.(*ssa.Builtin); ok && (bi.Name() == "len" || bi.Name() == "cap") {
						rec(x.Call.Args[0], d+1)
					}
				case *ssa.Convert:
					rec(x.X, d+1)
				case *ssa.ChangeType:
					rec(x.X, d+1)
				case *ssa.Phi:
					for _, e := range x.Edges {
						rec(e, d+1)
					}
				}
			}
			rec(iff.Cond, 0)
			// a branch that refuses (one side returns an error straight away) decides
			// nothing about the encoding's content
			refuses := false
			for _, sc := range b.Succs {
				if ret, ok := sc.Instrs[len(sc.Instrs)-1].(*ssa.Return); ok && len(sc.Instrs) <= 4 && len(ret.Results) > 0 {
					last := ret.Results[len(ret.Results)-1]
					if isErrorType(last.Type()) {
						if k, isC := last.(*ssa.Const); !isC || !k.IsNil() {
							refuses = true
						}
					}
				}
			}
			if refuses {
				continue
			}
			for _, fa := range reads {
				nt := canon(fa.X.Type())
				if nt == nil || !typesSeen[nt] {
					continue
				}
				st, ok := nt.Underlying().(*types.Struct)
				if !ok {
					continue
				}
				n++
				key := fmt.Sprintf("%s | branch on %s.%s", fnName(fn), nt.Obj().Name(), st.Field(fa.Field).Name())
				c.Check(rule, key, l.Pos(iff.Cond.Pos()), stored[fld{nt, fa.Field}], "a field the decoding functions restore",
					"the encoder branches on "+nt.Obj().Name()+"."+st.Field(fa.Field).Name()+", which no decoding function stores: the decision differs between a compiled Bytecode and the same Bytecode after one encode / decode round, so a second round does not reproduce the program (a section guarded by it is dropped)")
			}
		}
	}
	if n < 5 {
		c.Und(rule, "branches of the encoding functions on fields of encoded structs", "-", fmt.Sprintf("only %d found", n))
	}
}

// ---- C05/trace-writer-guard ---------------------------------------------------------------------------------------------------------
// The compiler, the optimizer and their helpers print their trace to an
// io.Writer held in a field that is nil unless a writer was configured; the
// Trace* option flags are independent of it (a flag can be set with no writer,
// and the optimizer's private compiler copies the flags but takes its writer
// from elsewhere).  Every write to such a writer - a call of a printing
// function of the Go library with the field's value, directly or through
// helpers that receive it - lies behind a test that the field is not nil:
// at the call, or at every call site of the helper that contains it.
// (Root package only: the parser keeps a boolean that its one constructor sets
// to "writer != nil"; that invariant is of another shape and is not judged.)
func ruleTraceWriterGuard(c *Ctx, rule string) {
	l := c.L
	isWriter := func(t types.Type) bool {
		n := namedOf(t)
		return n != nil && n.Obj().Pkg() != nil && n.Obj().Pkg().Path() == "io" && n.Obj().Name() == "Writer"
	}
	isTraceFieldLoad := func(v ssa.Value) bool {
		ld, ok := v.(*ssa.UnOp)
		if !ok || ld.Op != token.MUL {
			return false
		}
		fa, ok := ld.X.(*ssa.FieldAddr)
		if !ok || !isWriter(ld.Type()) {
			return false
		}
		pt, ok := fa.X.Type().Underlying().(*types.Pointer)
		if !ok {
			return false
		}
		n := namedOf(pt.Elem())
		return n != nil && n.Obj().Pkg() != nil && strings.HasPrefix(n.Obj().Pkg().Path(), modPath)
	}
	// guardedAt: a dominating branch established that some trace writer field is not nil
	guardedAt := func(b *ssa.BasicBlock) bool {
		for _, g := range guardEdges(b) {
			bo, ok := g.If.Cond.(*ssa.BinOp)
			if !ok || (bo.Op != token.NEQ && bo.Op != token.EQL) || (bo.Op == token.NEQ) != g.Truth {
				continue
			}
			for _, pr := range [][2]ssa.Value{{bo.X, bo.Y}, {bo.Y, bo.X}} {
				if k, ok := pr[1].(*ssa.Const); ok && k.IsNil() && isTraceFieldLoad(pr[0]) {
					return true
				}
			}
		}
		return false
	}
	memo := map[*ssa.Function]int{}
	unguardedSite := ""
	var callersGuarded func(fn *ssa.Function, depth int) bool
	callersGuarded = func(fn *ssa.Function, depth int) bool {
		if r, ok := memo[fn]; ok {
			return r == 1
		}
		memo[fn] = 0
		if depth > 4 || fn.Object() == nil || fn.Object().Exported() || l.AddressTaken(fn) {
			return false
		}
		cs := l.RealCallers(fn)
		if len(cs) == 0 {
			return false
		}
		for _, ci := range cs {
			if guardedAt(ci.Block()) {
				continue
			}
			if p := ci.Parent(); p != nil && callersGuarded(p, depth+1) {
				continue
			}
			if depth == 0 {
				unguardedSite = fnName(ci.Parent()) + " at " + l.Pos(ci.Pos())
			}
			return false
		}
		memo[fn] = 1
		return true
	}
	n := 0
	for _, fn := range l.RepoFuncs(func(p string) bool { return p == modPath }) {
		eachInstr(fn, func(ins ssa.Instruction) {
			ci, ok := ins.(ssa.CallInstruction)
			if !ok {
				return
			}
			g := ci.Common().StaticCallee()
			if g == nil || strings.HasPrefix(funcPkgPath(g), modPath) {
				return // only calls that leave the repository write
			}
			for _, a := range ci.Common().Args {
				if !isWriter(a.Type()) {
					continue
				}
				fromField := isTraceFieldLoad(a)
				_, fromParam := a.(*ssa.Parameter)
				if !fromField && !fromParam {
					continue
				}
				if fromParam {
					// a helper that prints to a writer it is given: judged only when some caller hands it a trace field
					hands := false
					for _, cs := range l.RealCallers(fn) {
						for _, ca := range cs.Common().Args {
							if isTraceFieldLoad(ca) {
								hands = true
							}
						}
					}
					if !hands {
						continue
					}
				}
				n++
				ok := guardedAt(ins.Block()) || callersGuarded(fn, 0)
				c.Check(rule, fmt.Sprintf("%s | %s(trace writer, …)", fnName(fn), g.Name()), l.Pos(ins.Pos()), ok, "behind a test that the writer field is not nil (here or at every call site of the helper)",
					"the trace writer is written to without a test that it is not nil on the way (unguarded call: "+unguardedSite+"; a Trace* flag is not that test: flags and writer are set independently): Compile panics with a nil dereference for TraceCompiler: true without a Trace writer")
			}
		})
	}
	if n < 6 {
		c.Und(rule, "writes to a trace writer", "-", fmt.Sprintf("only %d found", n))
	}
}

// ---- C13/set-owned (also C10) ------------------------------------------------------------------------------------------------------------
// Every symbol table owns its set of disabled builtins: the value assigned to
// the field is a map made on the spot (or nil, or the result of a function all
// of whose returns are such).  Assigning the set of another table (what its
// accessor returns) makes two tables share one map: the optimizer's scratch
// table empties "its" set on reset - and the session's disabled builtins with it.
func ruleSetOwned(c *Ctx, rule string, roles *symtabRoles) {
	l := c.L
	var fresh func(v ssa.Value, d int) bool
	fresh = func(v ssa.Value, d int) bool {
		if d > 4 {
			return false
		}
		switch x := v.(type) {
		case *ssa.MakeMap:
			return true
		case *ssa.Const:
			return x.IsNil()
		case *ssa.Phi:
			for _, e := range x.Edges {
				if !fresh(e, d+1) {
					return false
				}
			}
			return len(x.Edges) > 0
		case *ssa.Call:
			f := x.Call.StaticCallee()
			if f == nil || len(f.Blocks) == 0 {
				return false
			}
			k := 0
			for _, b := range f.Blocks {
				if ret, ok := b.Instrs[len(b.Instrs)-1].(*ssa.Return); ok && len(ret.Results) == 1 {
					k++
					if !fresh(ret.Results[0], d+1) {
						return false
					}
				}
			}
			return k > 0
		}
		return false
	}
	n := 0
	for _, fn := range l.RepoFuncs(func(pp string) bool { return pp == modPath }) {
		eachInstr(fn, func(ins ssa.Instruction) {
			st, ok := ins.(*ssa.Store)
			if !ok {
				return
			}
			if _, ok := isFieldAddrOf(st.Addr, modPath, "SymbolTable", roles.fDisabled); !ok {
				return
			}
			n++
			own := false
			if ld, ok := st.Val.(*ssa.UnOp); ok && ld.Op == token.MUL {
				if fa2, ok := isFieldAddrOf(ld.X, modPath, "SymbolTable", roles.fDisabled); ok {
					if fa1, ok := st.Addr.(*ssa.FieldAddr); ok && (fa1.X == fa2.X || exprEq(fa1.X, fa2.X)) {
						own = true // the table's own set, kept across a reset
					}
				}
			}
			c.Check(rule, fmt.Sprintf("%s | disabledBuiltins = %s", fnName(fn), describe(st.Val)), l.Pos(st.Pos()), own || fresh(st.Val, 0), "a map made on the spot (or nil, or the table's own set)",
				"the table's set of disabled builtins is assigned a map that is not made on the spot (another table's set, through its accessor): two tables share one map, and resetting or extending one changes the other - builtins the host disabled become available again after the optimizer's scratch table is reset")
		})
	}
	if n == 0 {
		c.Und(rule, "stores to disabledBuiltins", "-", "none found")
	}
}

// ---- C11/decode-reentrant (also C18, C04) --------------------------------------------------------------------------------------------
// Decoding is a function of its input: the decoding functions keep no state in
// package-level variables.  They never store to a package-level variable, and a
// package-level slice or map is only read - indexed, ranged over, measured,
// or handed to a function in a parameter that function never writes through.
// Scratch buffers hoisted to package level make two concurrent decodes of
// version 1 images overwrite each other's operands.
func ruleDecodeReentrant(c *Ctx, rule string, fns []*ssa.Function) {
	l := c.L
	// mayWrite(f, i): f may write through its i-th parameter (element store, append in place, copy into it, handing it on)
	memo := map[string]int{}
	var mayWrite func(f *ssa.Function, i int, depth int) bool
	var writtenThrough func(v ssa.Value, depth int, seen map[ssa.Value]bool) bool
	writtenThrough = func(v ssa.Value, depth int, seen map[ssa.Value]bool) bool {
		if seen[v] || v.Referrers() == nil {
			return false
		}
		seen[v] = true
		for _, r := range *v.Referrers() {
			switch x := r.(type) {
			case *ssa.IndexAddr:
				if x.X == v && addrWritten(x, seen) {
					return true
				}
			case *ssa.Slice:
				if x.X == v && writtenThrough(x, depth, seen) {
					return true
				}
			case *ssa.MapUpdate:
				if x.Map == v {
					return true
				}
			case *ssa.Phi:
				if writtenThrough(x, depth, seen) {
					return true
				}
			case *ssa.ChangeType:
				if writtenThrough(x, depth, seen) {
					return true
				}
			case *ssa.Store:
				if x.Val == v {
					return true // escapes into memory: assume written later
				}
			case ssa.CallInstruction:
				cc := x.Common()
				if b, ok := cc.Value.(*ssa.Builtin); ok {
					switch b.Name() {
					case "append":
						if len(cc.Args) > 0 && cc.Args[0] == v {
							return true
						}
					case "copy":
						if len(cc.Args) > 0 && cc.Args[0] == v {
							return true
						}
					case "delete", "clear":
						return true
					}
					continue
				}
				g := cc.StaticCallee()
				for ai, a := range cc.Args {
					if a != v {
						continue
					}
					if g == nil {
						return true
					}
					if len(g.Blocks) == 0 {
						// the Go library: bytes.NewReader, fmt, sort.Search... read; known writers are few
						pp := funcPkgPath(g)
						if (pp == "sort" && !strings.HasPrefix(g.Name(), "Search")) || pp == "io" || (pp == "encoding/binary" && strings.HasPrefix(g.Name(), "Put")) {
							return true
						}
						continue
					}
					if mayWrite(g, ai, depth+1) {
						return true
					}
				}
			}
		}
		return false
	}
	mayWrite = func(f *ssa.Function, i int, depth int) bool {
		key := fmt.Sprintf("%p/%d", f, i)
		if r, ok := memo[key]; ok {
			return r == 1
		}
		if depth > 4 || i >= len(f.Params) {
			return true
		}
		memo[key] = 0
		res := writtenThrough(f.Params[i], depth, map[ssa.Value]bool{})
		if res {
			memo[key] = 1
		}
		return res
	}
	n := 0
	for _, fn := range fns {
		eachInstr(fn, func(ins ssa.Instruction) {
			switch x := ins.(type) {
			case *ssa.Store:
				if g, ok := x.Addr.(*ssa.Global); ok {
					n++
					c.Bad(rule, fmt.Sprintf("%s | store to package-level %s", fnName(fn), g.Name()), l.Pos(x.Pos()), "a decoding function assigns a package-level variable: decoding keeps state between (and across concurrent) calls")
				}
			case *ssa.UnOp:
				g, ok := x.X.(*ssa.Global)
				if !ok || x.Op != token.MUL {
					return
				}
				switch x.Type().Underlying().(type) {
				case *types.Slice, *types.Map:
				default:
					return
				}
				n++
				c.Check(rule, fmt.Sprintf("%s | use of package-level %s", fnName(fn), g.Name()), l.Pos(x.Pos()), !writtenThrough(x, 0, map[ssa.Value]bool{}), "only read (indexed, ranged over, measured, handed to readers)",
					"a decoding function writes through a package-level slice or map (re-slices it as a scratch buffer, appends to it, or hands it to a function that does): two decodes running at the same time, or one after the other, share that storage - operands of one image end up in the other")
			}
		})
	}
	c.Ok(rule, "decoding functions scanned", "-", fmt.Sprintf("%d functions, %d uses of package-level slices / maps or stores", len(fns), n))
}

// addrWritten: the element address is stored through (directly or after being handed on).
func addrWritten(a *ssa.IndexAddr, seen map[ssa.Value]bool) bool {
	if a.Referrers() == nil {
		return false
	}
	for _, r := range *a.Referrers() {
		switch x := r.(type) {
		case *ssa.Store:
			if x.Addr == ssa.Value(a) {
				return true
			}
		case ssa.CallInstruction:
			return true
		}
	}
	return false
}

// ---- C02/symbol-operand ----------------------------------------------------------------------------------------------------------------
// Local and captured variables are addressed by the index their symbol carries.
// Every emission of an instruction that addresses a local or a captured
// variable (Get/Set/Define + Local/Free, with or without Ptr) takes that
// operand from the Index field of a Symbol.  A counter in its place agrees with
// the symbol's index only while variables happen to be captured in the order
// the enclosing function captured them.
func ruleSymbolOperand(c *Ctx, rule string) {
	l := c.L
	emit := l.Method(modPath, "Compiler", "emit")
	_, fIdx := l.structField(modPath, "Symbol", "Index")
	if !c.Anchor(rule, "Compiler.emit / Symbol.Index", emit != nil && fIdx >= 0 && len(emit.Params) >= 4) {
		return
	}
	ops := map[int64]string{}
	for o, v := range opcodeConsts(l) {
		nm := o.Name()
		if (strings.HasPrefix(nm, "OpGet") || strings.HasPrefix(nm, "OpSet") || strings.HasPrefix(nm, "OpDefine")) && (strings.Contains(nm, "Local") || strings.Contains(nm, "Free")) {
			ops[v] = nm
		}
	}
	if !c.Anchor(rule, "opcodes addressing locals and captured variables (found fewer than 6)", len(ops) >= 6) {
		return
	}
	n := 0
	for _, fn := range l.RepoFuncs(func(p string) bool { return p == modPath }) {
		eachInstr(fn, func(ins ssa.Instruction) {
			ci, ok := ins.(ssa.CallInstruction)
			if !ok || ci.Common().StaticCallee() != emit || len(ci.Common().Args) < 4 {
				return
			}
			k, ok := constInt64(ci.Common().Args[2])
			if !ok {
				return
			}
			nm, ok := ops[k]
			if !ok {
				return
			}
			elems := variadicElems(ci.Common().Args[3])
			if len(elems) == 0 {
				return
			}
			n++
			var isIndex func(v ssa.Value, d int) bool
			isIndex = func(v ssa.Value, d int) bool {
				if d > 3 {
					return false
				}
				// the operand handed down through a parameter of an unexported helper: judged at its call sites
				if p, ok := v.(*ssa.Parameter); ok {
					pf := p.Parent()
					if pf == nil || pf.Object() == nil || pf.Object().Exported() || l.AddressTaken(pf) {
						return false
					}
					cs := l.RealCallers(pf)
					pi := -1
					for k, q := range pf.Params {
						if q == p {
							pi = k
						}
					}
					if len(cs) == 0 || pi < 0 {
						return false
					}
					for _, cc := range cs {
						if a := cc.Common().Args; pi >= len(a) || !isIndex(a[pi], d+1) {
							return false
						}
					}
					return true
				}
				// a BinOp with something else (index+1) would still "derive": require a plain load, possibly through phis and conversions
				if _, isBin := v.(*ssa.BinOp); isBin {
					return false
				}
				return derivesFrom(v, func(x ssa.Value) bool {
					ld, ok := x.(*ssa.UnOp)
					if !ok || ld.Op != token.MUL {
						return false
					}
					_, ok = isFieldAddrOf(ld.X, modPath, "Symbol", fIdx)
					return ok
				}, 4)
			}
			fromSym := isIndex(elems[0], 0)
			c.Check(rule, fmt.Sprintf("%s | emit(%s, %s)", fnName(fn), nm, describe(elems[0])), l.Pos(ins.Pos()), fromSym, "the symbol's Index",
				"the operand of an instruction that addresses a local or captured variable is not the Index of a symbol (a running counter or another value): it names the right variable only while the orders happen to agree - a closure nested three deep reads and writes its sibling's variable")
		})
	}
	if n < 8 {
		c.Und(rule, "emissions addressing locals / captured variables", "-", fmt.Sprintf("only %d found", n))
	}
}

// ---- C17/enc-sign ------------------------------------------------------------------------------------------------------------------------
// "The same bytes encoding/json produces for the corresponding Go value", for
// numbers: an encoder of the json package never converts an unsigned 64-bit
// value to a signed type of the same width (or a signed one to unsigned) on
// its way to strconv: uint values above 2^63 would be written as negative
// numbers.  (Widening conversions and conversions between named types of one
// underlying kind are not sign changes.)
func ruleEncSign(c *Ctx, rule string) {
	l := c.L
	n, bad, nf := 0, 0, 0
	for _, fn := range l.RepoFuncs(func(p string) bool { return p == jsonPath }) {
		d := l.DeclOfSSA(fn)
		if d == nil || !strings.HasSuffix(l.Fset.Position(d.Pos()).Filename, "encode.go") {
			continue
		}
		nf++
		eachInstr(fn, func(ins ssa.Instruction) {
			cv, ok := ins.(*ssa.Convert)
			if !ok {
				return
			}
			from, ok1 := cv.X.Type().Underlying().(*types.Basic)
			to, ok2 := cv.Type().Underlying().(*types.Basic)
			if !ok1 || !ok2 || from.Info()&types.IsInteger == 0 || to.Info()&types.IsInteger == 0 {
				return
			}
			n++
			size := func(b *types.Basic) int {
				switch b.Kind() {
				case types.Int64, types.Uint64, types.Int, types.Uint, types.Uintptr:
					return 64
				case types.Int32, types.Uint32:
					return 32
				case types.Int16, types.Uint16:
					return 16
				}
				return 8
			}
			fu, tu := from.Info()&types.IsUnsigned != 0, to.Info()&types.IsUnsigned != 0
			if fu != tu && size(from) >= size(to) && size(from) == 64 {
				if _, isConst := cv.X.(*ssa.Const); isConst {
					return
				}
				bad++
				c.Bad(rule, fmt.Sprintf("%s | %s -> %s", fnName(fn), tstr(cv.X.Type()), tstr(cv.Type())), l.Pos(cv.Pos()), "a 64-bit integer changes signedness on the encoding path: values with the top bit set are written as numbers of the other sign than encoding/json writes for the Go value")
			}
		})
	}
	c.Ok(rule, "integer conversions of the encoder", "-", fmt.Sprintf("%d functions of encode.go, %d integer conversions, %d change the sign of a 64-bit value", nf, n, bad))
	if nf < 15 {
		c.Und(rule, "functions of the encoder (count)", "-", fmt.Sprintf("only %d functions found in stdlib/json/encode.go", nf))
	}
}

// ---- C05/global-operand-interned (also C10) ------------------------------------------------------------------------------------------------
// A global is addressed by the index of its name in the constant pool.  The
// index a symbol carries was taken from the constants of the compilation that
// declared it; the symbol table can outlive them (the declaring fragment of an
// Eval session failed to compile: its constants are dropped, its symbols stay;
// or a symbol table is re-used without its Constants).  Well-formed Bytecode
// therefore needs the operand of every OpGetGlobal / OpSetGlobal emission to
// come from interning the name in the constants of THIS compilation (a call
// that reaches addConstant), not from the stored index alone.
func ruleGlobalOperandInterned(c *Ctx, rule string) {
	l := c.L
	emit := l.Method(modPath, "Compiler", "emit")
	addConst := l.Method(modPath, "Compiler", "addConstant")
	if !c.Anchor(rule, "Compiler.emit / Compiler.addConstant", emit != nil && addConst != nil && len(emit.Params) >= 4) {
		return
	}
	ops := map[int64]string{}
	for o, v := range opcodeConsts(l) {
		if o.Name() == "OpGetGlobal" || o.Name() == "OpSetGlobal" {
			ops[v] = o.Name()
		}
	}
	if !c.Anchor(rule, "OpGetGlobal / OpSetGlobal", len(ops) == 2) {
		return
	}
	// interns: the value is the result of addConstant, or of a function every return of which is
	var interns func(v ssa.Value, d int) bool
	interns = func(v ssa.Value, d int) bool {
		if d > 4 {
			return false
		}
		switch x := v.(type) {
		case *ssa.Call:
			f := x.Call.StaticCallee()
			if f == addConst {
				return true
			}
			if f == nil || len(f.Blocks) == 0 || funcPkgPath(f) != modPath {
				return false
			}
			k := 0
			for _, b := range f.Blocks {
				if ret, ok := b.Instrs[len(b.Instrs)-1].(*ssa.Return); ok && len(ret.Results) == 1 {
					k++
					if !interns(ret.Results[0], d+1) {
						return false
					}
				}
			}
			return k > 0
		case *ssa.Phi:
			for _, e := range x.Edges {
				if !interns(e, d+1) {
					return false
				}
			}
			return len(x.Edges) > 0
		case *ssa.UnOp:
			// a load of a field stored, in the same function, with an interned value just before
			if fa, ok := x.X.(*ssa.FieldAddr); ok && x.Op == token.MUL {
				found := false
				eachInstr(x.Parent(), func(i2 ssa.Instruction) {
					st, ok := i2.(*ssa.Store)
					if !ok || found {
						return
					}
					if fa2, ok := st.Addr.(*ssa.FieldAddr); ok && fa2.Field == fa.Field && (fa2 == fa || samePath(fa2, fa)) && instrDominates(st, x) && interns(st.Val, d+1) {
						found = true
					}
				})
				return found
			}
		}
		return false
	}
	n := 0
	for _, fn := range l.RepoFuncs(func(p string) bool { return p == modPath }) {
		eachInstr(fn, func(ins ssa.Instruction) {
			ci, ok := ins.(ssa.CallInstruction)
			if !ok || ci.Common().StaticCallee() != emit || len(ci.Common().Args) < 4 {
				return
			}
			k, ok := constInt64(ci.Common().Args[2])
			if !ok {
				return
			}
			nm, ok := ops[k]
			if !ok {
				return
			}
			elems := variadicElems(ci.Common().Args[3])
			if len(elems) == 0 {
				return
			}
			n++
			c.Check(rule, fmt.Sprintf("%s | emit(%s, %s)", fnName(fn), nm, describe(elems[0])), l.Pos(ins.Pos()), interns(elems[0], 0), "the index of the name interned in this compilation's constants",
				"the operand is the index stored in the symbol, taken from the constants of the compilation that declared the global: a symbol table that outlives those constants (a failed Eval fragment, a re-used table) yields Bytecode whose global instructions index past the constant pool - a successful Compile returns malformed Bytecode and the VM panics on it")
		})
	}
	if n < 1 {
		c.Und(rule, "emissions of OpGetGlobal / OpSetGlobal", "-", fmt.Sprintf("only %d found", n))
	}
}

// ---- C18/map-update-nonnil -----------------------------------------------------------------------------------------------------------------
// A write to a nil map panics, whatever the input.  Every map update on the
// decode path writes to a map that is non-nil by construction: made in the same
// function, or read from a place the function has filled with a made map
// wherever it was nil (`if *o == nil { *o = Map{} }`), or tested non-nil.
// Decoding into the zero value of a map type (`var m encoder.Map;
// m.UnmarshalBinary(validData)`) must not panic.
func ruleMapUpdateNonNil(c *Ctx, rule string, fns []*ssa.Function) {
	l := c.L
	n := 0
	for _, fn := range fns {
		eachInstr(fn, func(ins ssa.Instruction) {
			mu, ok := ins.(*ssa.MapUpdate)
			if !ok {
				return
			}
			n++
			var nonNil func(v ssa.Value, at ssa.Instruction, d int) bool
			nonNil = func(v ssa.Value, at ssa.Instruction, d int) bool {
				if d > 4 {
					return false
				}
				switch x := v.(type) {
				case *ssa.MakeMap:
					return true
				case *ssa.ChangeType:
					return nonNil(x.X, at, d+1)
				case *ssa.MakeInterface:
					return nonNil(x.X, at, d+1)
				case *ssa.Phi:
					for _, e := range x.Edges {
						if !nonNil(e, at, d+1) {
							return false
						}
					}
					return len(x.Edges) > 0
				case *ssa.Call:
					f := x.Call.StaticCallee()
					if f == nil || len(f.Blocks) == 0 {
						return false
					}
					k := 0
					for _, b := range f.Blocks {
						if ret, ok := b.Instrs[len(b.Instrs)-1].(*ssa.Return); ok && len(ret.Results) >= 1 {
							k++
							if !nonNil(ret.Results[0], ret, d+1) {
								return false
							}
						}
					}
					return k > 0
				case *ssa.UnOp:
					if x.Op != token.MUL {
						return false
					}
					// a guard that the loaded value is not nil
					for _, g := range guardEdges(at.Block()) {
						bo, ok := g.If.Cond.(*ssa.BinOp)
						if !ok || (bo.Op != token.EQL && bo.Op != token.NEQ) || (bo.Op == token.NEQ) != g.Truth {
							continue
						}
						for _, pr := range [][2]ssa.Value{{bo.X, bo.Y}, {bo.Y, bo.X}} {
							if k, isK := pr[1].(*ssa.Const); isK && k.IsNil() && (pr[0] == v || exprEq(pr[0], v)) {
								return true
							}
						}
					}
					// filled where it was nil: a block `if load(A) == nil` whose nil side stores a made
					// map to A, dominating this load; or an unconditional such store dominating it
					found := false
					eachInstr(fn, func(i2 ssa.Instruction) {
						st, ok := i2.(*ssa.Store)
						if !ok || found || !(st.Addr == x.X || samePath(st.Addr, x.X)) || !nonNil(st.Val, st, d+1) {
							return
						}
						if instrDominates(st, x) {
							found = true
							return
						}
						for _, g := range guardEdges(st.Block()) {
							bo, ok := g.If.Cond.(*ssa.BinOp)
							if !ok || (bo.Op != token.EQL && bo.Op != token.NEQ) || (bo.Op == token.EQL) != g.Truth {
								continue
							}
							for _, pr := range [][2]ssa.Value{{bo.X, bo.Y}, {bo.Y, bo.X}} {
								k, isK := pr[1].(*ssa.Const)
								ld, isL := pr[0].(*ssa.UnOp)
								if isK && k.IsNil() && isL && (ld.X == x.X || samePath(ld.X, x.X)) && g.If.Block().Dominates(x.Block()) {
									found = true
								}
							}
						}
					})
					return found
				}
				return false
			}
			// an update made while ranging over the same map: the body runs only for a non-empty map
			inOwnRange := false
			eachInstr(fn, func(i2 ssa.Instruction) {
				nx, ok := i2.(*ssa.Next)
				if !ok {
					return
				}
				if rg, ok := nx.Iter.(*ssa.Range); ok && (rg.X == mu.Map || exprEq(rg.X, mu.Map)) && nx.Block() != mu.Block() && nx.Block().Dominates(mu.Block()) {
					inOwnRange = true
				}
			})
			c.Check(rule, fmt.Sprintf("%s | %s[…] = …", fnName(fn), describe(mu.Map)), l.Pos(mu.Pos()), inOwnRange || nonNil(mu.Map, mu, 0), "the map is made in the function, filled where it was nil, or tested non-nil",
				"the map written to is read from a place nothing has filled: decoding valid data into a zero value (`var m encoder.Map; m.UnmarshalBinary(data)`) panics with 'assignment to entry in nil map'")
		})
	}
	if n < 2 {
		c.Und(rule, "map updates on the decode path", "-", fmt.Sprintf("only %d found", n))
	}
}
