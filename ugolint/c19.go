package main

import (
	"fmt"
	"go/ast"
	"go/constant"
	"go/token"
	"go/types"
	"math"
	"sort"
	"strings"

	"golang.org/x/tools/go/packages"
	"golang.org/x/tools/go/ssa"
)

func init() {
	props["C19"] = propC19
}

// ---- Call.Get interval analysis ---------------------------------------------------
//
// For every Call value (by receiver SSA value) the analysis keeps an interval
// for c.Len(), refined by CheckLen (err == nil => exact), comparisons of
// c.Len() results with constants, `switch c.Len()`, decremented by shift(),
// and the relational fact i < c.Len() for loop indices.

const gbInf = math.MaxInt32

type gbIv struct{ lo, hi int }

type gbState struct {
	iv    map[ssa.Value]gbIv
	epoch map[ssa.Value]int
}

func (s gbState) clone() gbState {
	n := gbState{iv: map[ssa.Value]gbIv{}, epoch: map[ssa.Value]int{}}
	for k, v := range s.iv {
		n.iv[k] = v
	}
	for k, v := range s.epoch {
		n.epoch[k] = v
	}
	return n
}

func gbGet(s gbState, r ssa.Value) gbIv {
	if v, ok := s.iv[r]; ok {
		return v
	}
	return gbIv{0, gbInf}
}

func gbJoin(a, b gbState) gbState {
	n := a.clone()
	for k, v := range b.iv {
		av := gbGet(a, k)
		if v.lo < av.lo {
			av.lo = v.lo
		}
		if v.hi > av.hi {
			av.hi = v.hi
		}
		n.iv[k] = av
	}
	for k := range a.iv {
		if _, ok := b.iv[k]; !ok {
			n.iv[k] = gbIv{0, gbInf}
		}
	}
	for k, v := range b.epoch {
		if a.epoch[k] != v {
			n.epoch[k] = -1000
		}
	}
	return n
}

func gbEq(a, b gbState) bool {
	if len(a.iv) != len(b.iv) || len(a.epoch) != len(b.epoch) {
		return false
	}
	for k, v := range a.iv {
		if b.iv[k] != v {
			return false
		}
	}
	for k, v := range a.epoch {
		if b.epoch[k] != v {
			return false
		}
	}
	return true
}

type gbLen struct {
	recv  ssa.Value
	epoch int
	off   int
}

func isCallMethodOn(c *ssa.Call, name string) (ssa.Value, bool) {
	f := c.Call.StaticCallee()
	if f == nil || !isMethodOf(f, modPath, "Call", name) || len(c.Call.Args) == 0 {
		return nil, false
	}
	return stripChangeOnly(c.Call.Args[0]), true
}

type gbSite struct {
	call *ssa.Call
	recv ssa.Value
	st   gbState
}

func gbAnalyze(fn *ssa.Function, paramConst map[*ssa.Parameter]int) (sites []gbSite, lens map[ssa.Value]gbLen) {
	lens = map[ssa.Value]gbLen{}
	errs := map[ssa.Value]gbLen{}
	if len(fn.Blocks) == 0 {
		return
	}
	in := map[*ssa.BasicBlock]gbState{}
	edge := map[[2]*ssa.BasicBlock]gbState{}
	in[fn.Blocks[0]] = gbState{iv: map[ssa.Value]gbIv{}, epoch: map[ssa.Value]int{}}
	work := []*ssa.BasicBlock{fn.Blocks[0]}
	visits := map[*ssa.BasicBlock]int{}
	found := map[*ssa.Call]gbSite{}
	for len(work) > 0 {
		b := work[0]
		work = work[1:]
		visits[b]++
		if visits[b] > 30 {
			continue
		}
		st := in[b].clone()
		for _, ins := range b.Instrs {
			c, ok := ins.(*ssa.Call)
			if !ok {
				continue
			}
			if r, ok := isCallMethodOn(c, "Len"); ok {
				lens[c] = gbLen{recv: r, epoch: st.epoch[r]}
			} else if r, ok := isCallMethodOn(c, "CheckLen"); ok {
				if n, okn := constInt64(c.Call.Args[1]); okn {
					errs[c] = gbLen{recv: r, off: int(n)}
				}
			} else if r, ok := isCallMethodOn(c, "shift"); ok {
				v := gbGet(st, r)
				if v.lo > 0 {
					v.lo--
				}
				if v.hi != gbInf && v.hi > 0 {
					v.hi--
				}
				st.iv[r] = v
				st.epoch[r]++
			} else if r, ok := isCallMethodOn(c, "Get"); ok {
				found[c] = gbSite{c, r, st.clone()}
			}
		}
		var iff *ssa.If
		if len(b.Instrs) > 0 {
			iff, _ = b.Instrs[len(b.Instrs)-1].(*ssa.If)
		}
		for i, s := range b.Succs {
			ns := st.clone()
			if iff != nil {
				gbRefine(&ns, iff.Cond, i == 0, lens, errs)
			}
			edge[[2]*ssa.BasicBlock{b, s}] = ns
			var acc *gbState
			for _, p := range s.Preds {
				if es, ok := edge[[2]*ssa.BasicBlock{p, s}]; ok {
					if acc == nil {
						c := es.clone()
						acc = &c
					} else {
						j := gbJoin(*acc, es)
						acc = &j
					}
				}
			}
			old, had := in[s]
			if !had || !gbEq(old, *acc) {
				in[s] = *acc
				work = append(work, s)
			}
		}
	}
	for _, s := range found {
		sites = append(sites, s)
	}
	sort.Slice(sites, func(i, j int) bool { return sites[i].call.Pos() < sites[j].call.Pos() })
	return
}

func gbRefine(st *gbState, cond ssa.Value, truth bool, lens, errs map[ssa.Value]gbLen) {
	bo, ok := cond.(*ssa.BinOp)
	if !ok {
		return
	}
	if e, ok := errs[bo.X]; ok {
		if c, okc := bo.Y.(*ssa.Const); okc && c.IsNil() {
			if (bo.Op == token.EQL) == truth {
				st.iv[e.recv] = gbIv{e.off, e.off}
			}
			return
		}
	}
	var lv gbLen
	var k int
	op := bo.Op
	if l, ok := lens[bo.X]; ok {
		c, okc := constInt64(bo.Y)
		if !okc {
			return
		}
		lv, k = l, int(c)
	} else if l, ok := lens[bo.Y]; ok {
		c, okc := constInt64(bo.X)
		if !okc {
			return
		}
		lv, k = l, int(c)
		op = flipOp(op)
	} else {
		return
	}
	delta := st.epoch[lv.recv] - lv.epoch
	if delta < 0 || delta > 100 {
		return
	}
	k -= delta
	if !truth {
		op = negOp(op)
	}
	v := gbGet(*st, lv.recv)
	switch op {
	case token.LSS:
		if k-1 < v.hi {
			v.hi = k - 1
		}
	case token.LEQ:
		if k < v.hi {
			v.hi = k
		}
	case token.GTR:
		if k+1 > v.lo {
			v.lo = k + 1
		}
	case token.GEQ:
		if k > v.lo {
			v.lo = k
		}
	case token.EQL:
		if k > v.lo {
			v.lo = k
		}
		if k < v.hi {
			v.hi = k
		}
	case token.NEQ:
		if v.lo == k {
			v.lo++
		}
		if v.hi == k {
			v.hi--
		}
	}
	st.iv[lv.recv] = v
}

// gbRelational: the index is a value i for which a dominating branch
// established i < c.Len() (minus shifts performed since that Len call).
func gbRelational(c *ssa.Call, idx, recv ssa.Value, st gbState, lens map[ssa.Value]gbLen) bool {
	for _, g := range guardEdges(c.Block()) {
		bo, ok := g.If.Cond.(*ssa.BinOp)
		if !ok {
			continue
		}
		op := bo.Op
		x, y := bo.X, bo.Y
		if !g.Truth {
			op = negOp(op)
		}
		if y == idx || exprEq(y, idx) {
			x, y = y, x
			op = flipOp(op)
		} else if !(x == idx || exprEq(x, idx)) {
			continue
		}
		if op != token.LSS {
			continue
		}
		m := 0
		if sub, ok := y.(*ssa.BinOp); ok && sub.Op == token.SUB {
			if k, okk := constInt64(sub.Y); okk {
				m, y = int(k), sub.X
			}
		}
		if lv, ok := lens[y]; ok && lv.recv == recv {
			delta := st.epoch[recv] - lv.epoch
			if delta >= 0 && m >= delta {
				return true
			}
		}
	}
	return false
}

func ruleGetBound(c *Ctx, rule string, fns []*ssa.Function) {
	l := c.L
	// constant-parameter summary: int parameters that every static caller passes constants for
	paramConst := map[*ssa.Parameter]int{}
	for _, f := range fns {
		calls := l.StaticCallers(f)
		if len(calls) == 0 || l.AddressTaken(f) || f.Object() == nil || f.Object().Exported() {
			continue
		}
		for i, p := range f.Params {
			if b, ok := p.Type().Underlying().(*types.Basic); !ok || b.Kind() != types.Int {
				continue
			}
			mx, all := -1, true
			for _, ci := range calls {
				a := ci.Common().Args
				if i >= len(a) {
					all = false
					break
				}
				k, ok := constInt64(a[i])
				if !ok {
					all = false
					break
				}
				if int(k) > mx {
					mx = int(k)
				}
			}
			if all && mx >= 0 {
				paramConst[p] = mx
			}
		}
	}
	for _, fn := range fns {
		sites, lens := gbAnalyze(fn, paramConst)
		for _, s := range sites {
			idx := s.call.Call.Args[1]
			v := gbGet(s.st, s.recv)
			key := fmt.Sprintf("%s | Get(%s)", fnName(fn), describe(idx))
			pos := l.Pos(s.call.Pos())
			ok, det := false, ""
			if k, isC := constInt64(idx); isC {
				ok = v.lo > int(k)
				det = fmt.Sprintf("Len() in [%d,%s]", v.lo, gbShow(v.hi))
			} else if p, isP := idx.(*ssa.Parameter); isP {
				if k, has := paramConst[p]; has {
					ok = v.lo > k
					det = fmt.Sprintf("index parameter <= %d at every call site, Len() in [%d,%s]", k, v.lo, gbShow(v.hi))
				}
			}
			if !ok && gbRelational(s.call, idx, s.recv, s.st, lens) {
				ok, det = true, "index < Len() established by a dominating comparison"
			}
			c.Check(rule, key, pos, ok, det, "Call.Get index not proven below the number of arguments ("+det+"): Get panics (index out of range) for a short argument list")
		}
	}
}

func gbShow(h int) string {
	if h == gbInf {
		return "inf"
	}
	return fmt.Sprint(h)
}

// ---- other C19 rules -------------------------------------------------------------------

func stdlibAndBuiltinFuncs(c *Ctx) []*ssa.Function {
	return c.L.RepoFuncs(func(pp string) bool {
		return pp == modPath || strings.HasPrefix(pp, modPath+"/stdlib")
	})
}

func propC19(c *Ctx) {
	l := c.L
	fns := stdlibAndBuiltinFuncs(c)
	defer func() {
		rcv := c.Rule("call-vm", "every Call value built by a method of VM or Invoker carries the VM (builtins and stdlib functions run script callbacks on it and poll it for Abort)", 3)
		ruleCallVM(c, rcv)
		rie := c.Rule("invoke-err", "the error result of every Invoker.Invoke in the library is stored, returned or passed on (a failing script callback makes the library function return that error, not a value)", 2)
		ruleInvokeErr(c, rie)
		ria := c.Rule("invoker-assert", "every unchecked assertion in the methods of Invoker is covered by the cached-assertion flag set when the Invoker was built (library functions pass any callable, also without a VM)", 1)
		ruleInvokerAssert(c, ria)
		rfi := c.Rule("field-init", "library objects whose interface- or pointer-typed field is used without a nil test are completely built by the functions that hand them out (every path from the allocation to a successful return stores the field)", 1)
		ruleFieldInit(c, rfi)
	}()
	rg := c.Rule("get-bound", "every (*Call).Get(k) is reached only in states where k < c.Len() follows from CheckLen, comparisons / switch on c.Len(), shift() and loop conditions (interval analysis per Call value, constant-parameter summaries for helpers)", 100)
	ruleGetBound(c, rg, fns)

	// ---- nil-vm -------------------------------------------------------------------
	rv := c.Rule("nil-vm", "every method call on the result of (*Call).VM() is dominated by a nil test of that result (a Call built by the Value adapters or NewCall(nil, ...) has no VM); passing it on to NewInvoker is allowed only when the callee handles nil", 2)
	vmGetter := l.Method(modPath, "Call", "VM")
	if c.Anchor(rv, "Call.VM", vmGetter != nil) {
		for _, ci := range l.StaticCallers(vmGetter) {
			call, ok := ci.(*ssa.Call)
			if !ok || call.Referrers() == nil {
				continue
			}
			fn := ci.Parent()
			if !isLibPkg(funcPkgPath(fn)) {
				continue
			}
			for _, r := range *call.Referrers() {
				use, ok := r.(ssa.CallInstruction)
				if !ok {
					continue
				}
				cm := use.Common()
				isRecv := false
				if f := cm.StaticCallee(); f != nil && f.Signature.Recv() != nil && len(cm.Args) > 0 && cm.Args[0] == ssa.Value(call) {
					isRecv = true
				}
				if !isRecv {
					continue
				}
				key := fmt.Sprintf("%s | VM().%s()", fnName(fn), cm.StaticCallee().Name())
				guarded := false
				for _, g := range guardEdges(use.Block()) {
					bo, ok := g.If.Cond.(*ssa.BinOp)
					if !ok {
						continue
					}
					isNil := func(a, k ssa.Value) bool {
						cst, ok := k.(*ssa.Const)
						if !ok || !cst.IsNil() {
							return false
						}
						if a == ssa.Value(call) {
							return true
						}
						// another c.VM() call on the same Call value
						if o, ok := a.(*ssa.Call); ok && o.Call.StaticCallee() == vmGetter && exprEq(o.Call.Args[0], call.Call.Args[0]) {
							return true
						}
						return false
					}
					if isNil(bo.X, bo.Y) || isNil(bo.Y, bo.X) {
						if (bo.Op == token.NEQ && g.Truth) || (bo.Op == token.EQL && !g.Truth) {
							guarded = true
						}
					}
				}
				c.Check(rv, key, l.Pos(use.Pos()), guarded, "dominated by a nil test of the VM", "method called on c.VM() without a nil test: nil pointer dereference when the function is called without a VM")
			}
		}
	}

	// ---- assert ----------------------------------------------------------------------
	ra := c.Rule("assert", "every non-comma-ok type assertion applied to an argument obtained from Call.Get / an Object parameter in builtin and stdlib code is dominated by a successful comma-ok test or type-switch arm of the same value and type", 0)
	for _, fn := range fns {
		eachInstr(fn, func(ins ssa.Instruction) {
			ta, ok := ins.(*ssa.TypeAssert)
			if !ok || ta.CommaOk {
				return
			}
			// only assertions on script-supplied values: results of Call.Get or callArgs elements
			if !derivesFrom(ta.X, func(v ssa.Value) bool {
				cl, ok := v.(*ssa.Call)
				if !ok {
					return false
				}
				_, isGet := isCallMethodOn(cl, "Get")
				return isGet
			}, 3) {
				return
			}
			key := fmt.Sprintf("%s | %s.(%s)", fnName(fn), describe(ta.X), tstr(ta.AssertedType))
			c.Check(ra, key, l.Pos(ta.Pos()), assertGuarded(ta), "dominated by a successful test of the same type", "unchecked type assertion on a script-supplied argument: panics for an argument of another type")
		})
	}

	// ---- size-sink ----------------------------------------------------------------------
	rs := c.Rule("size-sink", "a script-supplied integer that sizes an allocation (strings.Repeat, bytes.Repeat, make, Builder.Grow) is dominated by an upper-bound test and a lower-bound test: otherwise the library panics (negative count, makeslice) or exhausts memory instead of returning an error", 3)
	pb := ptrBitsOf(l)
	for _, fn := range fns {
		if funcPkgPath(fn) == modPath {
			// only the builtin function bodies, not the VM / compiler
			if d := l.DeclOfSSA(fn); d == nil || !strings.HasPrefix(fn.Name(), "builtin") {
				continue
			}
		}
		eachInstr(fn, func(ins ssa.Instruction) {
			var size ssa.Value
			what := ""
			switch x := ins.(type) {
			case *ssa.Call:
				f := x.Call.StaticCallee()
				if f == nil || f.Pkg == nil {
					return
				}
				pp := f.Pkg.Pkg.Path()
				switch {
				case (pp == "strings" || pp == "bytes") && f.Name() == "Repeat" && len(x.Call.Args) == 2:
					size, what = x.Call.Args[1], pp+".Repeat count"
				case f.Name() == "Grow" && f.Signature.Recv() != nil && (pp == "strings" || pp == "bytes") && len(x.Call.Args) == 2:
					size, what = x.Call.Args[1], "Grow size"
				default:
					return
				}
			case *ssa.MakeSlice:
				if _, isC := x.Len.(*ssa.Const); isC {
					if _, isC2 := x.Cap.(*ssa.Const); isC2 {
						return
					}
					size, what = x.Cap, "make cap"
				} else {
					size, what = x.Len, "make len"
				}
			default:
				return
			}
			// judge decides one (function, site, size value); a size that is a plain
			// parameter of an unexported helper is judged at each of the helper's
			// call sites instead (the bound tests live in the caller)
			var judge func(fn *ssa.Function, at ssa.Instruction, size ssa.Value, depth int)
			judge = func(fn *ssa.Function, at ssa.Instruction, size ssa.Value, depth int) {
				if _, isC := size.(*ssa.Const); isC {
					return
				}
				if p, isP := size.(*ssa.Parameter); isP && depth < 3 && fn.Object() != nil && !fn.Object().Exported() && fn.Signature.Recv() == nil {
					r := rangeAt(size, at.Block(), pb)
					if cs := l.RealCallers(fn); len(cs) > 0 && !l.AddressTaken(fn) && !(r.lo >= 0 && sizeBounded(size, r, pb)) {
						pi := -1
						for k, q := range fn.Params {
							if q == p {
								pi = k
							}
						}
						for _, ci := range cs {
							if a := ci.Common().Args; pi >= 0 && pi < len(a) {
								judge(ci.Parent(), ci, a[pi], depth+1)
							}
						}
						return
					}
				}
				r := rangeAt(size, at.Block(), pb)
				if isInputLen(size, pb) {
					return // sized by data already in memory
				}
				key := fmt.Sprintf("%s | %s %s", fnName(fn), what, describe(size))
				ok := r.lo >= 0 && sizeBounded(size, r, pb)
				c.Check(rs, key, l.Pos(at.Pos()), ok, fmt.Sprintf("size in [%s,%s] or bounded by data in memory", showBound(r.lo), showBound(r.hi)),
					fmt.Sprintf("size range [%s,%s]: not bounded above by a constant or by data already in memory (or possibly negative)", showBound(r.lo), showBound(r.hi)))
			}
			judge(fn, ins, size, 0)
		})
	}

	// ---- arith-guard -----------------------------------------------------------------------
	rag := c.Rule("arith-guard", "every integer / % and signed shift in the stdlib modules and builtin function bodies has a dominating zero / sign test", 1)
	var afns []*ssa.Function
	for _, fn := range fns {
		if strings.HasPrefix(funcPkgPath(fn), modPath+"/stdlib") || strings.HasPrefix(fn.Name(), "builtin") {
			afns = append(afns, fn)
		}
	}
	ruleArithGuard(c, rag, afns)

	// ---- err-nil-use --------------------------------------------------------------------------
	re := c.Rule("err-nil-use", "a value returned together with an error is used as a method receiver only where the error was tested nil (or the value tested non-nil): otherwise a failing operation (e.g. BinaryOp on unorderable operands) leaves a nil interface that is then dereferenced", 3)
	ruleErrNilUse(c, re, afns)

	rad := c.Rule("args-direct", "the argument slices of a Call are indexed only inside Call's own methods, whose uses the get-bound rule covers", 2)
	ruleArgsDirect(c, rad)
	rjp := c.Rule("json-panic-typed", "every explicit panic on the json encoding path carries the wrapper that Marshal recovers (anything else reaches the script's caller as a Go panic)", 1)
	ruleJSONPanicTyped(c, rjp)

	rlp := c.Rule("lock-release-on-panic", "a mutex of the library without a deferred release is held only across calls that cannot panic (no dynamic call, no reachable explicit panic): a recovered panic never leaves an object locked", 15)
	ruleLockReleaseOnPanic(c, rlp)
	rjn := c.Rule("json-value-nonnil", "no Object-valued function of the json decoder returns a nil Object with a nil error (JSON null is Undefined, also inside arrays and maps)", 5)
	ruleJSONValueNonNil(c, rjn)
	rle := c.Rule("loop-err-checked", "the error of a call made inside a loop of the library is tested, returned or handed on inside the loop (not overwritten by the next iteration)", 10)
	ruleLoopErrChecked(c, rle, l.RepoFuncs(func(p string) bool { return isLibPkg(p) }), 10)
	rls := c.Rule("loop-stutter", "no loop of the library (builtins, value methods, stdlib modules) has an effect-free cycle on which every loop variable keeps its value: such a loop, once on that path, never ends", 1)
	ruleLoopStutter(c, rls, l.RepoFuncs(func(p string) bool { return isLibPkg(p) }), 100)

	// ---- objimpl / registry ----------------------------------------------------------------------
	propC19Registry(c)
}

// ruleErrNilUse: for v, err := f(...) with v an interface or pointer: every
// method invocation on v is dominated by err == nil or v != nil.
func ruleErrNilUse(c *Ctx, rule string, fns []*ssa.Function) {
	l := c.L
	for _, fn := range fns {
		eachInstr(fn, func(ins ssa.Instruction) {
			call, ok := ins.(*ssa.Call)
			if !ok {
				return
			}
			tup, ok := call.Type().(*types.Tuple)
			if !ok || tup.Len() != 2 || !isErrorType(tup.At(1).Type()) {
				return
			}
			if _, isI := tup.At(0).Type().Underlying().(*types.Interface); !isI {
				return
			}
			var val, errv *ssa.Extract
			if call.Referrers() == nil {
				return
			}
			for _, r := range *call.Referrers() {
				if ex, ok := r.(*ssa.Extract); ok {
					if ex.Index == 0 {
						val = ex
					} else {
						errv = ex
					}
				}
			}
			if val == nil || val.Referrers() == nil {
				return
			}
			for _, r := range *val.Referrers() {
				use, ok := r.(ssa.CallInstruction)
				if !ok || !use.Common().IsInvoke() || use.Common().Value != ssa.Value(val) {
					continue
				}
				good := false
				for _, g := range guardEdges(use.Block()) {
					bo, ok := g.If.Cond.(*ssa.BinOp)
					if !ok {
						continue
					}
					for _, pr := range [][2]ssa.Value{{bo.X, bo.Y}, {bo.Y, bo.X}} {
						cst, ok := pr[1].(*ssa.Const)
						if !ok || !cst.IsNil() {
							continue
						}
						if errv != nil && (pr[0] == ssa.Value(errv) || loadsStoredValue(pr[0], errv)) && ((bo.Op == token.EQL && g.Truth) || (bo.Op == token.NEQ && !g.Truth)) {
							good = true
						}
						if pr[0] == ssa.Value(val) && ((bo.Op == token.NEQ && g.Truth) || (bo.Op == token.EQL && !g.Truth)) {
							good = true
						}
					}
				}
				callee := "call"
				if f := call.Call.StaticCallee(); f != nil {
					callee = f.Name()
				} else if call.Call.IsInvoke() {
					callee = call.Call.Method.Name()
				}
				key := fmt.Sprintf("%s | %s() result .%s()", fnName(fn), callee, use.Common().Method.Name())
				c.Check(rule, key, l.Pos(use.Pos()), good, "use dominated by err == nil or value != nil",
					"result of a (value, error) call is used as a method receiver on a path where the error was not tested nil: nil dereference when the operation fails")
			}
		})
	}
}

// propC19Registry: every type embedding ObjectImpl overrides TypeName and
// String (the promoted ones panic); BuiltinsMap and BuiltinObjects are in
// bijection with the Builtin* constants.
func propC19Registry(c *Ctx) {
	l := c.L
	ro := c.Rule("objimpl", "every type of the library that embeds ObjectImpl declares its own TypeName and String (the embedded placeholders panic with ErrNotImplemented)", 5)
	up := l.ByPath[modPath]
	for _, p := range l.Pkgs {
		if !isLibPkg(p.PkgPath) {
			continue
		}
		names := p.Types.Scope().Names()
		for _, n := range names {
			tn, ok := p.Types.Scope().Lookup(n).(*types.TypeName)
			if !ok || tn.IsAlias() {
				continue
			}
			st, ok := tn.Type().Underlying().(*types.Struct)
			if !ok || !declaredAsStructLit(p, n) {
				continue // `type X pkg.Y` copies of another struct are serialization shims, not Objects handed to the VM
			}
			embeds := false
			for i := 0; i < st.NumFields(); i++ {
				f := st.Field(i)
				if f.Embedded() && isNamed(f.Type(), modPath, "ObjectImpl") {
					embeds = true
				}
			}
			if !embeds {
				continue
			}
			var missing []string
			for _, m := range []string{"TypeName", "String"} {
				obj, _, _ := types.LookupFieldOrMethod(types.NewPointer(tn.Type()), true, p.Types, m)
				fn, ok := obj.(*types.Func)
				if !ok {
					missing = append(missing, m)
					continue
				}
				if recv := fn.Type().(*types.Signature).Recv(); recv != nil && isNamed(recv.Type(), modPath, "ObjectImpl") {
					missing = append(missing, m)
				}
			}
			key := strings.TrimPrefix(strings.TrimPrefix(p.PkgPath, modPath), "/")
			if key != "" {
				key += "."
			}
			key += n
			c.Check(ro, key, l.Pos(tn.Pos()), len(missing) == 0, "overrides TypeName and String", "embeds ObjectImpl without overriding "+strings.Join(missing, ", ")+": calling it panics")
		}
	}
	rr := c.Rule("registry", "BuiltinsMap maps names to distinct Builtin* constants and BuiltinObjects has a non-nil entry for every Builtin* constant below the table size", 30)
	if up == nil {
		return
	}
	mapVals, mapPos := compositeConstEntries(up, "BuiltinsMap", false)
	objKeys, objPos := compositeConstEntries(up, "BuiltinObjects", true)
	if !c.Anchor(rr, "BuiltinsMap / BuiltinObjects composite literals", len(mapVals) > 0 && len(objKeys) > 0) {
		return
	}
	seen := map[int64]string{}
	for name, v := range mapVals {
		_ = name
		if other, dup := seen[v]; dup {
			c.Bad(rr, "BuiltinsMap["+name+"]", l.Pos(mapPos), "two names ("+other+", "+name+") map to the same builtin index")
			continue
		}
		seen[v] = name
		_, has := objKeys[fmt.Sprint(v)]
		c.Check(rr, "BuiltinsMap["+name+"]", l.Pos(mapPos), has, "index has a BuiltinObjects entry", fmt.Sprintf("builtin index %d has no BuiltinObjects entry: GETBUILTIN pushes nil and the call dereferences it", v))
	}
	_ = objPos
}

// compositeConstEntries reads a package-level composite literal: for a map
// literal, string key -> constant integer value; for a keyed array literal
// (byKey), decimal key constant -> 0.
func compositeConstEntries(p *packages.Package, name string, byKey bool) (map[string]int64, token.Pos) {
	out := map[string]int64{}
	var pos token.Pos
	for _, f := range p.Syntax {
		for _, d := range f.Decls {
			gd, ok := d.(*ast.GenDecl)
			if !ok || gd.Tok != token.VAR {
				continue
			}
			for _, sp := range gd.Specs {
				vs := sp.(*ast.ValueSpec)
				for i, n := range vs.Names {
					if n.Name != name || i >= len(vs.Values) {
						continue
					}
					cl, ok := vs.Values[i].(*ast.CompositeLit)
					if !ok {
						continue
					}
					pos = cl.Pos()
					for _, el := range cl.Elts {
						kv, ok := el.(*ast.KeyValueExpr)
						if !ok {
							continue
						}
						ktv, ok := p.TypesInfo.Types[kv.Key]
						if !ok || ktv.Value == nil {
							continue
						}
						if byKey {
							if k, ok := constant.Int64Val(ktv.Value); ok {
								out[fmt.Sprint(k)] = 0
							}
							continue
						}
						if ktv.Value.Kind() != constant.String {
							continue
						}
						if vtv, ok := p.TypesInfo.Types[kv.Value]; ok && vtv.Value != nil {
							if v, ok := constant.Int64Val(vtv.Value); ok {
								out[constant.StringVal(ktv.Value)] = v
							}
						}
					}
				}
			}
		}
	}
	return out, pos
}

// loadsStoredValue: v is a load from an address into which val was stored in
// val's own block (the `ret, err = f()` form with err a captured variable).
func loadsStoredValue(v ssa.Value, val ssa.Value) bool {
	u, ok := v.(*ssa.UnOp)
	if !ok || u.Op != token.MUL {
		return false
	}
	refs := val.Referrers()
	if refs == nil {
		return false
	}
	for _, r := range *refs {
		if st, ok := r.(*ssa.Store); ok && st.Val == val && (st.Addr == u.X || exprEq(st.Addr, u.X)) {
			// no other store to the address between the store and the load in straight-line code
			if st.Block() == u.Block() || st.Block().Dominates(u.Block()) {
				return true
			}
		}
	}
	return false
}

func declaredAsStructLit(p *packages.Package, name string) bool {
	for _, f := range p.Syntax {
		for _, d := range f.Decls {
			gd, ok := d.(*ast.GenDecl)
			if !ok || gd.Tok != token.TYPE {
				continue
			}
			for _, sp := range gd.Specs {
				ts := sp.(*ast.TypeSpec)
				if ts.Name.Name == name {
					_, isLit := ts.Type.(*ast.StructType)
					return isLit
				}
			}
		}
	}
	return false
}
