package main

import (
	"fmt"
	"go/token"
	"go/types"

	"golang.org/x/tools/go/ssa"
)

func init() {
	props["C13"] = propC13
}

// symtabRoles resolves and verifies the functions that implement the
// disabled-builtin mechanism.  Names are anchors only; each role is verified
// structurally so that a weakened body is reported.
type symtabRoles struct {
	l                                                                     *Loaded
	root, mapGetter, disabledTest, copyStates, copyScope, reset, newTable *ssa.Function
	fDisabled, fParent                                                    int
}

func isSymtabPtr(t types.Type) bool {
	p, ok := t.(*types.Pointer)
	return ok && isNamed(p.Elem(), modPath, "SymbolTable")
}

// isRootVal: v denotes the root symbol table of some chain: result of the
// root walker, or a table fresh from NewSymbolTable (its parent is nil).
func (r *symtabRoles) isRootVal(v ssa.Value) bool {
	seen := map[ssa.Value]bool{}
	var rec func(v ssa.Value) bool
	rec = func(v ssa.Value) bool {
		if seen[v] {
			return true
		}
		seen[v] = true
		switch x := v.(type) {
		case *ssa.Call:
			f := x.Call.StaticCallee()
			return f != nil && (f == r.root || f == r.newTable)
		case *ssa.Phi:
			for _, e := range x.Edges {
				if !rec(e) {
					return false
				}
			}
			return true
		case *ssa.Parameter:
			// parameter of an unexported function whose every static caller passes a root
			fn := x.Parent()
			if r.l == nil || fn == nil || fn.Object() == nil || fn.Object().Exported() || r.l.AddressTaken(fn) {
				return false
			}
			idx := -1
			for i, p := range fn.Params {
				if p == x {
					idx = i
				}
			}
			calls := r.l.StaticCallers(fn)
			if idx < 0 || len(calls) == 0 {
				return false
			}
			for _, ci := range calls {
				if a := ci.Common().Args; idx >= len(a) || !rec(a[idx]) {
					return false
				}
			}
			return true
		case *ssa.UnOp:
			// load of a struct field that is only ever assigned root values
			if x.Op == token.MUL {
				if fa, ok := x.X.(*ssa.FieldAddr); ok && r.l != nil {
					if pt, ok := fa.X.Type().Underlying().(*types.Pointer); ok {
						if n := namedOf(pt.Elem()); n != nil && n.Obj().Pkg() != nil && isSymtabPtr(x.Type()) {
							nst := 0
							all := true
							for _, f := range r.l.RepoFuncs(func(pp string) bool { return pp == modPath }) {
								eachInstr(f, func(ins ssa.Instruction) {
									st, ok := ins.(*ssa.Store)
									if !ok {
										return
									}
									if fa2, ok := isFieldAddrOf(st.Addr, n.Obj().Pkg().Path(), n.Obj().Name(), fa.Field); ok && fa2 != nil {
										nst++
										if !rec(st.Val) {
											all = false
										}
									}
								})
							}
							if nst > 0 && all {
								return true
							}
						}
					}
				}
			}
			// load of a local that was assigned a root value only
			if x.Op == token.MUL {
				if al, ok := x.X.(*ssa.Alloc); ok && al.Referrers() != nil {
					n := 0
					for _, ref := range *al.Referrers() {
						if st, ok := ref.(*ssa.Store); ok && st.Addr == al {
							n++
							if !rec(st.Val) {
								return false
							}
						}
					}
					return n > 0
				}
			}
		}
		return false
	}
	return rec(v)
}

func (r *symtabRoles) rootMapLoad(v ssa.Value) bool {
	u, ok := v.(*ssa.UnOp)
	if !ok || u.Op != token.MUL {
		return false
	}
	fa, ok := isFieldAddrOf(u.X, modPath, "SymbolTable", r.fDisabled)
	return ok && r.isRootVal(fa.X)
}

func resolveSymtabRoles(c *Ctx, rule string) *symtabRoles {
	l := c.L
	r := &symtabRoles{l: l}
	_, r.fDisabled = l.structField(modPath, "SymbolTable", "disabledBuiltins")
	_, r.fParent = l.structField(modPath, "SymbolTable", "parent")
	ok := c.Anchor(rule, "field SymbolTable.disabledBuiltins", r.fDisabled >= 0)
	ok = c.Anchor(rule, "field SymbolTable.parent", r.fParent >= 0) && ok
	get := func(name string, isMethod bool) *ssa.Function {
		var f *ssa.Function
		if isMethod {
			f = l.Method(modPath, "SymbolTable", name)
		} else {
			f = l.Func(modPath, name)
		}
		if !c.Anchor(rule, "function "+name, f != nil && len(f.Blocks) > 0) {
			ok = false
			return nil
		}
		return f
	}
	r.root = get("root", true)
	r.mapGetter = get("disabledBuiltinsMap", true)
	r.disabledTest = get("isBuiltinDisabled", true)
	r.reset = get("reset", true)
	r.newTable = get("NewSymbolTable", false)
	// the two inheriting functions are found by role: called from the method
	// of optimizerEval that calls reset, with the operand types (*SymbolTable,
	// *SymbolTable) and (*SymbolTable, *optimizerScope) - receiver included, in
	// either order
	if r.reset != nil {
		isST := func(t types.Type) bool { return isSymtabPtr(t) }
		isScope := func(t types.Type) bool {
			p, ok := t.(*types.Pointer)
			return ok && isNamed(p.Elem(), modPath, "optimizerScope")
		}
		for _, ci := range l.StaticCallers(r.reset) {
			prep := ci.Parent()
			if prep.Signature.Recv() == nil || !isNamed(prep.Signature.Recv().Type(), modPath, "optimizerEval") {
				continue
			}
			eachInstr(prep, func(ins ssa.Instruction) {
				cl, ok := ins.(*ssa.Call)
				if !ok {
					return
				}
				f := cl.Call.StaticCallee()
				if f == nil || funcPkgPath(f) != modPath || len(f.Blocks) == 0 || len(f.Params) != 2 {
					return
				}
				a, b := f.Params[0].Type(), f.Params[1].Type()
				switch {
				case isST(a) && isST(b):
					r.copyStates = f
				case (isST(a) && isScope(b)) || (isScope(a) && isST(b)):
					r.copyScope = f
				}
			})
		}
	}
	ok = c.Anchor(rule, "the function that copies builtin states between two symbol tables (called by the evaluator's reset method)", r.copyStates != nil) && ok
	ok = c.Anchor(rule, "the function that disables the builtins shadowed in the optimizer's scope chain (called by the evaluator's reset method)", r.copyScope != nil) && ok
	if !ok {
		return nil
	}
	return r
}

// verifyRoles checks the bodies of the role functions.
func (r *symtabRoles) verify(c *Ctx, rule string) {
	l := c.L
	// root: every returned value is a table whose parent was tested nil, or the
	// result of walking further.
	{
		good := true
		why := ""
		for _, b := range r.root.Blocks {
			ret, ok := b.Instrs[len(b.Instrs)-1].(*ssa.Return)
			if !ok {
				continue
			}
			v := ret.Results[0]
			if isCallOf(v, func(f *ssa.Function) bool { return f == r.root }) {
				// recursive walk: argument must be the parent of the receiver
				arg := v.(*ssa.Call).Call.Args[0]
				u, ok := arg.(*ssa.UnOp)
				if ok {
					if _, isP := isFieldAddrOf(u.X, modPath, "SymbolTable", r.fParent); isP {
						continue
					}
				}
				good, why = false, "recursive call does not follow .parent"
				continue
			}
			// guarded by v.parent == nil
			found := false
			for _, g := range guardEdges(b) {
				bo, ok := g.If.Cond.(*ssa.BinOp)
				if !ok {
					continue
				}
				isNilTest := func(a, k ssa.Value) bool {
					cst, ok := k.(*ssa.Const)
					if !ok || !cst.IsNil() {
						return false
					}
					u, ok := a.(*ssa.UnOp)
					if !ok {
						return false
					}
					fa, ok := isFieldAddrOf(u.X, modPath, "SymbolTable", r.fParent)
					return ok && (fa.X == v || sameMem(fa.X, v))
				}
				if isNilTest(bo.X, bo.Y) || isNilTest(bo.Y, bo.X) {
					if (bo.Op == token.EQL && g.Truth) || (bo.Op == token.NEQ && !g.Truth) {
						found = true
					}
				}
			}
			if !found {
				good, why = false, "a returned table is not proven to have a nil parent"
			}
		}
		c.Check(rule, "SymbolTable.root walks to the root", l.Pos(r.root.Pos()), good, "every return is a table with nil parent or a further walk along .parent", why)
	}
	// mapGetter: returns the root's map (or nil)
	{
		good := true
		for _, b := range r.mapGetter.Blocks {
			ret, ok := b.Instrs[len(b.Instrs)-1].(*ssa.Return)
			if !ok {
				continue
			}
			v := ret.Results[0]
			if cst, ok := v.(*ssa.Const); ok && cst.IsNil() {
				continue
			}
			if !r.rootMapLoad(v) {
				good = false
			}
		}
		c.Check(rule, "disabledBuiltinsMap returns the root table's set", l.Pos(r.mapGetter.Pos()), good, "returns root().disabledBuiltins", "the getter returns a set that is not read from the root table: names disabled on the root are invisible below top level")
	}
	// disabledTest: comma-ok lookup of its string parameter in the root map
	{
		good := false
		for _, b := range r.disabledTest.Blocks {
			ret, ok := b.Instrs[len(b.Instrs)-1].(*ssa.Return)
			if !ok {
				continue
			}
			ex, ok := ret.Results[0].(*ssa.Extract)
			if !ok || ex.Index != 1 {
				good = false
				break
			}
			lk, ok := ex.Tuple.(*ssa.Lookup)
			if !ok || !lk.CommaOk || !r.rootMapLoad(lk.X) || len(r.disabledTest.Params) < 2 || lk.Index != ssa.Value(r.disabledTest.Params[1]) {
				good = false
				break
			}
			good = true
		}
		c.Check(rule, "isBuiltinDisabled consults the root table's set", l.Pos(r.disabledTest.Pos()), good, "returns the presence of its argument in root().disabledBuiltins", "the disabled test does not look its argument up in the root table's set")
	}
	// copyStates: ranges over the source's root set and inserts into the
	// destination's root set
	{
		readsSrc, writesDst := false, false
		params := r.copyStates.Params
		eachInstr(r.copyStates, func(ins ssa.Instruction) {
			switch x := ins.(type) {
			case *ssa.Range:
				if derivesFrom(x.X, func(v ssa.Value) bool {
					cl, ok := v.(*ssa.Call)
					return ok && cl.Call.StaticCallee() == r.mapGetter && len(params) == 2 && len(cl.Call.Args) == 1 && cl.Call.Args[0] == ssa.Value(params[1])
				}, 4) {
					readsSrc = true
				}
			case *ssa.MapUpdate:
				if r.rootMapLoad(x.Map) {
					u := x.Map.(*ssa.UnOp)
					fa := u.X.(*ssa.FieldAddr)
					if derivesFrom(fa.X, func(v ssa.Value) bool { return len(params) == 2 && v == ssa.Value(params[0]) }, 4) {
						writesDst = true
					}
				}
			}
		})
		// shadowed names: read from every table of the source's parent chain (a loop that follows .parent)
		_, fShadowed := l.structField(modPath, "SymbolTable", "shadowedBuiltins")
		chain := false
		eachInstr(r.copyStates, func(ins ssa.Instruction) {
			fa, ok := ins.(*ssa.FieldAddr)
			if !ok || fa.Field != fShadowed || fShadowed < 0 {
				return
			}
			if _, ok := isFieldAddrOf(fa, modPath, "SymbolTable", fShadowed); !ok {
				return
			}
			// the table it is read from must be a loop-carried value advanced through .parent
			if phi, ok := fa.X.(*ssa.Phi); ok {
				for _, e := range phi.Edges {
					if u, ok := e.(*ssa.UnOp); ok {
						if _, ok := isFieldAddrOf(u.X, modPath, "SymbolTable", r.fParent); ok {
							chain = true
						}
					}
				}
			}
		})
		c.Check(rule, "optimCopyBuiltinStates copies shadowed names of the whole scope chain", l.Pos(r.copyStates.Pos()), chain, "walks src and its parents", "only the innermost table's shadowed names reach the evaluator: a builtin re-bound in an enclosing scope is folded as the builtin inside a nested block or closure")
		c.Check(rule, "optimCopyBuiltinStates copies the source's root set into the destination's root set", l.Pos(r.copyStates.Pos()), readsSrc && writesDst,
			"ranges over src.disabledBuiltinsMap() and inserts into dest.root().disabledBuiltins",
			fmt.Sprintf("copy function does not read the source's root set through the getter (%v) or does not write the destination's root set (%v): disabled builtins are lost when the source table is not the root", readsSrc, writesDst))
	}
}

func propC13(c *Ctx) {
	l := c.L
	defer func() {
		rdu := c.Rule("disable-uncache", "DisableBuiltin removes the symbol Resolve cached for the name while the builtin was enabled: a builtin disabled after an earlier fragment used it is unreachable for later fragments", 1)
		ruleDisableUncache(c, rdu)
		rrr := c.Rule("rewrite-by-result", "the optimizer replaces a node only by what a folding / evaluating call returned: no call of a builtin is folded on a path that bypasses the evaluator, which is where disabled and shadowed builtins are honoured", 10)
		ruleRewriteByResult(c, rrr)
	}()
	lib := c.L.RepoFuncs(func(pp string) bool { return pp == modPath })
	rRoles := c.Rule("roles", "the functions that implement the disabled set behave as their role demands: root() walks to the table with nil parent, the getter and the disabled test read the root table's set, the evaluator's copy function reads the source's root set and writes the destination's root set", 4)
	rRead := c.Rule("root-read", "every access to SymbolTable.disabledBuiltins is made on a root table (result of root() or a table fresh from NewSymbolTable): the set lives only on the root, so a read on the current scope sees nothing below top level", 5)
	rGate := c.Rule("gate", "every creation of a Symbol with ScopeBuiltin is dominated by the false outcome of the disabled test for the same name", 1)
	rEmit := c.Rule("emit", "every emission of OpGetBuiltin takes its operand from a symbol whose scope was just tested to be ScopeBuiltin, or is the private BuiltinMakeArray constant; no compile-time code indexes BuiltinObjects, and the index stored in BuiltinsMap is read only behind the gate", 3)
	rProp := c.Rule("propagate", "every NewSymbolTable() call creates a fork (gets a parent), or a module root that receives a copy of the importer's root set before it is used, or the evaluator's table which receives the compiler's disabled and shadowed names on every path before it is used, or an audited session root", 4)
	rInh := c.Rule("eval-inherit", "in the optimizer's evaluator every path from creating/resetting its symbol table to the end of the function passes through both copy calls, and every Compile on the evaluator's compiler is dominated by that reset function", 3)

	roles := resolveSymtabRoles(c, rRoles)
	if roles == nil {
		return
	}
	roles.verify(c, rRoles)

	// ---- root-read -------------------------------------------------------------
	for _, acc := range fieldAccesses(lib, modPath, "SymbolTable", roles.fDisabled) {
		if acc.Addr == nil {
			continue
		}
		// one obligation per FieldAddr (not per referrer)
		if acc.Instr != (*acc.Addr.Referrers())[0] {
			continue
		}
		key := fmt.Sprintf("%s | %s.disabledBuiltins", fnName(acc.Fn), describe(acc.Addr.X))
		c.Check(rRead, key, l.Pos(acc.Addr.Pos()), roles.isRootVal(acc.Addr.X), "accessed on a root table",
			"the disabled set is accessed on a table that is not proven to be the root: below top level (function literal, block, module imported from one) the field is empty and disabled builtins become reachable")
	}

	// ---- gate --------------------------------------------------------------------
	_, fScope := l.structField(modPath, "Symbol", "Scope")
	_, fName := l.structField(modPath, "Symbol", "Name")
	scopeBuiltin, okSB := constOf(l, modPath, "ScopeBuiltin")
	if c.Anchor(rGate, "Symbol.Scope / Symbol.Name / ScopeBuiltin", fScope >= 0 && fName >= 0 && okSB) {
		for _, acc := range fieldAccesses(lib, modPath, "Symbol", fScope) {
			if !acc.Write || acc.Elem {
				continue
			}
			k, isC := constInt64(acc.Value)
			if isC && k != scopeBuiltin {
				continue
			}
			key := fmt.Sprintf("%s | Symbol{Scope: %s}", fnName(acc.Fn), describe(acc.Value))
			if !isC {
				// a non-constant scope store could carry ScopeBuiltin
				if _, isP := acc.Value.(*ssa.Parameter); !isP {
					if u, ok := acc.Value.(*ssa.UnOp); !ok || u.Op != token.MUL {
						continue
					}
				}
				// copying the scope of an existing symbol is not a creation of a builtin reference
				continue
			}
			// name stored into the same symbol
			var nameVal ssa.Value
			eachInstr(acc.Fn, func(ins ssa.Instruction) {
				if st, ok := ins.(*ssa.Store); ok {
					if fa, ok := isFieldAddrOf(st.Addr, modPath, "Symbol", fName); ok && fa.X == acc.Addr.X {
						nameVal = st.Val
					}
				}
			})
			ok := false
			for _, g := range guardEdges(acc.Instr.Block()) {
				cond := g.If.Cond
				truth := g.Truth
				for {
					if u, isU := cond.(*ssa.UnOp); isU && u.Op == token.NOT {
						cond, truth = u.X, !truth
						continue
					}
					break
				}
				cl, isCall := cond.(*ssa.Call)
				if !isCall || cl.Call.StaticCallee() != roles.disabledTest || truth {
					continue
				}
				if nameVal != nil && len(cl.Call.Args) == 2 && cl.Call.Args[1] == nameVal {
					ok = true
				}
			}
			c.Check(rGate, key, l.Pos(acc.Instr.Pos()), ok, "dominated by !isBuiltinDisabled(name) for the stored name",
				"a builtin symbol is created on a path that did not test the disabled set for this name")
		}
	}

	// ---- emit ---------------------------------------------------------------------
	emit := l.Method(modPath, "Compiler", "emit")
	opGetBuiltin, okOp := constOf(l, modPath, "OpGetBuiltin")
	makeArr, okMA := constOf(l, modPath, "BuiltinMakeArray")
	_, fIndex := l.structField(modPath, "Symbol", "Index")
	if c.Anchor(rEmit, "Compiler.emit / OpGetBuiltin / BuiltinMakeArray / Symbol.Index", emit != nil && okOp && okMA && fIndex >= 0) {
		for _, ci := range l.StaticCallers(emit) {
			args := ci.Common().Args
			if len(args) < 4 {
				continue
			}
			if k, ok := constInt64(args[2]); !ok || k != opGetBuiltin {
				if _, isC := args[2].(*ssa.Const); isC {
					continue
				}
				// non-constant opcode: the helpers that forward an opcode are checked at their callers
				continue
			}
			fn := ci.Parent()
			elems := variadicElems(args[3])
			key := fmt.Sprintf("%s | emit(OpGetBuiltin, %s)", fnName(fn), describeAll(elems))
			good := len(elems) == 1
			why := "operand list not understood"
			if good {
				e := elems[0]
				if k, ok := constInt64(e); ok {
					good = k == makeArr
					why = fmt.Sprintf("constant builtin index %d is not the private BuiltinMakeArray", k)
				} else if u, ok := e.(*ssa.UnOp); ok && u.Op == token.MUL {
					fa, isIdx := isFieldAddrOf(u.X, modPath, "Symbol", fIndex)
					good = false
					why = "operand is not the Index of a symbol tested to be ScopeBuiltin"
					if isIdx {
						for _, g := range guardEdges(ci.Block()) {
							bo, ok := g.If.Cond.(*ssa.BinOp)
							if !ok || bo.Op != token.EQL || !g.Truth {
								continue
							}
							for _, pr := range [][2]ssa.Value{{bo.X, bo.Y}, {bo.Y, bo.X}} {
								if k, ok := constInt64(pr[1]); ok && k == scopeBuiltin {
									if lu, ok := pr[0].(*ssa.UnOp); ok {
										if sfa, ok := isFieldAddrOf(lu.X, modPath, "Symbol", fScope); ok && (sfa.X == fa.X || sameMem(sfa.X, fa.X)) {
											good = true
										}
									}
								}
							}
						}
					}
				} else {
					good, why = false, "operand is neither a constant nor a symbol index"
				}
			}
			c.Check(rEmit, key, l.Pos(ci.Pos()), good, "operand comes from the gate or is the private constant", why)
		}
		// no compile-time indexing of BuiltinObjects; BuiltinsMap values read only behind the gate
		loopFd, _ := vmLoopSwitch(l)
		for _, fn := range lib {
			if fn.Synthetic != "" || fn.Name() == "init" {
				continue // package initialiser fills the table
			}
			isLoop := false
			if d := l.DeclOfSSA(fn); d != nil && d == loopFd {
				isLoop = true
			}
			eachInstr(fn, func(ins ssa.Instruction) {
				var base ssa.Value
				switch x := ins.(type) {
				case *ssa.IndexAddr:
					base = x.X
				case *ssa.Index:
					base = x.X
				case *ssa.Lookup:
					if g, ok := x.X.(*ssa.UnOp); ok {
						if gl, ok := g.X.(*ssa.Global); ok && gl.Name() == "BuiltinsMap" && gl.Pkg.Pkg.Path() == modPath {
							// value component used?
							used := !x.CommaOk
							if x.CommaOk && x.Referrers() != nil {
								for _, r := range *x.Referrers() {
									if ex, ok := r.(*ssa.Extract); ok && ex.Index == 0 && ex.Referrers() != nil && len(*ex.Referrers()) > 0 {
										used = true
									}
								}
							}
							if used {
								gated := false
								for _, g := range guardEdges(ins.Block()) {
									cond, truth := g.If.Cond, g.Truth
									for {
										if u, isU := cond.(*ssa.UnOp); isU && u.Op == token.NOT {
											cond, truth = u.X, !truth
											continue
										}
										break
									}
									if cl, ok := cond.(*ssa.Call); ok && cl.Call.StaticCallee() == roles.disabledTest && !truth {
										gated = true
									}
								}
								c.Check(rEmit, fnName(fn)+" | reads a builtin index from BuiltinsMap", l.Pos(ins.Pos()), gated,
									"read behind the disabled test", "the index of a builtin is read from BuiltinsMap on a path that did not test the disabled set")
							}
						}
					}
					return
				default:
					return
				}
				if g, ok := base.(*ssa.Global); ok && g.Name() == "BuiltinObjects" && g.Pkg.Pkg.Path() == modPath {
					c.Check(rEmit, fnName(fn)+" | indexes BuiltinObjects", l.Pos(ins.Pos()), isLoop,
						"the VM's GETBUILTIN arm", "BuiltinObjects is indexed outside the VM dispatch loop: a builtin can be obtained without passing the symbol-table gate")
				}
			})
		}
	}

	// ---- propagate -------------------------------------------------------------------
	for _, ci := range l.StaticCallers(roles.newTable) {
		fn := ci.Parent()
		if !isLibPkg(funcPkgPath(fn)) {
			continue
		}
		val, ok := ci.(*ssa.Call)
		if !ok {
			continue
		}
		key := fmt.Sprintf("%s | NewSymbolTable()", fnName(fn))
		pos := l.Pos(ci.Pos())
		// (a) fork: parent stored
		isFork, copied := false, false
		var copyStore ssa.Instruction
		eachInstr(fn, func(ins ssa.Instruction) {
			st, ok := ins.(*ssa.Store)
			if !ok {
				return
			}
			if fa, ok := isFieldAddrOf(st.Addr, modPath, "SymbolTable", roles.fParent); ok && fa.X == ssa.Value(val) {
				if cst, isC := st.Val.(*ssa.Const); !isC || !cst.IsNil() {
					isFork = true
				}
			}
			if fa, ok := isFieldAddrOf(st.Addr, modPath, "SymbolTable", roles.fDisabled); ok && fa.X == ssa.Value(val) {
				if derivesFrom(st.Val, func(v ssa.Value) bool {
					return isCallOf(v, func(f *ssa.Function) bool { return f == roles.mapGetter })
				}, 5) {
					copied = true
					copyStore = st
				}
			}
		})
		switch {
		case isFork:
			c.Ok(rProp, key, pos, "fork: receives a parent, lookups walk to the root")
		case copied:
			// the copy must dominate every other use of the table
			good := true
			if val.Referrers() != nil {
				for _, r := range *val.Referrers() {
					if r == copyStore {
						continue
					}
					if fa, ok := r.(*ssa.FieldAddr); ok && fa.Field == roles.fDisabled {
						continue
					}
					if !instrDominates(copyStore, r) {
						good = false
					}
				}
			}
			c.Check(rProp, key, pos, good, "module root: receives a copy of the importer's root set before use", "the new root table is used before the importer's disabled set is copied into it")
		case isDefaultForNilOption(val):
			c.Ok(rProp, key, pos, "default table for a caller that supplied none (guarded by the option being nil and stored into it): a session root with nothing to inherit")
		default:
			// evaluator: stored into a field, followed by the copy call on all paths
			viaCopy := callTo(func(f *ssa.Function) bool { return f == roles.copyStates })
			if _, okp := mustPassBefore(ci, viaCopy, isReturn); okp {
				c.Ok(rProp, key, pos, "evaluator table: the compiler's disabled and shadowed names are copied in on every path")
			} else {
				c.Bad(rProp, key, pos, "a new root symbol table is created that neither gets a parent nor inherits a disabled set: code compiled with it can reach every builtin")
			}
		}
	}

	ruleEvalInherit(c, rInh, roles)
	rra := c.Rule("reset-always", "the evaluator's symbol table is emptied on every path before the disabled and shadowed names are inherited (a builtin resolved in an earlier evaluation is cached in the table and would be found before the disabled set is consulted)", 1)
	ruleResetAlways(c, rra, roles)
	rsm := c.Rule("set-monotone", "the disabled set of an existing symbol table only grows: the whole set is assigned only while it is still nil or on a brand-new table", 2)
	ruleSetMonotone(c, rsm, roles)
	rds := c.Rule("define-scope", "the symbol DefineGlobal hands back to be indexed is a global (new, or tested to be of global scope), never a cached builtin symbol", 1)
	ruleDefineGlobalScope(c, rds)
	rdn := c.Rule("disabled-never-deleted", "no name is removed from a symbol table's set of disabled builtins except by the table's own reset", 1)
	ruleDisabledNeverDeleted(c, rdn, roles)
	rrt := c.Rule("reset-total", "reset removes every symbol of the table (the evaluator's scratch table keeps no builtin resolved by an earlier evaluation)", 1)
	ruleResetTotal(c, rrt, roles)
	rso := c.Rule("set-owned", "every symbol table owns its set of disabled builtins: the field is assigned a map made on the spot, never another table's set", 2)
	ruleSetOwned(c, rso, roles)
}

// ruleEvalInherit (shared by C13 and C01): after the evaluator's table is reset
// both copy calls follow on every path and every evaluator Compile is
// dominated by that function.
func ruleEvalInherit(c *Ctx, rInh string, roles *symtabRoles) {
	l := c.L
	for _, ci := range l.StaticCallers(roles.reset) {
		fn := ci.Parent()
		key := fmt.Sprintf("%s | SymbolTable.reset()", fnName(fn))
		_, ok1 := mustPassBefore(ci, callTo(func(f *ssa.Function) bool { return f == roles.copyStates }), isReturn)
		_, ok2 := mustPassBefore(ci, callTo(func(f *ssa.Function) bool { return f == roles.copyScope }), isReturn)
		c.Check(rInh, key, l.Pos(ci.Pos()), ok1 && ok2, "both copy calls follow on every path",
			fmt.Sprintf("after the evaluator's table is reset a path reaches the end of the function without optimCopyBuiltinStates (%v) / optimCopyBuiltinStatesFromScope (%v): the evaluator compiles with an empty disabled set", ok1, ok2))
		// the copy calls take the evaluator's table as destination and the optimizer's compiler table / scope as source
		eachInstr(fn, func(ins ssa.Instruction) {
			cl, ok := ins.(*ssa.Call)
			if !ok || cl.Call.StaticCallee() != roles.copyStates {
				return
			}
			dst, src := cl.Call.Args[0], cl.Call.Args[1]
			recvTable := ci.Common().Args[0]
			good := samePath(dst, recvTable) && !samePath(src, dst)
			c.Check(rInh, fnName(fn)+" | optimCopyBuiltinStates(dest, src)", l.Pos(cl.Pos()), good, "destination is the table that was reset, source is another table",
				"the copy call does not target the evaluator's table (or copies a table onto itself)")
		})
		// every Compile on the evaluator's compiler is dominated by a call to fn
		compile := l.Method(modPath, "Compiler", "Compile")
		if c.Anchor(rInh, "Compiler.Compile", compile != nil) {
			_, fComp := l.structField(modPath, "optimizerEval", "compiler")
			if c.Anchor(rInh, "optimizerEval.compiler", fComp >= 0) {
				for _, cc := range l.StaticCallers(compile) {
					recv := cc.Common().Args[0]
					if _, ok := isFieldAddrOf(recv, modPath, "optimizerEval", fComp); !ok {
						continue
					}
					dominated := false
					inherits := viaDeep(callTo(func(f *ssa.Function) bool { return f == fn }))
					eachInstr(cc.Parent(), func(ins ssa.Instruction) {
						if x, ok := ins.(*ssa.Call); ok && inherits(x) && instrDominates(x, cc) {
							dominated = true
						}
					})
					c.Check(rInh, fnName(cc.Parent())+" | evaluator Compile", l.Pos(cc.Pos()), dominated, "preceded by the reset-and-inherit function",
						"the evaluator compiles an expression without first re-inheriting the disabled and shadowed builtin names")
				}
			}
		}
	}
}

// variadicElems returns the values stored into the backing array of a
// variadic argument slice (new [n]T; stores; slice), in index order.
func variadicElems(v ssa.Value) []ssa.Value {
	sl, ok := v.(*ssa.Slice)
	if !ok {
		return nil
	}
	al, ok := sl.X.(*ssa.Alloc)
	if !ok || al.Referrers() == nil {
		return nil
	}
	var out []ssa.Value
	for _, r := range *al.Referrers() {
		ia, ok := r.(*ssa.IndexAddr)
		if !ok || ia.Referrers() == nil {
			continue
		}
		for _, rr := range *ia.Referrers() {
			if st, ok := rr.(*ssa.Store); ok && st.Addr == ia {
				out = append(out, st.Val)
			}
		}
	}
	return out
}

func describeAll(vs []ssa.Value) string {
	s := ""
	for i, v := range vs {
		if i > 0 {
			s += ","
		}
		s += describe(v)
	}
	return s
}

// samePath: a and b read the same access path from the same root value
// (stores in between are not considered; used to identify "the same field").
func samePath(a, b ssa.Value) bool {
	if a == b {
		return true
	}
	ra, pa := accessPath(stripChangeOnly(a))
	rb, pb := accessPath(stripChangeOnly(b))
	return pa != "" && pa == pb && ra == rb
}

// isDefaultForNilOption: the call result is stored into a *SymbolTable field
// f of some struct and the call is dominated by the test "that field == nil".
func isDefaultForNilOption(call *ssa.Call) bool {
	if call.Referrers() == nil {
		return false
	}
	for _, r := range *call.Referrers() {
		st, ok := r.(*ssa.Store)
		if !ok || st.Val != ssa.Value(call) {
			continue
		}
		fa, ok := st.Addr.(*ssa.FieldAddr)
		if !ok {
			continue
		}
		for _, g := range guardEdges(call.Block()) {
			bo, ok := g.If.Cond.(*ssa.BinOp)
			if !ok {
				continue
			}
			for _, pr := range [][2]ssa.Value{{bo.X, bo.Y}, {bo.Y, bo.X}} {
				cst, ok := pr[1].(*ssa.Const)
				if !ok || !cst.IsNil() {
					continue
				}
				if u, ok := pr[0].(*ssa.UnOp); ok && samePath(u.X, fa) {
					if (bo.Op == token.EQL && g.Truth) || (bo.Op == token.NEQ && !g.Truth) {
						return true
					}
				}
			}
		}
	}
	return false
}
