package main

import (
	"fmt"
	"go/constant"
	"go/token"
	"go/types"
	"strings"

	"golang.org/x/tools/go/ssa"
)

// Rules added after the fifth round of independently seeded changes.

// ---- C01/reset-always (also C13) -------------------------------------------------------------------
// The function that prepares the optimizer's private evaluator starts from an
// EMPTY symbol table on every path: it resets the table or installs a new one.
// A table kept between evaluations still resolves a builtin that a later
// statement of the optimized code has shadowed or that has been disabled.
func ruleResetAlways(c *Ctx, rule string, roles *symtabRoles) {
	l := c.L
	if !c.Anchor(rule, "SymbolTable.reset / NewSymbolTable", roles.reset != nil && roles.newTable != nil) {
		return
	}
	n := 0
	for _, ci := range l.StaticCallers(roles.reset) {
		fn := ci.Parent()
		if fn.Signature.Recv() == nil || !isNamed(fn.Signature.Recv().Type(), modPath, "optimizerEval") {
			continue
		}
		n++
		via := func(ins ssa.Instruction) bool {
			x, ok := ins.(ssa.CallInstruction)
			if !ok {
				return false
			}
			f := x.Common().StaticCallee()
			return f == roles.reset || f == roles.newTable
		}
		_, ok := mustPassBefore(fn.Blocks[0].Instrs[0], via, isReturn)
		c.Check(rule, fnName(fn)+" | evaluator table emptied", l.Pos(ci.Pos()), ok, "reset() or a new table on every path",
			"a path through the function that prepares the evaluator keeps the symbol table of the previous evaluation: a builtin resolved earlier stays resolvable after the optimized code shadowed it, so a call of the user's function is folded as the builtin")
	}
	if n == 0 {
		c.Und(rule, "the evaluator's reset function", "-", "no method of optimizerEval calls SymbolTable.reset: anchor lost")
	}
}

// ---- C01/assign-lhs-all ---------------------------------------------------------------------------------
// The optimizer records every target of an assignment / definition as
// shadowing: the loop that registers the left-hand identifiers ranges over the
// LEFT-hand side (a destructuring statement has several targets and one
// right-hand side).
func ruleAssignLHSAll(c *Ctx, rule string) {
	l := c.L
	tr := l.Method(modPath, "SimpleOptimizer", "transform")
	define := l.Method(modPath, "optimizerScope", "define")
	_, fLHS := l.structField(parserPath, "AssignStmt", "LHS")
	if !c.Anchor(rule, "SimpleOptimizer.transform / optimizerScope.define / AssignStmt.LHS", tr != nil && define != nil && fLHS >= 0) {
		return
	}
	isLHSLoad := func(v ssa.Value) bool {
		u, ok := v.(*ssa.UnOp)
		if !ok || u.Op != token.MUL {
			return false
		}
		_, ok = isFieldAddrOf(u.X, parserPath, "AssignStmt", fLHS)
		return ok
	}
	n := 0
	eachInstr(tr, func(ins ssa.Instruction) {
		cl, ok := ins.(*ssa.Call)
		if !ok || cl.Call.StaticCallee() != define || len(cl.Call.Args) < 2 {
			return
		}
		// the identifier comes from an element of AssignStmt.LHS
		var ia *ssa.IndexAddr
		derivesFrom(cl.Call.Args[1], func(v ssa.Value) bool {
			if x, ok := v.(*ssa.IndexAddr); ok && isLHSLoad(x.X) {
				ia = x
				return true
			}
			return false
		}, 8)
		if ia == nil {
			return
		}
		n++
		// the index is the induction variable of a loop bounded by len(LHS)
		good := false
		if inc, ok := ia.Index.(*ssa.BinOp); ok && inc.Op == token.ADD {
			if phi, ok := inc.X.(*ssa.Phi); ok {
				hb := phi.Block()
				if iff, ok := hb.Instrs[len(hb.Instrs)-1].(*ssa.If); ok {
					if cmp, ok := iff.Cond.(*ssa.BinOp); ok && cmp.Op == token.LSS && cmp.X == ssa.Value(inc) {
						if ln, ok := cmp.Y.(*ssa.Call); ok && len(ln.Call.Args) == 1 {
							if bi, ok := ln.Call.Value.(*ssa.Builtin); ok && bi.Name() == "len" && isLHSLoad(ln.Call.Args[0]) {
								good = true
							}
						}
					}
				}
			}
		}
		c.Check(rule, "SimpleOptimizer.transform | define(LHS[i])", l.Pos(cl.Pos()), good, "registered in a loop over the whole left-hand side",
			"the left-hand identifiers are registered in a loop that is not bounded by len(LHS): the second and later targets of a destructuring definition are not recorded as shadowing, so `x, len := [1, f]; len(\"abc\")` is folded as the builtin")
	})
	if n == 0 {
		c.Und(rule, "define of an AssignStmt.LHS element", l.Pos(tr.Pos()), "not found: shape not modelled")
	}
}

// ---- C02/free-const ----------------------------------------------------------------------------------------
// The symbol created when a closure captures a variable carries the Constant
// flag of the captured symbol: otherwise a constant can be assigned from inside
// a function literal.
func ruleFreeConst(c *Ctx, rule string) {
	l := c.L
	df := l.Method(modPath, "SymbolTable", "defineFree")
	_, fConst := l.structField(modPath, "Symbol", "Constant")
	if !c.Anchor(rule, "SymbolTable.defineFree / Symbol.Constant", df != nil && fConst >= 0) {
		return
	}
	good := false
	eachInstr(df, func(ins ssa.Instruction) {
		st, ok := ins.(*ssa.Store)
		if !ok {
			return
		}
		fa, ok := isFieldAddrOf(st.Addr, modPath, "Symbol", fConst)
		if !ok {
			return
		}
		if _, fresh := fa.X.(*ssa.Alloc); !fresh {
			return
		}
		if u, ok := st.Val.(*ssa.UnOp); ok && u.Op == token.MUL {
			if src, ok := isFieldAddrOf(u.X, modPath, "Symbol", fConst); ok {
				if _, isParam := src.X.(*ssa.Parameter); isParam {
					good = true
				}
			}
		}
	})
	c.Check(rule, "SymbolTable.defineFree | Constant", l.Pos(df.Pos()), good, "the free symbol's Constant is the captured symbol's",
		"the symbol of a captured variable does not inherit the Constant flag: `const a = [1]; f := func() { a = 2 }` compiles, a constant is reassigned from inside a function literal")
}

// ---- C06/invoke-err (also C19) ------------------------------------------------------------------------------
// The error result of every Invoker.Invoke call in the library is propagated:
// returned, stored into a variable (the captured `err` the helper returns), or
// passed on.  A result that is only compared (`ret, err := inv.Invoke(..)`
// shadowing the captured variable) drops the callback's error: a panic
// recovered in the child VM vanishes and the script's catch is skipped.
func ruleInvokeErr(c *Ctx, rule string) {
	l := c.L
	invoke := l.Method(modPath, "Invoker", "Invoke")
	if !c.Anchor(rule, "Invoker.Invoke", invoke != nil) {
		return
	}
	n := 0
	for _, ci := range l.StaticCallers(invoke) {
		fn := ci.Parent()
		if !strings.HasPrefix(funcPkgPath(fn), modPath) {
			continue
		}
		call, ok := ci.(*ssa.Call)
		if !ok || call.Referrers() == nil {
			continue
		}
		var errv ssa.Value
		for _, r := range *call.Referrers() {
			if ex, ok := r.(*ssa.Extract); ok && ex.Index == 1 {
				errv = ex
			}
		}
		n++
		good := false
		if errv != nil && errv.Referrers() != nil {
			seen := map[ssa.Value]bool{}
			var walk func(v ssa.Value, d int)
			walk = func(v ssa.Value, d int) {
				if seen[v] || d > 4 || v.Referrers() == nil {
					return
				}
				seen[v] = true
				for _, r := range *v.Referrers() {
					switch x := r.(type) {
					case *ssa.Store:
						if x.Val == v {
							good = true
						}
					case *ssa.Return:
						good = true
					case ssa.CallInstruction:
						good = true
					case *ssa.Phi:
						walk(x, d+1)
					case *ssa.MakeInterface:
						walk(x, d+1)
					case *ssa.ChangeInterface:
						walk(x, d+1)
					}
				}
			}
			walk(errv, 0)
		}
		root := fn
		for root.Parent() != nil {
			root = root.Parent()
		}
		c.Check(rule, fnName(root)+" | err of inv.Invoke(...)", l.Pos(call.Pos()), good, "stored, returned or passed on",
			"the error returned by the callback's Invoke is only tested, never stored or returned: an error (or a panic recovered in the child VM) raised inside the callback is lost, the library function returns a value and the script's catch is skipped")
	}
	if n == 0 {
		c.Und(rule, "calls of Invoker.Invoke", "-", "none found: anchor lost")
	}
}

// ---- C08/copy-stored (also C12) -----------------------------------------------------------------------------
// In the Copy methods of the container types the copy made of a Copier element
// is what goes into the new container: the result of the element's Copy() is
// stored (directly or through a merge with the non-Copier case) into an element
// of the new value.  A copy assigned to the loop variable is dead and the
// elements stay shared between the copies (builtin-module values of two VMs).
func ruleCopyStored(c *Ctx, rule string) {
	l := c.L
	copier := l.NamedType(modPath, "Copier")
	if !c.Anchor(rule, "interface Copier", copier != nil) {
		return
	}
	n := 0
	for _, T := range objectTypes(l, modPath) {
		switch T.Underlying().(type) {
		case *types.Slice, *types.Map:
		default:
			continue
		}
		fn := l.Method(modPath, namedOf(T).Obj().Name(), "Copy")
		if fn == nil || len(fn.Blocks) == 0 {
			continue
		}
		eachInstrDeep(fn, 2, func(ins ssa.Instruction) {
			// the method itself and plain helper functions it calls (copyElement)
			if h := ins.Parent(); h != fn && (funcPkgPath(h) != modPath || h.Signature.Recv() != nil) {
				return
			}
			cl, ok := ins.(*ssa.Call)
			if !ok || !cl.Call.IsInvoke() || cl.Call.Method.Name() != "Copy" {
				return
			}
			n++
			stored := false
			seen := map[ssa.Value]bool{}
			var walk func(v ssa.Value, d int)
			walk = func(v ssa.Value, d int) {
				if seen[v] || d > 5 || v.Referrers() == nil {
					return
				}
				seen[v] = true
				for _, r := range *v.Referrers() {
					switch x := r.(type) {
					case *ssa.Store:
						if x.Val == v {
							if _, ok := x.Addr.(*ssa.IndexAddr); ok {
								stored = true
							}
						}
					case *ssa.MapUpdate:
						if x.Value == v {
							stored = true
						}
					case *ssa.Phi:
						walk(x, d+1)
					case *ssa.ChangeInterface:
						walk(x, d+1)
					case *ssa.MakeInterface:
						walk(x, d+1)
					case *ssa.ChangeType:
						walk(x, d+1)
					case *ssa.Call:
						// passed to a helper that returns it (copyElement)
						walk(x, d+1)
					case *ssa.Return:
						// a helper returning the copy: followed at its call sites
						for _, cs := range l.StaticCallers(x.Parent()) {
							if v2 := cs.Value(); v2 != nil {
								walk(v2, d+1)
							}
						}
					}
				}
			}
			walk(cl, 0)
			c.Check(rule, tstr(T)+".Copy | element copy", l.Pos(cl.Pos()), stored, "the element's copy is stored into the new container",
				"the copy made of a Copier element is never stored into the new container: nested containers stay shared between the original and the copy (a builtin module's array of maps is then shared by every VM)")
		})
	}
	if n == 0 {
		c.Und(rule, "element Copy() calls in container Copy methods", "-", "none found: anchor lost")
	}
}

// ---- C08/init-captured-write --------------------------------------------------------------------------------
// No closure writes a variable captured from a function that runs only while
// packages are initialised (the factories that build the library's function
// tables): such a variable exists once per process and is shared by every VM
// that calls the library function.
func ruleInitCapturedWrite(c *Ctx, rule string) {
	l := c.L
	inScope := func(pp string) bool { return strings.HasPrefix(pp, modPath) }
	// functions that run only at initialisation: called (statically) only from
	// package initialisers or from other such functions, never used as values
	initOnly := map[*ssa.Function]bool{}
	fns := l.RepoFuncs(inScope)
	isInit := func(f *ssa.Function) bool {
		return f.Parent() == nil && (f.Name() == "init" || strings.HasPrefix(f.Name(), "init#")) && f.Signature.Recv() == nil
	}
	for changed := true; changed; {
		changed = false
		for _, f := range fns {
			if initOnly[f] || f.Parent() != nil || isInit(f) || l.AddressTaken(f) || l.mayBeInvoked(f) {
				continue
			}
			cs := l.RealCallers(f)
			if len(cs) == 0 {
				continue
			}
			all := true
			for _, ci := range cs {
				p := ci.Parent()
				for p.Parent() != nil {
					p = p.Parent()
				}
				if !(isInit(p) || initOnly[p]) {
					all = false
				}
			}
			if all {
				initOnly[f] = true
				changed = true
			}
		}
	}
	n, bad := 0, 0
	for _, cf := range fns {
		par := cf.Parent()
		if par == nil {
			continue
		}
		eachInstr(cf, func(ins ssa.Instruction) {
			st, ok := ins.(*ssa.Store)
			if !ok {
				return
			}
			fv, ok := st.Addr.(*ssa.FreeVar)
			if !ok {
				return
			}
			n++
			// the binding of this free variable where cf is created, followed
			// outwards through nested closures to the variable's allocation
			shared := false
			var host *ssa.Function
			var chase func(fn *ssa.Function, v *ssa.FreeVar, d int)
			chase = func(fn *ssa.Function, v *ssa.FreeVar, d int) {
				p := fn.Parent()
				if p == nil || d > 5 {
					return
				}
				idx := -1
				for i, x := range fn.FreeVars {
					if x == v {
						idx = i
					}
				}
				eachInstr(p, func(pi ssa.Instruction) {
					mc, ok := pi.(*ssa.MakeClosure)
					if !ok || mc.Fn != ssa.Value(fn) || idx < 0 || idx >= len(mc.Bindings) {
						return
					}
					switch b := mc.Bindings[idx].(type) {
					case *ssa.Alloc:
						if b.Parent() == p && (initOnly[p] || isInit(p)) {
							shared, host = true, p
						}
					case *ssa.FreeVar:
						chase(p, b, d+1)
					}
				})
			}
			chase(cf, fv, 0)
			if host != nil {
				par = host
			}
			if shared {
				bad++
				c.Bad(rule, fnName(cf)+" | captured "+fv.Name(), l.Pos(st.Pos()), "a closure stores to a variable captured from "+fnName(par)+", which runs once at package initialisation: the variable is shared by every call of the library function from every VM (an error raised in one VM's callback is lost or shows up in another VM)")
			}
		})
	}
	c.extra["stores_to_captured_variables"] = n
	if bad == 0 {
		c.Ok(rule, "no store to a variable captured from an initialisation-time function", "-", fmt.Sprintf("%d stores to captured variables examined, %d initialisation-only functions", n, len(initOnly)))
	}
}

// ---- C09/unregister-clears (also C14) ---------------------------------------------------------------------------
// Whenever a method of Invoker removes its child VM from the root's registry
// (Abort reaches children only through it), every path to the method's return
// also clears the Invoker's reference to the child: a child that stays cached
// but unregistered is reused by the next Invoke and cannot be aborted.
func ruleUnregisterClears(c *Ctx, rule string, pf *poolFacts) {
	l := c.L
	_, fChild := l.invokerVMFields()
	if !c.Anchor(rule, "Invoker.child", fChild >= 0) {
		return
	}
	unregisters := map[*ssa.Function]bool{}
	for _, fn := range l.RepoFuncs(func(pp string) bool { return pp == modPath }) {
		if !l.poolDomain()[fn] {
			continue
		}
		eachInstrDeep(fn, 2, func(ins ssa.Instruction) {
			if !l.poolDomain()[ins.Parent()] {
				return
			}
			if cl, ok := ins.(*ssa.Call); ok {
				if bi, ok := cl.Call.Value.(*ssa.Builtin); ok && bi.Name() == "delete" {
					if u, ok := cl.Call.Args[0].(*ssa.UnOp); ok {
						if _, ok := isFieldAddrOf(u.X, modPath, "vmPool", pf.fVMs); ok {
							// deleting one entry (not the clear-all loop over the registry)
							if _, isRangeKey := cl.Call.Args[1].(*ssa.Extract); !isRangeKey {
								unregisters[fn] = true
							}
						}
					}
				}
			}
		})
	}
	n := 0
	for _, fn := range l.RepoFuncs(func(pp string) bool { return pp == modPath }) {
		r := fn.Signature.Recv()
		if r == nil || !isNamed(r.Type(), modPath, "Invoker") {
			continue
		}
		eachInstr(fn, func(ins ssa.Instruction) {
			// a plain or a deferred call (the deferred one runs at the return:
			// the reference must have been cleared by then all the same)
			cl, ok := ins.(ssa.CallInstruction)
			if !ok || !unregisters[cl.Common().StaticCallee()] {
				return
			}
			if _, isGo := ins.(*ssa.Go); isGo {
				return
			}
			n++
			via := func(x ssa.Instruction) bool {
				st, ok := x.(*ssa.Store)
				if !ok {
					return false
				}
				if _, ok := isFieldAddrOf(st.Addr, modPath, "Invoker", fChild); !ok {
					return false
				}
				k, ok := st.Val.(*ssa.Const)
				return ok && k.IsNil()
			}
			_, ok2 := mustPassBefore(cl, via, isReturn)
			c.Check(rule, fnName(fn)+" | child unregistered", l.Pos(cl.Pos()), ok2, "inv.child is cleared on every path that follows",
				"the child VM is removed from the registry but the Invoker keeps it: the next Invoke runs on a VM that Abort cannot reach (the script's Run hangs while the callback executes an endless function)")
		})
	}
	if n == 0 {
		c.Und(rule, "Invoker methods that unregister a child", "-", "none found: anchor lost")
	}
}

// ---- C06/frame-claim-init (also C07, C09, C14) --------------------------------------------------------------------
// When the call routine claims a call frame, it stores every field of the
// frame that run-time code reads before a successful return (the frame array
// is reused: a claimed frame holds what an earlier activation - possibly one
// that was aborted inside a try - left there).
func ruleFrameClaimInit(c *Ctx, rule string, vf *vmFacts) {
	l := c.L
	fFrames, fFI := vf.field("frames"), vf.field("frameIndex")
	if !c.Anchor(rule, "VM.frames / VM.frameIndex / type frame", fFrames >= 0 && fFI >= 0 && vf.frameS != nil) {
		return
	}
	n := 0
	for _, fn := range vf.reachFns {
		if fn == vf.loop {
			continue
		}
		eachInstr(fn, func(ins ssa.Instruction) {
			ia, ok := ins.(*ssa.IndexAddr)
			if !ok {
				return
			}
			fa, ok := vf.isVMFieldAddr(ia.X)
			if !ok || fa.Field != fFrames {
				return
			}
			// index is vm.frameIndex (the frame about to be entered)
			u, ok := ia.Index.(*ssa.UnOp)
			if !ok {
				return
			}
			ifa, ok := vf.isVMFieldAddr(u.X)
			if !ok || ifa.Field != fFI {
				return
			}
			// only where the routine then increments frameIndex (a claim, not a peek)
			claims := false
			eachInstr(fn, func(x ssa.Instruction) {
				if st, ok := x.(*ssa.Store); ok {
					if sfa, ok := vf.isVMFieldAddr(st.Addr); ok && sfa.Field == fFI && instrDominates(ia, st) {
						claims = true
					}
				}
			})
			if !claims {
				return
			}
			n++
			for i := 0; i < vf.frameS.NumFields(); i++ {
				name := vf.frameS.Field(i).Name()
				// the saved instruction pointer is written when the frame itself
				// makes a call and read only when control returns to it: a write
				// always precedes the read, whatever the slot held
				if savedIPField(vf, i) {
					continue
				}
				via := func(x ssa.Instruction) bool {
					st, ok := x.(*ssa.Store)
					if !ok {
						return false
					}
					f2, ok := st.Addr.(*ssa.FieldAddr)
					return ok && f2.X == ssa.Value(ia) && f2.Field == i
				}
				target := func(x ssa.Instruction) bool {
					r, ok := x.(*ssa.Return)
					if !ok || len(r.Results) == 0 {
						return false
					}
					k, ok := r.Results[len(r.Results)-1].(*ssa.Const)
					return ok && k.IsNil()
				}
				_, ok2 := mustPassBefore(ia, via, target)
				c.Check(rule, fnName(fn)+" | claimed frame."+name, l.Pos(ia.Pos()), ok2, "stored before the routine returns successfully",
					"a call frame is claimed without storing frame."+name+": the new activation runs with what an earlier activation left in the slot (error handlers of an aborted run catch the errors of a later script)")
			}
		})
	}
	if n == 0 {
		c.Und(rule, "the routine that claims a call frame", "-", "no &vm.frames[vm.frameIndex] followed by an increment found: anchor lost")
	}
}

// ---- C11/all-funcs-always -----------------------------------------------------------------------------------------
// Every successful return of the version 1 converter's driver lies behind the
// loop over the constants: a shortcut that returns after converting Main
// leaves the function constants in the old layout.
func ruleAllFuncsAlways(c *Ctx, rule string, convSSA *ssa.Function) {
	l := c.L
	n := 0
	for _, ci := range l.StaticCallers(convSSA) {
		drv := ci.Parent()
		if drv == convSSA {
			continue
		}
		b := ci.Block()
		inLoop := false
		for _, s := range b.Succs {
			if blockReaches(s, b) {
				inLoop = true
			}
		}
		if !inLoop {
			continue
		}
		// the loop header: the dominator of b on the cycle that is closest to the entry
		var header *ssa.BasicBlock
		for d := b; d != nil; d = d.Idom() {
			if blockReaches(b, d) && d.Dominates(b) {
				header = d
			}
		}
		if header == nil {
			continue
		}
		n++
		via := func(x ssa.Instruction) bool { return x.Block() == header }
		target := func(x ssa.Instruction) bool {
			r, ok := x.(*ssa.Return)
			if !ok || len(r.Results) == 0 {
				return false
			}
			k, ok := r.Results[len(r.Results)-1].(*ssa.Const)
			return ok && k.IsNil()
		}
		bad, ok := mustPassBefore(drv.Blocks[0].Instrs[0], via, target)
		pos := l.Pos(drv.Pos())
		if bad != nil {
			pos = l.Pos(bad.Pos())
		}
		c.Check(rule, fnName(drv)+" | success only after the loop over the constants", pos, ok, "every successful return follows the loop",
			"the driver can return success without entering the loop that converts the function constants: functions keep two-byte jump operands and version 1 source-map keys while Main is converted")
	}
	if n == 0 {
		c.Und(rule, "the loop converting function constants", "-", "not found: anchor lost")
	}
}

// ---- C12/module-name-one (also C16) ----------------------------------------------------------------------------------
// Inside the compilation of an import expression ONE value names the module
// everywhere after the importer resolved it: the lookup in the module store,
// the registration there, the fork of the module map and the compilation of the
// module's source (which names the file in positions) receive the same value.
func ruleModuleNameOne(c *Ctx, rule string) {
	l := c.L
	imp := l.Method(modPath, "Compiler", "compileImportExpr")
	if !c.Anchor(rule, "Compiler.compileImportExpr", imp != nil) {
		return
	}
	type use struct {
		who string
		v   ssa.Value
		pos token.Pos
	}
	var uses []use
	eachInstrDeep(imp, 1, func(ins ssa.Instruction) {
		if h := ins.Parent(); h != imp && ownerFn(l, h) != imp {
			return
		}
		cl, ok := ins.(*ssa.Call)
		if !ok {
			return
		}
		f := cl.Call.StaticCallee()
		if f == nil || funcPkgPath(f) != modPath || f.Signature.Recv() == nil {
			return
		}
		rt := f.Signature.Recv().Type()
		interesting := isNamed(rt, modPath, "moduleStore") || (isNamed(rt, modPath, "Compiler") && strings.Contains(strings.ToLower(f.Name()), "module")) || (isNamed(rt, modPath, "ModuleMap") && f.Name() == "Fork")
		if !interesting {
			return
		}
		for i, a := range cl.Call.Args {
			if i == 0 {
				continue
			}
			if bt, ok := a.Type().Underlying().(*types.Basic); ok && bt.Info()&types.IsString != 0 {
				uses = append(uses, use{fnName(f), l.paramArg(a), cl.Pos()})
			}
		}
	})
	if len(uses) < 2 {
		c.Und(rule, "module-name arguments in compileImportExpr", l.Pos(imp.Pos()), fmt.Sprintf("found %d uses of a module name, expected the store lookup, the registration and the module compilation", len(uses)))
		return
	}
	same := true
	var odd use
	for _, u := range uses[1:] {
		if u.v != uses[0].v && !exprEq(u.v, uses[0].v) {
			same = false
			odd = u
		}
	}
	pos := l.Pos(imp.Pos())
	if !same {
		pos = l.Pos(odd.pos)
	}
	c.Check(rule, "Compiler.compileImportExpr | one module name", pos, same, fmt.Sprintf("%d uses of the resolved name", len(uses)),
		"the module is "+odd.who+"-ed under another value than the one the module store is looked up with (the name as written in the import instead of the name the importer resolved): a file module is registered in the file set under a relative name, its positions name a file they do not lie in, and one file reached by two paths is two modules")
}

// savedIPField: field i of frame is the saved instruction pointer: an int
// field that the call routine stores for the CURRENT frame (vm.curFrame) from
// vm.ip, i.e. written by the frame that is about to be suspended.
func savedIPField(vf *vmFacts, i int) bool {
	if b, ok := vf.frameS.Field(i).Type().Underlying().(*types.Basic); !ok || b.Kind() != types.Int {
		return false
	}
	fIP, fCur := vf.field("ip"), vf.field("curFrame")
	found := false
	for _, fn := range vf.reachFns {
		eachInstr(fn, func(ins ssa.Instruction) {
			st, ok := ins.(*ssa.Store)
			if !ok {
				return
			}
			fa, ok := st.Addr.(*ssa.FieldAddr)
			if !ok || fa.Field != i {
				return
			}
			// base: load of vm.curFrame
			u, ok := fa.X.(*ssa.UnOp)
			if !ok {
				return
			}
			cf, ok := vf.isVMFieldAddr(u.X)
			if !ok || cf.Field != fCur {
				return
			}
			// value derived from vm.ip
			if derivesFrom(st.Val, func(v ssa.Value) bool {
				f2, ok := vf.isVMFieldAddr(v)
				return ok && f2.Field == fIP
			}, 4) {
				found = true
			}
		})
	}
	return found
}

// ---- C02/try-end-pop (also C10) ------------------------------------------------------------------------------------
// Handlers of try statements are addressed by their index on the frame's
// handler stack (OpFinalizer carries the static nesting depth), so the stack
// depth must equal the static depth: the instruction that ends a try statement
// pops the statement's handler also on the path with no pending error and no
// pending return.  A consumed handler left behind shifts the indexes of every
// later try statement of the frame: `break` inside a nested try then runs the
// outer finally prematurely, and `return` inside try is lost when the finally
// block contains another try.
func ruleTryEndPop(c *Ctx, rule string) {
	l := c.L
	xt := l.Method(modPath, "VM", "xOpThrow")
	pop := l.Method(modPath, "errHandlers", "pop")
	hasErr := l.Method(modPath, "errHandlers", "hasError")
	hasRet := l.Method(modPath, "errHandlers", "hasReturnTo")
	if !c.Anchor(rule, "VM.xOpThrow / errHandlers.pop / errHandlers.hasError", xt != nil && pop != nil && hasErr != nil) {
		return
	}
	// the fall-through path: hasError() false and no throw / jump taken: blocks
	// whose guards contain hasError()==false and that contain a pop
	found := false
	eachInstr(xt, func(ins ssa.Instruction) {
		cl, ok := ins.(*ssa.Call)
		if !ok || cl.Call.StaticCallee() != pop {
			return
		}
		noErr, noReturnTo := false, false
		for _, g := range guardEdges(cl.Block()) {
			if hc, ok := g.If.Cond.(*ssa.Call); ok && hc.Call.StaticCallee() == hasErr && !g.Truth {
				noErr = true
			}
		}
		// the pending-return position is known to be <= 0 here (whatever form
		// the comparison has: `pos > 0` false, `pos <= 0` true, ...)
		if hasRet != nil {
			eachInstr(xt, func(x ssa.Instruction) {
				if rc, ok := x.(*ssa.Call); ok && rc.Call.StaticCallee() == hasRet {
					if r := rangeAt(rc, cl.Block(), ptrBitsOf(l)); r.hi <= 0 {
						noReturnTo = true
					}
				}
			})
		}
		if noErr && noReturnTo {
			found = true
		}
	})
	c.Check(rule, "VM.xOpThrow | end of a try statement without pending error or return", l.Pos(xt.Pos()), found, "the statement's handler is popped",
		"the instruction that ends a try statement leaves the consumed handler on the frame when nothing is pending: later try statements of the frame are addressed one index off (break in a nested try runs the outer finally early; return inside try is lost when its finally block contains a try)")
}

// ---- C01/const-cache-float --------------------------------------------------------------------------------------
// The compiler's constant cache is a Go map keyed by the constant's value, and
// as map keys 0.0 and -0.0 are equal.  Wherever a Float can be looked up in or
// stored into that cache, the sign of a zero has been examined first
// (math.Signbit / Float64bits / Copysign on the value): otherwise the folded
// literal -0.0 (the optimizer turns the unary minus into a literal) takes the
// slot of 0.0 and the optimized script prints "0" where the unoptimized prints
// "-0".
func ruleConstCacheFloat(c *Ctx, rule string) {
	l := c.L
	_, fCache := l.structField(modPath, "Compiler", "constsCache")
	floatT := l.NamedType(modPath, "Float")
	if !c.Anchor(rule, "Compiler.constsCache / type Float", fCache >= 0 && floatT != nil) {
		return
	}
	signAware := func(ins ssa.Instruction) bool {
		cl, ok := ins.(*ssa.Call)
		if !ok {
			return false
		}
		f := cl.Call.StaticCallee()
		return f != nil && f.Pkg != nil && f.Pkg.Pkg.Path() == "math" && (f.Name() == "Signbit" || f.Name() == "Float64bits" || f.Name() == "Copysign")
	}
	// the sign test may sit in a predicate helper (`isNegativeZeroFloat(obj)`): a
	// call of a repository function returning bool whose body examines the sign
	direct := signAware
	helperSign := func(ins ssa.Instruction) bool {
		cl, ok := ins.(*ssa.Call)
		if !ok {
			return false
		}
		f := cl.Call.StaticCallee()
		if f == nil || len(f.Blocks) == 0 || funcPkgPath(f) != modPath || f.Signature.Results().Len() != 1 {
			return false
		}
		if b, ok := f.Signature.Results().At(0).Type().Underlying().(*types.Basic); !ok || b.Kind() != types.Bool {
			return false
		}
		found := false
		eachInstr(f, func(x ssa.Instruction) {
			if direct(x) {
				found = true
			}
		})
		return found
	}
	signAware = func(ins ssa.Instruction) bool { return direct(ins) || helperSign(ins) }
	n := 0
	for _, fn := range l.RepoFuncs(func(pp string) bool { return pp == modPath }) {
		eachInstr(fn, func(ins ssa.Instruction) {
			var key ssa.Value
			var m ssa.Value
			switch x := ins.(type) {
			case *ssa.Lookup:
				key, m = x.Index, x.X
			case *ssa.MapUpdate:
				key, m = x.Key, x.Map
			default:
				return
			}
			// the cache: a load of the Compiler field, or a map that is stored
			// into that field (the cache a new compiler is built with)
			isCache := false
			if u, ok := m.(*ssa.UnOp); ok {
				if _, ok := isFieldAddrOf(u.X, modPath, "Compiler", fCache); ok {
					isCache = true
				}
			}
			if !isCache {
				seen := map[ssa.Value]bool{}
				var flows func(v ssa.Value, d int) bool
				flows = func(v ssa.Value, d int) bool {
					if seen[v] || d > 4 || v.Referrers() == nil {
						return false
					}
					seen[v] = true
					for _, r := range *v.Referrers() {
						switch x := r.(type) {
						case *ssa.Store:
							if x.Val == v {
								if _, ok := isFieldAddrOf(x.Addr, modPath, "Compiler", fCache); ok {
									return true
								}
							}
						case *ssa.Phi:
							if flows(x, d+1) {
								return true
							}
						}
					}
					return false
				}
				isCache = flows(m, 0)
			}
			if !isCache {
				return
			}
			// may the key be a Float here?  it is an interface value: unless the
			// guards exclude Float (a type switch arm without it), it may
			mayFloat := true
			if mi, ok := key.(*ssa.MakeInterface); ok {
				mayFloat = types.Identical(mi.X.Type(), floatT)
			}
			for _, g := range guardEdges(ins.Block()) {
				if ex, ok := g.If.Cond.(*ssa.Extract); ok && ex.Index == 1 {
					if ta, ok := ex.Tuple.(*ssa.TypeAssert); ok && ta.CommaOk && ta.X == key && g.Truth && !types.Identical(ta.AssertedType, floatT) {
						mayFloat = false // this arm is for another concrete type
					}
				}
			}
			if !mayFloat {
				return
			}
			n++
			_, ok2 := mustPassBefore(fn.Blocks[0].Instrs[0], signAware, func(x ssa.Instruction) bool { return x == ins })
			if !ok2 {
				// path-wise: every feasible path to the access has established
				// "not a Float", "a Float other than zero", or has branched on the
				// sign examination
				if paths, ok := pathGuardSets(ins.Block()); ok && len(paths) > 0 {
					all := true
					for _, p := range paths {
						one := false
						for _, g := range p {
							switch cnd := g.If.Cond.(type) {
							case *ssa.Extract:
								if ta, ok := cnd.Tuple.(*ssa.TypeAssert); ok && ta.CommaOk && cnd.Index == 1 && types.Identical(ta.AssertedType, floatT) && !g.Truth {
									one = true
								}
							case *ssa.BinOp:
								if (cnd.Op == token.EQL && !g.Truth) || (cnd.Op == token.NEQ && g.Truth) {
									for _, pr := range [][2]ssa.Value{{cnd.X, cnd.Y}, {cnd.Y, cnd.X}} {
										if k, ok := pr[1].(*ssa.Const); ok && k.Value != nil && types.Identical(pr[0].Type(), floatT) {
											if fv, ok2 := constant.Float64Val(constant.ToFloat(k.Value)); ok2 && fv == 0 {
												one = true
											}
										}
									}
								}
							case *ssa.Call:
								if signAware(cnd) {
									one = true
								}
							}
						}
						if !one {
							all = false
						}
					}
					ok2 = all
				}
			}
			// ... and no path on which the sign test came out "negative" reaches the cache
			// at all (not for a lookup either: the key equals the positive zero's)
			if ok2 {
				if paths, ok := pathGuardSets(ins.Block()); ok {
					for _, p := range paths {
						for _, g := range p {
							if cl, isCall := g.If.Cond.(*ssa.Call); isCall && g.Truth {
								if f := cl.Call.StaticCallee(); f != nil && f.Pkg != nil && f.Pkg.Pkg.Path() == "math" && f.Name() == "Signbit" {
									ok2 = false
								}
								if helperSign(cl) {
									ok2 = false // the predicate said "negative zero" on this path
								}
							}
						}
					}
				}
			}
			c.Check(rule, fmt.Sprintf("%s | constsCache[%s]", fnName(fn), describe(key)), l.Pos(ins.Pos()), ok2, "the sign of a zero Float is examined on every path to the cache access, and the negative zero never reaches it",
				"a Float constant reaches the value-keyed constant cache without its sign having been examined: 0.0 and -0.0 are one map key, so the literal the optimizer folds `-0.0` into shares the slot of 0.0 and the optimized script prints 0 where the unoptimized prints -0")
		})
	}
	if n == 0 {
		c.Ok(rule, "no Float reaches the constant cache", "-", "Float constants are not cached by value")
	}
}
