package main

import (
	"fmt"
	"go/ast"
	"go/constant"
	"go/token"
	"go/types"
	"math"
	"strings"

	"golang.org/x/tools/go/ssa"
)

// ---- values and access paths -------------------------------------------------

func stripChange(v ssa.Value) ssa.Value {
	for {
		switch x := v.(type) {
		case *ssa.ChangeType:
			v = x.X
		case *ssa.MakeInterface:
			v = x.X
		default:
			return v
		}
	}
}

// accessPath describes v as a chain of field selections and dereferences from
// a root SSA value, e.g. load(fieldaddr(p, Value)) = (p, "*.Value").  Two loads
// with the same root and path read the same memory provided nothing stores to
// it in between (checked by sameMem).
func accessPath(v ssa.Value) (root ssa.Value, path string) {
	switch x := v.(type) {
	case *ssa.ChangeType:
		return accessPath(x.X)
	case *ssa.UnOp:
		if x.Op == token.MUL {
			r, p := accessPath(x.X)
			return r, p + "*"
		}
	case *ssa.FieldAddr:
		r, p := accessPath(x.X)
		return r, p + fmt.Sprintf("&.%d", x.Field)
	case *ssa.Field:
		r, p := accessPath(x.X)
		return r, p + fmt.Sprintf(".%d", x.Field)
	}
	return v, ""
}

// sameMem reports whether a and b denote the same run-time value: the same SSA
// value, or two reads of the same access path with no store to that path
// anywhere in the function.
func sameMem(a, b ssa.Value) bool {
	if a == b {
		return true
	}
	a, b = stripChangeOnly(a), stripChangeOnly(b)
	if a == b {
		return true
	}
	ra, pa := accessPath(a)
	rb, pb := accessPath(b)
	if pa == "" || pa != pb || ra != rb {
		return false
	}
	fn := a.Parent()
	if fn == nil {
		return false
	}
	// a store to the same path kills the equivalence if it can execute before
	// either read (flow-insensitive otherwise: stores that cannot reach the
	// reads, e.g. a final assignment after the loop that reads, are ignored)
	ia, oka := a.(ssa.Instruction)
	ib, okb := b.(ssa.Instruction)
	for _, blk := range fn.Blocks {
		for _, ins := range blk.Instrs {
			if st, ok := ins.(*ssa.Store); ok {
				r, p := accessPath(st.Addr)
				if r == ra && p+"*" == pa {
					if oka && okb && !blockReaches(blk, ia.Block()) && !blockReaches(blk, ib.Block()) {
						continue
					}
					return false
				}
			}
		}
	}
	return true
}

// blockReaches: there is a path of one or more edges from a to b, or a == b.
func blockReaches(a, b *ssa.BasicBlock) bool {
	if a == b {
		return true
	}
	seen := map[*ssa.BasicBlock]bool{a: true}
	stack := []*ssa.BasicBlock{a}
	for len(stack) > 0 {
		x := stack[len(stack)-1]
		stack = stack[:len(stack)-1]
		for _, s := range x.Succs {
			if s == b {
				return true
			}
			if !seen[s] {
				seen[s] = true
				stack = append(stack, s)
			}
		}
	}
	return false
}

// stripWiden removes type changes and integer conversions that cannot change
// the numeric value (every value of the source type is representable in the
// target type, on 32-bit and 64-bit platforms alike).
func stripWiden(v ssa.Value) ssa.Value {
	for {
		switch x := v.(type) {
		case *ssa.ChangeType:
			v = x.X
			continue
		case *ssa.Convert:
			if _, _, ok := isIntegerType(x.X.Type()); ok {
				if _, _, ok2 := isIntegerType(x.Type()); ok2 {
					src, dst := typeRange(x.X.Type(), 32), typeRange(x.Type(), 32)
					src64, dst64 := typeRange(x.X.Type(), 64), typeRange(x.Type(), 64)
					if src.lo >= dst.lo && src.hi <= dst.hi && src64.lo >= dst64.lo && src64.hi <= dst64.hi {
						v = x.X
						continue
					}
				}
			}
		}
		return v
	}
}

func stripChangeOnly(v ssa.Value) ssa.Value {
	for {
		if x, ok := v.(*ssa.ChangeType); ok {
			v = x.X
			continue
		}
		return v
	}
}

func constInt64(v ssa.Value) (int64, bool) {
	c, ok := v.(*ssa.Const)
	if !ok || c.Value == nil {
		return 0, false
	}
	if c.Value.Kind() != constant.Int {
		return 0, false
	}
	if i, ok := constant.Int64Val(c.Value); ok {
		return i, true
	}
	return 0, false
}

func isIntegerType(t types.Type) (signed bool, bits int, ok bool) {
	b, isb := t.Underlying().(*types.Basic)
	if !isb || b.Info()&types.IsInteger == 0 {
		return false, 0, false
	}
	switch b.Kind() {
	case types.Int8:
		return true, 8, true
	case types.Int16:
		return true, 16, true
	case types.Int32:
		return true, 32, true
	case types.Int64:
		return true, 64, true
	case types.Int:
		return true, 0, true // 0 = platform
	case types.Uint8:
		return false, 8, true
	case types.Uint16:
		return false, 16, true
	case types.Uint32:
		return false, 32, true
	case types.Uint64:
		return false, 64, true
	case types.Uint, types.Uintptr:
		return false, 0, true
	case types.UntypedInt, types.UntypedRune:
		return true, 64, true
	}
	return false, 0, false
}

// ---- small interval domain ----------------------------------------------------

const (
	negInf = math.MinInt64
	posInf = math.MaxInt64
)

type ival struct {
	lo, hi      int64
	notZero     bool
	symHi       []ssa.Value // values u with v <= u (or v < u) known on this path
	symHiStrict []ssa.Value // values u with v < u
	symLo       []ssa.Value
}

func fullRange() ival { return ival{lo: negInf, hi: posInf} }

func (r ival) nonZero() bool { return r.notZero || r.lo > 0 || r.hi < 0 }
func (r ival) nonNeg() bool  { return r.lo >= 0 }

func typeRange(t types.Type, ptrBits int) ival {
	r := fullRange()
	signed, bits, ok := isIntegerType(t)
	if !ok {
		return r
	}
	if bits == 0 {
		bits = ptrBits
	}
	if signed {
		if bits < 64 {
			r.lo = -(int64(1) << (bits - 1))
			r.hi = int64(1)<<(bits-1) - 1
		}
	} else {
		r.lo = 0
		if bits < 64 {
			r.hi = int64(1)<<bits - 1
		}
	}
	return r
}

func (r *ival) meet(o ival) {
	if o.lo > r.lo {
		r.lo = o.lo
	}
	if o.hi < r.hi {
		r.hi = o.hi
	}
	r.notZero = r.notZero || o.notZero
	r.symHi = append(r.symHi, o.symHi...)
	r.symHiStrict = append(r.symHiStrict, o.symHiStrict...)
	r.symLo = append(r.symLo, o.symLo...)
}

func flipOp(op token.Token) token.Token {
	switch op {
	case token.LSS:
		return token.GTR
	case token.GTR:
		return token.LSS
	case token.LEQ:
		return token.GEQ
	case token.GEQ:
		return token.LEQ
	}
	return op
}

func negOp(op token.Token) token.Token {
	switch op {
	case token.LSS:
		return token.GEQ
	case token.GEQ:
		return token.LSS
	case token.GTR:
		return token.LEQ
	case token.LEQ:
		return token.GTR
	case token.EQL:
		return token.NEQ
	case token.NEQ:
		return token.EQL
	}
	return op
}

// guardEdges enumerates the conditional branches that every path from the
// function entry to block b must take: pairs (If instruction, branch taken).
// An edge p->s is such a guard iff b becomes unreachable from the entry when
// the edge is removed.  Edges leaving a block that calls a no-return function
// (a helper that always panics) are treated as absent.
type guardEdge struct {
	If    *ssa.If
	Truth bool
}

var guardMemo = map[*ssa.BasicBlock][]guardEdge{}

func guardEdges(b *ssa.BasicBlock) []guardEdge {
	if b == nil {
		return nil
	}
	if g, ok := guardMemo[b]; ok {
		return g
	}
	fn := b.Parent()
	dead := map[*ssa.BasicBlock]bool{}
	for _, x := range fn.Blocks {
		for _, ins := range x.Instrs {
			if ci, ok := ins.(*ssa.Call); ok && isNoReturn(ci.Call.StaticCallee()) {
				dead[x] = true
			}
		}
	}
	reach := func(skipFrom *ssa.BasicBlock, skipIdx int) bool {
		if len(fn.Blocks) == 0 {
			return false
		}
		entry := fn.Blocks[0]
		if entry == b {
			return true
		}
		seen := map[*ssa.BasicBlock]bool{entry: true}
		stack := []*ssa.BasicBlock{entry}
		for len(stack) > 0 {
			x := stack[len(stack)-1]
			stack = stack[:len(stack)-1]
			if dead[x] {
				continue
			}
			for i, s := range x.Succs {
				if x == skipFrom && i == skipIdx {
					continue
				}
				if s == b {
					return true
				}
				if !seen[s] {
					seen[s] = true
					stack = append(stack, s)
				}
			}
		}
		return false
	}
	var out []guardEdge
	if reach(nil, -1) {
		for _, p := range fn.Blocks {
			if len(p.Instrs) == 0 || dead[p] {
				continue
			}
			iff, ok := p.Instrs[len(p.Instrs)-1].(*ssa.If)
			if !ok || len(p.Succs) != 2 || p.Succs[0] == p.Succs[1] {
				continue
			}
			for i := range p.Succs {
				if !reach(p, i) {
					out = append(out, guardEdge{iff, i == 0})
				}
			}
		}
	}
	out = append(out, correlatedGuards(b, dead, out)...)
	guardMemo[b] = out
	return out
}

// correlatedGuards adds the branch edges that lie on every FEASIBLE path to b
// although they do not dominate it: paths are pruned when they take two
// branches that contradict each other about one SSA value compared with
// constants (`op == Quo` false and later `op == Quo` true).  This is the
// shape `switch op { case Quo: if r == 0 { return } }; switch op { case Quo:
// l / r }`: the zero test does not dominate the division, but every path that
// skips it has left the first switch through `op != Quo`.  Only applied when
// no block that reaches b lies on a cycle (every path is then acyclic and each
// SSA value has one instance per path), with a step budget; otherwise nothing
// is added.
func correlatedGuards(b *ssa.BasicBlock, dead map[*ssa.BasicBlock]bool, have []guardEdge) []guardEdge {
	fn := b.Parent()
	if len(fn.Blocks) == 0 || fn.Blocks[0] == b {
		return nil
	}
	anc := map[*ssa.BasicBlock]bool{b: true}
	work := []*ssa.BasicBlock{b}
	for len(work) > 0 {
		x := work[len(work)-1]
		work = work[:len(work)-1]
		for _, p := range x.Preds {
			if !anc[p] {
				anc[p] = true
				work = append(work, p)
			}
		}
	}
	if !anc[fn.Blocks[0]] {
		return nil
	}
	nIf := 0
	for x := range anc {
		if x != b {
			for _, s := range x.Succs {
				if anc[s] && blockReaches(s, x) {
					return nil // a cycle among the ancestors
				}
			}
		}
		if len(x.Instrs) > 0 {
			if _, ok := x.Instrs[len(x.Instrs)-1].(*ssa.If); ok {
				nIf++
			}
		}
	}
	if blockReaches(b, b) && len(b.Succs) > 0 {
		for _, s := range b.Succs {
			if blockReaches(s, b) {
				return nil
			}
		}
	}
	if nIf < 2 {
		return nil
	}
	type fact struct {
		x  ssa.Value
		k  *ssa.Const
		eq bool
	}
	constEq := func(a, c *ssa.Const) bool {
		if a.Value == nil || c.Value == nil {
			return a.Value == nil && c.Value == nil
		}
		return constant.Compare(a.Value, token.EQL, c.Value)
	}
	contradicts := func(fs []fact, f fact) bool {
		for _, g := range fs {
			if g.x != f.x {
				continue
			}
			same := constEq(g.k, f.k)
			if g.eq && f.eq && !same {
				return true
			}
			if g.eq != f.eq && same {
				return true
			}
		}
		return false
	}
	var result map[guardEdge]bool
	budget := 200000
	var facts []fact
	var edges []guardEdge
	var rec func(x *ssa.BasicBlock) bool
	rec = func(x *ssa.BasicBlock) bool {
		budget--
		if budget < 0 {
			return false
		}
		if x == b {
			cur := map[guardEdge]bool{}
			for _, e := range edges {
				cur[e] = true
			}
			if result == nil {
				result = cur
			} else {
				for e := range result {
					if !cur[e] {
						delete(result, e)
					}
				}
			}
			return true
		}
		if dead[x] {
			return true
		}
		iff, isIf := x.Instrs[len(x.Instrs)-1].(*ssa.If)
		for i, s := range x.Succs {
			if !anc[s] {
				continue
			}
			nf, ne := len(facts), len(edges)
			if isIf && len(x.Succs) == 2 && x.Succs[0] != x.Succs[1] {
				truth := i == 0
				if bo, ok := iff.Cond.(*ssa.BinOp); ok && (bo.Op == token.EQL || bo.Op == token.NEQ) {
					for _, pr := range [][2]ssa.Value{{bo.X, bo.Y}, {bo.Y, bo.X}} {
						if k, ok := pr[1].(*ssa.Const); ok {
							if _, isC := pr[0].(*ssa.Const); !isC {
								f := fact{pr[0], k, (bo.Op == token.EQL) == truth}
								if contradicts(facts, f) {
									goto next
								}
								facts = append(facts, f)
							}
							break
						}
					}
				}
				edges = append(edges, guardEdge{iff, truth})
			}
			if !rec(s) {
				return false
			}
		next:
			facts, edges = facts[:nf], edges[:ne]
		}
		return true
	}
	if !rec(fn.Blocks[0]) || result == nil {
		return nil
	}
	known := map[guardEdge]bool{}
	for _, g := range have {
		known[g] = true
	}
	var out []guardEdge
	for _, x := range fn.Blocks { // deterministic order
		if len(x.Instrs) == 0 {
			continue
		}
		if iff, ok := x.Instrs[len(x.Instrs)-1].(*ssa.If); ok {
			for _, t := range []bool{true, false} {
				g := guardEdge{iff, t}
				if result[g] && !known[g] {
					out = append(out, g)
				}
			}
		}
	}
	return out
}

// exprEq reports whether a and b are structurally the same pure expression
// over the same memory: equal constants, the same operator applied to equal
// operands, len/cap of equal operands, value-preserving conversions of equal
// operands, or the same memory in the sense of sameMem.  go/ssa performs no
// CSE, so `1+offset` written twice yields two values; this identifies them.
func exprEq(a, b ssa.Value) bool {
	return exprEqD(a, b, 0)
}

func exprEqD(a, b ssa.Value, d int) bool {
	if a == b {
		return true
	}
	if d > 6 {
		return false
	}
	a, b = stripWiden(a), stripWiden(b)
	if a == b {
		return true
	}
	switch x := a.(type) {
	case *ssa.Const:
		y, ok := b.(*ssa.Const)
		if !ok || x.Value == nil || y.Value == nil {
			return false
		}
		return x.Value.ExactString() == y.Value.ExactString() && types.Identical(x.Type().Underlying(), y.Type().Underlying())
	case *ssa.BinOp:
		y, ok := b.(*ssa.BinOp)
		if !ok || x.Op != y.Op {
			return false
		}
		if exprEqD(x.X, y.X, d+1) && exprEqD(x.Y, y.Y, d+1) {
			return true
		}
		if x.Op == token.ADD || x.Op == token.MUL {
			return exprEqD(x.X, y.Y, d+1) && exprEqD(x.Y, y.X, d+1)
		}
		return false
	case *ssa.Convert:
		y, ok := b.(*ssa.Convert)
		return ok && types.Identical(x.Type(), y.Type()) && exprEqD(x.X, y.X, d+1)
	case *ssa.Call:
		y, ok := b.(*ssa.Call)
		if !ok {
			return false
		}
		bx, ok1 := x.Call.Value.(*ssa.Builtin)
		by, ok2 := y.Call.Value.(*ssa.Builtin)
		if ok1 && ok2 && bx.Name() == by.Name() && (bx.Name() == "len" || bx.Name() == "cap") {
			return exprEqD(x.Call.Args[0], y.Call.Args[0], d+1)
		}
		return false
	}
	return sameMem(a, b)
}

// isNoReturn: every exit of fn is a panic (no Return instruction): a call to
// it ends the path (e.g. a helper that aborts by panicking).
var noReturnMemo = map[*ssa.Function]bool{}

func isNoReturn(fn *ssa.Function) bool {
	if fn == nil || len(fn.Blocks) == 0 {
		return false
	}
	if v, ok := noReturnMemo[fn]; ok {
		return v
	}
	res := true
	hasPanic := false
	for _, b := range fn.Blocks {
		switch b.Instrs[len(b.Instrs)-1].(type) {
		case *ssa.Return:
			res = false
		case *ssa.Panic:
			hasPanic = true
		}
	}
	res = res && hasPanic
	noReturnMemo[fn] = res
	return res
}

// effectivePreds counts the predecessors of b through which control can
// actually arrive: a predecessor block that calls a no-return function before
// its terminator does not count.
func effectivePreds(b *ssa.BasicBlock) int {
	n := 0
	for _, p := range b.Preds {
		dead := false
		for _, ins := range p.Instrs {
			if ci, ok := ins.(*ssa.Call); ok && isNoReturn(ci.Call.StaticCallee()) {
				dead = true
			}
		}
		if !dead {
			n++
		}
	}
	return n
}

// rangeAt computes what the definition of v and the comparisons dominating
// block b say about v.  ptrBits is the size of int for the configuration.
func rangeAt(v ssa.Value, b *ssa.BasicBlock, ptrBits int) ival {
	return rangeAtD(v, b, ptrBits, 0)
}

func addSat(a, b int64) (int64, bool) {
	c := a + b
	if (a > 0 && b > 0 && c < 0) || (a < 0 && b < 0 && c >= 0) {
		return 0, false
	}
	return c, true
}

// rangeNesting bounds the mutual recursion rangeAtD -> guards -> applyCond ->
// linearOf / symbolic bounds -> rangeAtD, whose depth counters restart.
var rangeNesting int

func rangeAtD(v ssa.Value, b *ssa.BasicBlock, ptrBits, depth int) ival {
	tr := typeRange(v.Type(), ptrBits)
	r := tr
	rangeNesting++
	defer func() { rangeNesting-- }()
	if rangeNesting > 24 {
		return r
	}
	if depth <= 5 {
		switch x := v.(type) {
		case *ssa.Const:
			if k, ok := constInt64(x); ok {
				return ival{lo: k, hi: k}
			}
		case *ssa.ChangeType:
			r.meet(rangeAtD(x.X, b, ptrBits, depth+1))
		case *ssa.Convert:
			// value preserving only if the source range fits the target type
			if _, _, ok := isIntegerType(x.X.Type()); ok {
				src := rangeAtD(x.X, b, ptrBits, depth+1)
				if src.lo >= tr.lo && src.hi <= tr.hi {
					r.meet(src)
				}
			}
		case *ssa.Call:
			if bi, ok := x.Call.Value.(*ssa.Builtin); ok && (bi.Name() == "len" || bi.Name() == "cap") {
				r.lo = 0
				// no Go object exceeds the runtime's maxAlloc (2^48 bytes on 64-bit platforms)
				if maxLen := int64(1) << 48; r.hi > maxLen {
					r.hi = maxLen
				}
				if bi.Name() == "len" && len(x.Call.Args) == 1 {
					if lr := lenRangeOf(x.Call.Args[0], ptrBits, 0); lr.hi != posInf {
						r.meet(ival{lo: lr.lo, hi: lr.hi})
					}
					// len of a phi: the join, over the incoming edges, of what is
					// known about the length of each incoming value at the end of
					// its predecessor (constant strings have their own length)
					if phi, ok := x.Call.Args[0].(*ssa.Phi); ok && depth < 3 {
						j := ival{lo: posInf, hi: negInf}
						blk := phi.Block()
						for i, e := range phi.Edges {
							if e == ssa.Value(phi) || i >= len(blk.Preds) {
								j = fullRange()
								break
							}
							er := lenAtEdge(e, blk.Preds[i], blk, ptrBits, depth)
							if er.lo < j.lo {
								j.lo = er.lo
							}
							if er.hi > j.hi {
								j.hi = er.hi
							}
						}
						if j.lo != posInf && j.lo <= j.hi {
							r.meet(ival{lo: j.lo, hi: j.hi})
						}
					}
				}
			}
		case *ssa.UnOp:
			// an element of an integer slice whose contents are bounded structurally
			if x.Op == token.MUL {
				if ia, ok := x.X.(*ssa.IndexAddr); ok {
					if er, ok := elemRange(ia.X, ptrBits, 0); ok {
						r.meet(er)
					}
				}
			}
		case *ssa.Lookup:
			// m[k] on a never-written package-level map literal of integer constants
			if er, ok := mapTableRange(x); ok {
				r.meet(er)
			}
		case *ssa.Extract:
			if lk, ok := x.Tuple.(*ssa.Lookup); ok && x.Index == 0 {
				if er, ok := mapTableRange(lk); ok {
					r.meet(er)
				}
			}
			// result of a call: contract table for the varint readers, summaries for repository functions
			if cl, ok := x.Tuple.(*ssa.Call); ok {
				if f := cl.Call.StaticCallee(); f != nil {
					if f.Pkg != nil && f.Pkg.Pkg.Path() == "encoding/binary" && (f.Name() == "Varint" || f.Name() == "Uvarint") && x.Index == 1 {
						r.meet(ival{lo: -10, hi: 10}) // |n| <= MaxVarintLen64 (documented)
					} else if len(f.Blocks) > 0 && depth < 3 {
						if sr, ok := returnRange(f, x.Index, ptrBits, depth); ok {
							r.meet(sr)
						}
						// where the call's error result is known to be nil, only the
						// returns that can carry a nil error count
						if ei := errResultIndex(f); ei >= 0 && ei != x.Index && errNilAt(cl, ei, b) {
							if sr, ok := returnRangeOK(f, x.Index, ei, ptrBits, depth); ok {
								r.meet(sr)
							}
						}
					}
				}
			}
		case *ssa.Phi:
			j := ival{lo: posInf, hi: negInf, notZero: true}
			blk := x.Block()
			var sumHi int64
			hasSum := false
			for i, e := range x.Edges {
				if e == v {
					continue
				}
				var pred *ssa.BasicBlock
				if blk != nil && i < len(blk.Preds) {
					pred = blk.Preds[i]
				}
				// induction: an edge phi+k only moves the value in one
				// direction; the bound on the moving side is what the guards
				// dominating the back edge say about the incremented value.
				if bo, ok := e.(*ssa.BinOp); ok && (bo.Op == token.ADD || bo.Op == token.SUB) && bo.X == v {
					kr := rangeAtD(bo.Y, pred, ptrBits, depth+2)
					if bo.Op == token.SUB {
						if kr.lo != negInf && kr.hi != posInf {
							kr.lo, kr.hi = -kr.hi, -kr.lo
						} else {
							kr = fullRange()
						}
					}
					gr := guardRange(e, pred, ptrBits)
					if kr.lo >= 0 {
						// a sum over the elements of a short table row: at most
						// len(row) additions of at most kr.hi each
						if trips, ok := rangeLoopTrips(x); ok && kr.hi != posInf && kr.hi <= 1<<20 {
							sumHi = trips * kr.hi
							hasSum = true
							j.notZero = false
							continue
						}
						if gr.hi > j.hi {
							j.hi = gr.hi
						}
						j.notZero = false
						continue
					}
					if kr.hi <= 0 {
						if gr.lo < j.lo {
							j.lo = gr.lo
						}
						j.notZero = false
						continue
					}
				}
				er := rangeAtD(e, pred, ptrBits, depth+2)
				if er.lo < j.lo {
					j.lo = er.lo
				}
				if er.hi > j.hi {
					j.hi = er.hi
				}
				if !er.nonZero() {
					j.notZero = false
				}
			}
			if hasSum && j.hi != negInf && j.hi != posInf && j.hi <= 1<<40 {
				j.hi += sumHi // initial value plus the bounded sum
			}
			if j.lo != posInf && j.hi != negInf && j.lo <= j.hi {
				r.meet(ival{lo: j.lo, hi: j.hi, notZero: j.notZero})
			}
		case *ssa.BinOp:
			switch x.Op {
			case token.ADD, token.SUB:
				if _, _, ok := isIntegerType(x.Type()); ok {
					l := rangeAtD(x.X, b, ptrBits, depth+1)
					rr := rangeAtD(x.Y, b, ptrBits, depth+1)
					if x.Op == token.SUB {
						nlo, nhi := int64(negInf), int64(posInf)
						if rr.hi != posInf && rr.hi != negInf {
							nlo = -rr.hi
						}
						if rr.lo != negInf {
							nhi = -rr.lo
						}
						rr.lo, rr.hi = nlo, nhi
					}
					// the result is exact only if it cannot wrap in the operand
					// type: both ends must be finite and inside the type range
					if l.lo == negInf || l.hi == posInf || rr.lo == negInf || rr.hi == posInf {
						break
					}
					lo, ok1 := addSat(l.lo, rr.lo)
					hi, ok2 := addSat(l.hi, rr.hi)
					if ok1 && ok2 && lo >= tr.lo && hi <= tr.hi {
						r.meet(ival{lo: lo, hi: hi})
					}
				}
			case token.AND:
				if k, ok := constInt64(x.Y); ok && k >= 0 {
					r.meet(ival{lo: 0, hi: k})
				}
			case token.REM:
				if k, ok := constInt64(x.Y); ok && k > 0 {
					r.meet(ival{lo: -(k - 1), hi: k - 1})
				}
			case token.QUO:
				if k, ok := constInt64(x.Y); ok && k > 0 {
					l := rangeAtD(x.X, b, ptrBits, depth+1)
					if l.lo != negInf && l.hi != posInf {
						r.meet(ival{lo: l.lo / k, hi: l.hi / k})
					}
					if l.lo >= 0 {
						r.lo = 0
						r.symHi = append(r.symHi, l.symHi...) // v/k <= v <= u for v >= 0
					}
				}
			}
		}
	}
	if b != nil {
		for _, g := range guardEdges(b) {
			applyCond(&r, v, g.If.Cond, g.Truth, ptrBits)
		}
	}
	return r
}

// linearOf: e is v + k (k constant) computed without possible wrap-around.
func linearOf(e, v ssa.Value, ptrBits int) (int64, bool) {
	bo, ok := stripWiden(e).(*ssa.BinOp)
	if !ok || (bo.Op != token.ADD && bo.Op != token.SUB) {
		return 0, false
	}
	var w ssa.Value
	var k int64
	if c, ok := constInt64(bo.Y); ok && exprEq(bo.X, v) {
		w, k = bo.X, c
		if bo.Op == token.SUB {
			k = -c
		}
	} else if c, ok := constInt64(bo.X); ok && bo.Op == token.ADD && exprEq(bo.Y, v) {
		w, k = bo.Y, c
	} else {
		return 0, false
	}
	// no wrap: the whole type range of the operand, shifted, fits the type
	wr := valueRange(w, ptrBits, 3)
	tr := typeRange(bo.Type(), ptrBits)
	if wr.lo == negInf || wr.hi == posInf {
		return 0, false
	}
	lo, ok1 := addSat(wr.lo, k)
	hi, ok2 := addSat(wr.hi, k)
	if !ok1 || !ok2 || lo < tr.lo || hi > tr.hi {
		return 0, false
	}
	return k, true
}

// returnRange: join over the return statements of fn of the range of result
// idx (what the function's own guards establish at each return).
var returnRangeMemo = map[string]ival{}

func returnRange(fn *ssa.Function, idx, ptrBits, depth int) (ival, bool) {
	key := fmt.Sprintf("%p/%d/%d", fn, idx, ptrBits)
	if r, ok := returnRangeMemo[key]; ok {
		return r, r.lo != negInf || r.hi != posInf
	}
	returnRangeMemo[key] = fullRange() // recursion guard
	j := ival{lo: posInf, hi: negInf}
	n := 0
	for _, b := range fn.Blocks {
		ret, ok := b.Instrs[len(b.Instrs)-1].(*ssa.Return)
		if !ok || idx >= len(ret.Results) {
			continue
		}
		if _, _, isInt := isIntegerType(ret.Results[idx].Type()); !isInt {
			return fullRange(), false
		}
		n++
		rr := rangeAtD(ret.Results[idx], b, ptrBits, depth+2)
		if rr.lo < j.lo {
			j.lo = rr.lo
		}
		if rr.hi > j.hi {
			j.hi = rr.hi
		}
	}
	if n == 0 || j.lo > j.hi {
		return fullRange(), false
	}
	res := ival{lo: j.lo, hi: j.hi}
	returnRangeMemo[key] = res
	return res, res.lo != negInf || res.hi != posInf
}

// ---- linear forms ----------------------------------------------------------------------

type linForm struct {
	atoms []ssa.Value
	coefs []int64
	k     int64
}

func (l *linForm) add(v ssa.Value, c int64) {
	for i, a := range l.atoms {
		if exprEq(a, v) {
			l.coefs[i] += c
			return
		}
	}
	l.atoms = append(l.atoms, v)
	l.coefs = append(l.coefs, c)
}

func linOf(v ssa.Value, sign int64, out *linForm, depth int) {
	v = stripWiden(v)
	if k, ok := constInt64(v); ok {
		out.k += sign * k
		return
	}
	if bo, ok := v.(*ssa.BinOp); ok && depth < 8 {
		switch bo.Op {
		case token.ADD:
			linOf(bo.X, sign, out, depth+1)
			linOf(bo.Y, sign, out, depth+1)
			return
		case token.SUB:
			linOf(bo.X, sign, out, depth+1)
			linOf(bo.Y, -sign, out, depth+1)
			return
		}
	}
	out.add(v, sign)
}

// linZero: a + b - c is identically zero as a linear form over atoms.
func linSumEquals(a, b, c ssa.Value) bool {
	var f linForm
	linOf(a, 1, &f, 0)
	linOf(b, 1, &f, 0)
	linOf(c, -1, &f, 0)
	if f.k != 0 {
		return false
	}
	for _, co := range f.coefs {
		if co != 0 {
			return false
		}
	}
	return true
}

// guardRange: the type range of v refined only by the comparisons dominating b.
func guardRange(v ssa.Value, b *ssa.BasicBlock, ptrBits int) ival {
	r := typeRange(v.Type(), ptrBits)
	if b != nil {
		for _, g := range guardEdges(b) {
			applyCond(&r, v, g.If.Cond, g.Truth, ptrBits)
		}
	}
	return r
}

// valueRange: what the definition of v says about it, independent of guards.
func valueRange(v ssa.Value, ptrBits, depth int) ival {
	return rangeAtD(v, nil, ptrBits, depth)
}

// helperCompare: cond is a call of a small repository predicate whose body is
// `return param <op> constant` (a guard hoisted into a helper): returns the
// equivalent comparison on the call's argument.
func helperCompare(cond ssa.Value) (ssa.Value, token.Token, ssa.Value, bool) {
	cl, ok := cond.(*ssa.Call)
	if !ok {
		return nil, 0, nil, false
	}
	f := cl.Call.StaticCallee()
	if f == nil || len(f.Blocks) != 1 || !strings.HasPrefix(funcPkgPath(f), modPath) {
		return nil, 0, nil, false
	}
	ret, ok := f.Blocks[0].Instrs[len(f.Blocks[0].Instrs)-1].(*ssa.Return)
	if !ok || len(ret.Results) != 1 {
		return nil, 0, nil, false
	}
	bo, ok := ret.Results[0].(*ssa.BinOp)
	if !ok {
		return nil, 0, nil, false
	}
	for _, pr := range [][2]ssa.Value{{bo.X, bo.Y}, {bo.Y, bo.X}} {
		p, isP := stripChangeOnly(pr[0]).(*ssa.Parameter)
		k, isK := pr[1].(*ssa.Const)
		if !isP || !isK {
			continue
		}
		for i, q := range f.Params {
			if q == p && i < len(cl.Call.Args) {
				op := bo.Op
				if pr[0] == bo.Y {
					op = flipOp(op)
				}
				return cl.Call.Args[i], op, k, true
			}
		}
	}
	return nil, 0, nil, false
}

// nilErrImplies: cond (with the given truth) says that `check(…, v, …)`
// returned a nil error, check being a repository function whose only result is
// an error (a validation hoisted into a helper): v then satisfies what the
// guards of every return of check that can carry nil say about the parameter.
func nilErrImplies(cond ssa.Value, truth bool, v ssa.Value, ptrBits int) (ival, bool) {
	bo, ok := cond.(*ssa.BinOp)
	if !ok || (bo.Op != token.EQL && bo.Op != token.NEQ) || (bo.Op == token.EQL) != truth {
		return ival{}, false
	}
	var cl *ssa.Call
	for _, pr := range [][2]ssa.Value{{bo.X, bo.Y}, {bo.Y, bo.X}} {
		if k, isK := pr[1].(*ssa.Const); isK && k.IsNil() {
			cl, _ = pr[0].(*ssa.Call)
		}
	}
	if cl == nil {
		return ival{}, false
	}
	f := cl.Call.StaticCallee()
	if f == nil || len(f.Blocks) == 0 || !strings.HasPrefix(funcPkgPath(f), modPath) || f.Signature.Results().Len() != 1 || !isErrorType(f.Signature.Results().At(0).Type()) {
		return ival{}, false
	}
	off := 0
	if f.Signature.Recv() != nil {
		off = 0 // receiver is Params[0] and Args[0] for static method calls
	}
	for i, a := range cl.Call.Args {
		if !exprEq(a, v) || i+off >= len(f.Params) {
			continue
		}
		p := f.Params[i+off]
		// the parameter must not be reassigned (it is an SSA value: only an address-taken parameter is a cell)
		j := ival{lo: posInf, hi: negInf, notZero: true}
		n := 0
		for _, b := range f.Blocks {
			ret, ok := b.Instrs[len(b.Instrs)-1].(*ssa.Return)
			if !ok || len(ret.Results) != 1 {
				continue
			}
			if definitelyNonNilErr(ret.Results[0], 0) {
				continue
			}
			n++
			gr := guardRange(p, b, ptrBits)
			if gr.lo < j.lo {
				j.lo = gr.lo
			}
			if gr.hi > j.hi {
				j.hi = gr.hi
			}
			if !gr.notZero {
				j.notZero = false
			}
		}
		if n == 0 || j.lo > j.hi {
			return ival{}, false
		}
		return j, true
	}
	return ival{}, false
}

func applyCond(r *ival, v ssa.Value, cond ssa.Value, truth bool, ptrBits int) {
	if x, op, k, ok := helperCompare(cond); ok && exprEq(x, v) {
		if kk, isInt := constInt64(k); isInt {
			if !truth {
				op = negOp(op)
			}
			switch op {
			case token.LSS:
				r.meet(ival{lo: negInf, hi: kk - 1})
			case token.LEQ:
				r.meet(ival{lo: negInf, hi: kk})
			case token.GTR:
				r.meet(ival{lo: kk + 1, hi: posInf})
			case token.GEQ:
				r.meet(ival{lo: kk, hi: posInf})
			case token.EQL:
				r.meet(ival{lo: kk, hi: kk})
			case token.NEQ:
				if kk == 0 {
					r.notZero = true
				}
			}
		}
		return
	}
	if ir, ok := nilErrImplies(cond, truth, v, ptrBits); ok {
		r.meet(ir)
		return
	}
	switch c := cond.(type) {
	case *ssa.UnOp:
		if c.Op == token.NOT {
			applyCond(r, v, c.X, !truth, ptrBits)
		}
		return
	case *ssa.BinOp:
		op := c.Op
		switch op {
		case token.LSS, token.LEQ, token.GTR, token.GEQ, token.EQL, token.NEQ:
		default:
			return
		}
		var other ssa.Value
		var shift int64 // the compared operand is v + shift
		if exprEq(c.X, v) {
			other = c.Y
		} else if exprEq(c.Y, v) {
			other = c.X
			op = flipOp(op)
		} else if k, ok := linearOf(c.X, v, ptrBits); ok {
			other, shift = c.Y, k
		} else if k, ok := linearOf(c.Y, v, ptrBits); ok {
			other, shift = c.X, k
			op = flipOp(op)
		} else {
			return
		}
		if !truth {
			op = negOp(op)
		}
		if k, ok := constInt64(other); ok {
			if shift != 0 {
				nk, ok := addSat(k, -shift)
				if !ok {
					return
				}
				k = nk
			}
			switch op {
			case token.LSS:
				if k != negInf {
					r.meet(ival{lo: negInf, hi: k - 1})
				}
			case token.LEQ:
				r.meet(ival{lo: negInf, hi: k})
			case token.GTR:
				if k != posInf {
					r.meet(ival{lo: k + 1, hi: posInf})
				}
			case token.GEQ:
				r.meet(ival{lo: k, hi: posInf})
			case token.EQL:
				r.meet(ival{lo: k, hi: k})
			case token.NEQ:
				if k == 0 {
					r.notZero = true
				} else if r.lo == k {
					r.lo++
				} else if r.hi == k {
					r.hi--
				}
			}
			return
		}
		if shift != 0 {
			return
		}
		switch op {
		case token.LSS:
			r.symHi = append(r.symHi, other)
			r.symHiStrict = append(r.symHiStrict, other)
			// v < other <= max(other)
			if om := rangeAtD(other, nil, ptrBits, 4).hi; om != posInf && om-1 < r.hi {
				r.hi = om - 1
			} else if om := typeRange(other.Type(), ptrBits).hi; om-1 < r.hi {
				r.hi = om - 1
			}
		case token.LEQ, token.EQL:
			r.symHi = append(r.symHi, other)
			if om := rangeAtD(other, nil, ptrBits, 4).hi; om < r.hi {
				r.hi = om
			}
			if op == token.EQL {
				r.symLo = append(r.symLo, other)
			}
		case token.GTR, token.GEQ:
			r.symLo = append(r.symLo, other)
		}
	}
}

// ---- misc ------------------------------------------------------------------------

func ptrBitsOf(l *Loaded) int {
	if strings.HasSuffix(l.Config, "/386") {
		return 32
	}
	return 64
}

func calleeOf(c ssa.CallInstruction) *ssa.Function {
	return c.Common().StaticCallee()
}

// isMethodOf reports whether fn is method name of named type pkgPath.typ
// (pointer or value receiver).
func isMethodOf(fn *ssa.Function, pkgPath, typ, name string) bool {
	if fn == nil || fn.Name() != name || fn.Signature.Recv() == nil {
		return false
	}
	t := fn.Signature.Recv().Type()
	if p, ok := t.(*types.Pointer); ok {
		t = p.Elem()
	}
	n, ok := t.(*types.Named)
	return ok && n.Obj().Name() == typ && n.Obj().Pkg() != nil && n.Obj().Pkg().Path() == pkgPath
}

func isPkgFunc(fn *ssa.Function, pkgPath, name string) bool {
	return fn != nil && fn.Signature.Recv() == nil && fn.Name() == name && fn.Pkg != nil && fn.Pkg.Pkg.Path() == pkgPath
}

func namedOf(t types.Type) *types.Named {
	if p, ok := t.(*types.Pointer); ok {
		t = p.Elem()
	}
	n, _ := t.(*types.Named)
	return n
}

func isNamed(t types.Type, pkgPath, name string) bool {
	n := namedOf(t)
	return n != nil && n.Obj().Name() == name && n.Obj().Pkg() != nil && n.Obj().Pkg().Path() == pkgPath
}

func eachInstr(fn *ssa.Function, f func(ssa.Instruction)) {
	for _, b := range fn.Blocks {
		for _, ins := range b.Instrs {
			f(ins)
		}
	}
}

// describe gives a short position-free description of a value for keys.
func describe(v ssa.Value) string {
	switch x := v.(type) {
	case *ssa.Const:
		return x.String()
	case *ssa.Parameter:
		for i, p := range x.Parent().Params {
			if p == x {
				return fmt.Sprintf("p%d", i)
			}
		}
		return "p?"
	case *ssa.ChangeType:
		return describe(x.X)
	case *ssa.Convert:
		return tstr(x.Type()) + "(" + describe(x.X) + ")"
	case *ssa.UnOp:
		if x.Op == token.MUL {
			return describe(x.X)
		}
		return x.Op.String() + describe(x.X)
	case *ssa.FieldAddr:
		st := x.X.Type().Underlying().(*types.Pointer).Elem().Underlying().(*types.Struct)
		return describe(x.X) + "." + st.Field(x.Field).Name()
	case *ssa.Field:
		st := x.X.Type().Underlying().(*types.Struct)
		return describe(x.X) + "." + st.Field(x.Field).Name()
	case *ssa.Call:
		if bi, ok := x.Call.Value.(*ssa.Builtin); ok {
			if len(x.Call.Args) > 0 {
				return bi.Name() + "(" + describe(x.Call.Args[0]) + ")"
			}
			return bi.Name() + "()"
		}
		if f := x.Call.StaticCallee(); f != nil {
			return f.Name() + "()"
		}
		if x.Call.IsInvoke() {
			return describe(x.Call.Value) + "." + x.Call.Method.Name() + "()"
		}
		return "call"
	case *ssa.Extract:
		return describe(x.Tuple) + fmt.Sprintf("#%d", x.Index)
	case *ssa.TypeAssert:
		return describe(x.X) + ".(" + tstr(x.AssertedType) + ")"
	case *ssa.BinOp:
		return "(" + describe(x.X) + x.Op.String() + describe(x.Y) + ")"
	case *ssa.Phi:
		return "phi"
	case *ssa.Alloc:
		return "local"
	case *ssa.Global:
		return x.Name()
	case *ssa.IndexAddr:
		return describe(x.X) + "[]"
	case *ssa.Index:
		return describe(x.X) + "[]"
	case *ssa.Lookup:
		return describe(x.X) + "[]"
	case *ssa.Slice:
		return describe(x.X) + "[:]"
	case *ssa.FreeVar:
		return "free"
	case *ssa.MakeInterface:
		return describe(x.X)
	}
	return "v"
}

// rangeLoopTrips: the phi sits in the header of a `for _, e := range row`
// loop (an index phi -1, +1 compared with len(row) controls the header) whose
// row is an element of a package-level constant table with short literal
// rows: the number of iterations is at most the longest row.  The phi's
// back-edge value must be computed in the loop body (one addition per trip).
func rangeLoopTrips(phi *ssa.Phi) (int64, bool) {
	b := phi.Block()
	if b == nil || len(b.Instrs) == 0 || len(b.Preds) != 2 {
		return 0, false
	}
	iff, ok := b.Instrs[len(b.Instrs)-1].(*ssa.If)
	if !ok {
		return 0, false
	}
	cmp, ok := iff.Cond.(*ssa.BinOp)
	if !ok || cmp.Op != token.LSS {
		return 0, false
	}
	inc, ok := cmp.X.(*ssa.BinOp)
	if !ok || inc.Op != token.ADD {
		return 0, false
	}
	idx, ok := inc.X.(*ssa.Phi)
	if !ok || idx.Block() != b || idx == phi {
		return 0, false
	}
	if k, ok := constInt64(inc.Y); !ok || k != 1 {
		return 0, false
	}
	// idx = phi(-1, idx+1)
	okIdx := false
	for _, e := range idx.Edges {
		if k, ok := constInt64(e); ok && k == -1 {
			okIdx = true
		} else if e != ssa.Value(inc) {
			return 0, false
		}
	}
	if !okIdx {
		return 0, false
	}
	ln, ok := cmp.Y.(*ssa.Call)
	if !ok || len(ln.Call.Args) != 1 {
		return 0, false
	}
	if bi, ok := ln.Call.Value.(*ssa.Builtin); !ok || bi.Name() != "len" {
		return 0, false
	}
	// the back edge of the summing phi comes from inside the loop (body
	// reached by the true branch); the addition is not inside a nested loop
	// header of its own (it would then be another phi)
	return tableRowLenMax(ln.Call.Args[0])
}

// tableRowLenMax: row is an element of a package-level table that is never
// written (see tableLeafRange); the result is the length of its longest
// literal row.
func tableRowLenMax(row ssa.Value) (int64, bool) {
	var g *ssa.Global
	switch x := row.(type) {
	case *ssa.UnOp:
		if ia, ok := x.X.(*ssa.IndexAddr); ok && x.Op == token.MUL {
			g, _ = ia.X.(*ssa.Global)
		}
	case *ssa.Index:
		if u, ok := x.X.(*ssa.UnOp); ok && u.Op == token.MUL {
			g, _ = u.X.(*ssa.Global)
		}
	}
	if g == nil {
		return 0, false
	}
	if _, ok := tableLeafRange(g); !ok {
		return 0, false
	}
	lit := globalInitLit(g)
	if lit == nil {
		return 0, false
	}
	var maxLen int64
	for _, el := range lit.Elts {
		v := el
		if kv, ok := el.(*ast.KeyValueExpr); ok {
			v = kv.Value
		}
		row, ok := ast.Unparen(v).(*ast.CompositeLit)
		if !ok {
			return 0, false
		}
		for _, re := range row.Elts {
			if _, keyed := re.(*ast.KeyValueExpr); keyed {
				return 0, false
			}
		}
		if n := int64(len(row.Elts)); n > maxLen {
			maxLen = n
		}
	}
	return maxLen, true
}

// errResultIndex: the index of the last result of f when it has type error.
func errResultIndex(f *ssa.Function) int {
	res := f.Signature.Results()
	if res.Len() < 2 {
		return -1
	}
	last := res.At(res.Len() - 1).Type()
	if n, ok := last.(*types.Named); ok && n.Obj().Pkg() == nil && n.Obj().Name() == "error" {
		return res.Len() - 1
	}
	return -1
}

// errNilAt: every path to block b has taken the branch on which result ei of
// the call is nil.
func errNilAt(call *ssa.Call, ei int, b *ssa.BasicBlock) bool {
	if b == nil {
		return false
	}
	for _, g := range guardEdges(b) {
		bo, ok := g.If.Cond.(*ssa.BinOp)
		if !ok || (bo.Op != token.EQL && bo.Op != token.NEQ) {
			continue
		}
		var tested ssa.Value
		if k, ok := bo.Y.(*ssa.Const); ok && k.IsNil() {
			tested = bo.X
		} else if k, ok := bo.X.(*ssa.Const); ok && k.IsNil() {
			tested = bo.Y
		} else {
			continue
		}
		ex, ok := tested.(*ssa.Extract)
		if !ok || ex.Tuple != ssa.Value(call) || ex.Index != ei {
			continue
		}
		if (bo.Op == token.EQL) == g.Truth {
			return true
		}
	}
	return false
}

// definitelyNonNilErr: the value is a non-nil error on every execution.
func definitelyNonNilErr(v ssa.Value, depth int) bool {
	if depth > 4 {
		return false
	}
	switch x := v.(type) {
	case *ssa.MakeInterface:
		return true
	case *ssa.Call:
		f := x.Call.StaticCallee()
		if f == nil {
			return false
		}
		if f.Pkg != nil {
			pp := f.Pkg.Pkg.Path()
			if (pp == "errors" && f.Name() == "New") || (pp == "fmt" && f.Name() == "Errorf") {
				return true
			}
		}
		if len(f.Blocks) > 0 && f.Signature.Results().Len() == 1 {
			n := 0
			for _, b := range f.Blocks {
				if ret, ok := b.Instrs[len(b.Instrs)-1].(*ssa.Return); ok {
					n++
					if !definitelyNonNilErr(ret.Results[0], depth+1) {
						return false
					}
				}
			}
			return n > 0
		}
	case *ssa.Phi:
		for _, e := range x.Edges {
			if e != v && !definitelyNonNilErr(e, depth+1) {
				return false
			}
		}
		return len(x.Edges) > 0
	case *ssa.UnOp:
		if g, ok := x.X.(*ssa.Global); ok && x.Op == token.MUL {
			return globalNeverNilErr(g)
		}
	}
	return false
}

var globalNonNilMemo = map[*ssa.Global]int{}

// globalNeverNilErr: the package-level variable is assigned only by its
// package initialiser, with a definitely non-nil error.
func globalNeverNilErr(g *ssa.Global) bool {
	if r, ok := globalNonNilMemo[g]; ok {
		return r == 1
	}
	globalNonNilMemo[g] = 2
	if gL == nil || g.Pkg == nil {
		return false
	}
	stores := 0
	for _, fn := range gL.RepoFuncs(nil) {
		bad := false
		eachInstr(fn, func(ins ssa.Instruction) {
			var ops []*ssa.Value
			for _, op := range ins.Operands(ops) {
				if op == nil || *op != ssa.Value(g) {
					continue
				}
				switch u := ins.(type) {
				case *ssa.UnOp:
					if u.Op != token.MUL {
						bad = true
					}
				case *ssa.Store:
					if u.Addr != ssa.Value(g) || !(fn.Synthetic != "" && fn.Name() == "init") || !definitelyNonNilErr(u.Val, 1) {
						bad = true
					} else {
						stores++
					}
				default:
					bad = true // address escapes
				}
			}
		})
		if bad {
			return false
		}
	}
	if stores == 0 {
		// the initialiser lives in the package's synthetic init, which RepoFuncs may not list
		if init := g.Pkg.Func("init"); init != nil {
			eachInstr(init, func(ins ssa.Instruction) {
				if st, ok := ins.(*ssa.Store); ok && st.Addr == ssa.Value(g) && definitelyNonNilErr(st.Val, 1) {
					stores++
				}
			})
		}
	}
	if stores > 0 {
		globalNonNilMemo[g] = 1
		return true
	}
	return false
}

// nonNilErrAtReturn: the error returned by ret (result ei) is non-nil on every
// execution: by construction, or because the return is dominated by the
// branch on which that same value was tested non-nil.
func nonNilErrAtReturn(ret *ssa.Return, ei int) bool {
	e := ret.Results[ei]
	if definitelyNonNilErr(e, 0) {
		return true
	}
	for _, g := range guardEdges(ret.Block()) {
		bo, ok := g.If.Cond.(*ssa.BinOp)
		if !ok || (bo.Op != token.EQL && bo.Op != token.NEQ) {
			continue
		}
		for _, pr := range [][2]ssa.Value{{bo.X, bo.Y}, {bo.Y, bo.X}} {
			if k, isK := pr[1].(*ssa.Const); isK && k.IsNil() && pr[0] == e && (bo.Op == token.NEQ) == g.Truth {
				return true
			}
		}
	}
	return false
}

// returnRangeOK: like returnRange, over the returns whose error result (index
// ei) is not a definitely non-nil error.
func returnRangeOK(fn *ssa.Function, idx, ei, ptrBits, depth int) (ival, bool) {
	key := fmt.Sprintf("%p/%d/%d/ok%d", fn, idx, ptrBits, ei)
	if r, ok := returnRangeMemo[key]; ok {
		return r, r.lo != negInf || r.hi != posInf
	}
	returnRangeMemo[key] = fullRange() // recursion guard
	j := ival{lo: posInf, hi: negInf}
	n := 0
	for _, b := range fn.Blocks {
		ret, ok := b.Instrs[len(b.Instrs)-1].(*ssa.Return)
		if !ok || idx >= len(ret.Results) || ei >= len(ret.Results) {
			continue
		}
		if nonNilErrAtReturn(ret, ei) {
			continue
		}
		if _, _, isInt := isIntegerType(ret.Results[idx].Type()); !isInt {
			return fullRange(), false
		}
		n++
		rr := rangeAtD(ret.Results[idx], b, ptrBits, depth+2)
		if rr.lo < j.lo {
			j.lo = rr.lo
		}
		if rr.hi > j.hi {
			j.hi = rr.hi
		}
	}
	if n == 0 || j.lo > j.hi {
		return fullRange(), false
	}
	res := ival{lo: j.lo, hi: j.hi}
	returnRangeMemo[key] = res
	return res, res.lo != negInf || res.hi != posInf
}

// mapTableRange: the lookup reads a package-level map that is initialised by a
// composite literal with integer constant values and is never written by
// repository code: the result is one of those constants or zero (absent key).
func mapTableRange(lk *ssa.Lookup) (ival, bool) {
	u, ok := lk.X.(*ssa.UnOp)
	if !ok || u.Op != token.MUL {
		return fullRange(), false
	}
	g, ok := u.X.(*ssa.Global)
	if !ok {
		return fullRange(), false
	}
	mt, ok := g.Type().(*types.Pointer).Elem().Underlying().(*types.Map)
	if !ok {
		return fullRange(), false
	}
	if _, _, isInt := isIntegerType(mt.Elem()); !isInt {
		return fullRange(), false
	}
	return mapLeafRange(g)
}

// lenAtEdge: an interval for len(v) at the end of block pred: the length of a
// constant string, or what the guards of pred say about an SSA len(v) value.
func lenAtEdge(v ssa.Value, pred, succ *ssa.BasicBlock, ptrBits, depth int) ival {
	tr := typeRange(types.Typ[types.Int], ptrBits)
	out := ival{lo: 0, hi: tr.hi}
	if k, ok := v.(*ssa.Const); ok && k.Value != nil && k.Value.Kind() == constant.String {
		n := int64(len(constant.StringVal(k.Value)))
		return ival{lo: n, hi: n}
	}
	// v compared with the empty string on the way to the edge: v != "" means len(v) >= 1
	nonEmpty := func(cond ssa.Value, truth bool) bool {
		bo, ok := cond.(*ssa.BinOp)
		if !ok || (bo.Op != token.EQL && bo.Op != token.NEQ) {
			return false
		}
		for _, pr := range [][2]ssa.Value{{bo.X, bo.Y}, {bo.Y, bo.X}} {
			if pr[0] != v {
				continue
			}
			if k, ok := pr[1].(*ssa.Const); ok && k.Value != nil && k.Value.Kind() == constant.String && constant.StringVal(k.Value) == "" {
				return (bo.Op == token.NEQ) == truth
			}
		}
		return false
	}
	for _, g := range guardEdges(pred) {
		if nonEmpty(g.If.Cond, g.Truth) {
			out.lo = 1
		}
	}
	if iff, ok := pred.Instrs[len(pred.Instrs)-1].(*ssa.If); ok && succ != nil && len(pred.Succs) == 2 && pred.Succs[0] != pred.Succs[1] {
		if nonEmpty(iff.Cond, pred.Succs[0] == succ) {
			out.lo = 1
		}
	}
	if v.Referrers() == nil {
		return out
	}
	for _, r := range *v.Referrers() {
		cl, ok := r.(*ssa.Call)
		if !ok || len(cl.Call.Args) != 1 || cl.Call.Args[0] != v {
			continue
		}
		if bi, ok := cl.Call.Value.(*ssa.Builtin); !ok || bi.Name() != "len" {
			continue
		}
		// the len value must be available at the end of pred
		if !(cl.Block() == pred || cl.Block().Dominates(pred)) {
			continue
		}
		lr := rangeAtD(cl, pred, ptrBits, depth+2)
		// the branch taken from pred into succ itself
		if iff, ok := pred.Instrs[len(pred.Instrs)-1].(*ssa.If); ok && succ != nil && len(pred.Succs) == 2 && pred.Succs[0] != pred.Succs[1] {
			applyCond(&lr, cl, iff.Cond, pred.Succs[0] == succ, ptrBits)
		}
		if lr.lo > out.lo {
			out.lo = lr.lo
		}
		if lr.hi < out.hi {
			out.hi = lr.hi
		}
		if lr.notZero && out.lo == 0 {
			out.lo = 1
		}
	}
	return out
}

// pathGuardSets enumerates the feasible acyclic paths from the function entry
// to block b (pruning paths that contradict themselves about one SSA value
// compared with constants, as correlatedGuards does) and returns, per path, the
// branch edges taken.  ok is false when some ancestor of b lies on a cycle or
// the enumeration exceeds its budget.
func pathGuardSets(b *ssa.BasicBlock) (paths [][]guardEdge, ok bool) {
	fn := b.Parent()
	if len(fn.Blocks) == 0 {
		return nil, false
	}
	if paths, ok := pathGuardSetsFrom(fn.Blocks[0], b); ok {
		return paths, true
	}
	// b lies in a loop: the paths of one iteration, from the innermost loop
	// header that dominates b (guards established before the loop are not
	// reported: fewer facts, never wrong ones)
	for d := b.Idom(); d != nil; d = d.Idom() {
		header := false
		for _, p := range d.Preds {
			if d.Dominates(p) {
				header = true // a back edge
			}
		}
		if header && blockReaches(b, d) {
			return pathGuardSetsFrom(d, b)
		}
	}
	return nil, false
}

// pathGuardSetsFrom: as pathGuardSets, for the acyclic paths from block `from`
// (which must dominate b) to b that do not pass through `from` again.
func pathGuardSetsFrom(from, b *ssa.BasicBlock) (paths [][]guardEdge, ok bool) {
	fn := b.Parent()
	if from == b {
		return [][]guardEdge{nil}, true
	}
	dead := map[*ssa.BasicBlock]bool{}
	for _, x := range fn.Blocks {
		for _, ins := range x.Instrs {
			if ci, ok := ins.(*ssa.Call); ok && isNoReturn(ci.Call.StaticCallee()) {
				dead[x] = true
			}
		}
	}
	anc := map[*ssa.BasicBlock]bool{b: true}
	work := []*ssa.BasicBlock{b}
	for len(work) > 0 {
		x := work[len(work)-1]
		work = work[:len(work)-1]
		if x == from {
			continue
		}
		for _, p := range x.Preds {
			if !anc[p] {
				anc[p] = true
				work = append(work, p)
			}
		}
	}
	if !anc[from] {
		return nil, false
	}
	// the region must be acyclic once the edges back into `from` are ignored
	reachIn := func(a, t *ssa.BasicBlock) bool {
		seen := map[*ssa.BasicBlock]bool{}
		st := []*ssa.BasicBlock{a}
		for len(st) > 0 {
			x := st[len(st)-1]
			st = st[:len(st)-1]
			if x == t {
				return true
			}
			if seen[x] || !anc[x] || x == b {
				continue
			}
			seen[x] = true
			for _, s := range x.Succs {
				if s != from {
					st = append(st, s)
				}
			}
		}
		return false
	}
	for x := range anc {
		if x == b {
			continue
		}
		for _, s := range x.Succs {
			if s != from && anc[s] && reachIn(s, x) {
				return nil, false
			}
		}
	}
	type fact struct {
		x  ssa.Value
		k  *ssa.Const
		eq bool
	}
	constEq := func(a, c *ssa.Const) bool {
		if a.Value == nil || c.Value == nil {
			return a.Value == nil && c.Value == nil
		}
		return constant.Compare(a.Value, token.EQL, c.Value)
	}
	contradicts := func(fs []fact, f fact) bool {
		for _, g := range fs {
			if g.x != f.x {
				continue
			}
			same := constEq(g.k, f.k)
			if g.eq && f.eq && !same {
				return true
			}
			if g.eq != f.eq && same {
				return true
			}
		}
		return false
	}
	budget := 100000
	var facts []fact
	var edges []guardEdge
	var rec func(x *ssa.BasicBlock) bool
	rec = func(x *ssa.BasicBlock) bool {
		budget--
		if budget < 0 || len(paths) > 4000 {
			return false
		}
		if x == b {
			paths = append(paths, append([]guardEdge(nil), edges...))
			return true
		}
		if dead[x] {
			return true
		}
		iff, isIf := x.Instrs[len(x.Instrs)-1].(*ssa.If)
		for i, s := range x.Succs {
			if !anc[s] || s == from {
				continue
			}
			nf, ne := len(facts), len(edges)
			if isIf && len(x.Succs) == 2 && x.Succs[0] != x.Succs[1] {
				truth := i == 0
				if bo, ok := iff.Cond.(*ssa.BinOp); ok && (bo.Op == token.EQL || bo.Op == token.NEQ) {
					for _, pr := range [][2]ssa.Value{{bo.X, bo.Y}, {bo.Y, bo.X}} {
						if k, ok := pr[1].(*ssa.Const); ok {
							if _, isC := pr[0].(*ssa.Const); !isC {
								f := fact{pr[0], k, (bo.Op == token.EQL) == truth}
								if contradicts(facts, f) {
									goto next
								}
								facts = append(facts, f)
							}
							break
						}
					}
				}
				edges = append(edges, guardEdge{iff, truth})
			}
			if !rec(s) {
				return false
			}
		next:
			facts, edges = facts[:nf], edges[:ne]
		}
		return true
	}
	if !rec(from) {
		return nil, false
	}
	return paths, true
}
