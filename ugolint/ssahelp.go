package main

import (
	"fmt"
	"go/constant"
	"go/token"
	"go/types"
	"math"
	"strings"

	"golang.org/x/tools/go/ssa"
)

// ---- values and access paths -------------------------------------------------

func stripChange(v ssa.Value) ssa.Value {
	for {
		switch x := v.(type) {
		case *ssa.ChangeType:
			v = x.X
		case *ssa.MakeInterface:
			v = x.X
		default:
			return v
		}
	}
}

// accessPath describes v as a chain of field selections and dereferences from
// a root SSA value, e.g. load(fieldaddr(p, Value)) = (p, "*.Value").  Two loads
// with the same root and path read the same memory provided nothing stores to
// it in between (checked by sameMem).
func accessPath(v ssa.Value) (root ssa.Value, path string) {
	switch x := v.(type) {
	case *ssa.ChangeType:
		return accessPath(x.X)
	case *ssa.UnOp:
		if x.Op == token.MUL {
			r, p := accessPath(x.X)
			return r, p + "*"
		}
	case *ssa.FieldAddr:
		r, p := accessPath(x.X)
		return r, p + fmt.Sprintf("&.%d", x.Field)
	case *ssa.Field:
		r, p := accessPath(x.X)
		return r, p + fmt.Sprintf(".%d", x.Field)
	}
	return v, ""
}

// sameMem reports whether a and b denote the same run-time value: the same SSA
// value, or two reads of the same access path with no store to that path
// anywhere in the function.
func sameMem(a, b ssa.Value) bool {
	if a == b {
		return true
	}
	a, b = stripChangeOnly(a), stripChangeOnly(b)
	if a == b {
		return true
	}
	ra, pa := accessPath(a)
	rb, pb := accessPath(b)
	if pa == "" || pa != pb || ra != rb {
		return false
	}
	fn := a.Parent()
	if fn == nil {
		return false
	}
	// any store to the same path kills the equivalence
	for _, blk := range fn.Blocks {
		for _, ins := range blk.Instrs {
			if st, ok := ins.(*ssa.Store); ok {
				r, p := accessPath(st.Addr)
				if r == ra && p+"*" == pa {
					return false
				}
			}
		}
	}
	return true
}

func stripChangeOnly(v ssa.Value) ssa.Value {
	for {
		if x, ok := v.(*ssa.ChangeType); ok {
			v = x.X
			continue
		}
		return v
	}
}

func constInt64(v ssa.Value) (int64, bool) {
	c, ok := v.(*ssa.Const)
	if !ok || c.Value == nil {
		return 0, false
	}
	if c.Value.Kind() != constant.Int {
		return 0, false
	}
	if i, ok := constant.Int64Val(c.Value); ok {
		return i, true
	}
	return 0, false
}

func isIntegerType(t types.Type) (signed bool, bits int, ok bool) {
	b, isb := t.Underlying().(*types.Basic)
	if !isb || b.Info()&types.IsInteger == 0 {
		return false, 0, false
	}
	switch b.Kind() {
	case types.Int8:
		return true, 8, true
	case types.Int16:
		return true, 16, true
	case types.Int32:
		return true, 32, true
	case types.Int64:
		return true, 64, true
	case types.Int:
		return true, 0, true // 0 = platform
	case types.Uint8:
		return false, 8, true
	case types.Uint16:
		return false, 16, true
	case types.Uint32:
		return false, 32, true
	case types.Uint64:
		return false, 64, true
	case types.Uint, types.Uintptr:
		return false, 0, true
	case types.UntypedInt, types.UntypedRune:
		return true, 64, true
	}
	return false, 0, false
}

// ---- small interval domain ----------------------------------------------------

const (
	negInf = math.MinInt64
	posInf = math.MaxInt64
)

type ival struct {
	lo, hi  int64
	notZero bool
	symHi   []ssa.Value // values u with v <= u (or v < u) known on this path
	symLo   []ssa.Value
}

func fullRange() ival { return ival{lo: negInf, hi: posInf} }

func (r ival) nonZero() bool { return r.notZero || r.lo > 0 || r.hi < 0 }
func (r ival) nonNeg() bool  { return r.lo >= 0 }

func typeRange(t types.Type, ptrBits int) ival {
	r := fullRange()
	signed, bits, ok := isIntegerType(t)
	if !ok {
		return r
	}
	if bits == 0 {
		bits = ptrBits
	}
	if signed {
		if bits < 64 {
			r.lo = -(int64(1) << (bits - 1))
			r.hi = int64(1)<<(bits-1) - 1
		}
	} else {
		r.lo = 0
		if bits < 64 {
			r.hi = int64(1)<<bits - 1
		}
	}
	return r
}

func (r *ival) meet(o ival) {
	if o.lo > r.lo {
		r.lo = o.lo
	}
	if o.hi < r.hi {
		r.hi = o.hi
	}
	r.notZero = r.notZero || o.notZero
	r.symHi = append(r.symHi, o.symHi...)
	r.symLo = append(r.symLo, o.symLo...)
}

func flipOp(op token.Token) token.Token {
	switch op {
	case token.LSS:
		return token.GTR
	case token.GTR:
		return token.LSS
	case token.LEQ:
		return token.GEQ
	case token.GEQ:
		return token.LEQ
	}
	return op
}

func negOp(op token.Token) token.Token {
	switch op {
	case token.LSS:
		return token.GEQ
	case token.GEQ:
		return token.LSS
	case token.GTR:
		return token.LEQ
	case token.LEQ:
		return token.GTR
	case token.EQL:
		return token.NEQ
	case token.NEQ:
		return token.EQL
	}
	return op
}

// guardEdges enumerates the conditional branches that every path from the
// function entry to block b must take: pairs (If instruction, branch taken).
func guardEdges(b *ssa.BasicBlock) []struct {
	If    *ssa.If
	Truth bool
} {
	var out []struct {
		If    *ssa.If
		Truth bool
	}
	for d := b; d != nil; d = d.Idom() {
		p := d.Idom()
		if p == nil || len(p.Instrs) == 0 {
			continue
		}
		iff, ok := p.Instrs[len(p.Instrs)-1].(*ssa.If)
		if !ok {
			continue
		}
		for i, s := range p.Succs {
			if len(s.Preds) == 1 && (s == d || s.Dominates(d)) && (s == b || s.Dominates(b)) {
				// make sure the other successor does not also lead here exclusively
				other := p.Succs[1-i]
				if other == s {
					continue
				}
				out = append(out, struct {
					If    *ssa.If
					Truth bool
				}{iff, i == 0})
			}
		}
	}
	return out
}

// rangeAt computes what the dominating comparisons say about v at block b.
// ptrBits is the size of int for the configuration analysed.
func rangeAt(v ssa.Value, b *ssa.BasicBlock, ptrBits int) ival {
	r := valueRange(v, ptrBits, 0)
	for _, g := range guardEdges(b) {
		applyCond(&r, v, g.If.Cond, g.Truth, ptrBits)
	}
	return r
}

// valueRange: what the definition of v says about it, independent of guards.
func valueRange(v ssa.Value, ptrBits, depth int) ival {
	r := typeRange(v.Type(), ptrBits)
	if depth > 4 {
		return r
	}
	switch x := v.(type) {
	case *ssa.Const:
		if k, ok := constInt64(x); ok {
			return ival{lo: k, hi: k}
		}
	case *ssa.ChangeType:
		r.meet(valueRange(x.X, ptrBits, depth+1))
	case *ssa.Convert:
		// value preserving only if the source range fits the target type
		src := valueRange(x.X, ptrBits, depth+1)
		if _, _, ok := isIntegerType(x.X.Type()); ok && src.lo >= r.lo && src.hi <= r.hi {
			r.meet(src)
		}
	case *ssa.Call:
		if bi, ok := x.Call.Value.(*ssa.Builtin); ok && (bi.Name() == "len" || bi.Name() == "cap") {
			r.lo = 0
		}
	case *ssa.Phi:
		j := ival{lo: posInf, hi: negInf, notZero: true}
		for _, e := range x.Edges {
			if e == v {
				continue
			}
			er := valueRange(e, ptrBits, depth+1)
			if er.lo < j.lo {
				j.lo = er.lo
			}
			if er.hi > j.hi {
				j.hi = er.hi
			}
			if !er.nonZero() {
				j.notZero = false
			}
		}
		if j.lo <= j.hi {
			r.meet(ival{lo: j.lo, hi: j.hi, notZero: j.notZero})
		}
	case *ssa.BinOp:
		switch x.Op {
		case token.AND:
			if k, ok := constInt64(x.Y); ok && k >= 0 {
				r.meet(ival{lo: 0, hi: k})
			}
		case token.REM:
			if k, ok := constInt64(x.Y); ok && k > 0 {
				r.meet(ival{lo: -(k - 1), hi: k - 1})
			}
		case token.SHR:
			// unsigned value shifted right stays unsigned-bounded: nothing more
		}
	}
	return r
}

func applyCond(r *ival, v ssa.Value, cond ssa.Value, truth bool, ptrBits int) {
	switch c := cond.(type) {
	case *ssa.UnOp:
		if c.Op == token.NOT {
			applyCond(r, v, c.X, !truth, ptrBits)
		}
		return
	case *ssa.BinOp:
		op := c.Op
		switch op {
		case token.LSS, token.LEQ, token.GTR, token.GEQ, token.EQL, token.NEQ:
		default:
			return
		}
		var other ssa.Value
		if sameMem(c.X, v) {
			other = c.Y
		} else if sameMem(c.Y, v) {
			other = c.X
			op = flipOp(op)
		} else {
			return
		}
		if !truth {
			op = negOp(op)
		}
		if k, ok := constInt64(other); ok {
			switch op {
			case token.LSS:
				if k != negInf {
					r.meet(ival{lo: negInf, hi: k - 1})
				}
			case token.LEQ:
				r.meet(ival{lo: negInf, hi: k})
			case token.GTR:
				if k != posInf {
					r.meet(ival{lo: k + 1, hi: posInf})
				}
			case token.GEQ:
				r.meet(ival{lo: k, hi: posInf})
			case token.EQL:
				r.meet(ival{lo: k, hi: k})
			case token.NEQ:
				if k == 0 {
					r.notZero = true
				} else if r.lo == k {
					r.lo++
				} else if r.hi == k {
					r.hi--
				}
			}
			return
		}
		switch op {
		case token.LSS, token.LEQ, token.EQL:
			r.symHi = append(r.symHi, other)
			if op == token.EQL {
				r.symLo = append(r.symLo, other)
			}
		case token.GTR, token.GEQ:
			r.symLo = append(r.symLo, other)
		}
	}
}

// ---- misc ------------------------------------------------------------------------

func ptrBitsOf(l *Loaded) int {
	if strings.HasSuffix(l.Config, "/386") {
		return 32
	}
	return 64
}

func calleeOf(c ssa.CallInstruction) *ssa.Function {
	return c.Common().StaticCallee()
}

// isMethodOf reports whether fn is method name of named type pkgPath.typ
// (pointer or value receiver).
func isMethodOf(fn *ssa.Function, pkgPath, typ, name string) bool {
	if fn == nil || fn.Name() != name || fn.Signature.Recv() == nil {
		return false
	}
	t := fn.Signature.Recv().Type()
	if p, ok := t.(*types.Pointer); ok {
		t = p.Elem()
	}
	n, ok := t.(*types.Named)
	return ok && n.Obj().Name() == typ && n.Obj().Pkg() != nil && n.Obj().Pkg().Path() == pkgPath
}

func isPkgFunc(fn *ssa.Function, pkgPath, name string) bool {
	return fn != nil && fn.Signature.Recv() == nil && fn.Name() == name && fn.Pkg != nil && fn.Pkg.Pkg.Path() == pkgPath
}

func namedOf(t types.Type) *types.Named {
	if p, ok := t.(*types.Pointer); ok {
		t = p.Elem()
	}
	n, _ := t.(*types.Named)
	return n
}

func isNamed(t types.Type, pkgPath, name string) bool {
	n := namedOf(t)
	return n != nil && n.Obj().Name() == name && n.Obj().Pkg() != nil && n.Obj().Pkg().Path() == pkgPath
}

func eachInstr(fn *ssa.Function, f func(ssa.Instruction)) {
	for _, b := range fn.Blocks {
		for _, ins := range b.Instrs {
			f(ins)
		}
	}
}

// describe gives a short position-free description of a value for keys.
func describe(v ssa.Value) string {
	switch x := v.(type) {
	case *ssa.Const:
		return x.String()
	case *ssa.Parameter:
		for i, p := range x.Parent().Params {
			if p == x {
				return fmt.Sprintf("p%d", i)
			}
		}
		return "p?"
	case *ssa.ChangeType:
		return describe(x.X)
	case *ssa.Convert:
		return tstr(x.Type()) + "(" + describe(x.X) + ")"
	case *ssa.UnOp:
		if x.Op == token.MUL {
			return describe(x.X)
		}
		return x.Op.String() + describe(x.X)
	case *ssa.FieldAddr:
		st := x.X.Type().Underlying().(*types.Pointer).Elem().Underlying().(*types.Struct)
		return describe(x.X) + "." + st.Field(x.Field).Name()
	case *ssa.Field:
		st := x.X.Type().Underlying().(*types.Struct)
		return describe(x.X) + "." + st.Field(x.Field).Name()
	case *ssa.Call:
		if bi, ok := x.Call.Value.(*ssa.Builtin); ok {
			if len(x.Call.Args) > 0 {
				return bi.Name() + "(" + describe(x.Call.Args[0]) + ")"
			}
			return bi.Name() + "()"
		}
		if f := x.Call.StaticCallee(); f != nil {
			return f.Name() + "()"
		}
		if x.Call.IsInvoke() {
			return describe(x.Call.Value) + "." + x.Call.Method.Name() + "()"
		}
		return "call"
	case *ssa.Extract:
		return describe(x.Tuple) + fmt.Sprintf("#%d", x.Index)
	case *ssa.TypeAssert:
		return describe(x.X) + ".(" + tstr(x.AssertedType) + ")"
	case *ssa.BinOp:
		return "(" + describe(x.X) + x.Op.String() + describe(x.Y) + ")"
	case *ssa.Phi:
		return "phi"
	case *ssa.Alloc:
		return "local"
	case *ssa.Global:
		return x.Name()
	case *ssa.IndexAddr:
		return describe(x.X) + "[]"
	case *ssa.Index:
		return describe(x.X) + "[]"
	case *ssa.Lookup:
		return describe(x.X) + "[]"
	case *ssa.Slice:
		return describe(x.X) + "[:]"
	case *ssa.FreeVar:
		return "free"
	case *ssa.MakeInterface:
		return describe(x.X)
	}
	return "v"
}
