package main

import (
	"bytes"
	"regexp"
	"fmt"
	"go/ast"
	"go/build"
	"go/constant"
	"go/parser"
	"go/printer"
	"go/token"
	"path/filepath"
	"sort"
	"strconv"
	"strings"
)

// ---- C17/scanner-agree, table-agree ------------------------------------------------------------------------------------------
// The json module's validating scanner is a copy of encoding/json's state
// machine; "accepts exactly standard JSON" is, for the scanner, agreement with
// that sibling.  The comparison is not textual.  Every state function
// `func(s *scanner, c byte) int` is abstractly interpreted over the powerset of
// byte values: the set of possible values of c is split at every condition that
// depends on c alone (comparisons with character constants, isSpace, &&, ||, !,
// switch cases); conditions on other state are kept as opaque, named branches.
// The result is, per byte value, the sequence of effects executed and the value
// returned.  A state function of the module agrees with the reference when the
// two maps byte -> outcome are equal: re-ordering independent cases, turning a
// switch into an if chain or merging / splitting conditions does not change the
// map, accepting "-01" (the '0' case of stateNeg sent to state1) does.
//
// The character class tables (safeSet, htmlSafeSet) are compared element by
// element with the reference's composite literals.

type byteSet [256]bool

func fullSet() byteSet {
	var s byteSet
	for i := range s {
		s[i] = true
	}
	return s
}

func (s byteSet) empty() bool {
	for _, b := range s {
		if b {
			return false
		}
	}
	return true
}

type scanEval struct {
	fset    *token.FileSet
	cName   string
	funcs   map[string]*ast.FuncDecl
	out     [256][]string // per byte value: the outcomes (one per opaque path)
	limit   int
	depth   int
	aborted string
	// loopBody: the statements interpreted are (part of) a loop body, `continue` ends a path
	loopBody bool
	// curEnv: the values of the locals on the path being interpreted (for conditions on them)
	curEnv   map[string]string
	envDepth int
}

// inlineTarget: x is a call of a function or method declared in the same file
// whose body branches, which returns one value and receives the current byte in
// exactly one parameter; every other argument is an expression without calls.
// Returns the declaration, the name of its byte parameter and the environment
// binding its other parameters (and receiver) to the argument texts.
func (e *scanEval) inlineTarget(x ast.Expr, env map[string]string) (*ast.FuncDecl, string, map[string]string) {
	return e.inlineTargetKind(x, env, true)
}

// inlineTargetKind: wantResult selects helpers with one result (`return helper(c)`)
// or without any (`helper(c)` as a statement).
func (e *scanEval) inlineTargetKind(x ast.Expr, env map[string]string, wantResult bool) (*ast.FuncDecl, string, map[string]string) {
	call, ok := x.(*ast.CallExpr)
	if !ok || e.depth > 3 {
		return nil, "", nil
	}
	var fd *ast.FuncDecl
	var args []ast.Expr
	switch f := call.Fun.(type) {
	case *ast.Ident:
		if d := e.funcs[f.Name]; d != nil && d.Recv == nil {
			fd = d
		}
	case *ast.SelectorExpr:
		n := 0
		for k, d := range e.funcs {
			if strings.HasSuffix(k, "."+f.Sel.Name) && d.Recv != nil {
				fd = d
				n++
			}
		}
		if n != 1 {
			return nil, "", nil
		}
		args = append(args, f.X)
	}
	if fd == nil || fd.Body == nil {
		return nil, "", nil
	}
	if wantResult && (fd.Type.Results == nil || len(fd.Type.Results.List) != 1 || len(fd.Type.Results.List[0].Names) > 1) {
		return nil, "", nil
	}
	if !wantResult && fd.Type.Results != nil && len(fd.Type.Results.List) > 0 {
		return nil, "", nil
	}
	branches := false
	ast.Inspect(fd.Body, func(n ast.Node) bool {
		switch n.(type) {
		case *ast.IfStmt, *ast.SwitchStmt:
			branches = true
		case *ast.ForStmt, *ast.RangeStmt, *ast.FuncLit, *ast.GoStmt, *ast.DeferStmt, *ast.LabeledStmt, *ast.BranchStmt:
			branches = false
			return false
		}
		return true
	})
	if !branches {
		return nil, "", nil
	}
	args = append(args, call.Args...)
	var params []string
	if fd.Recv != nil {
		if len(fd.Recv.List) != 1 || len(fd.Recv.List[0].Names) != 1 {
			return nil, "", nil
		}
		params = append(params, fd.Recv.List[0].Names[0].Name)
	}
	for _, f := range fd.Type.Params.List {
		if len(f.Names) == 0 {
			return nil, "", nil
		}
		for _, n := range f.Names {
			params = append(params, n.Name)
		}
	}
	if len(params) != len(args) {
		return nil, "", nil
	}
	cParam := ""
	henv := map[string]string{}
	for i, a := range args {
		hasCall := false
		ast.Inspect(a, func(n ast.Node) bool {
			if _, ok := n.(*ast.CallExpr); ok {
				hasCall = true
			}
			return true
		})
		if hasCall {
			return nil, "", nil
		}
		if id, ok := a.(*ast.Ident); ok && id.Name == e.cName {
			if cParam != "" {
				return nil, "", nil
			}
			cParam = params[i]
			if params[i] != e.cName {
				henv[params[i]] = e.cName
			}
			continue
		}
		henv[params[i]] = subst(exprString(e.fset, a), env)
	}
	if cParam == "" {
		return nil, "", nil
	}
	return fd, cParam, henv
}

// A path's key is its trace, followed by "\x00" and the values of the local
// variables assigned on it ("name=expr;..."): effects and results are recorded
// with the locals replaced by what was assigned to them, so that
// `next = stateNeg; ...; s.step = next` is the effect `s.step = stateNeg`.
func splitKey(k string) (trace string, env map[string]string) {
	env = map[string]string{}
	i := strings.Index(k, "\x00")
	if i < 0 {
		return k, env
	}
	for _, kv := range strings.Split(k[i+1:], "\x01") {
		if j := strings.Index(kv, "="); j > 0 {
			env[kv[:j]] = kv[j+1:]
		}
	}
	return k[:i], env
}

func joinKey(trace string, env map[string]string) string {
	if len(env) == 0 {
		return trace
	}
	var ks []string
	for k := range env {
		ks = append(ks, k)
	}
	sort.Strings(ks)
	var parts []string
	for _, k := range ks {
		parts = append(parts, k+"="+env[k])
	}
	return trace + "\x00" + strings.Join(parts, "\x01")
}

var identRe = regexp.MustCompile(`[A-Za-z_][A-Za-z0-9_]*`)

func subst(text string, env map[string]string) string {
	if len(env) == 0 {
		return text
	}
	return identRe.ReplaceAllStringFunc(text, func(id string) string {
		if v, ok := env[id]; ok {
			return v
		}
		return id
	})
}

func exprString(fset *token.FileSet, n ast.Node) string {
	var b bytes.Buffer
	_ = printer.Fprint(&b, fset, n)
	return strings.Join(strings.Fields(b.String()), " ")
}

// evalBool: the value of cond for c == v, or ok=false when cond depends on
// anything but c and constants.
func (e *scanEval) evalBool(x ast.Expr, v int) (val bool, ok bool) {
	switch n := x.(type) {
	case *ast.ParenExpr:
		return e.evalBool(n.X, v)
	case *ast.UnaryExpr:
		if n.Op == token.NOT {
			b, ok := e.evalBool(n.X, v)
			return !b, ok
		}
	case *ast.BinaryExpr:
		switch n.Op {
		case token.LAND, token.LOR:
			a, ok1 := e.evalBool(n.X, v)
			b, ok2 := e.evalBool(n.Y, v)
			if ok1 && ok2 {
				if n.Op == token.LAND {
					return a && b, true
				}
				return a || b, true
			}
			// short circuit with one opaque side
			if ok1 && n.Op == token.LAND && !a {
				return false, true
			}
			if ok1 && n.Op == token.LOR && a {
				return true, true
			}
			return false, false
		case token.EQL, token.NEQ, token.LSS, token.LEQ, token.GTR, token.GEQ:
			a, ok1 := e.evalInt(n.X, v)
			b, ok2 := e.evalInt(n.Y, v)
			if !ok1 || !ok2 {
				return false, false
			}
			switch n.Op {
			case token.EQL:
				return a == b, true
			case token.NEQ:
				return a != b, true
			case token.LSS:
				return a < b, true
			case token.LEQ:
				return a <= b, true
			case token.GTR:
				return a > b, true
			case token.GEQ:
				return a >= b, true
			}
		}
	case *ast.CallExpr:
		// a predicate of the same file applied to c alone: isSpace(c)
		if id, ok := n.Fun.(*ast.Ident); ok && len(n.Args) == 1 {
			if a, ok := n.Args[0].(*ast.Ident); ok && a.Name == e.cName {
				if fd := e.funcs[id.Name]; fd != nil && fd.Recv == nil && fd.Type.Params != nil && len(fd.Type.Params.List) == 1 && len(fd.Type.Params.List[0].Names) == 1 && fd.Body != nil && len(fd.Body.List) == 1 {
					if rs, ok := fd.Body.List[0].(*ast.ReturnStmt); ok && len(rs.Results) == 1 {
						sub := &scanEval{fset: e.fset, cName: fd.Type.Params.List[0].Names[0].Name, funcs: e.funcs}
						return sub.evalBool(rs.Results[0], v)
					}
				}
			}
		}
	}
	return false, false
}

func (e *scanEval) evalInt(x ast.Expr, v int) (int, bool) {
	switch n := x.(type) {
	case *ast.ParenExpr:
		return e.evalInt(n.X, v)
	case *ast.Ident:
		if n.Name == e.cName {
			return v, true
		}
		// a local whose value on this path is known: `short := byte(0)` ... `short = 't'`
		if txt, ok := e.curEnv[n.Name]; ok && e.envDepth < 4 {
			if x2, err := parser.ParseExpr(txt); err == nil {
				e.envDepth++
				r, ok := e.evalInt(x2, v)
				e.envDepth--
				return r, ok
			}
		}
	case *ast.CallExpr:
		// a conversion to an integer type
		if id, ok := n.Fun.(*ast.Ident); ok && len(n.Args) == 1 {
			switch id.Name {
			case "byte", "int", "rune", "uint8", "int32", "uint", "int64":
				return e.evalInt(n.Args[0], v)
			}
		}
	case *ast.BasicLit:
		switch n.Kind {
		case token.CHAR:
			if s, err := strconv.Unquote(n.Value); err == nil {
				r := []rune(s)
				if len(r) == 1 {
					return int(r[0]), true
				}
			}
		case token.INT:
			cv := constant.MakeFromLiteral(n.Value, token.INT, 0)
			if i, ok := constant.Int64Val(cv); ok {
				return int(i), true
			}
		}
	case *ast.BinaryExpr:
		a, ok1 := e.evalInt(n.X, v)
		b, ok2 := e.evalInt(n.Y, v)
		if ok1 && ok2 {
			switch n.Op {
			case token.ADD:
				return a + b, true
			case token.SUB:
				return a - b, true
			}
		}
	}
	return 0, false
}

// run interprets stmts for the values in set, starting from the path key `key`
// (trace and local environment).  Returns, per path key, the set of values that
// fall through (did not return).
func (e *scanEval) run(stmts []ast.Stmt, set byteSet, key0 string) (fall map[string]byteSet) {
	fall = map[string]byteSet{}
	cur := map[string]byteSet{key0: set}
	add := func(m map[string]byteSet, k string, s byteSet) {
		old := m[k]
		for i := range s {
			old[i] = old[i] || s[i]
		}
		m[k] = old
	}
	for _, st := range stmts {
		next := map[string]byteSet{}
		for key, s := range cur {
			if s.empty() {
				continue
			}
			e.limit--
			if e.limit < 0 {
				e.aborted = "too many paths"
				return fall
			}
			tr, env := splitKey(key)
			e.curEnv = env
			str := func(n ast.Node) string { return subst(exprString(e.fset, n), env) }
			with := func(text string) string { return joinKey(tr+" ; "+text, env) }
			// locals: declarations and assignments update the environment, no effect is recorded
			if ds, ok := st.(*ast.DeclStmt); ok {
				if gd, ok := ds.Decl.(*ast.GenDecl); ok && gd.Tok == token.VAR {
					for _, sp := range gd.Specs {
						vs := sp.(*ast.ValueSpec)
						for i, nm := range vs.Names {
							if i < len(vs.Values) {
								env[nm.Name] = str(vs.Values[i])
							} else {
								env[nm.Name] = "<zero>"
							}
						}
					}
					add(next, joinKey(tr, env), s)
					continue
				}
			}
			if as, ok := st.(*ast.AssignStmt); ok && len(as.Lhs) == 1 && len(as.Rhs) == 1 && (as.Tok == token.ASSIGN || as.Tok == token.DEFINE) {
				if id, ok := as.Lhs[0].(*ast.Ident); ok && id.Name != e.cName {
					if _, known := env[id.Name]; known || as.Tok == token.DEFINE {
						env[id.Name] = str(as.Rhs[0])
						add(next, joinKey(tr, env), s)
						continue
					}
				}
			}
			// `e.helper(c)` as a statement: a branching helper of the same file without a
			// result is interpreted in place; its returns continue after the call
			if es, ok := st.(*ast.ExprStmt); ok {
				if fd, cParam, henv := e.inlineTargetKind(es.X, env, false); fd != nil {
					sub := &scanEval{fset: e.fset, cName: cParam, funcs: e.funcs, limit: e.limit, depth: e.depth + 1}
					hfall := sub.run(fd.Body.List, s, joinKey("", henv))
					e.limit = sub.limit
					if sub.aborted != "" {
						e.aborted = sub.aborted
					}
					for k, fs := range hfall {
						ht, _ := splitKey(k)
						add(next, joinKey(tr+ht, env), fs)
					}
					for v := range s {
						if !s[v] {
							continue
						}
						for _, o := range sub.out[v] {
							var one byteSet
							one[v] = true
							add(next, joinKey(tr+strings.TrimSuffix(o, " ; return "), env), one)
						}
					}
					continue
				}
			}
			switch n := st.(type) {
			case *ast.ReturnStmt:
				res := ""
				if len(n.Results) > 0 {
					res = str(n.Results[0])
				}
				// `return s.helper(c, next)`: a branching helper of the same file that
				// receives c is interpreted in place, its parameters bound to the arguments
				if len(n.Results) == 1 {
					if fd, cParam, henv := e.inlineTarget(n.Results[0], env); fd != nil {
						sub := &scanEval{fset: e.fset, cName: cParam, funcs: e.funcs, limit: e.limit, depth: e.depth + 1}
						hfall := sub.run(fd.Body.List, s, joinKey("", henv))
						e.limit = sub.limit
						if sub.aborted != "" {
							e.aborted = sub.aborted
						}
						for k, fs := range hfall {
							ht, _ := splitKey(k)
							for v := range fs {
								if fs[v] {
									sub.out[v] = append(sub.out[v], ht+" ; <end>")
								}
							}
						}
						for v := range s {
							if s[v] {
								for _, o := range sub.out[v] {
									e.out[v] = append(e.out[v], tr+o)
								}
							}
						}
						continue
					}
				}
				for v := range s {
					if s[v] {
						e.out[v] = append(e.out[v], tr+" ; return "+res)
					}
				}
			case *ast.IfStmt:
				k := key
				if n.Init != nil {
					k = with(str(n.Init))
				}
				ktr, kenv := splitKey(k)
				var st, sf byteSet
				opaque := false
				for v := range s {
					if !s[v] {
						continue
					}
					b, ok := e.evalBool(n.Cond, v)
					if !ok {
						opaque = true
						break
					}
					if b {
						st[v] = true
					} else {
						sf[v] = true
					}
				}
				var thenFall, elseFall map[string]byteSet
				if opaque {
					c := subst(exprString(e.fset, n.Cond), kenv)
					thenFall = e.run(n.Body.List, s, joinKey(ktr+" ; ["+c+"]", kenv))
					if n.Else != nil {
						elseFall = e.run(elseList(n.Else), s, joinKey(ktr+" ; [!("+c+")]", kenv))
					} else {
						elseFall = map[string]byteSet{joinKey(ktr+" ; [!("+c+")]", kenv): s}
					}
				} else {
					thenFall = e.run(n.Body.List, st, k)
					if n.Else != nil {
						elseFall = e.run(elseList(n.Else), sf, k)
					} else {
						elseFall = map[string]byteSet{k: sf}
					}
				}
				for kk, fs := range thenFall {
					add(next, kk, fs)
				}
				for kk, fs := range elseFall {
					add(next, kk, fs)
				}
			case *ast.SwitchStmt:
				if n.Tag == nil && n.Init == nil {
					// `switch { case cond: ... }`: an if / else-if chain; decided per
					// value when every condition depends on c alone
					decidable := true
					for _, cl := range n.Body.List {
						for _, x := range cl.(*ast.CaseClause).List {
							for v := range s {
								if s[v] {
									if _, ok := e.evalBool(x, v); !ok {
										decidable = false
									}
									break
								}
							}
						}
					}
					if decidable {
						rest := s
						var def *ast.CaseClause
						for _, cl := range n.Body.List {
							cc := cl.(*ast.CaseClause)
							if cc.List == nil {
								def = cc
								continue
							}
							var hit byteSet
							for v := range rest {
								if !rest[v] {
									continue
								}
								for _, x := range cc.List {
									if b, ok := e.evalBool(x, v); ok && b {
										hit[v] = true
									} else if !ok {
										decidable = false
									}
								}
							}
							for v := range hit {
								if hit[v] {
									rest[v] = false
								}
							}
							for kk, fs := range e.run(cc.Body, hit, key) {
								add(next, kk, fs)
							}
						}
						if def != nil {
							for kk, fs := range e.run(def.Body, rest, key) {
								add(next, kk, fs)
							}
						} else {
							add(next, key, rest)
						}
						if !decidable {
							e.aborted = "a case condition depends on c for some values only"
						}
						continue
					}
				}
				tagIsC := false
				if id, ok := n.Tag.(*ast.Ident); ok && id.Name == e.cName && n.Init == nil {
					tagIsC = true
				}
				if !tagIsC {
					// a switch on other state: every clause is an opaque branch
					tag := ""
					if n.Tag != nil {
						tag = str(n.Tag)
					}
					hasDefault := false
					for _, cl := range n.Body.List {
						cc := cl.(*ast.CaseClause)
						label := "default"
						if cc.List != nil {
							var ls []string
							for _, x := range cc.List {
								ls = append(ls, str(x))
							}
							sort.Strings(ls)
							label = strings.Join(ls, ",")
						} else {
							hasDefault = true
						}
						for kk, fs := range e.run(cc.Body, s, with("[switch "+tag+": "+label+"]")) {
							add(next, kk, fs)
						}
					}
					if !hasDefault {
						add(next, with("[switch "+tag+": none]"), s)
					}
					continue
				}
				rest := s
				var def *ast.CaseClause
				for _, cl := range n.Body.List {
					cc := cl.(*ast.CaseClause)
					if cc.List == nil {
						def = cc
						continue
					}
					var hit byteSet
					for v := range rest {
						if !rest[v] {
							continue
						}
						for _, x := range cc.List {
							if k, ok := e.evalInt(x, v); ok && k == v {
								hit[v] = true
							}
						}
					}
					for v := range hit {
						if hit[v] {
							rest[v] = false
						}
					}
					for kk, fs := range e.run(cc.Body, hit, key) {
						add(next, kk, fs)
					}
				}
				if def != nil {
					for kk, fs := range e.run(def.Body, rest, key) {
						add(next, kk, fs)
					}
				} else {
					add(next, key, rest)
				}
			case *ast.BranchStmt:
				if n.Tok == token.CONTINUE && e.loopBody {
					// the next iteration of the enclosing loop: the path ends here
					for v := range s {
						if s[v] {
							e.out[v] = append(e.out[v], tr+" ; continue")
						}
					}
				} else {
					add(next, with(str(st)), s)
				}
			case *ast.BlockStmt:
				for kk, fs := range e.run(n.List, s, key) {
					add(next, kk, fs)
				}
			default:
				// an effect: recorded as written, locals replaced by their values
				add(next, with(str(st)), s)
			}
		}
		cur = next
	}
	for k, s := range cur {
		add(fall, k, s)
	}
	return fall
}

func elseList(s ast.Stmt) []ast.Stmt {
	if b, ok := s.(*ast.BlockStmt); ok {
		return b.List
	}
	return []ast.Stmt{s}
}

// stateTable: byte value -> canonical outcome of the state function.
func stateTable(fset *token.FileSet, fd *ast.FuncDecl, funcs map[string]*ast.FuncDecl) ([256]string, string) {
	var tab [256]string
	if fd.Type.Params == nil {
		return tab, "no parameters"
	}
	var names []string
	for _, f := range fd.Type.Params.List {
		for _, n := range f.Names {
			names = append(names, n.Name)
		}
	}
	if len(names) != 2 {
		return tab, "not a (s, c) function"
	}
	e := &scanEval{fset: fset, cName: names[1], funcs: funcs, limit: 20000}
	fall := e.run(fd.Body.List, fullSet(), "")
	for k, s := range fall {
		tr, _ := splitKey(k)
		for v := range s {
			if s[v] {
				e.out[v] = append(e.out[v], tr+" ; <end>")
			}
		}
	}
	if e.aborted != "" {
		return tab, e.aborted
	}
	for v := range e.out {
		o := append([]string(nil), e.out[v]...)
		sort.Strings(o)
		tab[v] = strings.Join(o, " || ")
	}
	return tab, ""
}

func parseDir(dir string, files ...string) (*token.FileSet, map[string]*ast.FuncDecl, map[string]*ast.CompositeLit, error) {
	fset := token.NewFileSet()
	funcs := map[string]*ast.FuncDecl{}
	lits := map[string]*ast.CompositeLit{}
	for _, f := range files {
		src, err := readSource(filepath.Join(dir, f))
		if err != nil {
			return nil, nil, nil, err
		}
		af, err := parser.ParseFile(fset, f, src, parser.SkipObjectResolution)
		if err != nil {
			return nil, nil, nil, err
		}
		for _, d := range af.Decls {
			switch x := d.(type) {
			case *ast.FuncDecl:
				if x.Recv == nil && x.Body != nil {
					funcs[x.Name.Name] = x
				} else if x.Body != nil && len(x.Recv.List) == 1 {
					// methods under "T.name"
					t := x.Recv.List[0].Type
					if st, ok := t.(*ast.StarExpr); ok {
						t = st.X
					}
					if id, ok := t.(*ast.Ident); ok {
						funcs[id.Name+"."+x.Name.Name] = x
					}
				}
			case *ast.GenDecl:
				if x.Tok != token.VAR {
					continue
				}
				for _, sp := range x.Specs {
					vs := sp.(*ast.ValueSpec)
					for i, n := range vs.Names {
						if i < len(vs.Values) {
							if cl, ok := vs.Values[i].(*ast.CompositeLit); ok {
								lits[n.Name] = cl
							}
						}
					}
				}
			}
		}
	}
	return fset, funcs, lits, nil
}

func ruleScannerAgree(c *Ctx, rule, tableRule string) {
	l := c.L
	repoDir := filepath.Join(l.Dir, "stdlib", "json")
	refDir := filepath.Join(build.Default.GOROOT, "src", "encoding", "json")
	rfset, rfuncs, rlits, err1 := parseDir(repoDir, "scanner.go", "tables.go", "decode.go")
	gfset, gfuncs, glits, err2 := parseDir(refDir, "scanner.go", "tables.go", "decode.go")
	if !c.Anchor(rule, "stdlib/json/scanner.go, tables.go and the reference encoding/json sources under GOROOT", err1 == nil && err2 == nil) {
		return
	}
	isState := func(fd *ast.FuncDecl) bool {
		if fd.Type.Params == nil || fd.Type.Results == nil || len(fd.Type.Results.List) != 1 {
			return false
		}
		n := 0
		var last ast.Expr
		for _, f := range fd.Type.Params.List {
			n += len(f.Names)
			last = f.Type
		}
		if n != 2 {
			return false
		}
		id, ok := last.(*ast.Ident)
		rid, ok2 := fd.Type.Results.List[0].Type.(*ast.Ident)
		return ok && id.Name == "byte" && ok2 && rid.Name == "int"
	}
	var names []string
	for n, fd := range rfuncs {
		if isState(fd) {
			names = append(names, n)
		}
	}
	sort.Strings(names)
	n := 0
	for _, name := range names {
		ref := gfuncs[name]
		if ref == nil || !isState(ref) {
			continue // a state the module added: no sibling to compare with
		}
		n++
		rt, e1 := stateTable(rfset, rfuncs[name], rfuncs)
		gt, e2 := stateTable(gfset, ref, gfuncs)
		pos := rfset.Position(rfuncs[name].Pos())
		where := fmt.Sprintf("stdlib/json/%s:%d", pos.Filename, pos.Line)
		if e1 != "" || e2 != "" {
			c.Und(rule, "state function "+name, where, "the state function could not be interpreted ("+e1+e2+")")
			continue
		}
		var diff []string
		for v := 0; v < 256; v++ {
			if rt[v] != gt[v] {
				diff = append(diff, strconv.QuoteRuneToASCII(rune(v)))
			}
		}
		det := ""
		if len(diff) > 0 {
			v := 0
			for i := 0; i < 256; i++ {
				if rt[i] != gt[i] {
					v = i
					break
				}
			}
			show := diff
			if len(show) > 8 {
				show = append(show[:8:8], "...")
			}
			det = fmt.Sprintf("for the byte(s) %s the module's %s does {%s} where encoding/json does {%s}", strings.Join(show, " "), name, cut(rt[v], 160), cut(gt[v], 160))
		}
		c.Check(rule, "state function "+name, where, len(diff) == 0, "for each of the 256 byte values the effects and the result are those of encoding/json's "+name,
			det+": the validating scanner accepts or rejects another language than standard JSON (Valid and Unmarshal disagree with encoding/json on some document)")
	}
	if n == 0 {
		c.Und(rule, "state functions", "-", "no state function of the module has a sibling of the same name in encoding/json")
	}
	// the scanner's helpers (confirmed copies of the reference, frozen list): the
	// set of paths - conditions taken, effects, result - equals the reference's
	for _, name := range []string{"scanner.eof", "scanner.pushParseState", "scanner.popParseState", "scanner.reset", "scanner.error", "checkValid", "isSpace"} {
		rf, gf := rfuncs[name], gfuncs[name]
		if rf == nil || gf == nil {
			continue
		}
		n++
		a, e1 := pathTraces(rfset, rf, rfuncs)
		b, e2 := pathTraces(gfset, gf, gfuncs)
		pos := rfset.Position(rf.Pos())
		where := fmt.Sprintf("stdlib/json/%s:%d", pos.Filename, pos.Line)
		if e1 != "" || e2 != "" {
			c.Und(rule, "scanner helper "+name, where, "could not be interpreted ("+e1+e2+")")
			continue
		}
		c.Check(rule, "scanner helper "+name, where, a == b, "the same paths (conditions in the same order, effects, results) as encoding/json's",
			"the helper's paths differ from encoding/json's: module {"+cut(a, 200)+"} reference {"+cut(b, 200)+"}: the scanner reports the end of input, an error or a nesting change under other conditions than the standard one (a document with one garbage byte after the top-level value is reported valid)")
	}
	// byte-class loops of the decoder (frozen list of confirmed copies): the body
	// of the loop over the bytes of the input, as a function of the byte
	for _, name := range []string{"getu4"} {
		rf, gf := rfuncs[name], gfuncs[name]
		if rf == nil || gf == nil {
			continue
		}
		n++
		pos := rfset.Position(rf.Pos())
		where := fmt.Sprintf("stdlib/json/%s:%d", pos.Filename, pos.Line)
		rt, e1 := loopTable(rfset, rf, rfuncs)
		gt, e2 := loopTable(gfset, gf, gfuncs)
		if e1 != "" || e2 != "" {
			// no loop over bytes with a body that can be interpreted per byte: the
			// function was rewritten in a form this rule cannot compare
			c.Und(rule, "byte loop of "+name, where, "the loop over the input bytes could not be interpreted ("+e1+" "+e2+")")
			continue
		}
		var diff []string
		first := -1
		for v := 0; v < 256; v++ {
			if rt[v] != gt[v] {
				diff = append(diff, strconv.QuoteRuneToASCII(rune(v)))
				if first < 0 {
					first = v
				}
			}
		}
		det := ""
		if first >= 0 {
			show := diff
			if len(show) > 8 {
				show = append(show[:8:8], "...")
			}
			det = fmt.Sprintf("for the byte(s) %s the module's %s does {%s} where encoding/json does {%s}", strings.Join(show, " "), name, cut(rt[first], 160), cut(gt[first], 160))
		}
		c.Check(rule, "byte loop of "+name, where, len(diff) == 0, "for each of the 256 byte values the loop body does what encoding/json's does",
			det+": input that the validating scanner accepted is decoded differently from the standard (upper-case hex digits of a \\u escape are refused after validation, and the decoder panics 'out of sync')")
	}
	// character class tables
	m := 0
	var tnames []string
	for n := range rlits {
		tnames = append(tnames, n)
	}
	sort.Strings(tnames)
	for _, name := range tnames {
		ref := glits[name]
		if ref == nil {
			continue
		}
		m++
		a, b := litTable(rfset, rlits[name]), litTable(gfset, ref)
		var diff []string
		keys := map[string]bool{}
		for k := range a {
			keys[k] = true
		}
		for k := range b {
			keys[k] = true
		}
		for k := range keys {
			if a[k] != b[k] {
				diff = append(diff, k)
			}
		}
		sort.Strings(diff)
		pos := rfset.Position(rlits[name].Pos())
		c.Check(tableRule, "table "+name, fmt.Sprintf("stdlib/json/%s:%d", pos.Filename, pos.Line), len(diff) == 0, fmt.Sprintf("%d entries equal to encoding/json's", len(a)),
			"the table differs from encoding/json's at "+strings.Join(diff, " ")+": a character is escaped (or left alone) where standard JSON encoding does the opposite (a backslash marked as needing no escape is written raw and the document is malformed)")
	}
	if m == 0 {
		c.Und(tableRule, "character class tables", "-", "no table of the module has a sibling of the same name in encoding/json")
	}
}

func litTable(fset *token.FileSet, cl *ast.CompositeLit) map[string]string {
	out := map[string]string{}
	for i, el := range cl.Elts {
		if kv, ok := el.(*ast.KeyValueExpr); ok {
			out[exprString(fset, kv.Key)] = exprString(fset, kv.Value)
		} else {
			out[strconv.Itoa(i)] = exprString(fset, el)
		}
	}
	return out
}

func cut(s string, n int) string {
	if len(s) > n {
		return s[:n] + "..."
	}
	return s
}

// pathTraces: the canonical set of paths through a function all of whose
// conditions are treated as opaque, named branches.
func pathTraces(fset *token.FileSet, fd *ast.FuncDecl, funcs map[string]*ast.FuncDecl) (string, string) {
	e := &scanEval{fset: fset, cName: "\x00none", funcs: funcs, limit: 20000}
	var one byteSet
	one[0] = true
	fall := e.run(fd.Body.List, one, "")
	out := append([]string(nil), e.out[0]...)
	for k, s := range fall {
		if s[0] {
			tr, _ := splitKey(k)
			out = append(out, tr+" ; <end>")
		}
	}
	if e.aborted != "" {
		return "", e.aborted
	}
	sort.Strings(out)
	return strings.Join(out, " || "), ""
}

// loopTable: byte value -> outcome of the body of the function's first loop
// `for _, c := range <bytes>`.
func loopTable(fset *token.FileSet, fd *ast.FuncDecl, funcs map[string]*ast.FuncDecl) ([256]string, string) {
	var tab [256]string
	var rs *ast.RangeStmt
	ast.Inspect(fd.Body, func(n ast.Node) bool {
		if r, ok := n.(*ast.RangeStmt); ok && rs == nil {
			if _, ok := r.Value.(*ast.Ident); ok {
				rs = r
			}
		}
		return rs == nil
	})
	if rs == nil {
		return tab, "no range loop with a value variable"
	}
	e := &scanEval{fset: fset, cName: rs.Value.(*ast.Ident).Name, funcs: funcs, limit: 20000}
	fall := e.run(rs.Body.List, fullSet(), "")
	for k, s := range fall {
		tr, _ := splitKey(k)
		for v := range s {
			if s[v] {
				e.out[v] = append(e.out[v], tr+" ; <next>")
			}
		}
	}
	if e.aborted != "" {
		return tab, e.aborted
	}
	for v := range e.out {
		o := append([]string(nil), e.out[v]...)
		sort.Strings(o)
		tab[v] = strings.Join(o, " || ")
	}
	return tab, ""
}

// ---- C17/escape-agree -------------------------------------------------------------------------------------------------------
// "The same bytes encoding/json produces", for strings: the encoder's string
// writers (one for strings, one for byte strings) escape ASCII bytes in a block
// `if b := s[i]; b < utf8.RuneSelf { ... }`.  The block is interpreted, as the
// scanner's state functions are, for every byte value 0..127: the outcome is
// the sequence of bytes appended (writes through WriteByte / WriteString /
// append are all read as "append these bytes"; the flush of the pending
// unescaped run is the same statement in every version and is left out) plus
// the remaining effects.  The module's two writers and the reference's
// appendString must give the same map byte -> outcome.
func ruleEscapeAgree(c *Ctx, rule string) {
	repoDir := filepath.Join(c.L.Dir, "stdlib", "json")
	refDir := filepath.Join(build.Default.GOROOT, "src", "encoding", "json")
	rfset, rfuncs, _, err1 := parseDir(repoDir, "encode.go")
	gfset, gfuncs, _, err2 := parseDir(refDir, "encode.go")
	if !c.Anchor(rule, "stdlib/json/encode.go and the reference encoding/json/encode.go under GOROOT", err1 == nil && err2 == nil) {
		return
	}
	// the reference: the function with an escape block that is reached from no
	// other function with one (there is one: appendString)
	var refTab *[128]string
	refName := ""
	var gnames []string
	for n := range gfuncs {
		gnames = append(gnames, n)
	}
	sort.Strings(gnames)
	for _, n := range gnames {
		if t, why := escapeTable(gfset, gfuncs[n], gfuncs); t != nil && why == "" {
			if refTab != nil {
				c.Und(rule, "reference escape block", "encoding/json/encode.go", "more than one function of the reference has an escape block ("+refName+", "+n+")")
				return
			}
			refTab, refName = t, n
		}
	}
	if !c.Anchor(rule, "an escape block `if b := s[i]; b < utf8.RuneSelf {…}` in the reference encoder", refTab != nil) {
		return
	}
	var names []string
	for n := range rfuncs {
		names = append(names, n)
	}
	sort.Strings(names)
	for _, n := range names {
		t, why := escapeTable(rfset, rfuncs[n], rfuncs)
		if t == nil {
			continue
		}
		pos := rfset.Position(rfuncs[n].Pos())
		where := fmt.Sprintf("stdlib/json/%s:%d", pos.Filename, pos.Line)
		key := "string writer " + n
		if why != "" {
			c.Und(rule, key, where, "the escape block could not be interpreted ("+why+")")
			continue
		}
		var diff []string
		first := -1
		for v := 0; v < 128; v++ {
			if t[v] != refTab[v] {
				diff = append(diff, strconv.QuoteRuneToASCII(rune(v)))
				if first < 0 {
					first = v
				}
			}
		}
		det := ""
		if first >= 0 {
			show := diff
			if len(show) > 8 {
				show = append(show[:8:8], "…")
			}
			det = fmt.Sprintf("differs from encoding/json's %s for the bytes %s; for %s the module writes {%s}, the reference {%s}: Marshal does not produce the bytes encoding/json produces for a string containing that byte", refName, strings.Join(show, " "), strconv.QuoteRuneToASCII(rune(first)), cut(t[first], 160), cut(refTab[first], 160))
		}
		c.Check(rule, key, where, first < 0, "for each of the 128 ASCII byte values the bytes appended and the remaining effects equal those of encoding/json's "+refName, det)
	}
}

// escapeTable: nil when fd has no escape block; otherwise, per ASCII byte value,
// the canonical outcome of the block.
func escapeTable(fset *token.FileSet, fd *ast.FuncDecl, funcs map[string]*ast.FuncDecl) (*[128]string, string) {
	var blk *ast.IfStmt
	cName := ""
	ast.Inspect(fd.Body, func(n ast.Node) bool {
		iff, ok := n.(*ast.IfStmt)
		if !ok || blk != nil {
			return blk == nil
		}
		as, ok := iff.Init.(*ast.AssignStmt)
		if !ok || as.Tok != token.DEFINE || len(as.Lhs) != 1 || len(as.Rhs) != 1 {
			return true
		}
		id, ok := as.Lhs[0].(*ast.Ident)
		if _, isIdx := as.Rhs[0].(*ast.IndexExpr); !ok || !isIdx {
			return true
		}
		be, ok := iff.Cond.(*ast.BinaryExpr)
		if !ok || be.Op != token.LSS {
			return true
		}
		x, ok1 := be.X.(*ast.Ident)
		sel, ok2 := be.Y.(*ast.SelectorExpr)
		if !ok1 || !ok2 || x.Name != id.Name || sel.Sel.Name != "RuneSelf" {
			return true
		}
		blk, cName = iff, id.Name
		return false
	})
	if blk == nil {
		return nil, ""
	}
	e := &scanEval{fset: fset, cName: cName, funcs: funcs, limit: 20000, loopBody: true}
	var set byteSet
	for v := 0; v < 128; v++ {
		set[v] = true
	}
	fall := e.run(blk.Body.List, set, "")
	for k, s := range fall {
		tr, _ := splitKey(k)
		for v := range s {
			if s[v] {
				e.out[v] = append(e.out[v], tr+" ; <end>")
			}
		}
	}
	if e.aborted != "" {
		return &[128]string{}, e.aborted
	}
	var tab [128]string
	for v := 0; v < 128; v++ {
		seen := map[string]bool{}
		var outs []string
		for _, tr := range e.out[v] {
			cn, why := canonAppendTrace(tr, cName, v)
			if why != "" {
				return &tab, why
			}
			if !seen[cn] {
				seen[cn] = true
				outs = append(outs, cn)
			}
		}
		sort.Strings(outs)
		tab[v] = strings.Join(outs, " || ")
	}
	return &tab, ""
}

// canonAppendTrace rewrites a trace of effects: writes become "+<bytes>", runs
// of writes are merged, the flush of the pending run and the test that guards
// it are dropped, the byte variable is replaced by its value.
func canonAppendTrace(tr, cName string, v int) (string, string) {
	var out []string
	var pending []string
	flushPending := func() {
		if len(pending) > 0 {
			out = append(out, "+"+strings.Join(pending, ""))
			pending = nil
		}
	}
	byteOf := func(x ast.Expr) string {
		switch n := x.(type) {
		case *ast.Ident:
			if n.Name == cName {
				return strconv.QuoteRuneToASCII(rune(v))
			}
		case *ast.BasicLit:
			if n.Kind == token.CHAR {
				if s, err := strconv.Unquote(n.Value); err == nil {
					if r := []rune(s); len(r) == 1 {
						return strconv.QuoteRuneToASCII(r[0])
					}
				}
			}
		}
		// symbolic (hex[b>>4]): printed with the byte variable normalised
		var b bytes.Buffer
		_ = printer.Fprint(&b, token.NewFileSet(), x)
		return "<" + subst(strings.Join(strings.Fields(b.String()), ""), map[string]string{cName: "b"}) + ">"
	}
	isRun := func(x ast.Expr) bool { // s[start:i], possibly converted
		for {
			if call, ok := x.(*ast.CallExpr); ok && len(call.Args) == 1 {
				x = call.Args[0]
				continue
			}
			break
		}
		_, ok := x.(*ast.SliceExpr)
		return ok
	}
	for _, el := range strings.Split(tr, " ; ") {
		el = strings.TrimSpace(el)
		if el == "" {
			continue
		}
		if strings.HasPrefix(el, "[") {
			// an opaque condition: the guard of the flush is dropped with it
			inner := strings.TrimSuffix(strings.TrimPrefix(el, "["), "]")
			inner = strings.TrimSuffix(strings.TrimPrefix(inner, "!("), ")")
			if x, err := parser.ParseExpr(inner); err == nil {
				if be, ok := x.(*ast.BinaryExpr); ok && be.Op == token.LSS {
					if a, ok := be.X.(*ast.Ident); ok && a.Name == "start" {
						continue
					}
				}
			}
			flushPending()
			out = append(out, subst(el, map[string]string{cName: "b"}))
			continue
		}
		// dst = append(dst, …)
		text := el
		if i := strings.Index(el, " = append("); i > 0 {
			text = el[i+3:]
		}
		x, err := parser.ParseExpr(text)
		call, isCall := x.(*ast.CallExpr)
		if err != nil || !isCall {
			flushPending()
			out = append(out, subst(el, map[string]string{cName: "b"}))
			continue
		}
		fn := ""
		switch f := call.Fun.(type) {
		case *ast.Ident:
			fn = f.Name
		case *ast.SelectorExpr:
			fn = f.Sel.Name
		}
		switch {
		case fn == "append" && len(call.Args) >= 2 && text != el:
			if call.Ellipsis.IsValid() {
				if isRun(call.Args[1]) {
					continue // flush of the pending run
				}
				return "", "append of a slice that is not the pending run: " + el
			}
			for _, a := range call.Args[1:] {
				pending = append(pending, byteOf(a))
			}
		case fn == "WriteByte" && len(call.Args) == 1:
			pending = append(pending, byteOf(call.Args[0]))
		case (fn == "WriteString" || fn == "Write") && len(call.Args) == 1:
			if lit, ok := call.Args[0].(*ast.BasicLit); ok && lit.Kind == token.STRING {
				s, err := strconv.Unquote(lit.Value)
				if err != nil {
					return "", "string literal: " + el
				}
				for _, r := range []byte(s) {
					pending = append(pending, strconv.QuoteRuneToASCII(rune(r)))
				}
			} else if isRun(call.Args[0]) {
				continue // flush of the pending run
			} else {
				return "", "write of something that is neither a literal nor the pending run: " + el
			}
		default:
			flushPending()
			out = append(out, subst(el, map[string]string{cName: "b"}))
		}
	}
	flushPending()
	return strings.Join(out, " ; "), ""
}
