package main

import (
	"go/token"
	"fmt"
	"go/ast"
	"go/constant"
	"go/types"
	"sort"
	"strings"

	"golang.org/x/tools/go/ssa"
)

func init() {
	props["C11"] = propC11
}

const opv1Path = modPath + "/encoder/opv1"

func propC11(c *Ctx) {
	l := c.L
	defer func() {
		rdr := c.Rule("decode-reentrant", "the version 1 converter and the other decoding functions keep no state in package-level variables (the converted program depends on the image alone)", 1)
		if fns := decodeFuncs(c, rdr); fns != nil {
			ruleDecodeReentrant(c, rdr, fns)
		}
	}()
	rn := c.Rule("opcode-num", "every opcode of the version 1 format has the same number in today's VM (the decoded bytes are executed as they are)", 40)
	p1, p2 := l.ByPath[opv1Path], l.ByPath[modPath]
	if !c.Anchor(rn, "packages encoder/opv1 and ugo", p1 != nil && p2 != nil) {
		return
	}
	w1, n1 := opcodeWidths(l, opv1Path)
	w2, _ := opcodeWidths(l, modPath)
	if !c.Anchor(rn, "OpcodeOperands tables of both packages (at least 40 entries)", len(w1) >= 40 && len(w2) >= 40) {
		return
	}
	var keys []int64
	for k := range w1 {
		keys = append(keys, k)
	}
	sort.Slice(keys, func(i, j int) bool { return keys[i] < keys[j] })
	D := map[int64]bool{}
	for _, k := range keys {
		name := n1[k]
		co, _ := p2.Types.Scope().Lookup(name).(*types.Const)
		pos := l.Pos(p1.Types.Scope().Lookup(name).Pos())
		if co == nil {
			c.Bad(rn, "opcode "+name, pos, "version 1 opcode has no counterpart of that name in the VM")
			continue
		}
		v, _ := constant.Int64Val(co.Val())
		c.Check(rn, "opcode "+name, pos, v == k, fmt.Sprintf("= %d in both", k), fmt.Sprintf("version 1 number %d, VM number %d: decoded version 1 instructions execute as other opcodes", k, v))
		if fmt.Sprint(w1[k]) != fmt.Sprint(w2[v]) {
			D[k] = true
		}
	}
	var dn []string
	for k := range D {
		dn = append(dn, n1[k])
	}
	sort.Strings(dn)
	c.extra["opcodes_whose_operand_widths_changed"] = dn

	// ---- width-diff ----------------------------------------------------------------------
	rw := c.Rule("width-diff", "every switch over version 1 opcodes in the converter and its helpers (the pre-scan and the rewriting arm, or a predicate shared by both) lists exactly the opcodes whose operand widths differ between the two formats (computed from the two OpcodeOperands tables): an opcode missing from either list is copied with its old width and every later offset is wrong", 1)
	pe := l.ByPath[encPath]
	var conv *ast.FuncDecl
	var convSSA *ssa.Function
	for _, fn := range l.RepoFuncs(func(pp string) bool { return pp == encPath }) {
		callsMake, callsRead := false, false
		eachInstr(fn, func(ins ssa.Instruction) {
			if ci, ok := ins.(ssa.CallInstruction); ok {
				if f := ci.Common().StaticCallee(); f != nil && f.Pkg != nil && f.Pkg.Pkg.Path() == modPath {
					if f.Name() == "MakeInstruction" {
						callsMake = true
					}
					if f.Name() == "ReadOperands" {
						callsRead = true
					}
				}
			}
		})
		if callsMake && callsRead && fn.Parent() == nil {
			convSSA = fn
			conv = l.DeclOfSSA(fn)
		}
	}
	if !c.Anchor(rw, "the version 1 converter (function of package encoder calling ReadOperands and MakeInstruction)", conv != nil) {
		return
	}
	info := pe.TypesInfo
	nsw := 0
	// the converter's body and the bodies of the helpers of its package that it
	// calls (a shared predicate `isJumpOp` counts for both uses)
	bodies := []*ast.FuncDecl{conv}
	seenDecl := map[*ast.FuncDecl]bool{conv: true}
	for i := 0; i < len(bodies) && i < 16; i++ {
		ast.Inspect(bodies[i].Body, func(n ast.Node) bool {
			call, ok := n.(*ast.CallExpr)
			if !ok {
				return true
			}
			if id, ok := ast.Unparen(call.Fun).(*ast.Ident); ok {
				if fo, ok := info.Uses[id].(*types.Func); ok && fo.Pkg() == pe.Types {
					if hd := l.Decl(fo); hd != nil && hd.Body != nil && !seenDecl[hd] {
						seenDecl[hd] = true
						bodies = append(bodies, hd)
					}
				}
			}
			return true
		})
	}
	inspectAll := func(f func(n ast.Node) bool) {
		for _, fd := range bodies {
			ast.Inspect(fd.Body, f)
		}
	}
	inspectAll(func(n ast.Node) bool {
		sw, ok := n.(*ast.SwitchStmt)
		if !ok {
			return true
		}
		got := map[int64]bool{}
		isOpSwitch := false
		for _, cc := range sw.Body.List {
			cl := cc.(*ast.CaseClause)
			for _, x := range cl.List {
				if sel, ok := ast.Unparen(x).(*ast.SelectorExpr); ok {
					if co, ok := info.Uses[sel.Sel].(*types.Const); ok && co.Pkg() != nil && co.Pkg().Path() == opv1Path {
						isOpSwitch = true
						v, _ := constant.Int64Val(co.Val())
						got[v] = true
					}
				}
			}
		}
		if !isOpSwitch {
			return true
		}
		nsw++
		var missing, extra []string
		for k := range D {
			if !got[k] {
				missing = append(missing, n1[k])
			}
		}
		for k := range got {
			if !D[k] {
				extra = append(extra, n1[k])
			}
		}
		sort.Strings(missing)
		sort.Strings(extra)
		c.Check(rw, fmt.Sprintf("%s | switch over version 1 opcodes", fnName(convSSA)), l.Pos(sw.Pos()), len(missing)+len(extra) == 0,
			"lists exactly {"+strings.Join(dn, ",")+"}", fmt.Sprintf("missing %v, extra %v relative to the opcodes whose widths changed {%s}", missing, extra, strings.Join(dn, ",")))
		return true
	})
	if nsw < 1 {
		c.Und(rw, fnName(convSSA)+" | switches over version 1 opcodes", l.Pos(conv.Pos()), "found no switch over version 1 opcodes in the converter or its helpers, expected the pre-scan and the rewriting arm (or a predicate shared by both)")
	}

	// ---- no-identity --------------------------------------------------------------------------
	ri := c.Rule("no-identity", "while widening an instruction the converter must not forward the operands read from the old stream unchanged to MakeInstruction: widening moves every later instruction, so an absolute jump/try target copied as is points into the middle of the new stream", 1)
	eachInstr(convSSA, func(ins ssa.Instruction) {
		ci, ok := ins.(ssa.CallInstruction)
		if !ok {
			return
		}
		f := ci.Common().StaticCallee()
		if f == nil || f.Name() != "MakeInstruction" || f.Pkg == nil || f.Pkg.Pkg.Path() != modPath {
			return
		}
		args := ci.Common().Args
		ops := args[len(args)-1]
		unchanged := false
		if ex, ok := ops.(*ssa.Extract); ok {
			if cl, ok := ex.Tuple.(*ssa.Call); ok && cl.Call.StaticCallee() != nil && cl.Call.StaticCallee().Name() == "ReadOperands" {
				// any element store into the slice between the read and the call?
				modified := false
				if ex.Referrers() != nil {
					for _, r := range *ex.Referrers() {
						if ia, ok := r.(*ssa.IndexAddr); ok && ia.Referrers() != nil {
							for _, rr := range *ia.Referrers() {
								if st, ok := rr.(*ssa.Store); ok && st.Addr == ia {
									modified = true
								}
							}
						}
					}
				}
				unchanged = !modified
			}
		}
		c.Check(ri, fnName(convSSA)+" | MakeInstruction(op, operands...)", l.Pos(ci.Pos()), !unchanged, "operands are relocated before re-encoding", "the operands returned by ReadOperands are passed to MakeInstruction unmodified: jump and try targets keep their version 1 offsets although every widened instruction before them moved the target")
	})

	// ---- srcmap-all ------------------------------------------------------------------------------
	rs := c.Rule("srcmap-all", "the loop that re-keys the source map visits the instruction stream from offset 0 (every instruction's position entry is carried over) and keys the new map by offsets taken from the new stream", 1)
	{
		var upd *ssa.MapUpdate
		eachInstr(convSSA, func(ins ssa.Instruction) {
			if mu, ok := ins.(*ssa.MapUpdate); ok {
				if mt, ok := mu.Map.Type().Underlying().(*types.Map); ok {
					if b, ok := mt.Key().Underlying().(*types.Basic); ok && b.Kind() == types.Int {
						upd = mu
					}
				}
			}
		})
		if upd == nil {
			c.Bad(rs, fnName(convSSA)+" | newSrcMap[...] = pos", l.Pos(conv.Pos()), "the converter does not write a re-keyed source map")
		} else {
			// the lookup index in the old map is the loop's induction variable: its initial value must be 0
			var idxPhi *ssa.Phi
			if ex, ok := upd.Value.(*ssa.Extract); ok {
				if lk, ok := ex.Tuple.(*ssa.Lookup); ok {
					idxPhi, _ = lk.Index.(*ssa.Phi)
				}
			}
			startsAtZero := false
			if idxPhi != nil {
				for _, e := range idxPhi.Edges {
					if k, ok := constInt64(e); ok && k == 0 {
						startsAtZero = true
					}
				}
			}
			keyFromNew := derivesFrom(upd.Key, func(v ssa.Value) bool {
				cl, ok := v.(*ssa.Call)
				if !ok {
					return false
				}
				b, ok := cl.Call.Value.(*ssa.Builtin)
				return ok && b.Name() == "len"
			}, 4)
			// the key is the offset OF THE OPCODE BYTE in the new stream: the length
			// of the stream right after the single opcode byte was appended, minus
			// one - or the length right before that append
			keyAtOpcode := false
			var opAppend *ssa.Call
			eachInstr(convSSA, func(ins ssa.Instruction) {
				cl, ok := ins.(*ssa.Call)
				if !ok || len(cl.Call.Args) != 2 {
					return
				}
				if b, ok := cl.Call.Value.(*ssa.Builtin); !ok || b.Name() != "append" {
					return
				}
				if sl, ok := cl.Call.Args[1].(*ssa.Slice); ok {
					if al, ok := sl.X.(*ssa.Alloc); ok {
						if p, ok := al.Type().Underlying().(*types.Pointer); ok {
							if arr, ok := p.Elem().Underlying().(*types.Array); ok && arr.Len() == 1 && opAppend == nil {
								opAppend = cl
							}
						}
					}
				}
			})
			lenArg := func(v ssa.Value) ssa.Value {
				if cl, ok := v.(*ssa.Call); ok {
					if b, ok := cl.Call.Value.(*ssa.Builtin); ok && b.Name() == "len" && len(cl.Call.Args) == 1 {
						return cl.Call.Args[0]
					}
				}
				return nil
			}
			if opAppend != nil {
				if bo, ok := upd.Key.(*ssa.BinOp); ok && bo.Op == token.SUB {
					if k, ok := constInt64(bo.Y); ok && k == 1 && lenArg(bo.X) == ssa.Value(opAppend) {
						keyAtOpcode = true
					}
				}
				if a := lenArg(upd.Key); a != nil && a == opAppend.Call.Args[0] {
					keyAtOpcode = true
				}
			} else {
				keyAtOpcode = true // no single-byte append found: the shape is not the one this clause models
			}
			c.Check(rs, fnName(convSSA)+" | key is the opcode's offset", l.Pos(upd.Pos()), keyAtOpcode, "the length of the new stream right after the opcode byte was appended, minus one",
				"the source-map key is not the offset of the instruction's opcode byte in the new stream (it is taken before the opcode is appended, or after more bytes were): every position entry is keyed one byte off, and one-byte instructions report the position of their neighbour")
			// the map written is not the map read: offsets only move up while the
			// stream is visited in increasing order, so an entry moved within one
			// map overwrites the not-yet-read entry of a later instruction
			inPlace := false
			if ex, ok := upd.Value.(*ssa.Extract); ok {
				if lk, ok := ex.Tuple.(*ssa.Lookup); ok {
					inPlace = lk.X == upd.Map || exprEq(lk.X, upd.Map)
				}
			}
			c.Check(rs, fnName(convSSA)+" | re-keyed map is a new map", l.Pos(upd.Pos()), !inPlace, "the entries are written into a map other than the one they are read from",
				"the source map is re-keyed in place: an entry moved to its new (higher) offset overwrites the entry of a later instruction that has not been read yet, so positions after the first widened instruction are smeared forward (errors in converted code report wrong lines)")
			c.Check(rs, fnName(convSSA)+" | newSrcMap[...] = pos", l.Pos(upd.Pos()), startsAtZero && keyFromNew, "old offsets are visited from 0, new keys are lengths of the new stream",
				fmt.Sprintf("source map entries are lost or mis-keyed (loop starts at offset 0: %v, key derived from the new stream's length: %v): errors raised in converted code report no or wrong positions", startsAtZero, keyFromNew))
		}
	}

	ros := c.Rule("own-storage", "the instruction stream stored into a converted function (anywhere in the version 1 code) is storage built by that conversion, never a buffer, cache entry or stream shared between conversions", 1)
	var v1all []*ssa.Function
	for _, fn := range l.RepoFuncs(func(pp string) bool { return pp == encPath }) {
		if d := l.DeclOfSSA(fn); d != nil && strings.HasSuffix(l.Fset.Position(d.Pos()).Filename, "/v1.go") {
			v1all = append(v1all, fn)
		}
	}
	ruleOwnStorage(c, ros, convSSA, v1all...)

	rcf := c.Rule("copy-all-fields", "a decoder that publishes a Bytecode field by field copies every field (file set included, or positions are lost)", 0)
	ruleCopyAllFields(c, rcf)
	if vf := getVMFacts(c, rcf); vf != nil {
		rod := c.Rule("operand-decode", "multi-byte operands (version 1 jump targets are two bytes) are assembled from unsigned bytes in big-endian order by ReadOperands and the VM", 3)
		ruleOperandDecode(c, rod, vf, "")
	}

	// ---- all-funcs ----------------------------------------------------------------------------------
	raa := c.Rule("all-funcs-always", "every successful return of the converter's driver lies behind the loop over the constants", 1)
	ruleAllFuncsAlways(c, raa, convSSA)
	ra := c.Rule("all-funcs", "conversion is applied to Main and, in a loop over all constants, to every *CompiledFunction constant", 1)
	{
		callers := l.StaticCallers(convSSA)
		onMain, inLoop := false, false
		_, fMain := l.structField(modPath, "Bytecode", "Main")
		for _, ci := range callers {
			if ci.Parent() == convSSA {
				continue
			}
			arg := ci.Common().Args[0]
			if u, ok := arg.(*ssa.UnOp); ok {
				if fa, ok := u.X.(*ssa.FieldAddr); ok && fa.Field == fMain {
					onMain = true
				}
			}
			if ex, ok := arg.(*ssa.Extract); ok {
				if ta, ok := ex.Tuple.(*ssa.TypeAssert); ok && isNamed(ta.AssertedType, modPath, "CompiledFunction") {
					b := ci.Block()
					for _, s := range b.Succs {
						if blockReaches(s, b) {
							inLoop = true
						}
					}
					if blockReaches(b, b) && len(b.Succs) > 0 {
						inLoop = true
					}
				}
			}
		}
		c.Check(ra, "convBytecodeV1ToV2", l.Pos(conv.Pos()), onMain && inLoop, "Main and every CompiledFunction constant are converted", fmt.Sprintf("conversion is not applied to Main (%v) or to every function constant in a loop (%v)", onMain, inLoop))
	}

	// ---- table-index ---------------------------------------------------------------------------------
	rt := c.Rule("table-index", "the converter indexes its width tables with an opcode byte only under a bounds test and slices the stream only inside it (shared with C18)", 3)
	var v1fns []*ssa.Function
	for _, fn := range l.RepoFuncs(func(pp string) bool { return pp == encPath }) {
		if d := l.DeclOfSSA(fn); d != nil {
			if strings.HasSuffix(l.Fset.Position(d.Pos()).Filename, "/v1.go") {
				v1fns = append(v1fns, fn)
			}
		}
	}
	scanSinks(c, v1fns, sinkRules{index: rt, slice: rt})
}
