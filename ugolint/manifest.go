package main

import (
	"encoding/json"
	"fmt"
	"os"
	"sort"
)

// propMeta is the per-property text of MANIFEST.json.
type propMeta struct {
	Text      string // level_claimed.text: what is decided and what is not
	Note      string // level_note: trusted base / assumptions
	Technique string
	DesignRef string
}

var metas = map[string]propMeta{}

// notApplicable lists the properties that are not claimed, with the reason.
var notApplicable = map[string]string{}

func writeManifest(path string) error {
	var ids []string
	for k := range props {
		ids = append(ids, k)
	}
	sort.Strings(ids)
	var checks []map[string]any
	for _, id := range ids {
		m := metas[id]
		checks = append(checks, map[string]any{
			"property_id":         id,
			"quick_cmd":           "./check " + id + " quick",
			"thorough_cmd":        "./check " + id + " thorough",
			"evidence_file":       "evidence/" + id + ".json",
			"replay_cmd_template": "./check --replay {path}",
			"engine":              "ugolint",
			"level_claimed": map[string]any{
				"category":   "other",
				"text":       m.Text + " The complete list of rules with their statements, structural floors and instance counts is in RULES.md and in the evidence file; known defects of the pinned tree are in known_findings.json.",
				"design_ref": m.DesignRef,
			},
			"level_note": m.Note,
			"technique":  m.Technique,
		})
	}
	na := []map[string]string{}
	var naIDs []string
	for k := range notApplicable {
		naIDs = append(naIDs, k)
	}
	sort.Strings(naIDs)
	for _, k := range naIDs {
		if _, claimed := props[k]; claimed {
			continue
		}
		na = append(na, map[string]string{"property_id": k, "reason": notApplicable[k]})
	}
	man := map[string]any{
		"version":   1,
		"setup_cmd": "./build.sh",
		"hooks": map[string]any{
			"guard":            "verif",
			"enable":           "none needed: the checks are static analyses of the ordinary build (no instrumentation, no source commits under the guard)",
			"baseline_off_cmd": "cd /repo && GOFLAGS=-mod=mod GOPROXY=off GOSUMDB=off GOTOOLCHAIN=local go test -vet=off -count=1 ./...",
			"source_commits":   []string{},
			"add_only":         true,
		},
		"engines": []map[string]any{{
			"name":              "ugolint",
			"path":              "ugolint/",
			"serves_properties": ids,
			"kind_free_text":    "repository-specific static analyser: go/packages type-checked AST + go/ssa + CHA/VTA call graph of /repo's working tree; tag-level partial evaluation of sibling switch tables, dominating-guard/interval analysis of panicking sinks, who-may-write / must-pass-through / lockset rules. Never executes uGO code or tests.",
		}},
		"checks":         checks,
		"not_applicable": na,
		"notes":          "All checks analyse $UGO_REPO (default /repo) as it is when the command runs. Known genuine defects are listed in known_findings.json (printed as KNOWN-FINDING, exit 0); audited single-construct exceptions are in audit.json. See DESIGN.md.",
	}
	b, _ := json.MarshalIndent(man, "", " ")
	b = append(b, '\n')
	if path == "-" {
		fmt.Print(string(b))
		return nil
	}
	return os.WriteFile(path, b, 0o644)
}
