package main

import (
	"fmt"
	"go/token"
	"go/types"
	"strings"

	"golang.org/x/tools/go/ssa"
)

func init() {
	props["C07"] = propC07
}

func propC07(c *Ctx) {
	l := c.L
	defer func() {
		rcf := c.Rule("copy-fields", "Copy of an error value builds a new value with every field, the wrapped *Error copied (script code that derives an error with err.New must not rewrite the process-wide builtin error values)", 2)
		ruleCopyFields(c, rcf, "Error", "RuntimeError")
		rpr := c.Rule("pool-reset", "every field of a struct recycled through a sync.Pool is reset on every path before the value is pooled or before it is handed out again: no call inherits state from an unrelated earlier one", 1)
		rulePoolReset(c, rpr, nil)
		if vf := getVMFacts(c, rcf); vf != nil {
			rfci := c.Rule("frame-claim-init", "the call routine stores every field of a call frame it claims before it returns successfully: no activation starts with state left by an earlier run", 3)
			ruleFrameClaimInit(c, rfci, vf)
		}
	}()
	rr := c.Rule("run-reset", "every VM field that code reachable from the dispatch loop stores to is stored again on every path from Run's entry to the start of the loop (so no value left by a previous run - finished, failed, panicked or aborted - is read), unless it is an audited persistent field", 5)
	vf := getVMFacts(c, rr)
	if vf == nil {
		return
	}
	c.extra["functions_reachable_from_dispatch_loop"] = len(vf.reachFns)
	ruleRunReset(c, rr, vf)

	rf := c.Rule("frame0-reset", "every field of the call frame that run-time code reads is stored for frame 0 on every path of Run's prologue", 3)
	ruleFrame0Reset(c, rf, vf)

	rlf := c.Rule("lock-first", "a method of VM that takes the VM's mutex writes the VM's state only after the Lock call: nothing is reset while another run may still own the VM", 3)
	ruleLockFirst(c, rlf, vf)
	rdu := c.Rule("defer-unlock", "Run, Clear, SetBytecode and friends release the VM mutex by defer: after a panic escaped Run (recovery off) the VM can still be cleared and re-used", 1)
	ruleDeferUnlock(c, rdu, l.RepoFuncs(func(pp string) bool { return pp == modPath }))

	// ---- clear ------------------------------------------------------------------------------
	rc := c.Rule("clear", "Clear stores to every stack slot, the module cache and the globals and empties the child pool; SetBytecode stores the bytecode, the constants and resets the module cache (module indexes are per bytecode)", 2)
	for _, spec := range []struct {
		fn     string
		fields []string
	}{{"Clear", []string{"modulesCache", "globals"}}, {"SetBytecode", []string{"bytecode", "constants", "modulesCache"}}} {
		fn := l.Method(modPath, "VM", spec.fn)
		if !c.Anchor(rc, "VM."+spec.fn, fn != nil) {
			continue
		}
		var missing []string
		first := fn.Blocks[0].Instrs[0]
		for _, f := range spec.fields {
			if _, ok := mustPassBefore(first, vf.storesVMField(f), isReturn); !ok {
				missing = append(missing, f)
			}
		}
		if spec.fn == "Clear" {
			_, elem := vf.storedVMFields(fn)
			if !elem["stack"] {
				missing = append(missing, "stack[i]")
			}
			callsPoolClear := false
			eachInstr(fn, func(ins ssa.Instruction) {
				if ci, ok := ins.(ssa.CallInstruction); ok {
					if f := ci.Common().StaticCallee(); f != nil && f.Signature.Recv() != nil && isNamed(f.Signature.Recv().Type(), modPath, "vmPool") {
						callsPoolClear = true
					}
				}
			})
			if !callsPoolClear {
				missing = append(missing, "pool")
			}
		}
		c.Check(rc, "VM."+spec.fn, l.Pos(fn.Pos()), len(missing) == 0, "resets "+strings.Join(spec.fields, ", "), "does not reset "+strings.Join(missing, ", ")+" on every path")
	}

	rm := c.Rule("mod-copy", "the module cache is written only by the dispatch loop's store-module arm and the value cached is the Copy() of the module value whenever it implements the Copier interface: otherwise a script's change to an imported builtin module is a change to the Bytecode constant", 1)
	ruleModCopy(c, rm, vf)

	// ---- bc-immutable -------------------------------------------------------------------------
	rb := c.Rule("bc-immutable", "no code reachable from Run stores into a Bytecode, a CompiledFunction, or an element of Constants / Instructions / SourceMap that it did not allocate itself (the pool's management of a child VM's private Bytecode aside): executing Bytecode never modifies it", 1)
	n := 0
	scope := append([]*ssa.Function{vf.Run, vf.run}, vf.reachFns...)
	seen := map[*ssa.Function]bool{}
	for _, fn := range scope {
		if seen[fn] {
			continue
		}
		seen[fn] = true
		if l.poolDomain()[fn] {
			continue // private Bytecode of pooled child VMs, checked by C14
		}
		eachInstr(fn, func(ins ssa.Instruction) {
			var addr ssa.Value
			switch st := ins.(type) {
			case *ssa.Store:
				addr = st.Addr
			case *ssa.MapUpdate:
				addr = st.Map
			default:
				return
			}
			what, root := sharedBytecodeTarget(addr)
			if what == "" {
				return
			}
			n++
			key := fmt.Sprintf("%s | store to %s", fnName(fn), what)
			c.Check(rb, key, l.Pos(ins.Pos()), isFreshAlloc(root), "target freshly allocated in this function",
				"run-time code writes "+what+" of a value it did not allocate: the shared Bytecode is modified by running it")
		})
	}
	c.extra["bytecode_store_sites_examined"] = n
	// positive control: closure creation must allocate a new function header
	c.Check(rb, "closure creation allocates a new CompiledFunction", l.Pos(vf.loop.Pos()), hasFreshCompiledFunction(vf.loop), "the dispatch loop allocates CompiledFunction values (closures copy the header)", "no fresh CompiledFunction allocation in the dispatch loop: closures would have to mutate the constant")
}

// sharedBytecodeTarget classifies an address as part of Bytecode /
// CompiledFunction storage and returns a description and the root value the
// access path starts from.
func sharedBytecodeTarget(addr ssa.Value) (string, ssa.Value) {
	cur := addr
	desc := ""
	for depth := 0; depth < 8; depth++ {
		switch x := cur.(type) {
		case *ssa.FieldAddr:
			pt, ok := x.X.Type().Underlying().(*types.Pointer)
			if ok {
				if n := namedOf(pt.Elem()); n != nil && n.Obj().Pkg() != nil && n.Obj().Pkg().Path() == modPath && (n.Obj().Name() == "Bytecode" || n.Obj().Name() == "CompiledFunction") {
					st := n.Underlying().(*types.Struct)
					d := n.Obj().Name() + "." + st.Field(x.Field).Name() + desc
					return d, x.X
				}
			}
			cur = x.X
		case *ssa.IndexAddr:
			desc = "[i]" + desc
			cur = x.X
		case *ssa.UnOp:
			if x.Op != token.MUL {
				return "", nil
			}
			cur = x.X
		default:
			return "", nil
		}
	}
	return "", nil
}

// isFreshAlloc: v is an allocation made in the same function (possibly
// through a phi of allocations).
func isFreshAlloc(v ssa.Value) bool {
	switch x := v.(type) {
	case *ssa.Alloc:
		return true
	case *ssa.Phi:
		for _, e := range x.Edges {
			if !isFreshAlloc(e) {
				return false
			}
		}
		return true
	}
	return false
}

func hasFreshCompiledFunction(fn *ssa.Function) bool {
	found := false
	eachInstr(fn, func(ins ssa.Instruction) {
		if a, ok := ins.(*ssa.Alloc); ok && a.Heap {
			if pt, ok := a.Type().Underlying().(*types.Pointer); ok && isNamed(pt.Elem(), modPath, "CompiledFunction") {
				found = true
			}
		}
	})
	return found
}

// ruleRunReset: fields written by run-time code are re-initialised by Run's prologue.
func ruleRunReset(c *Ctx, rr string, vf *vmFacts) {
	l := c.L
	callsRun := callTo(func(f *ssa.Function) bool { return f == vf.run })
	entry := vf.Run.Blocks[0].Instrs[0]

	// M: fields written by run-time code
	M := map[string]bool{}
	writers := map[string][]string{}
	for _, fn := range vf.reachFns {
		if l.poolDomain()[fn] {
			continue // the pool configures child VMs (another VM's fields): C14's subject
		}
		d, _ := vf.storedVMFields(fn)
		for k := range d {
			M[k] = true
			if len(writers[k]) < 4 {
				writers[k] = append(writers[k], fnName(fn))
			}
		}
	}
	for _, f := range sortedKeys(M) {
		_, ok := mustPassBefore(entry, vf.storesVMField(f), callsRun)
		key := "VM." + f
		c.Check(rr, key, l.Pos(vf.Run.Pos()), ok, "stored on every path of Run's prologue; run-time writers: "+strings.Join(writers[f], ", "),
			"run-time code ("+strings.Join(writers[f], ", ")+") stores VM."+f+" but Run does not re-initialise it on every path before entering the loop: a later run on the same VM starts from what an earlier (possibly failed or aborted) run left")
	}

}

// ruleFrame0Reset: frame fields read by run-time code are stored for frame 0 by the prologue.
func ruleFrame0Reset(c *Ctx, rf string, vf *vmFacts) {
	l := c.L
	callsRun := callTo(func(f *ssa.Function) bool { return f == vf.run })
	entry := vf.Run.Blocks[0].Instrs[0]
	// ---- frame0-reset -------------------------------------------------------------------
	if c.Anchor(rf, "type frame", vf.frameS != nil) {
		read := map[string]bool{}
		for _, fn := range vf.reachFns {
			for i := 0; i < vf.frameS.NumFields(); i++ {
				for _, acc := range fieldAccesses([]*ssa.Function{fn}, modPath, "frame", i) {
					if !acc.Write {
						if u, ok := acc.Instr.(*ssa.UnOp); ok && u.Op == token.MUL {
							read[vf.frameS.Field(i).Name()] = true
						}
					}
				}
			}
		}
		for _, f := range sortedKeys(read) {
			_, ok := mustPassBefore(entry, storesStructField(l, modPath, "frame", f), callsRun)
			c.Check(rf, "frame."+f, l.Pos(vf.Run.Pos()), ok, "stored by the prologue on every path",
				"run-time code reads frame."+f+" but Run's prologue does not store it for frame 0 on every path: stale state of an earlier run (e.g. error handlers left by a run that overflowed inside try) is used")
		}
	}

}
