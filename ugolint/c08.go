package main

import (
	"fmt"
	"go/token"
	"go/types"
	"strings"

	"golang.org/x/tools/go/ssa"
)

func init() {
	props["C08"] = propC08
	props["C12"] = propC12
	props["C10"] = propC10
}

const parserPath = modPath + "/parser"

// sharedTarget: addr is (an element of) a field of one of the types reachable
// from a shared Bytecode.
func sharedTarget(addr ssa.Value) (string, ssa.Value) {
	cur := addr
	desc := ""
	for depth := 0; depth < 8; depth++ {
		switch x := cur.(type) {
		case *ssa.FieldAddr:
			if pt, ok := x.X.Type().Underlying().(*types.Pointer); ok {
				if n := namedOf(pt.Elem()); n != nil && n.Obj().Pkg() != nil {
					pp, nm := n.Obj().Pkg().Path(), n.Obj().Name()
					if (pp == modPath && (nm == "Bytecode" || nm == "CompiledFunction")) || (pp == parserPath && (nm == "SourceFileSet" || nm == "SourceFile")) {
						st := n.Underlying().(*types.Struct)
						return nm + "." + st.Field(x.Field).Name() + desc, x.X
					}
				}
			}
			cur = x.X
		case *ssa.IndexAddr:
			desc = "[i]" + desc
			cur = x.X
		case *ssa.UnOp:
			if x.Op != token.MUL {
				return "", nil
			}
			cur = x.X
		default:
			return "", nil
		}
	}
	return "", nil
}

func propC08(c *Ctx) {
	l := c.L
	rs := c.Rule("shared-write", "no function reachable from VM.Run or from the error-formatting entry points (RuntimeError.Format/StackTrace/Error, SourceFileSet.Position/File) stores into a Bytecode, CompiledFunction, SourceFileSet or SourceFile it did not allocate itself: everything reachable from a shared Bytecode is read-only while VMs run", 1)
	vf := getVMFacts(c, rs)
	if vf == nil {
		return
	}
	var roots []*ssa.Function
	roots = append(roots, vf.Run)
	for _, m := range []string{"Format", "StackTrace", "Error", "String"} {
		if f := l.Method(modPath, "RuntimeError", m); f != nil {
			roots = append(roots, f)
		}
	}
	nPos := 0
	for _, m := range []string{"Position", "File"} {
		if f := l.Method(parserPath, "SourceFileSet", m); f != nil {
			roots = append(roots, f)
			nPos++
		}
	}
	if !c.Anchor(rs, "parser.SourceFileSet.Position / File", nPos == 2) {
		return
	}
	reach := Reach(l.VTA(), func(f *ssa.Function) bool { return !strings.HasPrefix(funcPkgPath(f), modPath) }, roots...)
	var fns []*ssa.Function
	for _, f := range sortedFuncs(reach) {
		if strings.HasPrefix(funcPkgPath(f), modPath) && len(f.Blocks) > 0 {
			fns = append(fns, f)
		}
	}
	c.extra["functions_reachable_from_run_and_error_formatting"] = len(fns)
	n := 0
	for _, fn := range fns {
		if l.poolDomain()[fn] {
			continue // the pool manages the private Bytecode of child VMs (C14)
		}
		eachInstr(fn, func(ins ssa.Instruction) {
			var addr ssa.Value
			switch st := ins.(type) {
			case *ssa.Store:
				addr = st.Addr
			case *ssa.MapUpdate:
				addr = st.Map
			default:
				return
			}
			what, root := sharedTarget(addr)
			if what == "" {
				return
			}
			n++
			key := fmt.Sprintf("%s | %s", fnName(fn), what)
			c.Check(rs, key, l.Pos(ins.Pos()), isFreshAlloc(root), "target freshly allocated in this function",
				"unsynchronised store to "+what+" of a value shared through the Bytecode: a data race when two VMs (or two goroutines formatting errors) run over one Bytecode")
		})
	}
	c.extra["shared_store_sites_examined"] = n
	c.Check(rs, "positive control: closure creation allocates", l.Pos(vf.loop.Pos()), hasFreshCompiledFunction(vf.loop), "fresh CompiledFunction allocations are recognised", "no fresh CompiledFunction allocation in the dispatch loop")

	// ---- global-write ---------------------------------------------------------------------
	rg := c.Rule("global-write", "no repository function reachable from VM.Run stores to a package-level variable", 1)
	runReach := Reach(l.VTA(), func(f *ssa.Function) bool { return !strings.HasPrefix(funcPkgPath(f), modPath) }, vf.Run)
	ng := 0
	for _, fn := range sortedFuncs(runReach) {
		if !strings.HasPrefix(funcPkgPath(fn), modPath) || len(fn.Blocks) == 0 {
			continue
		}
		eachInstr(fn, func(ins ssa.Instruction) {
			var addr ssa.Value
			switch st := ins.(type) {
			case *ssa.Store:
				addr = st.Addr
			case *ssa.MapUpdate:
				addr = st.Map
			default:
				return
			}
			g := rootGlobal(addr)
			if g == nil {
				return
			}
			ng++
			c.Bad(rg, fmt.Sprintf("%s | store to global %s", fnName(fn), g.Name()), l.Pos(ins.Pos()), "run-time code stores to package-level variable "+g.Name()+": shared by every VM in the process without synchronisation")
		})
		// a package-level map or slice installed as part of a run's state (stored
		// into a VM / frame / object field): every VM then mutates one shared container
		eachInstr(fn, func(ins ssa.Instruction) {
			ld, ok := ins.(*ssa.UnOp)
			if !ok || ld.Op != token.MUL {
				return
			}
			g, ok := ld.X.(*ssa.Global)
			if !ok || g.Pkg == nil || !strings.HasPrefix(g.Pkg.Pkg.Path(), modPath) {
				return
			}
			switch ld.Type().Underlying().(type) {
			case *types.Map, *types.Slice:
			default:
				return
			}
			escapes := ""
			seen := map[ssa.Value]bool{}
			var walk func(v ssa.Value, d int)
			walk = func(v ssa.Value, d int) {
				if seen[v] || d > 5 || v.Referrers() == nil || escapes != "" {
					return
				}
				seen[v] = true
				for _, r := range *v.Referrers() {
					switch x := r.(type) {
					case *ssa.ChangeType:
						walk(x, d+1)
					case *ssa.MakeInterface:
						walk(x, d+1)
					case *ssa.Phi:
						walk(x, d+1)
					case *ssa.Store:
						if x.Val == v {
							if _, local := x.Addr.(*ssa.Alloc); !local {
								escapes = l.Pos(x.Pos())
							}
						}
					}
				}
			}
			walk(ld, 0)
			if escapes != "" {
				ng++
				c.Bad(rg, fmt.Sprintf("%s | package-level container %s installed in run state", fnName(fn), g.Name()), escapes, "run-time code stores the package-level "+tstr(ld.Type())+" "+g.Name()+" itself into the state of a run: every VM in the process that takes this path reads and writes one shared container (a default globals map shared by all runs without globals)")
			}
		})
		// the address of a package-level variable handed to a repository
		// function that writes through that parameter (a shared scratch value)
		eachInstr(fn, func(ins ssa.Instruction) {
			ci, ok := ins.(ssa.CallInstruction)
			if !ok {
				return
			}
			callee := ci.Common().StaticCallee()
			if callee == nil || len(callee.Blocks) == 0 || !strings.HasPrefix(funcPkgPath(callee), modPath) {
				return
			}
			for i, a := range ci.Common().Args {
				g := addrOfGlobal(a)
				if g == nil || i >= len(callee.Params) {
					continue
				}
				if storesThroughParam(callee, i, 0, map[*ssa.Function]bool{}) {
					ng++
					c.Bad(rg, fmt.Sprintf("%s | %s written through &%s", fnName(fn), fnName(callee), g.Name()), l.Pos(ins.Pos()), "run-time code hands the address of package-level variable "+g.Name()+" to "+fnName(callee)+", which writes through it: one scratch value shared by every VM in the process without synchronisation")
				}
			}
		})
	}
	c.Ok(rg, "run-reachable functions scanned", l.Pos(vf.Run.Pos()), fmt.Sprintf("%d functions reachable from Run scanned, %d stores to globals", len(runReach), ng))

	rsl := c.Rule("syncmap-lock", "every use of the map read from a SyncMap's Value field happens while that SyncMap's lock is held", 5)
	ruleSyncMapLock(c, rsl, nil)

	// ---- mod-copy / copy-fresh / import-copy -------------------------------------------------
	rm := c.Rule("mod-copy", "the module cache is written only by the dispatch loop's store-module arm with the Copy() of every Copier value (builtin module values are private per VM)", 1)
	ruleModCopy(c, rm, vf)

	rf := c.Rule("copy-fresh", "Copy() of every container type (underlying map or slice, or a struct wrapping one) returns a freshly allocated value on every path, never the receiver: a 'copy' that is the original shares the Bytecode constant between VMs", 3)
	copier := l.NamedType(modPath, "Copier")
	if c.Anchor(rf, "interface Copier", copier != nil) {
		ci := copier.Underlying().(*types.Interface)
		for _, T := range objectTypes(l, modPath) {
			if !types.Implements(T, ci) {
				continue
			}
			base := T
			if p, ok := T.(*types.Pointer); ok {
				base = p.Elem()
			}
			isContainer := false
			switch u := base.Underlying().(type) {
			case *types.Map, *types.Slice:
				isContainer = true
			case *types.Struct:
				for i := 0; i < u.NumFields(); i++ {
					switch u.Field(i).Type().Underlying().(type) {
					case *types.Map:
						if isNamed(u.Field(i).Type(), modPath, "Map") {
							isContainer = true
						}
					}
				}
			}
			if !isContainer {
				continue
			}
			fn := l.Method(modPath, namedOf(T).Obj().Name(), "Copy")
			if fn == nil || len(fn.Blocks) == 0 {
				continue
			}
			var bad []string
			for _, b := range fn.Blocks {
				ret, ok := b.Instrs[len(b.Instrs)-1].(*ssa.Return)
				if !ok {
					continue
				}
				v := stripChange(ret.Results[0])
				if derivesOnlyFromParam(v, fn.Params[0]) {
					bad = append(bad, l.Pos(ret.Pos()))
				}
			}
			c.Check(rf, tstr(T)+".Copy", l.Pos(fn.Pos()), len(bad) == 0, "every return value is freshly built", "return at "+strings.Join(bad, ", ")+" hands back the receiver itself: the copy aliases the original (e.g. an empty nested map of a builtin module is then shared by all VMs)")
		}
	}

	rdc := c.Rule("deep-copy", "in every Copy method a mutable component of Copier type placed into the result comes from Copy() or is rebuilt, never the receiver's own component", 2)
	ruleDeepCopy(c, rdc)

	ri := c.Rule("import-copy", "BuiltinModule.Import returns a value derived from a Copy() of Attrs, never Attrs itself", 1)
	imp := l.Method(modPath, "BuiltinModule", "Import")
	_, fAttrs := l.structField(modPath, "BuiltinModule", "Attrs")
	if c.Anchor(ri, "BuiltinModule.Import / Attrs", imp != nil && fAttrs >= 0) {
		good := true
		n := 0
		for _, b := range imp.Blocks {
			ret, ok := b.Instrs[len(b.Instrs)-1].(*ssa.Return)
			if !ok {
				continue
			}
			v := ret.Results[0]
			if cst, ok := stripChange(v).(*ssa.Const); ok && cst.IsNil() {
				continue
			}
			n++
			if !derivesFrom(v, func(x ssa.Value) bool {
				cl, ok := x.(*ssa.Call)
				if !ok {
					return false
				}
				if f := cl.Call.StaticCallee(); f != nil && f.Name() == "Copy" {
					return true
				}
				return cl.Call.IsInvoke() && cl.Call.Method.Name() == "Copy"
			}, 6) {
				good = false
			}
		}
		c.Check(ri, "BuiltinModule.Import", l.Pos(imp.Pos()), good && n > 0, "returned module value derives from Copy()", "Import returns the module's attribute map without copying it: every compiler (and so every Bytecode and VM) shares one mutable map")
	}

	// ---- pool-zero / pool-lock -------------------------------------------------------------------
	rz := c.Rule("pool-zero", "every path that returns a child VM to the sync.Pool resets every VM field", 1)
	rl := c.Rule("pool-lock", "every access to the pool's registry of child VMs happens under the pool's mutex", 4)
	if pf := getPoolFacts(c, rz, vf); pf != nil {
		rulePoolZero(c, rz, vf, pf)
		rulePoolLock(c, rl, pf)
		rps := c.Rule("pool-symmetric", "child VMs are registered on and unregistered from the same pool (the root VM's): a stale registration lets another VM's Abort reach an unrelated run", 1)
		rulePoolSymmetric(c, rps, pf)
	}
	rbo := c.Rule("child-bc-own", "every Bytecode header stored into a VM is that VM's own storage (fresh, the caller's program, or its previous header), never a package-level or otherwise shared value", 2)
	ruleChildBytecodeOwn(c, rbo, vf)
	rcs := c.Rule("copy-stored", "in the Copy methods of Array and Map the copy made of a Copier element is what is stored into the new container (builtin-module values are private per VM through these copies)", 2)
	ruleCopyStored(c, rcs)
	ricw := c.Rule("init-captured-write", "no closure stores to a variable captured from a function that runs only at package initialisation (such a variable is shared by every VM calling the library function)", 1)
	ruleInitCapturedWrite(c, ricw)
}

func rootGlobal(addr ssa.Value) *ssa.Global {
	cur := addr
	for depth := 0; depth < 8; depth++ {
		switch x := cur.(type) {
		case *ssa.Global:
			return x
		case *ssa.FieldAddr:
			cur = x.X
		case *ssa.IndexAddr:
			cur = x.X
		case *ssa.UnOp:
			if x.Op != token.MUL {
				return nil
			}
			// a load of a global pointer/map/slice: stores through it modify shared state
			cur = x.X
		default:
			return nil
		}
	}
	return nil
}

// addrOfGlobal: v is the address of a package-level variable or of a
// component of it (no load in between).
func addrOfGlobal(v ssa.Value) *ssa.Global {
	for depth := 0; depth < 8; depth++ {
		switch x := v.(type) {
		case *ssa.Global:
			return x
		case *ssa.FieldAddr:
			v = x.X
		case *ssa.IndexAddr:
			v = x.X
		default:
			return nil
		}
	}
	return nil
}

// storesThroughParam: fn (or a repository function it hands the parameter's
// address to, to depth 3) stores into memory addressed from parameter i
// without a load in between.
func storesThroughParam(fn *ssa.Function, i int, depth int, seen map[*ssa.Function]bool) bool {
	if seen[fn] || depth > 3 || i >= len(fn.Params) {
		return false
	}
	seen[fn] = true
	p := fn.Params[i]
	fromParam := func(v ssa.Value) bool {
		for d := 0; d < 8; d++ {
			switch x := v.(type) {
			case *ssa.Parameter:
				return x == p
			case *ssa.FieldAddr:
				v = x.X
			case *ssa.IndexAddr:
				v = x.X
			default:
				return false
			}
		}
		return false
	}
	found := false
	eachInstr(fn, func(ins ssa.Instruction) {
		if found {
			return
		}
		switch x := ins.(type) {
		case *ssa.Store:
			if fromParam(x.Addr) {
				found = true
			}
		case ssa.CallInstruction:
			callee := x.Common().StaticCallee()
			if callee == nil || len(callee.Blocks) == 0 || !strings.HasPrefix(funcPkgPath(callee), modPath) {
				return
			}
			for j, a := range x.Common().Args {
				if fromParam(a) && storesThroughParam(callee, j, depth+1, seen) {
					found = true
				}
			}
		}
	})
	return found
}

// derivesOnlyFromParam: v is the parameter itself (through type changes).
func derivesOnlyFromParam(v ssa.Value, p *ssa.Parameter) bool {
	for {
		switch x := v.(type) {
		case *ssa.ChangeType:
			v = x.X
			continue
		case *ssa.MakeInterface:
			v = x.X
			continue
		case *ssa.Phi:
			for _, e := range x.Edges {
				if derivesOnlyFromParam(e, p) {
					return true
				}
			}
			return false
		}
		return v == ssa.Value(p)
	}
}

// ---- C12 ------------------------------------------------------------------------------------------

func propC12(c *Ctx) {
	l := c.L
	defer func() {
		rpu := c.Rule("param-used", "every named parameter that carries compile state (module store, symbol table, options, module map, compiler, constant pool) of an unexported, directly called function is used: the module store and module map handed down to a compiler are not dropped on the way (module indexes stay in step with the VM's module cache)", 8)
		ruleParamUsed(c, rpu, func(p string) bool { return p == modPath })
		rmo := c.Rule("module-cache-opaque", "a value read from the VM's module cache is only compared with nil, stored or copied: whether a module's body runs depends on the slot being empty, not on what the module returned", 1)
		if vf := getVMFacts(c, rmo); vf != nil {
			ruleModuleCacheOpaque(c, rmo, vf)
		}
		rmk := c.Rule("map-key-agree", "every string-keyed map field of the package is accessed with keys of one form: a module stored under its name is looked up under that same name", 3)
		ruleMapKeyAgree(c, rmk, func(p string) bool { return p == modPath })
	}()
	rm := c.Rule("mod-copy", "the module cache is written only by the dispatch loop's store-module arm (single writer), with the Copy() of every Copier value", 1)
	vf := getVMFacts(c, rm)
	if vf == nil {
		return
	}
	ruleModCopy(c, rm, vf)

	// root-share: child VMs use the root's module cache
	rs := c.Rule("root-share", "a child VM's module cache IS the root VM's slice: a module first imported inside a function called from Go is cached for the parent and every later import", 1)
	if pf := getPoolFacts(c, rs, vf); pf != nil {
		idx := vf.field("modulesCache")
		var st *ssa.Store
		eachInstrDeep(pf.acquire, 3, func(ins ssa.Instruction) {
			if s, ok := ins.(*ssa.Store); ok {
				if fa, ok := vf.isVMFieldAddr(s.Addr); ok && fa.Field == idx {
					st = s
				}
			}
		})
		if st == nil {
			c.Bad(rs, "child VM.modulesCache = root", l.Pos(pf.acquire.Pos()), "acquire has no store to VM.modulesCache")
		} else {
			c.Check(rs, "child VM.modulesCache = root", l.Pos(st.Pos()), pf.rootFieldLoad(vf, st.Val, "modulesCache"), "stored value is the root VM's modulesCache", "the child gets a copy (or another slice) instead of the root's module cache: the module body runs again on the next import and its state is lost")
		}
	}

	rcs2 := c.Rule("copy-stored", "in the Copy methods of Array and Map the copy made of a Copier element is stored into the new container: a module value copied for a VM shares no nested container with the Bytecode constant", 2)
	ruleCopyStored(c, rcs2)
	rmn := c.Rule("module-name-one", "one value names the module in the store lookup, the registration, the module-map fork and the compilation of the module source (one file is one module; positions name the file they lie in)", 1)
	ruleModuleNameOne(c, rmn)
	rfa := c.Rule("fixup-always", "every decoding entry point of package encoder that receives the module map reaches the module fix-up before it returns success: unknown modules are refused at load time", 2)
	ruleFixupAlways(c, rfa)

	// cache-grow: Run only appends to an existing module cache
	rg := c.Rule("cache-grow", "Run never replaces a module cache that already holds loaded modules: every store to VM.modulesCache in Run appends to the current value", 1)
	ruleCacheGrow(c, rg, vf)

	// emit-pair: load-module and store-module are emitted with the same module index
	re := c.Rule("emit-pair", "in the compilation of an import expression every path emits OpLoadModule and OpStoreModule with the same module-index value", 2)
	ruleEmitPair(c, re)

	// cycle-dom: cyclic import detection dominates parsing/compiling of the module
	rc := c.Rule("cycle-dom", "in the module compilation the cyclic-import check dominates parsing and compiling of the module, and its error is returned", 1)
	cm := l.Method(modPath, "Compiler", "compileModule")
	chk := l.Method(modPath, "Compiler", "checkCyclicImports")
	if c.Anchor(rc, "Compiler.compileModule / checkCyclicImports", cm != nil && chk != nil) {
		var chkCall ssa.Instruction
		eachInstr(cm, func(ins ssa.Instruction) {
			if ci, ok := ins.(ssa.CallInstruction); ok && ci.Common().StaticCallee() == chk {
				chkCall = ins
			}
		})
		good := chkCall != nil
		if good {
			eachInstr(cm, func(ins ssa.Instruction) {
				ci, ok := ins.(ssa.CallInstruction)
				if !ok {
					return
				}
				f := ci.Common().StaticCallee()
				if f == nil {
					return
				}
				if f.Name() == "ParseFile" || (f.Name() == "Compile" && f.Signature.Recv() != nil) || f.Name() == "fork" {
					if !instrDominates(chkCall, ins) {
						good = false
					}
					// and only on the nil-error side
					okSide := false
					for _, g := range guardEdges(ins.Block()) {
						bo, ok := g.If.Cond.(*ssa.BinOp)
						if !ok {
							continue
						}
						if (bo.X == chkCall.(ssa.Value) || bo.Y == chkCall.(ssa.Value)) && ((bo.Op == token.NEQ && !g.Truth) || (bo.Op == token.EQL && g.Truth)) {
							okSide = true
						}
					}
					if !okSide {
						good = false
					}
				}
			})
		}
		c.Check(rc, "Compiler.compileModule", l.Pos(cm.Pos()), good, "cycle check precedes parse/fork/compile, which run only when it returned nil", "the module is parsed or compiled on a path that did not pass a successful cyclic-import check: an import cycle recurses until the Go stack is exhausted")
		// the check walks the whole parent chain
		_, fParent := l.structField(modPath, "Compiler", "parent")
		walks := false
		eachInstr(chk, func(ins ssa.Instruction) {
			if ci, ok := ins.(ssa.CallInstruction); ok && ci.Common().StaticCallee() == chk {
				if u, ok := ci.Common().Args[0].(*ssa.UnOp); ok {
					if _, ok := isFieldAddrOf(u.X, modPath, "Compiler", fParent); ok {
						walks = true
					}
				}
			}
			if fa, ok := ins.(*ssa.FieldAddr); ok && fa.Field == fParent && fParent >= 0 {
				b := ins.Block()
				for _, s := range b.Succs {
					if blockReaches(s, b) {
						walks = true
					}
				}
			}
		})
		c.Check(rc, "checkCyclicImports walks the parent chain", l.Pos(chk.Pos()), walks, "recurses / loops along Compiler.parent", "the cycle check does not follow the chain of importing compilers: cycles longer than one step are missed")
	}

	rdc := c.Rule("deep-copy", "Copy() of module values is deep: mutable components of Copier type are copied, not shared (builtin module values are private per VM)", 2)
	ruleDeepCopy(c, rdc)
	rfp := c.Rule("fork-parent", "every compiler fork records the forking compiler as its parent on every path (the cyclic-import check walks this chain)", 2)
	ruleForkParent(c, rfp)
	rrbb := c.Rule("rollback-boundary", "rolling the module store back removes exactly the entries whose index is >= the restored count: no module of a failed compilation stays registered without its constant", 1)
	ruleRollbackBoundary(c, rrbb)
	rfs := c.Rule("fork-same-file", "a compiler forked for a function literal inherits the forking compiler's module path and module map unchanged: an import inside a function resolves as at the top level of the same file", 1)
	ruleForkSameFile(c, rfs)
	rod := c.Rule("operand-decode", "every multi-byte operand the VM reads (module indexes among them) is assembled big-endian from adjacent bytes, as the compiler encodes it", 3)
	ruleOperandDecode(c, rod, vf, "")

	// name-canonical: the file importer's module key is canonical
	rn := c.Rule("name-canonical", "the file importer derives the module key from filepath.Abs of the joined path: one file reached by two relative paths must be one module", 1)
	nm := l.Method(modPath+"/importers", "FileImporter", "Name")
	if c.Anchor(rn, "importers.FileImporter.Name", nm != nil) {
		// a relative path is joined with the working directory; the joined path
		// must go through filepath.Abs and its result must reach the return value
		var absCall *ssa.Call
		eachInstr(nm, func(ins ssa.Instruction) {
			if cl, ok := ins.(*ssa.Call); ok && isCallOf(cl, func(f *ssa.Function) bool {
				return f.Pkg != nil && f.Pkg.Pkg.Path() == "path/filepath" && (f.Name() == "Abs" || f.Name() == "EvalSymlinks")
			}) {
				if derivesFrom(cl.Call.Args[0], func(v ssa.Value) bool {
					return isCallOf(v, func(f *ssa.Function) bool {
						return f.Pkg != nil && f.Pkg.Pkg.Path() == "path/filepath" && f.Name() == "Join"
					})
				}, 4) {
					absCall = cl
				}
			}
		})
		good, n := absCall != nil, 0
		for _, b := range nm.Blocks {
			ret, ok := b.Instrs[len(b.Instrs)-1].(*ssa.Return)
			if !ok || len(ret.Results) == 0 {
				continue
			}
			if _, isC := ret.Results[0].(*ssa.Const); isC {
				continue
			}
			n++
			if absCall == nil || !derivesFrom(ret.Results[0], func(v ssa.Value) bool {
				ex, ok := v.(*ssa.Extract)
				return ok && ex.Tuple == ssa.Value(absCall) && ex.Index == 0
			}, 6) {
				good = false
			}
		}
		c.Check(rn, "FileImporter.Name", l.Pos(nm.Pos()), good && n > 0, "successful results derive from filepath.Abs", "a module key is returned that did not pass through filepath.Abs: the same file imported through two different relative paths becomes two modules, each with its own state")
	}
}

func ruleCacheGrow(c *Ctx, rule string, vf *vmFacts) {
	l := c.L
	idx := vf.field("modulesCache")
	n := 0
	eachInstr(vf.Run, func(ins ssa.Instruction) {
		st, ok := ins.(*ssa.Store)
		if !ok {
			return
		}
		fa, ok := vf.isVMFieldAddr(st.Addr)
		if !ok || fa.Field != idx {
			return
		}
		n++
		good := false
		if cl, ok := st.Val.(*ssa.Call); ok {
			if b, ok := cl.Call.Value.(*ssa.Builtin); ok && b.Name() == "append" {
				if u, ok := stripChangeOnly(cl.Call.Args[0]).(*ssa.UnOp); ok {
					if fa2, ok := vf.isVMFieldAddr(u.X); ok && fa2.Field == idx {
						good = true
					}
				}
			}
		}
		c.Check(rule, "VM.Run | modulesCache = ...", l.Pos(st.Pos()), good, "appends to the current cache", "Run replaces the module cache instead of growing it: modules an Eval session (or an earlier fragment) already loaded are dropped and their bodies run again")
	})
	if n == 0 {
		c.Ok(rule, "VM.Run | modulesCache", l.Pos(vf.Run.Pos()), "Run does not store to the module cache at all")
	}
}

// ruleEmitPair: in each function that emits OpStoreModule, the module index
// operand equals the second operand of the OpLoadModule emitted on the same path.
func ruleEmitPair(c *Ctx, rule string) {
	l := c.L
	emit := l.Method(modPath, "Compiler", "emit")
	opLoad, ok1 := constOf(l, modPath, "OpLoadModule")
	opStore, ok2 := constOf(l, modPath, "OpStoreModule")
	if !c.Anchor(rule, "Compiler.emit / OpLoadModule / OpStoreModule", emit != nil && ok1 && ok2) {
		return
	}
	type em struct {
		ci   ssa.CallInstruction
		args []ssa.Value
	}
	byFn := map[*ssa.Function][2][]em{}
	for _, ci := range l.StaticCallers(emit) {
		a := ci.Common().Args
		if len(a) < 4 {
			continue
		}
		k, ok := constInt64(a[2])
		if !ok {
			continue
		}
		e := byFn[ci.Parent()]
		if k == opLoad {
			e[0] = append(e[0], em{ci, variadicElems(a[3])})
		} else if k == opStore {
			e[1] = append(e[1], em{ci, variadicElems(a[3])})
		}
		byFn[ci.Parent()] = e
	}
	n := 0
	for fn, e := range byFn {
		for _, st := range e[1] {
			n++
			key := fmt.Sprintf("%s | emit(OpStoreModule, %s)", fnName(fn), describeAll(st.args))
			good := false
			for _, ld := range e[0] {
				if len(ld.args) == 2 && len(st.args) == 1 && instrDominates(ld.ci, st.ci) && (ld.args[1] == st.args[0] || exprEq(ld.args[1], st.args[0])) {
					good = true
				}
			}
			c.Check(rule, key, l.Pos(st.ci.Pos()), good, "dominated by an OpLoadModule emission with the same module index", "the store-module instruction is not paired with a load-module of the same module index: the module body runs on every import or another module's slot is overwritten")
		}
	}
	// and every load-module emission is followed on all paths by the store-module emission for the same index
	for fn, e := range byFn {
		for _, ld := range e[0] {
			if len(ld.args) != 2 {
				continue
			}
			via := func(x ssa.Instruction) bool {
				for _, st := range e[1] {
					if ssa.Instruction(st.ci) == x && len(st.args) == 1 && (st.args[0] == ld.args[1] || exprEq(st.args[0], ld.args[1])) {
						return true
					}
				}
				return false
			}
			_, ok := mustPassBefore(ld.ci, via, func(x ssa.Instruction) bool {
				r, ok := x.(*ssa.Return)
				if !ok || len(r.Results) == 0 {
					return false
				}
				cst, isC := r.Results[len(r.Results)-1].(*ssa.Const)
				return isC && cst.IsNil()
			})
			c.Check(rule, fmt.Sprintf("%s | emit(OpLoadModule, %s)", fnName(fn), describeAll(ld.args)), l.Pos(ld.ci.Pos()), ok, "followed on every successful path by the store-module emission of the same index", "an import site loads the module without the conditional store: if this site runs first it gets the constant itself (never copied, never cached), so builtin module values are shared between VMs and the module is initialised again elsewhere")
		}
	}
	if n == 0 {
		c.Und(rule, "OpStoreModule emissions", "-", "no emission of OpStoreModule found")
	}
}

// ---- C10 ---------------------------------------------------------------------------------------------

func propC10(c *Ctx) {
	l := c.L
	defer func() {
		rccf := c.Rule("const-cache-float", "the constant cache a later fragment's compiler is rebuilt with (from the session's constants) never maps 0.0 to a stored -0.0: a fragment's 0.0 literal is the same constant it would be in one script", 1)
		ruleConstCacheFloat(c, rccf)
		rrb := c.Rule("rollback-boundary", "rolling the session's module store back after a failed fragment removes exactly the entries whose index is >= the restored count: the next fragment sees the store a single script would", 1)
		ruleRollbackBoundary(c, rrb)
		rdk := c.Rule("decl-kind-agree", "the compiler and the optimizer dispatch on the same set of declaration kinds: a `global` declaration in the same fragment as its use hides the builtin from the optimizer exactly as the session's symbol table does for a later fragment", 1)
		ruleDeclKindAgree(c, rdk)
		rcb := c.Rule("counter-balance", "a function that increments a nesting counter of the compiler (try depth, loop depth) decrements it again on every path to a successful return: a script compiled in one piece sees the same depths as its fragments compiled one by one", 2)
		ruleCounterBalance(c, rcb)
	}()
	rt := c.Rule("thread", "Eval.Run threads the session state: the compile call receives the session's own options (symbol table, constants) and module store; the compiled constants are stored back before the run; the VM's module cache is restored from the session after the call that installs the new bytecode; Locals and ModulesCache are saved from the VM on every path after the run and before Clear; NumParams is set to NumLocals", 5)
	vf := getVMFacts(c, rt)
	if vf == nil {
		return
	}
	run := l.Method(modPath, "Eval", "Run")
	if !c.Anchor(rt, "Eval.Run", run != nil) {
		return
	}
	fld := func(typ, name string) int { _, i := l.structField(modPath, typ, name); return i }
	fOpts, fStore, fMC, fLocals, fVM := fld("Eval", "Opts"), fld("Eval", "moduleStore"), fld("Eval", "ModulesCache"), fld("Eval", "Locals"), fld("Eval", "VM")
	fConst := fld("CompilerOptions", "Constants")
	if !c.Anchor(rt, "Eval fields Opts/moduleStore/ModulesCache/Locals/VM and CompilerOptions.Constants", fOpts >= 0 && fStore >= 0 && fMC >= 0 && fLocals >= 0 && fVM >= 0 && fConst >= 0) {
		return
	}
	var compileCall, setBC, vmRunCall, clearCall ssa.Instruction
	setBytecode := l.Method(modPath, "VM", "SetBytecode")
	clear := l.Method(modPath, "VM", "Clear")
	runner := l.Method(modPath, "Eval", "run")
	eachInstr(run, func(ins ssa.Instruction) {
		ci, ok := ins.(ssa.CallInstruction)
		if !ok {
			return
		}
		f := ci.Common().StaticCallee()
		switch {
		case f != nil && f.Name() == "compileScript":
			compileCall = ins
		case f != nil && f == setBytecode:
			setBC = ins
		case f != nil && f == clear:
			clearCall = ins
		case f != nil && (f == runner || f == vf.Run):
			vmRunCall = ins
		}
	})
	pos := l.Pos(run.Pos())
	if !c.Anchor(rt, "calls of compileScript / SetBytecode / run / Clear inside Eval.Run", compileCall != nil && setBC != nil && vmRunCall != nil && clearCall != nil) {
		return
	}
	// thread-compile
	{
		a := compileCall.(ssa.CallInstruction).Common().Args
		_, okO := isFieldAddrOf(a[1], modPath, "Eval", fOpts)
		_, okS := isFieldAddrOf(a[2], modPath, "Eval", fStore)
		c.Check(rt, "compile receives the session's options and module store", l.Pos(compileCall.Pos()), okO && okS, "&r.Opts and &r.moduleStore", "the fragment is compiled with options or a module store that are not the session's own: names, constants or module indexes of earlier fragments are lost")
	}
	// thread-const: store to Opts.Constants between compile and run
	storeBetween := func(match func(*ssa.Store) bool, from, to ssa.Instruction) bool {
		found := false
		eachInstr(run, func(ins ssa.Instruction) {
			if st, ok := ins.(*ssa.Store); ok && match(st) && instrDominates(from, st) && instrDominates(st, to) {
				found = true
			}
		})
		return found
	}
	okConst := storeBetween(func(st *ssa.Store) bool {
		fa, ok := isFieldAddrOf(st.Addr, modPath, "CompilerOptions", fConst)
		if !ok {
			return false
		}
		_, isOpts := isFieldAddrOf(fa.X, modPath, "Eval", fOpts)
		return isOpts
	}, compileCall, vmRunCall)
	c.Check(rt, "compiled constants are stored back into the session options", pos, okConst, "r.Opts.Constants assigned between compile and run", "the constants of the compiled fragment are not stored back: the next fragment indexes a different constant pool than the values already on the VM")
	// thread-modcache: vm.modulesCache = r.ModulesCache after SetBytecode, before run
	fVMmc := vf.field("modulesCache")
	okMC := storeBetween(func(st *ssa.Store) bool {
		fa, ok := vf.isVMFieldAddr(st.Addr)
		if !ok || fa.Field != fVMmc {
			return false
		}
		u, ok := st.Val.(*ssa.UnOp)
		if !ok {
			return false
		}
		_, isSess := isFieldAddrOf(u.X, modPath, "Eval", fMC)
		return isSess
	}, setBC, vmRunCall)
	c.Check(rt, "module cache restored after the new bytecode is installed", pos, okMC, "VM.modulesCache = r.ModulesCache between SetBytecode and run", "the session's loaded modules are not handed to the VM after SetBytecode cleared its cache: every fragment re-runs the bodies of modules imported earlier")
	// thread-save: stores to r.ModulesCache and r.Locals after run, before Clear
	// (judged from the branch on which the runner reports that it started the VM, if it reports that)
	startedFrom := afterStartedRun(l, vmRunCall)
	saveBefore := func(field int) bool {
		pred := func(ins ssa.Instruction) bool {
			st, ok := ins.(*ssa.Store)
			if !ok {
				return false
			}
			_, ok = isFieldAddrOf(st.Addr, modPath, "Eval", field)
			return ok
		}
		if pred(startedFrom) {
			return true
		}
		_, ok := mustPassBefore(startedFrom, pred, func(x ssa.Instruction) bool { return x == clearCall })
		return ok && instrDominates(vmRunCall, clearCall)
	}
	okSaveMC := saveBefore(fMC)
	okSaveL := saveBefore(fLocals)
	c.Check(rt, "locals and module cache saved before Clear", pos, okSaveMC && okSaveL, "r.ModulesCache and r.Locals assigned between run and Clear on the only path", "the session does not take the locals / loaded modules back from the VM before clearing it (on every path, including failing fragments)")
	// params
	fNP, fNL := fld("CompiledFunction", "NumParams"), fld("CompiledFunction", "NumLocals")
	okP := storeBetween(func(st *ssa.Store) bool {
		if _, ok := isFieldAddrOf(st.Addr, modPath, "CompiledFunction", fNP); !ok {
			return false
		}
		u, ok := st.Val.(*ssa.UnOp)
		if !ok {
			return false
		}
		_, isNL := isFieldAddrOf(u.X, modPath, "CompiledFunction", fNL)
		return isNL
	}, compileCall, vmRunCall)
	c.Check(rt, "earlier locals come back in as parameters", pos, okP, "Main.NumParams = Main.NumLocals before the run", "NumParams is not set to NumLocals: the values of variables declared by earlier fragments are not bound for this fragment")

	rg := c.Rule("cache-grow", "VM.Run only appends to an existing module cache (the Eval session installs the modules earlier fragments loaded)", 1)
	ruleCacheGrow(c, rg, vf)

	rtp := c.Rule("try-end-pop", "a completed try statement leaves no handler behind (an Eval session resets the frame between fragments, a single script does not: with a stale handler the two differ)", 1)
	ruleTryEndPop(c, rtp)
	rcr := c.Rule("compile-rollback", "a fragment that fails to compile leaves the session's module store consistent with its constants (rolled back), so the next fragment compiles", 1)
	ruleCompileRollback(c, rcr, run, compileCall)
	rsow := c.Rule("set-owned", "every symbol table owns its set of disabled builtins (a builtin disabled in an earlier fragment stays disabled: the session's set is not shared with the optimizer's scratch table, which is reset)", 2)
	if _, fD := l.structField(modPath, "SymbolTable", "disabledBuiltins"); c.Anchor(rsow, "SymbolTable.disabledBuiltins", fD >= 0) {
		ruleSetOwned(c, rsow, &symtabRoles{l: l, fDisabled: fD})
	}
	rpu := c.Rule("param-used", "every named parameter that carries compile / session state (module store, symbol table, options, module map, compiler, constant pool) of an unexported, directly called function is used: state handed down (the session's module store) is not dropped on the way", 8)
	ruleParamUsed(c, rpu, func(p string) bool { return p == modPath })
	rsa := c.Rule("save-all-paths", "after the VM run every path of Eval.Run to a return stores r.Locals and r.ModulesCache (also for a failing fragment)", 2)
	ruleEvalSaveAllPaths(c, rsa, run, vmRunCall)
	rso := c.Rule("save-only-if-ran", "a run that the session refuses to start (context already done) does not read the locals back from the untouched VM: the session's variables survive a cancelled request", 1)
	ruleEvalSaveOnlyIfRan(c, rso, run, vmRunCall)
	rle := c.Rule("locals-elements", "no code of the package overwrites an element of Eval.Locals: the VM's slots (cells of captured variables included) come back verbatim", 1)
	ruleEvalLocalsElements(c, rle)

	rlv := c.Rule("locals-verbatim", "GetLocals hands the stack slots to the next fragment verbatim, pointer boxes of captured variables included", 1)
	ruleLocalsVerbatim(c, rlv, vf)
	rgp := c.Rule("globals-persist", "an Eval session always holds a non-nil globals object of its own, so every fragment runs with the same globals", 1)
	ruleGlobalsPersist(c, rgp)
	rsd := c.Rule("shadow-define", "every way of defining a name in a symbol table records that it shadows a builtin of the same name (the persistent symbol table is how a later fragment's optimizer knows an earlier fragment redefined len, int, string, ...)", 4)
	ruleShadowDefine(c, rsd)
}

// ruleShadowDefine: every function of SymbolTable that inserts a non-builtin
// Symbol into the store calls shadowBuiltin on every path to a return that
// follows the insertion.
func ruleShadowDefine(c *Ctx, rule string) {
	l := c.L
	_, fStoreIdx := l.structField(modPath, "SymbolTable", "store")
	shadow := l.Method(modPath, "SymbolTable", "shadowBuiltin")
	_, fScope := l.structField(modPath, "Symbol", "Scope")
	scopeBuiltin, okSB := constOf(l, modPath, "ScopeBuiltin")
	if !c.Anchor(rule, "SymbolTable.store / shadowBuiltin / Symbol.Scope / ScopeBuiltin", fStoreIdx >= 0 && shadow != nil && fScope >= 0 && okSB) {
		return
	}
	_, fShadowed := l.structField(modPath, "SymbolTable", "shadowedBuiltins")
	// shadowBuiltin itself must append to shadowedBuiltins when the name is a builtin
	appends := false
	eachInstr(shadow, func(ins ssa.Instruction) {
		if st, ok := ins.(*ssa.Store); ok {
			if _, ok := isFieldAddrOf(st.Addr, modPath, "SymbolTable", fShadowed); ok {
				appends = true
			}
		}
	})
	c.Check(rule, "shadowBuiltin records the name", l.Pos(shadow.Pos()), appends, "appends to shadowedBuiltins", "shadowBuiltin no longer records the shadowed name")
	for _, fn := range l.RepoFuncs(func(pp string) bool { return pp == modPath }) {
		eachInstr(fn, func(ins ssa.Instruction) {
			mu, ok := ins.(*ssa.MapUpdate)
			if !ok {
				return
			}
			u, ok := mu.Map.(*ssa.UnOp)
			if !ok {
				return
			}
			if _, ok := isFieldAddrOf(u.X, modPath, "SymbolTable", fStoreIdx); !ok {
				return
			}
			// the symbol stored: skip the builtin gate itself
			isBuiltinSym := false
			if al, ok := mu.Value.(*ssa.Alloc); ok && al.Referrers() != nil {
				for _, r := range *al.Referrers() {
					if fa, ok := r.(*ssa.FieldAddr); ok && fa.Field == fScope && fa.Referrers() != nil {
						for _, rr := range *fa.Referrers() {
							if st, ok := rr.(*ssa.Store); ok {
								if k, ok := constInt64(st.Val); ok && k == scopeBuiltin {
									isBuiltinSym = true
								}
							}
						}
					}
				}
			}
			if isBuiltinSym {
				return
			}
			via := func(x ssa.Instruction) bool {
				ci, ok := x.(ssa.CallInstruction)
				return ok && ci.Common().StaticCallee() == shadow && len(ci.Common().Args) == 2 && (ci.Common().Args[1] == mu.Key || exprEq(ci.Common().Args[1], mu.Key))
			}
			_, ok2 := mustPassBefore(mu, via, isReturn)
			// loops (SetParams defines several names): the call may precede the next iteration's update; accept a call dominated by the update in the same block too
			c.Check(rule, fnName(fn)+" | store[name] = symbol", l.Pos(mu.Pos()), ok2, "followed by shadowBuiltin(name) on every path", "a name is defined in the symbol table without recording that it shadows a builtin: the optimizer (in this or a later fragment) folds a call of the user's function as the builtin")
		})
	}
}
