package main

// Rules added after the second round of independently seeded changes.

import (
	"fmt"
	"go/ast"
	"go/constant"
	"go/token"
	"go/types"
	"sort"
	"strings"

	"golang.org/x/tools/go/ssa"
)

// ---- C01/scope-agree ------------------------------------------------------------
// The optimizer's shadow tracking forgets names when it leaves a scope.  That
// is sound only if the compiler opens a symbol-table scope for the same
// syntax: for every parser node kind in whose transform arm the optimizer
// enters a scope, every compiler method that reads that node's fields must
// fork the symbol table (otherwise names declared there outlive the
// optimizer's scope, e.g. try/catch/finally bodies share one table).
func ruleScopeAgree(c *Ctx, rule string) {
	l := c.L
	p := l.ByPath[modPath]
	info := p.TypesInfo
	tr := l.Decl(methodObj(p.Types, "SimpleOptimizer", "transform"))
	enter := methodObj(p.Types, "SimpleOptimizer", "enterScope")
	fork := l.Method(modPath, "SymbolTable", "Fork")
	if !c.Anchor(rule, "SimpleOptimizer.transform / enterScope / SymbolTable.Fork", tr != nil && enter != nil && fork != nil) {
		return
	}
	kinds := map[string]token.Pos{}
	ast.Inspect(tr.Body, func(n ast.Node) bool {
		cl, ok := n.(*ast.CaseClause)
		if !ok {
			return true
		}
		enters := false
		for _, s := range cl.Body {
			ast.Inspect(s, func(m ast.Node) bool {
				if call, ok := m.(*ast.CallExpr); ok {
					if sel, ok := call.Fun.(*ast.SelectorExpr); ok && info.Uses[sel.Sel] == types.Object(enter) {
						enters = true
					}
				}
				return true
			})
		}
		if enters {
			for _, t := range cl.List {
				if nt := namedOf(info.TypeOf(t)); nt != nil && nt.Obj().Pkg() != nil && nt.Obj().Pkg().Path() == parserPath {
					kinds[nt.Obj().Name()] = cl.Pos()
				}
			}
		}
		return true
	})
	if len(kinds) == 0 {
		c.Ok(rule, "optimizer opens no scopes", l.Pos(tr.Pos()), "shadowed names are never forgotten")
		return
	}
	var ks []string
	for k := range kinds {
		ks = append(ks, k)
	}
	sort.Strings(ks)
	for _, k := range ks {
		var bad []string
		n := 0
		for _, fn := range l.RepoFuncs(func(pp string) bool { return pp == modPath }) {
			g := fn
			for g.Parent() != nil {
				g = g.Parent()
			}
			if r := g.Signature.Recv(); r == nil || !isNamed(r.Type(), modPath, "Compiler") {
				continue
			}
			reads := false
			eachInstr(fn, func(ins ssa.Instruction) {
				if fa, ok := ins.(*ssa.FieldAddr); ok {
					if pt, ok := fa.X.Type().Underlying().(*types.Pointer); ok && isNamed(pt.Elem(), parserPath, k) {
						reads = true
					}
				}
			})
			if !reads {
				continue
			}
			n++
			forks := false
			eachInstr(g, func(ins ssa.Instruction) {
				if ci, ok := ins.(ssa.CallInstruction); ok && ci.Common().StaticCallee() == fork {
					forks = true
				}
			})
			if !forks {
				bad = append(bad, fnName(fn))
			}
		}
		sort.Strings(bad)
		c.Check(rule, "optimizer scope at "+k, l.Pos(kinds[k]), len(bad) == 0 && n > 0, fmt.Sprintf("%d compiler function(s) reading %s all fork the symbol table", n, k),
			fmt.Sprintf("the optimizer forgets shadowed names when it leaves a %s, but %s compile(s) the contents of a %s without forking the symbol table: a name declared there is still in scope for the compiler afterwards (e.g. in a sibling catch/finally body) while the optimizer folds the builtin again", k, strings.Join(bad, ", "), k))
	}
}

// ---- C01/fold-err-agree -----------------------------------------------------------
// Where the VM's operator cell can return an error depending on the operands
// (division by zero), the folding table must decline under a test of the
// same operand instead of folding to a value.
func ruleFoldErrAgree(c *Ctx, rule string) {
	l := c.L
	p := l.ByPath[modPath]
	info := p.TypesInfo
	tb := newTabber(l)
	pairs := litObjPairs(l)
	toks := tokenConsts(l)
	tokName := map[int64]string{}
	for n, v := range toks {
		tokName[v] = n
	}
	for _, fn := range []string{"binaryopInts", "binaryopFloats"} {
		fd := l.Decl(methodObj(p.Types, "SimpleOptimizer", fn))
		ssaFn := l.Method(modPath, "SimpleOptimizer", fn)
		if !c.Anchor(rule, "SimpleOptimizer."+fn, fd != nil && ssaFn != nil) {
			continue
		}
		ast.Inspect(fd.Body, func(n ast.Node) bool {
			cl, ok := n.(*ast.CaseClause)
			if !ok {
				return true
			}
			for _, x := range cl.List {
				tv, ok := info.Types[x]
				if !ok || tv.Value == nil || !isNamed(tv.Type, modPath+"/token", "Token") {
					continue
				}
				k, _ := constInt(tv)
				// operand kind of this table
				kind := ""
				ast.Inspect(cl, func(m ast.Node) bool {
					if be, ok := m.(*ast.BinaryExpr); ok && kind == "" {
						if lk := litKindOfValue(info, be.X); lk != "" && lk == litKindOfValue(info, be.Y) {
							kind = lk
						}
					}
					return true
				})
				obj, ok := pairs[kind]
				if !ok {
					continue
				}
				T := l.NamedType(modPath, obj)
				if T == nil {
					continue
				}
				hasErr, hasRet := false, false
				for _, lc := range tb.resolve("BinaryOp", T, T, &k) {
					switch lc.Kind {
					case "err":
						hasErr = true
					case "ret":
						hasRet = true
					}
				}
				if !(hasErr && hasRet) {
					continue
				}
				// the arithmetic of the clause must be guarded (on every feasible
				// path) by a test of its right operand whose other side declines
				// (every return reachable from it has `false` as second result)
				var ops []*ssa.BinOp
				if ssaFn != nil {
					eachInstr(ssaFn, func(ins ssa.Instruction) {
						if bo, ok := ins.(*ssa.BinOp); ok && bo.Pos() >= cl.Pos() && bo.Pos() < cl.End() {
							switch bo.Op {
							case token.EQL, token.NEQ, token.LSS, token.LEQ, token.GTR, token.GEQ:
							default:
								ops = append(ops, bo)
							}
						}
					})
				}
				declines := len(ops) > 0
				for _, op := range ops {
					found := false
					for _, g := range guardEdges(op.Block()) {
						cmp, ok := g.If.Cond.(*ssa.BinOp)
						if !ok {
							continue
						}
						if !(exprEq(cmp.X, op.Y) || exprEq(cmp.Y, op.Y)) {
							continue
						}
						gb := g.If.Block()
						other := gb.Succs[0]
						if g.Truth {
							other = gb.Succs[1]
						}
						if allReturnsDecline(other, op.Block()) {
							found = true
						}
					}
					if !found {
						declines = false
					}
				}
				c.Check(rule, fmt.Sprintf("%s | %s %s", fn, kind, tokName[k]), l.Pos(cl.Pos()), declines, "declines under a test of the operand, like the VM's error path",
					fmt.Sprintf("%s.BinaryOp returns an error for some operands of %s (e.g. a zero divisor) but the folding table folds every operand pair: the optimized script returns a value (Inf/NaN) where the unoptimized one raises the error", obj, tokName[k]))
			}
			return true
		})
	}
}

// ---- C04/pool-escape ------------------------------------------------------------------
// A value taken from a sync.Pool and put back (directly or deferred) in the
// same function must not be the source of a returned value.
func rulePoolEscape(c *Ctx, rule string, fns []*ssa.Function) {
	l := c.L
	n := 0
	for _, fn := range fns {
		eachInstr(fn, func(ins ssa.Instruction) {
			cl, ok := ins.(*ssa.Call)
			if !ok {
				return
			}
			f := cl.Call.StaticCallee()
			if f == nil || f.Name() != "Get" || f.Pkg == nil || f.Pkg.Pkg.Path() != "sync" {
				return
			}
			n++
			puts := false
			eachInstr(fn, func(x ssa.Instruction) {
				if ci, ok := x.(ssa.CallInstruction); ok {
					if pf := ci.Common().StaticCallee(); pf != nil && pf.Name() == "Put" && pf.Pkg != nil && pf.Pkg.Pkg.Path() == "sync" {
						for _, a := range ci.Common().Args {
							if derivesFrom(a, func(v ssa.Value) bool { return v == ssa.Value(cl) }, 6) {
								puts = true
							}
						}
					}
				}
			})
			escapes := false
			if puts {
				for _, b := range fn.Blocks {
					if ret, ok := b.Instrs[len(b.Instrs)-1].(*ssa.Return); ok {
						for _, r := range ret.Results {
							if derivesFrom(r, func(v ssa.Value) bool { return v == ssa.Value(cl) }, 8) {
								escapes = true
							}
						}
					}
				}
			}
			c.Check(rule, fnName(fn)+" | sync.Pool.Get", l.Pos(cl.Pos()), !escapes, "the pooled value does not flow into a result after being put back",
				"a result of this function is derived from an object that the same function returns to a sync.Pool: the caller's bytes are overwritten by the next user of the pool (encode A, encode B, decode A's bytes yields B or garbage)")
		})
	}
	if n == 0 {
		c.Ok(rule, "no sync.Pool use in the codec", "-", "codec functions allocate their own buffers")
	}
}

// ---- C05/eval-recover -------------------------------------------------------------------
// The optimizer runs candidate expressions on a private VM during Compile;
// that VM must have recovery enabled, otherwise a Go panic in the evaluated
// expression (stack overflow of a 2100-element literal ...) escapes Compile.
func ruleEvalRecover(c *Ctx, rule string) {
	l := c.L
	_, fVM := l.structField(modPath, "optimizerEval", "vm")
	setRec := l.Method(modPath, "VM", "SetRecover")
	if !c.Anchor(rule, "optimizerEval.vm / VM.SetRecover", fVM >= 0 && setRec != nil) {
		return
	}
	n := 0
	for _, fn := range l.RepoFuncs(func(pp string) bool { return pp == modPath }) {
		eachInstr(fn, func(ins ssa.Instruction) {
			st, ok := ins.(*ssa.Store)
			if !ok {
				return
			}
			if _, ok := isFieldAddrOf(st.Addr, modPath, "optimizerEval", fVM); !ok {
				return
			}
			if cst, ok := st.Val.(*ssa.Const); ok && cst.IsNil() {
				return
			}
			n++
			good := false
			if cl, ok := st.Val.(*ssa.Call); ok && cl.Call.StaticCallee() == setRec && len(cl.Call.Args) == 2 {
				if k, ok := cl.Call.Args[1].(*ssa.Const); ok && k.Value != nil && k.Value.String() == "true" {
					good = true
				}
			}
			c.Check(rule, fnName(fn)+" | evaluator VM", l.Pos(st.Pos()), good, "created with SetRecover(true)", "the optimizer's private VM is created without recovery: a Go panic while evaluating a constant expression escapes from Compile")
		})
	}
	if n == 0 {
		c.Und(rule, "evaluator VM", "-", "no assignment of the evaluator's VM found")
	}
}

// ---- C06/handler-nil --------------------------------------------------------------------
// Code reachable from the panic handler runs outside any recover.  A frame's
// function pointer is nil after clearCurrentFrame / unwinding; every
// dereference of frame.fn reachable from the handler must be nil-guarded.
func ruleHandlerNil(c *Ctx, rule string, vf *vmFacts) {
	l := c.L
	_, fFn := l.structField(modPath, "frame", "fn")
	if !c.Anchor(rule, "frame.fn", fFn >= 0) {
		return
	}
	// the handler: VM methods called from the recovering closure
	var roots []*ssa.Function
	for _, af := range vf.run.AnonFuncs {
		eachInstr(af, func(ins ssa.Instruction) {
			if cl, ok := ins.(*ssa.Call); ok {
				if f := cl.Call.StaticCallee(); f != nil && f.Signature.Recv() != nil && isNamed(f.Signature.Recv().Type(), modPath, "VM") {
					roots = append(roots, f)
				}
			}
		})
	}
	if !c.Anchor(rule, "panic handler called from the recovering closure", len(roots) > 0) {
		return
	}
	reach := staticReach(roots, func(f *ssa.Function) bool { return funcPkgPath(f) == modPath && len(f.Blocks) > 0 })
	n := 0
	for _, fn := range reach {
		eachInstr(fn, func(ins ssa.Instruction) {
			// a use of load(&frame.fn) as pointer base or method receiver
			var base ssa.Value
			switch x := ins.(type) {
			case *ssa.FieldAddr:
				base = x.X
			case ssa.CallInstruction:
				if f := x.Common().StaticCallee(); f != nil && f.Signature.Recv() != nil && len(x.Common().Args) > 0 && isNamed(f.Signature.Recv().Type(), modPath, "CompiledFunction") {
					base = x.Common().Args[0]
				}
			}
			if base == nil {
				return
			}
			u, ok := base.(*ssa.UnOp)
			if !ok || u.Op != token.MUL {
				return
			}
			if _, ok := isFieldAddrOf(u.X, modPath, "frame", fFn); !ok {
				return
			}
			n++
			guarded := false
			for _, g := range guardEdges(ins.Block()) {
				bo, ok := g.If.Cond.(*ssa.BinOp)
				if !ok {
					continue
				}
				for _, pr := range [][2]ssa.Value{{bo.X, bo.Y}, {bo.Y, bo.X}} {
					cst, ok := pr[1].(*ssa.Const)
					if !ok || !cst.IsNil() {
						continue
					}
					if pu, ok := pr[0].(*ssa.UnOp); ok && samePath(pu.X, u.X) {
						if (bo.Op == token.NEQ && g.Truth) || (bo.Op == token.EQL && !g.Truth) {
							guarded = true
						}
					}
				}
			}
			key := fmt.Sprintf("%s | deref of frame.fn", fnName(fn))
			c.Check(rule, key, l.Pos(ins.Pos()), guarded, "dominated by fn != nil", "a frame's function pointer is dereferenced without a nil test in code the panic handler reaches: after unwinding cleared it, the second panic happens outside any recover and escapes Run")
		})
	}
	c.extra["handler_reachable_functions"] = len(reach)
	if n == 0 {
		c.Ok(rule, "no dereference of frame.fn reachable from the handler", "-", "")
	}
}

// ---- C09/register-all --------------------------------------------------------------------
// Every child VM that acquire hands out is registered in the pool's map on
// every path (Abort reaches children only through that map).
func ruleRegisterAll(c *Ctx, rule string, pf *poolFacts) {
	l := c.L
	via := func(ins ssa.Instruction) bool {
		mu, ok := ins.(*ssa.MapUpdate)
		if !ok {
			return false
		}
		u, ok := mu.Map.(*ssa.UnOp)
		if !ok {
			return false
		}
		_, ok = isFieldAddrOf(u.X, modPath, "vmPool", pf.fVMs)
		return ok
	}
	_, ok := mustPassBefore(pf.acquire.Blocks[0].Instrs[0], viaDeep(via), isReturn)
	c.Check(rule, fnName(pf.acquire)+" | registers the child", l.Pos(pf.acquire.Pos()), ok, "vms[vm] is stored on every path", "a child VM can be handed out without being registered in the pool: Abort never reaches it and Run hangs while a Go callback executes a long script function on it")
	// and every creation path of a child goes through that function
	for _, ci := range l.StaticCallers(pf.acquire) {
		fn := ci.Parent()
		_, ok2 := mustPassBefore(fn.Blocks[0].Instrs[0], func(x ssa.Instruction) bool { return x == ssa.Instruction(ci) }, func(x ssa.Instruction) bool {
			r, ok := x.(*ssa.Return)
			if !ok || len(r.Results) == 0 {
				return false
			}
			cst, isC := r.Results[0].(*ssa.Const)
			return !(isC && cst.IsNil())
		})
		c.Check(rule, fnName(fn)+" | hands out only registered children", l.Pos(ci.Pos()), ok2, "every non-nil result passes the registering function", "a path returns a child VM that did not pass the registering function")
	}
}

// ---- C10/locals-verbatim, C10/globals-persist ----------------------------------------------
func ruleLocalsVerbatim(c *Ctx, rule string, vf *vmFacts) {
	l := c.L
	gl := l.Method(modPath, "VM", "GetLocals")
	fStack := vf.field("stack")
	if !c.Anchor(rule, "VM.GetLocals / VM.stack", gl != nil && fStack >= 0) {
		return
	}
	n := 0
	eachInstr(gl, func(ins ssa.Instruction) {
		cl, ok := ins.(*ssa.Call)
		if !ok {
			return
		}
		b, ok := cl.Call.Value.(*ssa.Builtin)
		if !ok || b.Name() != "append" {
			return
		}
		for _, e := range variadicElems(cl.Call.Args[1]) {
			n++
			good := false
			if u, ok := e.(*ssa.UnOp); ok && u.Op == token.MUL {
				if ia, ok := u.X.(*ssa.IndexAddr); ok {
					if derivesFrom(ia.X, func(v ssa.Value) bool {
						fa, ok := vf.isVMFieldAddr(v)
						return ok && fa.Field == fStack
					}, 4) {
						good = true
					}
				}
			}
			c.Check(rule, "VM.GetLocals | appended value", l.Pos(cl.Pos()), good, "the stack slot is copied verbatim (pointer boxes included)", "GetLocals hands out something other than the stack slot itself (e.g. the dereferenced value of a captured variable): the next fragment's top-level variable is split from the cell its closures captured")
		}
	})
	if n == 0 {
		c.Und(rule, "VM.GetLocals", l.Pos(gl.Pos()), "no append of stack slots found: shape not modelled")
	}
}

func ruleGlobalsPersist(c *Ctx, rule string) {
	l := c.L
	ne := l.Func(modPath, "NewEval")
	_, fG := l.structField(modPath, "Eval", "Globals")
	if !c.Anchor(rule, "NewEval / Eval.Globals", ne != nil && fG >= 0) {
		return
	}
	n := 0
	eachInstr(ne, func(ins ssa.Instruction) {
		st, ok := ins.(*ssa.Store)
		if !ok {
			return
		}
		if _, ok := isFieldAddrOf(st.Addr, modPath, "Eval", fG); !ok {
			return
		}
		n++
		// the stored value is never the possibly-nil parameter alone: a phi whose
		// parameter edge is taken only when the parameter is non-nil
		good := false
		switch v := st.Val.(type) {
		case *ssa.Phi:
			hasAlloc, paramGuarded := false, true
			for i, e := range v.Edges {
				if _, isP := e.(*ssa.Parameter); isP {
					// edge i comes from pred i: must be the non-nil side of a nil test
					pred := v.Block().Preds[i]
					ok := false
					if val, isNil, has := nilFact(pred, v.Block()); has && val == e && !isNil {
						ok = true
					}
					for _, g := range guardEdges(pred) {
						if bo, isB := g.If.Cond.(*ssa.BinOp); isB && (bo.X == e || bo.Y == e) {
							if (bo.Op == token.NEQ && g.Truth) || (bo.Op == token.EQL && !g.Truth) {
								ok = true
							}
						}
					}
					if !ok {
						paramGuarded = false
					}
				} else {
					hasAlloc = true
				}
			}
			good = hasAlloc && paramGuarded
		case *ssa.Parameter:
			good = false
		default:
			good = true
		}
		c.Check(rule, "NewEval | Eval.Globals", l.Pos(st.Pos()), good, "a nil globals argument is replaced by a map that the session keeps", "the session may keep nil globals: the VM then creates a fresh map on every fragment and globals written by one fragment are gone in the next")
	})
	if n == 0 {
		c.Und(rule, "NewEval | Eval.Globals", l.Pos(ne.Pos()), "no store to Eval.Globals found")
	}
}

// ---- C14/variadic-fresh ---------------------------------------------------------------------
// The variadic parameter of a function run from Go is bound to a fresh array
// (as the in-script call sequence does), never to a re-slice of the caller's
// argument slice.
func ruleVariadicFresh(c *Ctx, rule string, vf *vmFacts) {
	l := c.L
	var initLocals *ssa.Function
	for _, ci := range vf.Run.Blocks[0].Parent().Blocks {
		_ = ci
	}
	// the prologue helper that takes the args slice: static callee of Run with a []Object parameter
	for _, f := range staticReach([]*ssa.Function{vf.Run}, func(f *ssa.Function) bool {
		return funcPkgPath(f) == modPath && len(f.Blocks) > 0 && f != vf.run && f != vf.loop && !vf.reach[f]
	}) {
		if f == vf.Run || len(f.Params) != 2 {
			continue
		}
		if s, ok := f.Params[1].Type().Underlying().(*types.Slice); ok && isNamed(s.Elem(), modPath, "Object") {
			// the helper that copies the arguments into the locals
			storesArray := false
			eachInstr(f, func(ins ssa.Instruction) {
				if st, ok := ins.(*ssa.Store); ok {
					if mi, ok := st.Val.(*ssa.MakeInterface); ok && isNamed(mi.X.Type(), modPath, "Array") {
						storesArray = true
					}
				}
			})
			if storesArray {
				initLocals = f
			}
		}
	}
	if !c.Anchor(rule, "the prologue helper binding arguments to parameters", initLocals != nil) {
		return
	}
	args := initLocals.Params[1]
	n := 0
	eachInstr(initLocals, func(ins ssa.Instruction) {
		st, ok := ins.(*ssa.Store)
		if !ok {
			return
		}
		// a store of an Array (interface made from a slice) into the locals
		mi, ok := st.Val.(*ssa.MakeInterface)
		if !ok || !isNamed(mi.X.Type(), modPath, "Array") {
			return
		}
		n++
		aliases := false
		var walk func(v ssa.Value, d int)
		walk = func(v ssa.Value, d int) {
			if d > 6 {
				return
			}
			switch x := v.(type) {
			case *ssa.ChangeType:
				walk(x.X, d+1)
			case *ssa.Slice:
				if x.X == ssa.Value(args) {
					aliases = true
				}
				walk(x.X, d+1)
			case *ssa.Phi:
				for _, e := range x.Edges {
					walk(e, d+1)
				}
			case *ssa.Call:
				// append(fresh, src...) yields fresh storage when its first operand is fresh
				if b, ok := x.Call.Value.(*ssa.Builtin); ok && b.Name() == "append" {
					walk(x.Call.Args[0], d+1)
				}
			}
		}
		walk(mi.X, 0)
		c.Check(rule, fnName(initLocals)+" | variadic parameter array", l.Pos(st.Pos()), !aliases, "bound to freshly allocated storage", "the variadic parameter is bound to a re-slice of the caller's argument slice: a Go caller that reuses its argument buffer changes arrays the script kept")
	})
	if n == 0 {
		c.Und(rule, fnName(initLocals), l.Pos(initLocals.Pos()), "no Array store found: shape not modelled")
	}
}

// ---- C20/registry-dir, loop-cover ----------------------------------------------------------------
func ruleRegistryDir(c *Ctx, rule string) {
	l := c.L
	want := map[string]string{"ToObject": "ToObject", "ToObjectAlt": "ToObject", "ToInterface": "ToInterface"}
	for _, name := range []string{"ToObject", "ToObjectAlt", "ToInterface"} {
		fn := l.Func(modPath, name)
		if !c.Anchor(rule, "ugo."+name, fn != nil) {
			continue
		}
		var called []string
		// the function and the helpers split out of it (not the other conversion functions)
		seenFn := map[*ssa.Function]bool{}
		var scan func(g *ssa.Function, depth int)
		scan = func(g *ssa.Function, depth int) {
			if seenFn[g] {
				return
			}
			seenFn[g] = true
			eachInstr(g, func(ins ssa.Instruction) {
				ci, ok := ins.(ssa.CallInstruction)
				if !ok {
					return
				}
				f := ci.Common().StaticCallee()
				if f == nil || f.Pkg == nil {
					return
				}
				if f.Pkg.Pkg.Path() == modPath+"/registry" {
					called = append(called, f.Name())
				} else if f.Pkg.Pkg.Path() == modPath && depth < 2 && len(f.Blocks) > 0 && want[f.Name()] == "" {
					scan(f, depth+1)
				}
			})
		}
		scan(fn, 0)
		good := len(called) > 0
		for _, x := range called {
			if x != want[name] {
				good = false
			}
		}
		c.Check(rule, name+" | registry fallback", l.Pos(fn.Pos()), good, "falls back to registry."+want[name], fmt.Sprintf("%s consults registry.%v instead of registry.%s: registered Go types (time.Time, json.RawMessage ...) are rejected or converted by the wrong table", name, called, want[name]))
	}
}

// ruleLoopCover: in the container arms of the conversion functions every
// iteration of the element loop stores the converted element (or returns an
// error): no element is skipped.
func ruleLoopCover(c *Ctx, rule string) {
	l := c.L
	convNames := map[string]bool{"ToObject": true, "ToObjectAlt": true, "ToInterface": true}
	for _, name := range []string{"ToObject", "ToObjectAlt", "ToInterface"} {
		fn := l.Func(modPath, name)
		if fn == nil {
			continue
		}
		// element stores: MapUpdate / store through IndexAddr into a container
		// made in this function (or in a helper it calls: each function's
		// loops are judged in that function)
		eachInstrDeep(fn, 2, func(ins ssa.Instruction) {
			if host := ins.Parent(); host != fn && (convNames[host.Name()] || funcPkgPath(host) != modPath) {
				return
			}
			var isElemStore bool
			switch x := ins.(type) {
			case *ssa.MapUpdate:
				_, isElemStore = x.Map.(*ssa.MakeMap)
			case *ssa.Store:
				if ia, ok := x.Addr.(*ssa.IndexAddr); ok {
					_, isElemStore = ia.X.(*ssa.MakeSlice)
				}
			}
			if !isElemStore {
				return
			}
			b := ins.Block()
			// the loop header: nearest block on a cycle through b that dominates b
			// the loop header: the farthest dominator of b that b can reach again
			// (these functions have no nested loops: nesting is done by recursion)
			var header *ssa.BasicBlock
			for d := b.Idom(); d != nil; d = d.Idom() {
				if blockReaches(b, d) {
					header = d
				}
			}
			if header == nil {
				return
			}
			// body entry = the successor of header that reaches b
			var bodyEntry *ssa.BasicBlock
			for _, s := range header.Succs {
				if s == b || blockReaches(s, b) {
					if bodyEntry == nil || s.Dominates(b) {
						bodyEntry = s
					}
				}
			}
			offending := false
			seen := map[*ssa.BasicBlock]bool{}
			var walk func(x *ssa.BasicBlock)
			walk = func(x *ssa.BasicBlock) {
				if seen[x] || offending {
					return
				}
				seen[x] = true
				for _, i2 := range x.Instrs {
					if i2 == ins {
						return
					}
				}
				if _, isRet := x.Instrs[len(x.Instrs)-1].(*ssa.Return); isRet {
					return
				}
				for _, s := range x.Succs {
					if s == header {
						offending = true
						return
					}
					walk(s)
				}
			}
			if bodyEntry != nil {
				walk(bodyEntry)
			}
			where := name
			if host := ins.Parent(); host != fn {
				where = host.Name()
			}
			c.Check(rule, fmt.Sprintf("%s | element loop at %s", where, tstrOfStore(ins)), l.Pos(ins.Pos()), !offending, "every iteration stores the converted element or returns an error", "an iteration of the element loop can continue without storing the element: the result keeps a nil slot (not undefined) that panics when used")
		})
	}
}

func tstrOfStore(ins ssa.Instruction) string {
	switch x := ins.(type) {
	case *ssa.MapUpdate:
		return tstr(x.Map.Type())
	case *ssa.Store:
		if ia, ok := x.Addr.(*ssa.IndexAddr); ok {
			return tstr(ia.X.Type())
		}
	}
	return "?"
}

// ---- C09/ctx-precheck ------------------------------------------------------------------------
// While Run clears the abort flag at entry (known finding no-entry-clear), a
// cancellation that is already pending when the run goroutine is started is
// lost unless the context is tested before the goroutine is started.
func ruleCtxPrecheck(c *Ctx, rule string, vf *vmFacts) {
	l := c.L
	n := 0
	for _, fn := range l.RepoFuncs(func(pp string) bool { return pp == modPath || pp == modPath+"/cmd/ugo" }) {
		eachInstr(fn, func(ins ssa.Instruction) {
			g, ok := ins.(*ssa.Go)
			if !ok {
				return
			}
			// does the goroutine run a VM?
			var clo *ssa.Function
			if mc, ok := g.Call.Value.(*ssa.MakeClosure); ok {
				clo, _ = mc.Fn.(*ssa.Function)
			}
			if clo == nil {
				return
			}
			runs := false
			eachInstr(clo, func(x ssa.Instruction) {
				if ci, ok := x.(ssa.CallInstruction); ok && ci.Common().StaticCallee() == vf.Run {
					runs = true
				}
			})
			if !runs {
				return
			}
			// is there a context in play? (a select on ctx.Done() somewhere in fn)
			hasCtx := false
			var pre *ssa.Select
			eachInstr(fn, func(x ssa.Instruction) {
				sel, ok := x.(*ssa.Select)
				if !ok {
					return
				}
				for _, st := range sel.States {
					if cl, ok := st.Chan.(*ssa.Call); ok && cl.Call.IsInvoke() && cl.Call.Method.Name() == "Done" {
						hasCtx = true
						if !sel.Blocking && instrDominates(sel, g) {
							pre = sel
						}
					}
				}
			})
			// ... or the test lives in a predicate helper (`if contextDone(ctx) { return }`):
			// a call on the way to the go statement, of a function that makes a
			// non-blocking select on the Done() of its context parameter
			preHelper := false
			for _, ge := range guardEdges(g.Block()) {
				cl, ok := ge.If.Cond.(*ssa.Call)
				if !ok {
					continue
				}
				h := cl.Call.StaticCallee()
				if h == nil || len(h.Blocks) == 0 || !strings.HasPrefix(funcPkgPath(h), modPath) {
					continue
				}
				eachInstr(h, func(x ssa.Instruction) {
					sel, ok := x.(*ssa.Select)
					if !ok || sel.Blocking {
						return
					}
					for _, st := range sel.States {
						if dc, ok := st.Chan.(*ssa.Call); ok && dc.Call.IsInvoke() && dc.Call.Method.Name() == "Done" {
							if _, isParam := dc.Call.Value.(*ssa.Parameter); isParam {
								preHelper = true
								hasCtx = true
							}
						}
					}
				})
			}
			if !hasCtx {
				return
			}
			n++
			c.Check(rule, fnName(fn)+" | go VM.Run", l.Pos(g.Pos()), pre != nil || preHelper, "a non-blocking select on ctx.Done() dominates the start of the run goroutine", "the run goroutine is started without first testing the context: with Run clearing the abort flag at entry, a cancellation that is already pending is erased and the script never stops")
		})
	}
	if n == 0 {
		c.Ok(rule, "no goroutine starts VM.Run under a context", "-", "")
	}
}

// ---- C11/own-storage --------------------------------------------------------------------------
// The converted instruction stream stored into a function must be storage the
// conversion of THAT function built, not a buffer handed in from outside.
func ruleOwnStorage(c *Ctx, rule string, conv *ssa.Function, others ...*ssa.Function) {
	l := c.L
	_, fInst := l.structField(modPath, "CompiledFunction", "Instructions")
	n := 0
	fns := append([]*ssa.Function{conv}, others...)
	seenFn := map[*ssa.Function]bool{}
	for _, fn := range fns {
		if fn == nil || seenFn[fn] {
			continue
		}
		seenFn[fn] = true
		eachInstr(fn, func(ins ssa.Instruction) {
			st, ok := ins.(*ssa.Store)
			if !ok {
				return
			}
			if _, ok := isFieldAddrOf(st.Addr, modPath, "CompiledFunction", fInst); !ok {
				return
			}
			n++
			// walk the append / slice chain to its roots: every root must be
			// storage made by this function (nil, make, a local array); anything
			// else (a parameter, a field, a map entry, a call result) is shared
			foreign := false
			seen := map[ssa.Value]bool{}
			var walk func(v ssa.Value, d int)
			walk = func(v ssa.Value, d int) {
				if v == nil || seen[v] {
					return
				}
				if d > 12 {
					foreign = true
					return
				}
				seen[v] = true
				switch x := v.(type) {
				case *ssa.Const, *ssa.MakeSlice, *ssa.Alloc:
				case *ssa.ChangeType:
					walk(x.X, d+1)
				case *ssa.Convert:
					// []byte(string) allocates
				case *ssa.Slice:
					walk(x.X, d+1)
				case *ssa.Phi:
					for _, e := range x.Edges {
						walk(e, d+1)
					}
				case *ssa.Call:
					if b, ok := x.Call.Value.(*ssa.Builtin); ok && b.Name() == "append" {
						walk(x.Call.Args[0], d+1)
					} else {
						foreign = true
					}
				case *ssa.UnOp:
					// loaded from memory that is not a local: shared
					if _, isLocal := x.X.(*ssa.Alloc); !isLocal {
						foreign = true
					}
				default:
					foreign = true
				}
			}
			walk(st.Val, 0)
			c.Check(rule, fnName(fn)+" | cf.Instructions = ...", l.Pos(st.Pos()), !foreign, "the new stream is built from storage local to this conversion", "the converted instructions alias storage that comes from outside this conversion (a shared scratch buffer, a cache entry, another function's stream): two functions share one stream, or converting the next function overwrites the code of this one, and the source map of the second is not re-keyed")
		})
	}
	if n == 0 {
		c.Und(rule, fnName(conv), l.Pos(conv.Pos()), "the converter does not store new instructions")
	}
}

// ---- C12/fork-parent -----------------------------------------------------------------------------
// Every compiler fork records its parent on every path: the cyclic-import
// check walks that chain.
func ruleForkParent(c *Ctx, rule string) {
	l := c.L
	fork := l.Method(modPath, "Compiler", "fork")
	if !c.Anchor(rule, "Compiler.fork", fork != nil) {
		return
	}
	_, ok := mustPassBefore(fork.Blocks[0].Instrs[0], storesStructField(l, modPath, "Compiler", "parent"), isReturn)
	c.Check(rule, "Compiler.fork", l.Pos(fork.Pos()), ok, "child.parent is stored on every path", "a forked compiler can lack its parent link: the cyclic-import check, which walks the chain of importing compilers, misses cycles that pass through it (every edge of the cycle inside a function literal) and compilation recurses until the Go stack is exhausted")
	// and the stored parent is the receiver
	_, fParent := l.structField(modPath, "Compiler", "parent")
	eachInstr(fork, func(ins ssa.Instruction) {
		if st, ok := ins.(*ssa.Store); ok {
			if _, ok := isFieldAddrOf(st.Addr, modPath, "Compiler", fParent); ok {
				c.Check(rule, "Compiler.fork | parent = receiver", l.Pos(st.Pos()), st.Val == ssa.Value(fork.Params[0]), "the parent link is the forking compiler", "the parent link is not the forking compiler")
			}
		}
	})
}

// ---- operand-decode (C05, C12) ----------------------------------------------------------------------
// Every multi-byte operand the VM reads from the instruction stream is
// assembled big-endian from adjacent bytes: byte at ip+k unshifted, ip+k-1
// shifted by 8, (ip+k-2 by 16, ip+k-3 by 24).
func ruleOperandDecode(c *Ctx, rule string, vf *vmFacts, onlyArm string) {
	l := c.L
	fCur := vf.field("curInsts")
	type leaf struct {
		off   int64
		shift int64
	}
	n := 0
	scope := append([]*ssa.Function{}, vf.reachFns...)
	if ro := l.Func(modPath, "ReadOperands"); ro != nil {
		scope = append(scope, ro)
	}
	seenFn := map[*ssa.Function]bool{}
	perFn := map[*ssa.Function]int{}
	for _, fn := range scope {
		if funcPkgPath(fn) != modPath || seenFn[fn] {
			continue
		}
		seenFn[fn] = true
		// OR-trees: roots are BinOp OR not used as operand of another OR
		isOr := func(v ssa.Value) (*ssa.BinOp, bool) {
			bo, ok := v.(*ssa.BinOp)
			return bo, ok && bo.Op == token.OR
		}
		eachInstr(fn, func(ins ssa.Instruction) {
			root, ok := isOr(insValue(ins))
			if !ok {
				return
			}
			if root.Referrers() != nil {
				for _, r := range *root.Referrers() {
					if rb, ok := r.(*ssa.BinOp); ok && rb.Op == token.OR {
						return // not a root
					}
				}
			}
			var leaves []leaf
			var bases []ssa.Value
			okTree := true
			var collect func(v ssa.Value)
			collect = func(v ssa.Value) {
				if bo, ok := isOr(v); ok {
					collect(bo.X)
					collect(bo.Y)
					return
				}
				shift := int64(0)
				if bo, ok := v.(*ssa.BinOp); ok && bo.Op == token.SHL {
					k, ok := constInt64(bo.Y)
					if !ok {
						okTree = false
						return
					}
					shift, v = k, bo.X
				}
				cv, ok := v.(*ssa.Convert)
				if !ok {
					okTree = false
					return
				}
				u, ok := cv.X.(*ssa.UnOp)
				if !ok {
					okTree = false
					return
				}
				ia, ok := u.X.(*ssa.IndexAddr)
				if !ok {
					okTree = false
					return
				}
				// base must be a byte slice: vm.curInsts or a []byte parameter (ReadOperands)
				if sl, ok := ia.X.Type().Underlying().(*types.Slice); !ok || !types.Identical(sl.Elem().Underlying(), types.Typ[types.Uint8]) {
					okTree = false
					return
				}
				if bu, ok := ia.X.(*ssa.UnOp); ok {
					if fa, ok := vf.isVMFieldAddr(bu.X); !ok || fa.Field != fCur {
						okTree = false
						return
					}
				} else if _, isParam := ia.X.(*ssa.Parameter); !isParam {
					okTree = false
					return
				}
				if !types.Identical(cv.X.Type().Underlying(), types.Typ[types.Uint8]) {
					okTree = false
					return
				}
				// index = base + k (k = 0 when the index is not a sum with a constant:
				// `ip+off` next to `ip+off+1` in a helper that takes the operand's offset)
				off := int64(0)
				var base ssa.Value = ia.Index
				if ab, ok := ia.Index.(*ssa.BinOp); ok && ab.Op == token.ADD {
					if k, ok := constInt64(ab.Y); ok {
						off, base = k, ab.X
					}
				}
				leaves = append(leaves, leaf{off, shift})
				bases = append(bases, base)
			}
			collect(root)
			if !okTree || len(leaves) < 2 {
				return
			}
			// one common base: either all offsets are relative to the same value, or the
			// offset-0 leaf's index IS that value (ip+off / (ip+off)+1)
			var common ssa.Value
			for i, lf := range leaves {
				if lf.off != 0 {
					common = bases[i]
				}
			}
			var eqBase func(a, b ssa.Value, d int) bool
			eqBase = func(a, b ssa.Value, d int) bool {
				if a == b || exprEq(a, b) {
					return true
				}
				if d > 3 {
					return false
				}
				if ua, ok := a.(*ssa.UnOp); ok {
					if ub, ok := b.(*ssa.UnOp); ok && ua.Op == token.MUL && ub.Op == token.MUL {
						return samePath(ua.X, ub.X) // two reads of the same field in one expression
					}
				}
				if ba, ok := a.(*ssa.BinOp); ok {
					if bb, ok := b.(*ssa.BinOp); ok && ba.Op == bb.Op {
						return eqBase(ba.X, bb.X, d+1) && eqBase(ba.Y, bb.Y, d+1)
					}
				}
				return false
			}
			for i := range leaves {
				if common != nil && !eqBase(bases[i], common, 0) {
					return // not an assembly of adjacent bytes of one stream position: another rule's business
				}
			}
			n++
			perFn[fn]++
			sort.Slice(leaves, func(i, j int) bool { return leaves[i].shift < leaves[j].shift })
			good := len(leaves) == 2 || len(leaves) == 4
			for i, lf := range leaves {
				if lf.shift != int64(8*i) || lf.off != leaves[0].off-int64(i) {
					good = false
				}
			}
			var ds []string
			for _, lf := range leaves {
				ds = append(ds, fmt.Sprintf("ip+%d<<%d", lf.off, lf.shift))
			}
			c.Check(rule, fmt.Sprintf("%s | operand %s", fnName(fn), strings.Join(ds, "|")), l.Pos(root.Pos()), good, "big-endian assembly of adjacent bytes", "a multi-byte operand is assembled from the instruction stream with a wrong shift or offset ("+strings.Join(ds, " | ")+"): operands above 255 decode to a different value than the compiler encoded (e.g. module index 256 stored into another module's cache slot)")
		})
	}
	if n == 0 {
		c.Und(rule, "operand decoding", "-", "no multi-byte operand decode found in the VM")
	}
	if ro := l.Func(modPath, "ReadOperands"); ro != nil {
		c.Check(rule, "ReadOperands assembles 2- and 4-byte operands from unsigned bytes", l.Pos(ro.Pos()), perFn[ro] >= 2, fmt.Sprintf("%d big-endian byte assemblies", perFn[ro]),
			"ReadOperands does not assemble its multi-byte operands from unsigned bytes in the big-endian order MakeInstruction writes (e.g. a signed 16-bit read turns jump targets >= 32768 negative)")
	}
}

func insValue(ins ssa.Instruction) ssa.Value {
	v, _ := ins.(ssa.Value)
	return v
}

// ---- C13/set-monotone ------------------------------------------------------------------------------
// The disabled set of an existing table only grows: a store that replaces the
// whole set is allowed only when the set is still nil (or on a brand-new table).
func ruleSetMonotone(c *Ctx, rule string, roles *symtabRoles) {
	l := c.L
	n := 0
	for _, fn := range l.RepoFuncs(func(pp string) bool { return pp == modPath }) {
		if fn == roles.reset {
			continue // reset preserves the map of the same table (whole-struct store)
		}
		eachInstr(fn, func(ins ssa.Instruction) {
			st, ok := ins.(*ssa.Store)
			if !ok {
				return
			}
			fa, ok := isFieldAddrOf(st.Addr, modPath, "SymbolTable", roles.fDisabled)
			if !ok {
				return
			}
			n++
			key := fmt.Sprintf("%s | disabledBuiltins = %s", fnName(fn), describe(st.Val))
			// brand-new table
			if cl, ok := fa.X.(*ssa.Call); ok && cl.Call.StaticCallee() == roles.newTable {
				c.Ok(rule, key, l.Pos(st.Pos()), "initialises a brand-new table")
				return
			}
			guarded := false
			for _, g := range guardEdges(st.Block()) {
				bo, ok := g.If.Cond.(*ssa.BinOp)
				if !ok {
					continue
				}
				for _, pr := range [][2]ssa.Value{{bo.X, bo.Y}, {bo.Y, bo.X}} {
					cst, ok := pr[1].(*ssa.Const)
					if !ok || !cst.IsNil() {
						continue
					}
					if u, ok := pr[0].(*ssa.UnOp); ok && samePath(u.X, fa) {
						if (bo.Op == token.EQL && g.Truth) || (bo.Op == token.NEQ && !g.Truth) {
							guarded = true
						}
					}
				}
			}
			c.Check(rule, key, l.Pos(st.Pos()), guarded, "the set is created only while it is still nil", "the disabled set of an existing table is replaced: names disabled earlier (by the host, or copied in for the optimizer's evaluator) are forgotten")
		})
	}
	if n == 0 {
		c.Und(rule, "stores to disabledBuiltins", "-", "none found")
	}
}

// ---- C17, C19 / json-panic-typed -----------------------------------------------------------------------
// Every explicit panic on the JSON encoding path carries the module's own
// error wrapper, which Marshal's recover turns into an error; any other value
// is re-panicked to the host.
func ruleJSONPanicTyped(c *Ctx, rule string) {
	l := c.L
	ms := l.Method(jsonPath, "encodeState", "marshal")
	if !c.Anchor(rule, "json.encodeState.marshal", ms != nil) {
		return
	}
	reach := staticReach([]*ssa.Function{ms}, func(f *ssa.Function) bool { return funcPkgPath(f) == jsonPath && len(f.Blocks) > 0 })
	// encoders are reached through function values: include every function with the encoder signature
	for _, fn := range l.RepoFuncs(func(pp string) bool { return pp == jsonPath }) {
		if len(fn.Params) == 3 && isNamed(fn.Params[0].Type(), jsonPath, "encodeState") {
			reach = append(reach, staticReach([]*ssa.Function{fn}, func(f *ssa.Function) bool { return funcPkgPath(f) == jsonPath && len(f.Blocks) > 0 })...)
		}
	}
	seen := map[*ssa.Function]bool{}
	n := 0
	for _, fn := range reach {
		if seen[fn] {
			continue
		}
		seen[fn] = true
		if fn.Parent() == ms {
			continue // the recovering closure re-panics foreign values by design
		}
		eachInstr(fn, func(ins ssa.Instruction) {
			p, ok := ins.(*ssa.Panic)
			if !ok || !p.Pos().IsValid() {
				return
			}
			n++
			vt := p.X.Type()
			if mi, ok := p.X.(*ssa.MakeInterface); ok {
				vt = mi.X.Type()
			}
			c.Check(rule, fmt.Sprintf("%s | panic(%s)", fnName(fn), tstr(vt)), l.Pos(p.Pos()), isNamed(vt, jsonPath, "jsonError"), "panics with the wrapper Marshal recovers", "an encoder panics with a value that is not the module's jsonError wrapper: Marshal's recover re-panics it and the host (or the VM) sees a Go panic instead of an error")
		})
	}
	if n == 0 {
		c.Und(rule, "json encode path", "-", "no explicit panic found (the error helper is expected)")
	}
}

// ---- C19/args-direct ---------------------------------------------------------------------------------------
// The argument slices of Call are indexed only inside Call's own methods
// (Get, shift, ...), whose callers are covered by get-bound.
func ruleArgsDirect(c *Ctx, rule string) {
	l := c.L
	_, fArgs := l.structField(modPath, "Call", "args")
	_, fVargs := l.structField(modPath, "Call", "vargs")
	if !c.Anchor(rule, "Call.args / Call.vargs", fArgs >= 0 && fVargs >= 0) {
		return
	}
	n := 0
	for _, fn := range l.RepoFuncs(isLibPkg) {
		g := fn
		for g.Parent() != nil {
			g = g.Parent()
		}
		own := g.Signature.Recv() != nil && isNamed(g.Signature.Recv().Type(), modPath, "Call")
		eachInstr(fn, func(ins ssa.Instruction) {
			var base ssa.Value
			switch x := ins.(type) {
			case *ssa.IndexAddr:
				base = x.X
			case *ssa.Index:
				base = x.X
			default:
				return
			}
			u, ok := base.(*ssa.UnOp)
			if !ok {
				return
			}
			fa, ok := u.X.(*ssa.FieldAddr)
			if !ok || !(fa.Field == fArgs || fa.Field == fVargs) {
				return
			}
			if pt, ok := fa.X.Type().Underlying().(*types.Pointer); !ok || !isNamed(pt.Elem(), modPath, "Call") {
				return
			}
			n++
			c.Check(rule, fnName(fn)+" | index into Call arguments", l.Pos(ins.Pos()), own, "inside a method of Call", "the argument slices of a Call are indexed directly instead of through Get/shift: with all arguments arriving through a spread array (args empty, vargs full) the index is out of range")
		})
	}
	if n == 0 {
		c.Und(rule, "Call argument slices", "-", "no indexing of Call.args / Call.vargs found")
	}
}

// ---- C15/pure-operands ----------------------------------------------------------------------------------------
// In every arithmetic, bitwise and shift cell the Go operator is applied to
// the operands themselves (or conversions of them), not to a masked or
// otherwise adjusted operand.
func impureOperand(info *types.Info, x ast.Expr) bool {
	for {
		x = ast.Unparen(x)
		if call, ok := x.(*ast.CallExpr); ok && len(call.Args) == 1 {
			if tv, ok := info.Types[call.Fun]; ok && tv.IsType() {
				x = call.Args[0]
				continue
			}
		}
		break
	}
	switch x.(type) {
	case *ast.BinaryExpr, *ast.UnaryExpr:
		return true // the operand is computed from the value before the operator is applied
	}
	return false
}

// allReturnsDecline: at least one return is reachable from blk, every such
// return has the constant false as its second result, and `avoid` is not
// reachable from blk.
func allReturnsDecline(blk, avoid *ssa.BasicBlock) bool {
	seen := map[*ssa.BasicBlock]bool{blk: true}
	work := []*ssa.BasicBlock{blk}
	n := 0
	for len(work) > 0 {
		x := work[len(work)-1]
		work = work[:len(work)-1]
		if x == avoid {
			return false
		}
		if r, ok := x.Instrs[len(x.Instrs)-1].(*ssa.Return); ok {
			n++
			if len(r.Results) != 2 {
				return false
			}
			k, ok := r.Results[1].(*ssa.Const)
			if !ok || k.Value == nil || k.Value.Kind() != constant.Bool || constant.BoolVal(k.Value) {
				return false
			}
		}
		for _, s := range x.Succs {
			if !seen[s] {
				seen[s] = true
				work = append(work, s)
			}
		}
	}
	return n > 0
}
