package main

import (
	"fmt"
	"go/token"
	"go/types"

	"golang.org/x/tools/go/ssa"
)

// Engine B: guard / sink analysis on SSA.

// ruleArithGuard: every integer / and % has a dominating proof that the
// divisor is non-zero; every shift by a signed count has a dominating proof
// that the count is non-negative.  Go panics otherwise.
func ruleArithGuard(c *Ctx, rule string, fns []*ssa.Function) {
	pb := ptrBitsOf(c.L)
	for _, fn := range fns {
		eachInstr(fn, func(ins ssa.Instruction) {
			bo, ok := ins.(*ssa.BinOp)
			if !ok {
				return
			}
			switch bo.Op {
			case token.QUO, token.REM:
				if _, _, isInt := isIntegerType(bo.X.Type()); !isInt {
					return
				}
				if _, isConst := bo.Y.(*ssa.Const); isConst {
					r := valueRange(bo.Y, pb, 0)
					if r.nonZero() {
						return // constant non-zero divisor: not an obligation
					}
				}
				key := fmt.Sprintf("%s | %s %s by %s", fnName(fn), bo.Op, tstr(bo.X.Type()), describe(bo.Y))
				r := rangeAt(bo.Y, bo.Block(), pb)
				c.Check(rule, key, c.L.Pos(bo.Pos()), r.nonZero(),
					"divisor proven non-zero by a dominating comparison",
					"integer "+bo.Op.String()+" whose divisor is not proven non-zero on every path: Go panics (integer divide by zero) instead of the documented error")
			case token.SHL, token.SHR:
				signed, _, isInt := isIntegerType(bo.Y.Type())
				if !isInt || !signed {
					return
				}
				if _, isConst := bo.Y.(*ssa.Const); isConst {
					if valueRange(bo.Y, pb, 0).nonNeg() {
						return
					}
				}
				key := fmt.Sprintf("%s | %s %s by %s", fnName(fn), bo.Op, tstr(bo.X.Type()), describe(bo.Y))
				r := rangeAt(bo.Y, bo.Block(), pb)
				c.Check(rule, key, c.L.Pos(bo.Pos()), r.nonNeg(),
					"shift count proven non-negative by a dominating comparison",
					"shift by a signed count that is not proven non-negative on every path: Go panics (negative shift amount)")
			}
		})
	}
}

// assertGuarded reports whether a non-comma-ok type assertion is dominated by
// a successful comma-ok test or type-switch arm of the same value and type.
func assertGuarded(ta *ssa.TypeAssert) bool {
	b := ta.Block()
	for _, g := range guardEdges(b) {
		if !g.Truth {
			continue
		}
		// cond is extract #1 of a comma-ok TypeAssert of the same value and type
		ex, ok := g.If.Cond.(*ssa.Extract)
		if !ok || ex.Index != 1 {
			continue
		}
		t2, ok := ex.Tuple.(*ssa.TypeAssert)
		if !ok || !t2.CommaOk {
			continue
		}
		if sameMem(t2.X, ta.X) && types.Identical(t2.AssertedType, ta.AssertedType) {
			return true
		}
		// asserting to an interface the tested concrete type implements
		if it, ok := ta.AssertedType.Underlying().(*types.Interface); ok && sameMem(t2.X, ta.X) {
			if types.Implements(t2.AssertedType, it) {
				return true
			}
		}
	}
	return false
}
