package main

import (
	"fmt"
	"go/token"
	"go/types"
	"sort"
	"strings"

	"golang.org/x/tools/go/ssa"
)

// Engine B: guard / sink analysis on SSA.

// ruleArithGuard: every integer / and % has a dominating proof that the
// divisor is non-zero; every shift by a signed count has a dominating proof
// that the count is non-negative.  Go panics otherwise.
func ruleArithGuard(c *Ctx, rule string, fns []*ssa.Function) {
	pb := ptrBitsOf(c.L)
	for _, fn := range fns {
		eachInstr(fn, func(ins ssa.Instruction) {
			bo, ok := ins.(*ssa.BinOp)
			if !ok {
				return
			}
			switch bo.Op {
			case token.QUO, token.REM:
				if _, _, isInt := isIntegerType(bo.X.Type()); !isInt {
					return
				}
				if _, isConst := bo.Y.(*ssa.Const); isConst {
					r := valueRange(bo.Y, pb, 0)
					if r.nonZero() {
						return // constant non-zero divisor: not an obligation
					}
				}
				key := fmt.Sprintf("%s | %s %s by %s", fnName(ownerFn(c.L, fn)), bo.Op, tstr(bo.X.Type()), describe(c.L.paramArg(bo.Y)))
				r := rangeAt(bo.Y, bo.Block(), pb)
				c.Check(rule, key, c.L.Pos(bo.Pos()), r.nonZero(),
					"divisor proven non-zero by a dominating comparison",
					"integer "+bo.Op.String()+" whose divisor is not proven non-zero on every path: Go panics (integer divide by zero) instead of the documented error")
			case token.SHL, token.SHR:
				signed, _, isInt := isIntegerType(bo.Y.Type())
				if !isInt || !signed {
					return
				}
				if _, isConst := bo.Y.(*ssa.Const); isConst {
					if valueRange(bo.Y, pb, 0).nonNeg() {
						return
					}
				}
				key := fmt.Sprintf("%s | %s %s by %s", fnName(ownerFn(c.L, fn)), bo.Op, tstr(bo.X.Type()), describe(c.L.paramArg(bo.Y)))
				r := rangeAt(bo.Y, bo.Block(), pb)
				c.Check(rule, key, c.L.Pos(bo.Pos()), r.nonNeg(),
					"shift count proven non-negative by a dominating comparison",
					"shift by a signed count that is not proven non-negative on every path: Go panics (negative shift amount)")
			}
		})
	}
}

// assertGuarded reports whether a non-comma-ok type assertion is dominated by
// a successful comma-ok test or type-switch arm of the same value and type.
func assertGuarded(ta *ssa.TypeAssert) bool {
	b := ta.Block()
	for _, g := range guardEdges(b) {
		if !g.Truth {
			continue
		}
		// cond is extract #1 of a comma-ok TypeAssert of the same value and type
		ex, ok := g.If.Cond.(*ssa.Extract)
		if !ok || ex.Index != 1 {
			continue
		}
		t2, ok := ex.Tuple.(*ssa.TypeAssert)
		if !ok || !t2.CommaOk {
			continue
		}
		if sameMem(t2.X, ta.X) && types.Identical(t2.AssertedType, ta.AssertedType) {
			return true
		}
		// asserting to an interface the tested concrete type implements
		if it, ok := ta.AssertedType.Underlying().(*types.Interface); ok && sameMem(t2.X, ta.X) {
			if types.Implements(t2.AssertedType, it) {
				return true
			}
		}
	}
	return false
}

// ---- decode-path sinks (C18, C11) ---------------------------------------------------

const allocConstCap = 1 << 20 // a constant bound up to 1 Mi elements counts as bounded

// isInputLen: v is a quantity bounded by the size of the input already held in
// memory: len/cap of a value, Len() of a bytes/strings reader or buffer, or a
// value whose own range is constant-bounded.
func isInputLen(v ssa.Value, ptrBits int) bool {
	return isInputLenD(v, ptrBits, 0)
}

func isInputLenD(v ssa.Value, ptrBits, d int) bool {
	if d > 6 {
		return false
	}
	v = stripChangeOnly(v)
	switch x := v.(type) {
	case *ssa.Call:
		if bi, ok := x.Call.Value.(*ssa.Builtin); ok && (bi.Name() == "len" || bi.Name() == "cap" || bi.Name() == "copy") {
			return true
		}
		name := ""
		if f := x.Call.StaticCallee(); f != nil {
			name = f.Name()
		} else if x.Call.IsInvoke() {
			name = x.Call.Method.Name()
		}
		// the size of something already held in memory
		switch name {
		case "Len", "RuneCount", "RuneCountInString", "Cap":
			return true
		}
	case *ssa.Convert:
		return isInputLenD(x.X, ptrBits, d+1)
	case *ssa.BinOp:
		switch x.Op {
		case token.QUO, token.SUB, token.SHR, token.ADD, token.MUL, token.SHL:
			if k, ok := constInt64(x.Y); ok && k >= 0 && k <= allocConstCap {
				return isInputLenD(x.X, ptrBits, d+1)
			}
			if k, ok := constInt64(x.X); ok && k >= 0 && k <= allocConstCap && (x.Op == token.ADD || x.Op == token.MUL) {
				return isInputLenD(x.Y, ptrBits, d+1)
			}
			if x.Op == token.ADD || x.Op == token.SUB {
				// sum / difference of two in-memory sizes
				if x.Op == token.ADD && isInputLenD(x.X, ptrBits, d+1) && isInputLenD(x.Y, ptrBits, d+1) {
					return true
				}
				if x.Op == token.SUB && isInputLenD(x.X, ptrBits, d+1) {
					if r := valueRange(x.Y, ptrBits, 0); r.lo >= 0 {
						return true
					}
					if p, ok := x.Y.(*ssa.Parameter); ok && paramAlwaysNonNegConst(p) {
						return true
					}
				}
			}
		}
	case *ssa.Phi:
		for _, e := range x.Edges {
			if e != v && !isInputLenD(e, ptrBits, d+1) {
				return false
			}
		}
		return len(x.Edges) > 0
	}
	if r := valueRange(v, ptrBits, 0); r.hi <= allocConstCap {
		return true
	}
	return false
}

func sizeBounded(v ssa.Value, r ival, ptrBits int) bool {
	if isInputLen(v, ptrBits) {
		return true
	}
	if r.hi <= allocConstCap {
		return true
	}
	for _, u := range r.symHi {
		if isInputLen(u, ptrBits) {
			return true
		}
	}
	return false
}

// lenFacts collects what the guards dominating b say about len(x).
func lenFacts(x ssa.Value, b *ssa.BasicBlock, ptrBits int) (lo int64, symLo []ssa.Value, symLoStrict []ssa.Value) {
	// length known by construction
	switch m := stripChangeOnly(x).(type) {
	case *ssa.MakeSlice:
		r := rangeAt(m.Len, b, ptrBits)
		if r.lo > lo {
			lo = r.lo
		}
		symLo = append(symLo, m.Len)
	case *ssa.Slice:
		// s[:h] has length h - low; only the simple s[:h] form is used
		if m.Low == nil && m.High == nil && m.Max == nil {
			return lenFacts(m.X, b, ptrBits)
		}
		if m.High == nil && m.Max == nil && m.Low != nil {
			if k, ok := constInt64(m.Low); ok && k >= 0 {
				xl, _, _ := lenFacts(m.X, b, ptrBits)
				if xl-k > lo {
					lo = xl - k
				}
			}
		}
		if m.Low == nil && m.High != nil {
			if _, isStr := m.X.Type().Underlying().(*types.Basic); !isStr {
				r := rangeAt(m.High, b, ptrBits)
				if r.lo > lo {
					lo = r.lo
				}
				symLo = append(symLo, m.High)
			}
		}
	}
	if pt, ok := x.Type().Underlying().(*types.Pointer); ok {
		if at, ok := pt.Elem().Underlying().(*types.Array); ok {
			return at.Len(), nil, nil
		}
	}
	if at, ok := x.Type().Underlying().(*types.Array); ok {
		return at.Len(), nil, nil
	}
	for _, g := range guardEdges(b) {
		bo, ok := g.If.Cond.(*ssa.BinOp)
		if !ok {
			continue
		}
		op := bo.Op
		var other ssa.Value
		if isLenOf(bo.X, x) {
			other = bo.Y
		} else if isLenOf(bo.Y, x) {
			other = bo.X
			op = flipOp(op)
		} else {
			continue
		}
		if !g.Truth {
			op = negOp(op)
		}
		// now: len(x) op other
		if k, ok := constInt64(other); ok {
			switch op {
			case token.GEQ, token.EQL:
				if k > lo {
					lo = k
				}
			case token.GTR:
				if k+1 > lo {
					lo = k + 1
				}
			case token.NEQ:
				if k == 0 && lo < 1 {
					lo = 1
				}
			}
			continue
		}
		switch op {
		case token.GEQ, token.EQL:
			symLo = append(symLo, other)
		case token.GTR:
			symLo = append(symLo, other)
			symLoStrict = append(symLoStrict, other)
		}
	}
	for _, e := range symLo {
		if r := rangeAt(e, b, ptrBits); r.lo > lo {
			lo = r.lo
		}
	}
	for _, e := range symLoStrict {
		if r := rangeAt(e, b, ptrBits); r.lo != posInf && r.lo+1 > lo {
			lo = r.lo + 1
		}
	}
	return
}

func isLenOf(v, x ssa.Value) bool {
	c, ok := stripChangeOnly(v).(*ssa.Call)
	if !ok {
		return false
	}
	bi, ok := c.Call.Value.(*ssa.Builtin)
	return ok && bi.Name() == "len" && exprEq(c.Call.Args[0], x)
}

// boundWithin reports whether bound <= len(x) (strict: bound < len(x)) is
// established at block b.
func boundWithin(bound, x ssa.Value, b *ssa.BasicBlock, ptrBits int, strict bool) bool {
	lo, symLo, symLoStrict := lenFacts(x, b, ptrBits)
	br := rangeAt(bound, b, ptrBits)
	if br.hi != posInf {
		if (!strict && br.hi <= lo) || (strict && br.hi < lo) {
			return true
		}
	}
	isLenBound := func(u ssa.Value, strictLen bool) bool {
		if isLenOf(u, x) {
			return true
		}
		ls := symLo
		if strictLen {
			ls = symLoStrict
		}
		for _, e := range ls {
			if exprEq(e, u) {
				return true
			}
		}
		return false
	}
	if strict {
		for _, e := range symLoStrict {
			if exprEq(e, bound) {
				return true
			}
		}
		for _, u := range br.symHiStrict {
			if isLenBound(u, false) {
				return true
			}
		}
		for _, u := range br.symHi {
			if isLenBound(u, true) {
				return true
			}
		}
		return false
	}
	for _, e := range symLo {
		if exprEq(e, bound) {
			return true
		}
	}
	for _, u := range br.symHi {
		if isLenBound(u, false) {
			return true
		}
	}
	// bound = A + B with B <= u known and A + u == len(x) as linear forms
	if bo, ok := stripChangeOnly(bound).(*ssa.BinOp); ok && bo.Op == token.ADD {
		for _, p := range [][2]ssa.Value{{bo.X, bo.Y}, {bo.Y, bo.X}} {
			a, bb := p[0], p[1]
			for _, u := range rangeAt(bb, b, ptrBits).symHi {
				// find a len(x) expression among u's atoms: build len(x) from any len call in u
				var lenCall ssa.Value
				var f linForm
				linOf(u, 1, &f, 0)
				for _, at := range f.atoms {
					if isLenOf(at, x) {
						lenCall = at
					}
				}
				if lenCall != nil && linSumEquals(a, u, lenCall) {
					return true
				}
			}
		}
	}
	// bound = v + 1 with v < len(x)
	if bo, ok := stripChangeOnly(bound).(*ssa.BinOp); ok && bo.Op == token.ADD {
		for _, p := range [][2]ssa.Value{{bo.X, bo.Y}, {bo.Y, bo.X}} {
			if k, ok := constInt64(p[1]); ok && k == 1 {
				tr := typeRange(bound.Type(), ptrBits)
				if vr := rangeAt(p[0], b, ptrBits); vr.hi < tr.hi || len(vr.symHiStrict) > 0 {
					if boundWithin(p[0], x, b, ptrBits, true) {
						return true
					}
				}
			}
		}
	}
	return false
}

// lowLeHigh: low <= high established (no wrap-around).
func lowLeHigh(low, high ssa.Value, b *ssa.BasicBlock, ptrBits int) bool {
	lr, hr := rangeAt(low, b, ptrBits), rangeAt(high, b, ptrBits)
	if lr.hi != posInf && lr.hi <= hr.lo {
		return true
	}
	for _, u := range lr.symHi {
		if exprEq(u, high) {
			return true
		}
	}
	// high = low + c with c >= 0 and no overflow
	if bo, ok := stripChangeOnly(high).(*ssa.BinOp); ok && bo.Op == token.ADD {
		for _, p := range [][2]ssa.Value{{bo.X, bo.Y}, {bo.Y, bo.X}} {
			if exprEq(p[0], low) {
				cr := rangeAt(p[1], b, ptrBits)
				tr := typeRange(high.Type(), ptrBits)
				if cr.lo >= 0 && cr.hi != posInf && lr.hi != posInf {
					if s, ok := addSat(lr.hi, cr.hi); ok && s <= tr.hi {
						return true
					}
				}
			}
		}
	}
	return false
}

type sinkRules struct {
	assert, alloc, slice, index, panics string // rule ids ("" = not checked)
}

// scanSinks applies the decode-path sink rules to the given functions.
func scanSinks(c *Ctx, fns []*ssa.Function, sr sinkRules) {
	pb := ptrBitsOf(c.L)
	for _, fn := range fns {
		name := fnName(fn)
		eachInstr(fn, func(ins ssa.Instruction) {
			pos := c.L.Pos(ins.Pos())
			switch x := ins.(type) {
			case *ssa.TypeAssert:
				if sr.assert == "" || x.CommaOk {
					return
				}
				key := fmt.Sprintf("%s | %s.(%s)", name, describe(x.X), tstr(x.AssertedType))
				c.Check(sr.assert, key, pos, assertGuarded(x), "assertion dominated by a successful comma-ok test of the same value and type",
					"unchecked type assertion on a value whose dynamic type is decided by the input: panics (interface conversion) for a corrupted tag")
			case *ssa.MakeSlice:
				if sr.alloc == "" {
					return
				}
				for i, sz := range []ssa.Value{x.Len, x.Cap} {
					if _, isConst := sz.(*ssa.Const); isConst {
						continue
					}
					if i == 1 && x.Cap == x.Len {
						continue
					}
					which := "len"
					if i == 1 {
						which = "cap"
					}
					r := rangeAt(sz, x.Block(), pb)
					key := fmt.Sprintf("%s | make(%s) %s=%s", name, tstr(x.Type()), which, describe(sz))
					ok := (r.lo >= 0 || linGE0(sz, x.Block(), pb)) && (sizeBounded(sz, r, pb) || linLEConst(sz, allocConstCap, x.Block(), pb))
					det := fmt.Sprintf("size range [%s,%s]", showBound(r.lo), showBound(r.hi))
					c.Check(sr.alloc, key, pos, ok, "allocation size is non-negative and bounded by the input length or a constant: "+det,
						"allocation sized by a value that no dominating comparison bounds by the input length or a constant (or that may be negative): makeslice panics or memory is allocated out of proportion to the input; "+det)
				}
			case *ssa.MakeMap:
				if sr.alloc == "" || x.Reserve == nil {
					return
				}
				if _, isConst := x.Reserve.(*ssa.Const); isConst {
					return
				}
				r := rangeAt(x.Reserve, x.Block(), pb)
				key := fmt.Sprintf("%s | make(%s) hint=%s", name, tstr(x.Type()), describe(x.Reserve))
				det := fmt.Sprintf("size range [%s,%s]", showBound(r.lo), showBound(r.hi))
				c.Check(sr.alloc, key, pos, sizeBounded(x.Reserve, r, pb), "map size hint bounded by the input length or a constant: "+det,
					"map pre-sized by a value that no dominating comparison bounds by the input length or a constant: memory is allocated out of proportion to the input; "+det)
			case *ssa.Slice:
				if sr.slice == "" {
					return
				}
				if x.Low == nil && x.High == nil && x.Max == nil {
					return
				}
				b := x.Block()
				key := fmt.Sprintf("%s | %s[%s:%s]", name, describe(x.X), descOpt(x.Low), descOpt(x.High))
				var problems []string
				upper := x.High
				if x.Max != nil {
					upper = x.Max
				}
				if upper != nil {
					// for x[:h] on a slice the limit is cap(x) >= len(x): len is a sufficient bound
					if !boundWithin(upper, x.X, b, pb, false) && !linLELen(upper, x.X, b, pb, false) {
						problems = append(problems, "upper bound "+describe(upper)+" not proven <= len("+describe(x.X)+")")
					}
					if x.Low != nil && !lowLeHigh(x.Low, upper, b, pb) && !linLE(x.Low, upper, b, pb, false) {
						problems = append(problems, "low "+describe(x.Low)+" not proven <= high "+describe(upper)+" (wrap-around included)")
					}
					if x.Low == nil && rangeAt(upper, b, pb).lo < 0 && !linGE0(upper, b, pb) {
						problems = append(problems, "high "+describe(upper)+" not proven >= 0")
					}
				} else if x.Low != nil {
					if !boundWithin(x.Low, x.X, b, pb, false) && !callersEstablish(c, fn, x.X, x.Low, pb, false) && !linLELen(x.Low, x.X, b, pb, false) {
						problems = append(problems, "low bound "+describe(x.Low)+" not proven <= len("+describe(x.X)+")")
					}
				}
				if x.Low != nil && rangeAt(x.Low, b, pb).lo < 0 && !linGE0(x.Low, b, pb) {
					problems = append(problems, "low "+describe(x.Low)+" not proven >= 0")
				}
				c.Check(sr.slice, key, pos, len(problems) == 0, "slice bounds established by dominating comparisons", strings.Join(problems, "; ")+": slice bounds out of range panic for a hostile length")
			case *ssa.IndexAddr, *ssa.Index:
				if sr.index == "" {
					return
				}
				var base, idx ssa.Value
				switch y := x.(type) {
				case *ssa.IndexAddr:
					base, idx = y.X, y.Index
				case *ssa.Index:
					base, idx = y.X, y.Index
				}
				if isRangeIndex(idx) {
					return
				}
				b := ins.Block()
				key := fmt.Sprintf("%s | %s[%s]", name, describe(base), describe(idx))
				ir := rangeAt(idx, b, pb)
				ok := (ir.lo >= 0 || linGE0(idx, b, pb)) && (boundWithin(idx, base, b, pb, true) || callersEstablish(c, fn, base, idx, pb, true) || linLELen(idx, base, b, pb, true))
				c.Check(sr.index, key, pos, ok, "index proven inside the indexed value by dominating comparisons",
					"index "+describe(idx)+" not proven < len("+describe(base)+") (or >= 0): index out of range panic for a hostile input")
			case *ssa.Panic:
				if sr.panics == "" {
					return
				}
				c.Bad(sr.panics, fmt.Sprintf("%s | panic(%s)", name, describe(x.X)), pos, "explicit panic on the decode path")
			}
		})
	}
}

// isRangeIndex: idx is the induction variable of a `for i := range x` /
// `for i := 0; i < len(x); i++` loop over the indexed value (established by
// the loop condition, which guardEdges cannot see through the back edge phi).
func isRangeIndex(idx ssa.Value) bool {
	return false
}

func showBound(v int64) string {
	switch v {
	case negInf:
		return "-inf"
	case posInf:
		return "+inf"
	}
	return fmt.Sprint(v)
}

func descOpt(v ssa.Value) string {
	if v == nil {
		return ""
	}
	return describe(v)
}

// staticReach: functions of the given package reachable from roots through
// static calls and closures.
func staticReach(roots []*ssa.Function, inScope func(*ssa.Function) bool) []*ssa.Function {
	seen := map[*ssa.Function]bool{}
	var order []*ssa.Function
	var visit func(f *ssa.Function)
	visit = func(f *ssa.Function) {
		if f == nil || seen[f] || !inScope(f) {
			return
		}
		seen[f] = true
		order = append(order, f)
		for _, af := range f.AnonFuncs {
			visit(af)
		}
		eachInstr(f, func(ins ssa.Instruction) {
			if ci, ok := ins.(ssa.CallInstruction); ok {
				visit(ci.Common().StaticCallee())
			}
		})
	}
	for _, r := range roots {
		visit(r)
	}
	sort.Slice(order, func(i, j int) bool { return fnName(order[i]) < fnName(order[j]) })
	return order
}

// callersEstablish: base is a parameter of an unexported function whose
// address is never taken, bound is a constant, and every static call site
// passes an argument whose length is proven to exceed (strict) / reach the
// constant.  This is how a documented precondition ("panics if the slice is
// empty") is checked where it is established.
func callersEstablish(c *Ctx, fn *ssa.Function, base, bound ssa.Value, pb int, strict bool) bool {
	p, ok := stripChangeOnly(base).(*ssa.Parameter)
	if !ok || fn.Parent() != nil {
		return false
	}
	k, ok := constInt64(bound)
	if !ok || k < 0 {
		return false
	}
	if fn.Object() == nil || fn.Object().Exported() || c.L.AddressTaken(fn) {
		return false
	}
	idx := -1
	for i, q := range fn.Params {
		if q == p {
			idx = i
		}
	}
	calls := c.L.RealCallers(fn)
	if idx < 0 || len(calls) == 0 {
		return false
	}
	for _, ci := range calls {
		args := ci.Common().Args
		if idx >= len(args) {
			return false
		}
		lo, _, _ := lenFacts(args[idx], ci.Block(), pb)
		if (strict && lo <= k) || (!strict && lo < k) {
			return false
		}
	}
	return true
}

// ruleNilCall: a method call through an interface (or a field access through a
// pointer) whose receiver was read from a map without a presence test panics
// with a nil dereference when the key is absent.  The receiver must be
// dominated by a nil test, come from a comma-ok lookup whose ok was tested, or
// be looked up with the range key of the same map.
func ruleNilCall(c *Ctx, rule string, fns []*ssa.Function) {
	for _, fn := range fns {
		eachInstr(fn, func(ins ssa.Instruction) {
			call, ok := ins.(ssa.CallInstruction)
			if !ok || !call.Common().IsInvoke() {
				return
			}
			recv := stripChangeOnly(call.Common().Value)
			var lk *ssa.Lookup
			switch x := recv.(type) {
			case *ssa.Lookup:
				lk = x
			case *ssa.Extract:
				if l, ok := x.Tuple.(*ssa.Lookup); ok && x.Index == 0 {
					lk = l
				}
			}
			if lk == nil {
				return
			}
			if _, isMap := lk.X.Type().Underlying().(*types.Map); !isMap {
				return
			}
			key := fmt.Sprintf("%s | %s.%s() on map element", fnName(fn), describe(lk.X), call.Common().Method.Name())
			pos := c.L.Pos(ins.Pos())
			if isRangeKeyOf(lk.Index, lk.X) {
				c.Ok(rule, key, pos, "key is the range key of the same map")
				return
			}
			okv := false
			for _, g := range guardEdges(ins.Block()) {
				switch cnd := g.If.Cond.(type) {
				case *ssa.BinOp:
					// v != nil (true) or v == nil (false)
					isNilCmp := func(a, b ssa.Value) bool {
						cst, ok := b.(*ssa.Const)
						return ok && cst.IsNil() && (a == recv || exprEq(a, recv))
					}
					if isNilCmp(cnd.X, cnd.Y) || isNilCmp(cnd.Y, cnd.X) {
						if (cnd.Op == token.NEQ && g.Truth) || (cnd.Op == token.EQL && !g.Truth) {
							okv = true
						}
					}
				case *ssa.Extract:
					if cnd.Index == 1 && cnd.Tuple == ssa.Value(lk) && g.Truth {
						okv = true
					}
				}
			}
			c.Check(rule, key, pos, okv, "receiver guarded by a presence or nil test",
				"method called on a map element that may be absent (nil interface): nil pointer dereference panic when the key is missing")
		})
	}
}

// isRangeKeyOf: key is the key variable of a range loop over map m.
func isRangeKeyOf(key, m ssa.Value) bool {
	ex, ok := stripChangeOnly(key).(*ssa.Extract)
	if !ok || ex.Index != 1 {
		return false
	}
	nx, ok := ex.Tuple.(*ssa.Next)
	if !ok {
		return false
	}
	rg, ok := nx.Iter.(*ssa.Range)
	return ok && exprEq(rg.X, m)
}

// gL is the program currently analysed (set by run); used by summaries that
// need the callers of a function.
var gL *Loaded

// paramAlwaysNonNegConst: p belongs to an unexported function whose address is
// never taken and every static caller passes a non-negative constant for it.
func paramAlwaysNonNegConst(p *ssa.Parameter) bool {
	fn := p.Parent()
	if gL == nil || fn == nil || fn.Object() == nil || fn.Object().Exported() || gL.AddressTaken(fn) {
		return false
	}
	idx := -1
	for i, q := range fn.Params {
		if q == p {
			idx = i
		}
	}
	calls := gL.RealCallers(fn)
	if idx < 0 || len(calls) == 0 {
		return false
	}
	for _, ci := range calls {
		a := ci.Common().Args
		if idx >= len(a) {
			return false
		}
		if k, ok := constInt64(a[idx]); !ok || k < 0 {
			return false
		}
	}
	return true
}

// ownerFn: for a helper with exactly one static call site that is neither used
// as a value nor callable dynamically, the function it was split out of
// (followed up to three levels): obligations keyed by the owner keep their key
// when a function is split.
func ownerFn(l *Loaded, fn *ssa.Function) *ssa.Function {
	for i := 0; i < 3; i++ {
		if fn.Parent() != nil || l.AddressTaken(fn) || l.mayBeInvoked(fn) {
			return fn
		}
		cs := l.RealCallers(fn)
		if len(cs) != 1 || cs[0].Parent() == fn {
			return fn
		}
		fn = cs[0].Parent()
		for fn.Parent() != nil {
			fn = fn.Parent()
		}
	}
	return fn
}
