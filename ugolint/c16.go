package main

import (
	"fmt"
	"go/ast"
	"go/token"
	"go/types"
	"strings"

	"golang.org/x/tools/go/ssa"
)

func init() {
	props["C16"] = propC16
}

func propC16(c *Ctx) {
	l := c.L
	defer func() {
		rdf := c.Rule("decode-fresh", "the decoders of source files build line tables in storage of their own: files of one decoded set never share a backing array (positions after an encode / decode round trip are the positions before it)", 10)
		ruleDecodeFresh(c, rdf)
		rtc := c.Rule("trace-complete", "the stack trace handed to the host has one entry per recorded position: its allocation length is len(Trace) itself", 1)
		ruleTraceComplete(c, rtc)
		rsl := c.Rule("search-last-le", "the file of a position is found as the last file whose base is <= the position: sort.Search(n, pred) - 1 with the strict predicate `base > position`", 1)
		ruleSearchLastLE(c, rsl)
		rtd := c.Rule("trace-dedup-adjacent", "a position is dropped from the trace only when it repeats the last recorded one", 1)
		ruleTraceDedupAdjacent(c, rtd)
		rtf := c.Rule("throw-trace-flag", "an error the VM wraps where a Go error re-enters it is thrown with position recording on; only a ready-made *RuntimeError is thrown without", 2)
		ruleThrowTraceFlag(c, rtf)
	}()
	// ---- lit-pos -----------------------------------------------------------------------
	rl := c.Rule("lit-pos", "every literal node of the parser's AST that is constructed outside the parser (replacement literals made by the optimizer and the compiler) sets its position field: an instruction compiled from a literal without a position has no source-map entry and errors are reported 'at -' or at the wrong line", 20)
	posT := l.NamedType(parserPath, "Pos")
	if !c.Anchor(rl, "parser.Pos", posT != nil) {
		return
	}
	for _, p := range l.Pkgs {
		if !isLibPkg(p.PkgPath) || p.PkgPath == parserPath {
			continue
		}
		info := p.TypesInfo
		for _, f := range p.Syntax {
			var stack []ast.Node
			ast.Inspect(f, func(n ast.Node) bool {
				if n == nil {
					stack = stack[:len(stack)-1]
					return true
				}
				stack = append(stack, n)
				cl, ok := n.(*ast.CompositeLit)
				if !ok {
					return true
				}
				t := info.TypeOf(cl)
				nt := namedOf(t)
				if nt == nil || nt.Obj().Pkg() == nil || nt.Obj().Pkg().Path() != parserPath || !strings.HasSuffix(nt.Obj().Name(), "Lit") {
					return true
				}
				st, ok := nt.Underlying().(*types.Struct)
				if !ok {
					return true
				}
				// the position field(s) of the node
				var posFields []string
				for i := 0; i < st.NumFields(); i++ {
					if types.Identical(st.Field(i).Type(), posT) {
						posFields = append(posFields, st.Field(i).Name())
					}
				}
				if len(posFields) == 0 {
					return true
				}
				set := map[string]bool{}
				for _, el := range cl.Elts {
					if kv, ok := el.(*ast.KeyValueExpr); ok {
						if id, ok := kv.Key.(*ast.Ident); ok {
							// a literal zero does not count
							if tv, ok := info.Types[kv.Value]; ok && tv.Value != nil && tv.Value.String() == "0" {
								continue
							}
							set[id.Name] = true
						}
					}
				}
				fn := enclosingFuncName(stack, info)
				key := fmt.Sprintf("%s | &parser.%s{...}", fn, nt.Obj().Name())
				c.Check(rl, key, l.Pos(cl.Pos()), set[posFields[0]], "sets "+posFields[0], "replacement literal built without "+posFields[0]+": the instruction compiled from it has no source position (errors report '-' / the call-site line is lost)")
				return true
			})
		}
	}

	// ---- emit-srcmap -------------------------------------------------------------------------
	re := c.Rule("emit-srcmap", "the emitter records a source-map entry for the instruction it appends on every path", 1)
	emit := l.Method(modPath, "Compiler", "emit")
	_, fSM := l.structField(modPath, "Compiler", "sourceMap")
	if c.Anchor(re, "Compiler.emit / Compiler.sourceMap", emit != nil && fSM >= 0) {
		via := func(ins ssa.Instruction) bool {
			mu, ok := ins.(*ssa.MapUpdate)
			if !ok {
				return false
			}
			u, ok := mu.Map.(*ssa.UnOp)
			if !ok {
				return false
			}
			_, ok = isFieldAddrOf(u.X, modPath, "Compiler", fSM)
			return ok
		}
		_, ok := mustPassBefore(emit.Blocks[0].Instrs[0], via, isReturn)
		c.Check(re, "Compiler.emit", l.Pos(emit.Pos()), ok, "sourceMap[pos] is stored on every path to a return", "a path through emit returns without recording the instruction's source position")
	}

	// ---- dedup-srcmap ---------------------------------------------------------------------------
	rd := c.Rule("dedup-srcmap", "a compiled function is replaced by an earlier identical constant only if their source maps are equal too: two function literals with the same body text at different places must keep their own positions", 1)
	_, fCache := l.structField(modPath, "Compiler", "cfuncCache")
	_, fSrcMap := l.structField(modPath, "CompiledFunction", "SourceMap")
	if c.Anchor(rd, "Compiler.cfuncCache / CompiledFunction.SourceMap", fCache >= 0 && fSrcMap >= 0) {
		// functions that compare the SourceMap of two CompiledFunctions
		cmpSM := map[*ssa.Function]bool{}
		for _, fn := range l.RepoFuncs(func(pp string) bool { return pp == modPath }) {
			bases := map[ssa.Value]bool{}
			eachInstr(fn, func(ins ssa.Instruction) {
				if fa, ok := ins.(*ssa.FieldAddr); ok {
					if _, ok := isFieldAddrOf(fa, modPath, "CompiledFunction", fSrcMap); ok {
						bases[fa.X] = true
					}
				}
			})
			if len(bases) >= 2 && fn.Signature.Results().Len() == 1 {
				if b, ok := fn.Signature.Results().At(0).Type().Underlying().(*types.Basic); ok && b.Kind() == types.Bool {
					cmpSM[fn] = true
				}
			}
		}
		n := 0
		for _, fn := range l.RepoFuncs(func(pp string) bool { return pp == modPath }) {
			readsCache := false
			eachInstr(fn, func(ins ssa.Instruction) {
				if lk, ok := ins.(*ssa.Lookup); ok {
					if u, ok := lk.X.(*ssa.UnOp); ok {
						if _, ok := isFieldAddrOf(u.X, modPath, "Compiler", fCache); ok {
							readsCache = true
						}
					}
				}
			})
			if !readsCache {
				continue
			}
			// returns of a cached index: a return inside the loop over the cache entry
			for _, b := range fn.Blocks {
				ret, ok := b.Instrs[len(b.Instrs)-1].(*ssa.Return)
				if !ok || len(ret.Results) == 0 {
					continue
				}
				// derived from an element of the cached slice? (the index may come back with a "found" flag)
				if !derivesFrom(returnedValue(ret, 0), func(v ssa.Value) bool {
					lk, ok := v.(*ssa.Lookup)
					if !ok {
						return false
					}
					u, ok := lk.X.(*ssa.UnOp)
					if !ok {
						return false
					}
					_, ok = isFieldAddrOf(u.X, modPath, "Compiler", fCache)
					return ok
				}, 8) {
					continue
				}
				n++
				guarded := false
				for _, g := range guardEdges(b) {
					if cl, ok := g.If.Cond.(*ssa.Call); ok && g.Truth && cmpSM[cl.Call.StaticCallee()] {
						guarded = true
					}
				}
				c.Check(rd, fnName(fn)+" | reuse of a cached function constant", l.Pos(ret.Pos()), guarded, "dominated by a successful source-map comparison",
					"an earlier function constant is reused without comparing source maps: the later function literal reports the positions of the earlier one")
			}
		}
		if n == 0 {
			c.Und(rd, "reuse of a cached function constant", "-", "no return of a cached function index found: shape not modelled")
		}
		// the comparison compares positions, not only the set of instruction offsets:
		// a value read from one map meets a value read from the other in an (in)equality,
		// or both maps are handed to one library call (reflect.DeepEqual, maps.Equal)
		for fn := range cmpSM {
			isSMLoad := func(v ssa.Value) bool {
				u, ok := v.(*ssa.UnOp)
				if !ok {
					return false
				}
				_, ok = isFieldAddrOf(u.X, modPath, "CompiledFunction", fSrcMap)
				return ok
			}
			mapValue := func(v ssa.Value) bool { // a VALUE of a source map: m[k], or the value of a range step over m
				return derivesFrom(v, func(x ssa.Value) bool {
					switch y := x.(type) {
					case *ssa.Lookup:
						return isSMLoad(y.X)
					case *ssa.Extract:
						if nx, ok := y.Tuple.(*ssa.Next); ok && y.Index == 2 {
							if rg, ok := nx.Iter.(*ssa.Range); ok {
								return isSMLoad(rg.X)
							}
						}
						if lk, ok := y.Tuple.(*ssa.Lookup); ok && y.Index == 0 {
							return isSMLoad(lk.X)
						}
					}
					return false
				}, 3)
			}
			valuesMeet := false
			eachInstr(fn, func(ins ssa.Instruction) {
				switch x := ins.(type) {
				case *ssa.BinOp:
					if (x.Op == token.EQL || x.Op == token.NEQ) && mapValue(x.X) && mapValue(x.Y) {
						valuesMeet = true
					}
				case *ssa.Call:
					k := 0
					for _, a := range x.Call.Args {
						if derivesFrom(a, isSMLoad, 3) {
							k++
						}
					}
					if k >= 2 {
						valuesMeet = true
					}
				}
			})
			c.Check(rd, fnName(fn)+" | positions compared", l.Pos(fn.Pos()), valuesMeet, "a position of one map is compared with a position of the other",
				"the source-map comparison never compares a position of one map with a position of the other (it compares lengths and instruction offsets only): two function literals whose bodies compile to the same instructions are merged, the later one reporting the earlier one's lines - and, functions being compared by identity, `a == b` differs between optimized and unoptimized code")
		}
	}

	// ---- line-table -----------------------------------------------------------------------------------
	rt := c.Rule("line-table", "every function of the scanner that moves the read offset by a non-constant displacement also records line starts (AddLine): a second way of stepping over characters (a fast path that jumps over a comment ...) would shift every later line number; restoring a saved position (constant displacement) is exempt", 1)
	_, fRO := l.structField(parserPath, "Scanner", "readOffset")
	if c.Anchor(rt, "parser.Scanner.readOffset", fRO >= 0) {
		n := 0
		advancing := map[*ssa.Function]token.Pos{}
		for _, fn := range l.RepoFuncs(func(pp string) bool { return pp == parserPath }) {
			eachInstr(fn, func(ins ssa.Instruction) {
				st, ok := ins.(*ssa.Store)
				if !ok {
					return
				}
				if _, ok := isFieldAddrOf(st.Addr, parserPath, "Scanner", fRO); !ok {
					return
				}
				// a move by a non-constant displacement (forward step): value = x + d with d not a constant
				if bo, ok := st.Val.(*ssa.BinOp); ok && (bo.Op == token.ADD || bo.Op == token.SUB) {
					_, kx := bo.X.(*ssa.Const)
					_, ky := bo.Y.(*ssa.Const)
					if !kx && !ky {
						advancing[fn] = st.Pos()
					}
				}
			})
		}
		for _, fn := range l.RepoFuncs(func(pp string) bool { return pp == parserPath }) {
			pos, ok := advancing[fn]
			if !ok {
				continue
			}
			n++
			// AddLine called by the function itself or by a helper split out of
			// it; a callee that is itself a stepping function records lines for
			// its own steps only and is not followed
			adds := false
			seen := map[*ssa.Function]bool{}
			var look func(g *ssa.Function, depth int)
			look = func(g *ssa.Function, depth int) {
				if seen[g] {
					return
				}
				seen[g] = true
				eachInstr(g, func(ins ssa.Instruction) {
					ci, ok := ins.(ssa.CallInstruction)
					if !ok {
						return
					}
					f := ci.Common().StaticCallee()
					if f == nil {
						return
					}
					if f.Name() == "AddLine" {
						adds = true
						return
					}
					if _, adv := advancing[f]; !adv && depth < 2 && len(f.Blocks) > 0 && funcPkgPath(f) == parserPath {
						look(f, depth+1)
					}
				})
			}
			look(fn, 0)
			c.Check(rt, fnName(fn)+" | readOffset += w", l.Pos(pos), adds, "the advancing function records line starts", "the scanner moves its read offset by a computed distance in a function that never calls AddLine: newlines stepped over there are missing from the line table and every later position is reported too many lines up")
		}
		if n == 0 {
			c.Und(rt, "scanner advance", "-", "no function increments Scanner.readOffset: anchor lost")
		}
	}

	rtr := c.Rule("throw-reentry", "the unwinding routine is not re-entered from the functions it calls (a nested unwinding with a half-switched frame state records positions of the wrong frame, duplicated and out of order)", 1)
	ruleThrowReentry(c, rtr)
	rmn := c.Rule("module-name-one", "the module source is compiled under the name the importer resolved (the file set names the file the positions lie in)", 1)
	ruleModuleNameOne(c, rmn)
	rcf := c.Rule("copy-fields", "copying an error value keeps all of its fields: RuntimeError.Copy carries the file set (without it a derived error prints '-' for every trace position) and the trace", 2)
	ruleCopyFields(c, rcf, "Error", "RuntimeError")

	rlr := c.Rule("lookahead-restore", "a deferred rewind of the scanner restores every field the stepping function reads before writing (offsets and the current character): the line table gains no phantom line starts", 1)
	ruleLookaheadRestore(c, rlr)
	ren := c.Rule("emit-node", "a function compiling a syntax node never emits an instruction with a nil node (every instruction it emits has a source position: any of them can follow a call)", 1)
	ruleEmitNode(c, ren)

	// ---- throw-trace -------------------------------------------------------------------------------------
	rr := c.Rule("throw-trace", "throwing appends the current position to the error's trace unless re-throwing, and one position per unwound caller frame", 1)
	throw := l.Method(modPath, "VM", "throw")
	addTrace := l.Method(modPath, "RuntimeError", "addTrace")
	if c.Anchor(rr, "VM.throw / RuntimeError.addTrace", throw != nil && addTrace != nil) {
		inLoop, atEntry := false, false
		var loopCalls []ssa.Instruction
		// throw and the helpers split out of it (the frame walk may live in a helper)
		eachInstrDeep(throw, 2, func(ins ssa.Instruction) {
			if host := ins.Parent(); host != throw && (host == addTrace || funcPkgPath(host) != modPath || host.Signature.Recv() == nil || !isNamed(host.Signature.Recv().Type(), modPath, "VM")) {
				return
			}
			ci, ok := ins.(ssa.CallInstruction)
			if !ok || ci.Common().StaticCallee() != addTrace {
				return
			}
			b := ins.Block()
			cyc := false
			for _, s := range b.Succs {
				if blockReaches(s, b) {
					cyc = true
				}
			}
			if cyc {
				inLoop = true
				loopCalls = append(loopCalls, ins)
			} else {
				atEntry = true
			}
		})
		// every frame the walk visits gets its position: from the start of an
		// iteration, every path to the next iteration or out of the loop passes addTrace
		for _, call := range loopCalls {
			b := call.Block()
			var h *ssa.BasicBlock
			for _, cand := range b.Parent().Blocks {
				if !(cand == b || cand.Dominates(b)) || !blockReaches(b, cand) {
					continue
				}
				back := false
				for _, p := range cand.Preds {
					if cand.Dominates(p) {
						back = true
					}
				}
				if back && (h == nil || h.Dominates(cand)) {
					h = cand // innermost loop header around the call
				}
			}
			if h == nil {
				continue
			}
			inL := func(x *ssa.BasicBlock) bool { return (x == h || h.Dominates(x)) && blockReaches(x, h) }
			hasCall := func(x *ssa.BasicBlock) bool {
				for _, i := range x.Instrs {
					if ci, ok := i.(ssa.CallInstruction); ok && ci.Common().StaticCallee() == addTrace {
						return true
					}
				}
				return false
			}
			missing := ""
			seen := map[*ssa.BasicBlock]bool{}
			var walk func(x *ssa.BasicBlock)
			walk = func(x *ssa.BasicBlock) {
				if seen[x] || missing != "" {
					return
				}
				seen[x] = true
				if hasCall(x) {
					return
				}
				for _, sc := range x.Succs {
					if sc == h || !inL(sc) {
						missing = l.Pos(x.Instrs[len(x.Instrs)-1].Pos())
						if missing == "-" || missing == "" {
							missing = "block " + fmt.Sprint(x.Index)
						}
						return
					}
					walk(sc)
				}
			}
			if !hasCall(h) {
				for _, sc := range h.Succs {
					if inL(sc) {
						walk(sc)
					}
				}
			}
			c.Check(rr, fnName(b.Parent())+" | every visited frame is recorded", l.Pos(call.Pos()), missing == "", "every path through one step of the frame walk passes addTrace",
				"a path through one step of the frame walk (ending near "+missing+") leaves the step without recording the frame's position: the frame whose handler takes the error (or another visited frame) is missing from the trace")
		}
		c.Check(rr, "VM.throw", l.Pos(throw.Pos()), inLoop && atEntry, "adds the current position and one position per unwound frame", fmt.Sprintf("trace positions are not recorded (at the throw site: %v, per unwound frame: %v)", atEntry, inLoop))
	}
}

func enclosingFuncName(stack []ast.Node, info *types.Info) string {
	for i := len(stack) - 1; i >= 0; i-- {
		if fd, ok := stack[i].(*ast.FuncDecl); ok {
			name := fd.Name.Name
			if fd.Recv != nil && len(fd.Recv.List) > 0 {
				if t := info.TypeOf(fd.Recv.List[0].Type); t != nil {
					name = recvName(t) + "." + name
				}
			}
			return name
		}
	}
	return "?"
}
