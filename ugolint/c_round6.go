package main

import (
	"fmt"
	"go/token"
	"go/types"
	"sort"
	"strings"

	"golang.org/x/tools/go/ssa"
)

// Rules added after the sixth round of independently seeded changes and the
// repairs that accompanied it.

// ---- C02/pending-err-per-handler -------------------------------------------------------------------------------------
// An error that is thrown while a try statement is active is parked until the
// statement's catch block takes it or its finally block has run.  While the
// finally (or catch) block runs, a nested try statement can throw and catch an
// error of its own, so two errors are parked at the same time in one function
// activation.  A parking slot that exists once per activation (a plain field of
// the frame or of the frame's handler list) cannot hold both: the nested
// statement's catch clears it and the outer error is gone after the finally
// block.  The rule: wherever the throw path stores a *RuntimeError into memory
// that outlives the call, the slot is an element of a slice (or a field of a
// struct type that is the element type of a slice field): one slot per handler.
func rulePendingErrPerHandler(c *Ctx, rule string) {
	l := c.L
	throw := l.Method(modPath, "VM", "throw")
	rtErr := l.NamedType(modPath, "RuntimeError")
	if !c.Anchor(rule, "VM.throw / type RuntimeError", throw != nil && rtErr != nil) {
		return
	}
	isRtErrPtr := func(t types.Type) bool {
		p, ok := t.Underlying().(*types.Pointer)
		return ok && types.Identical(p.Elem(), rtErr)
	}
	// struct types that are the element type of a slice-typed field of some
	// struct of the package
	elemStructs := map[*types.Struct]bool{}
	for _, pkg := range l.Pkgs {
		if pkg.PkgPath != modPath {
			continue
		}
		sc := pkg.Types.Scope()
		for _, nm := range sc.Names() {
			tn, ok := sc.Lookup(nm).(*types.TypeName)
			if !ok {
				continue
			}
			st, ok := tn.Type().Underlying().(*types.Struct)
			if !ok {
				continue
			}
			for i := 0; i < st.NumFields(); i++ {
				if sl, ok := st.Field(i).Type().Underlying().(*types.Slice); ok {
					if es, ok := sl.Elem().Underlying().(*types.Struct); ok {
						elemStructs[es] = true
					} else if ep, ok := sl.Elem().Underlying().(*types.Pointer); ok {
						if es, ok := ep.Elem().Underlying().(*types.Struct); ok {
							elemStructs[es] = true
						}
					}
				}
			}
		}
	}
	var perElement func(addr ssa.Value, depth int) bool
	perElement = func(addr ssa.Value, depth int) bool {
		if depth > 6 {
			return false
		}
		switch a := addr.(type) {
		case *ssa.IndexAddr:
			if _, isSlice := a.X.Type().Underlying().(*types.Slice); isSlice {
				return true
			}
			return perElement(a.X, depth+1)
		case *ssa.FieldAddr:
			if p, ok := a.X.Type().Underlying().(*types.Pointer); ok {
				if st, ok := p.Elem().Underlying().(*types.Struct); ok && elemStructs[st] {
					return true
				}
			}
			return perElement(a.X, depth+1)
		case *ssa.UnOp:
			return false
		}
		return false
	}
	n := 0
	eachInstrDeep(throw, 3, func(ins ssa.Instruction) {
		st, ok := ins.(*ssa.Store)
		if !ok || !isRtErrPtr(st.Val.Type()) {
			return
		}
		if _, isConst := st.Val.(*ssa.Const); isConst {
			return // clearing a slot
		}
		switch root := st.Addr.(type) {
		case *ssa.Alloc:
			return // a local variable
		case *ssa.FieldAddr, *ssa.IndexAddr:
			_ = root
		default:
			return
		}
		// a field of the error value itself (wrapping) is not a parking slot
		if fa, ok := st.Addr.(*ssa.FieldAddr); ok {
			if p, ok := fa.X.Type().Underlying().(*types.Pointer); ok && types.Identical(p.Elem(), rtErr) {
				return
			}
		}
		n++
		fn := ins.Parent()
		key := fnKey(fn) + " | parks the thrown error in " + slotName(st.Addr)
		c.Check(rule, key, l.Pos(ins.Pos()), perElement(st.Addr, 0), "the slot belongs to one handler (slice element)",
			"the thrown error is parked in a slot that exists once per activation: a try statement nested in a finally or catch block that catches an error of its own clears it, and the outer error is lost after the finally block (`try { boom() } finally { try { throw 1 } catch { } }` continues as if nothing was thrown)")
	})
	if n == 0 {
		c.Und(rule, "VM.throw | parking slot", l.Pos(throw.Pos()), "no store of the thrown error found on the throw path: the rule no longer sees where a pending error is kept")
	}
}

func fnKey(fn *ssa.Function) string {
	s := fn.RelString(fn.Pkg.Pkg)
	s = strings.TrimPrefix(s, "(*")
	s = strings.Replace(s, ")", "", 1)
	return s
}

func slotName(addr ssa.Value) string {
	switch a := addr.(type) {
	case *ssa.FieldAddr:
		if p, ok := a.X.Type().Underlying().(*types.Pointer); ok {
			if st, ok := p.Elem().Underlying().(*types.Struct); ok {
				tn := types.TypeString(p.Elem(), func(*types.Package) string { return "" })
				return tn + "." + st.Field(a.Field).Name()
			}
		}
	case *ssa.IndexAddr:
		return "a slice element"
	}
	return "memory"
}

// ---- C07/pool-reset (also C17) ----------------------------------------------------------------------------------------
// A value recycled through a sync.Pool carries whatever its last user left in
// it.  For every sync.Pool of the repository whose values are pointers to a
// repository struct, each field of the struct is brought to a known state
// either on every path from the Get to the return of the acquiring function, or
// on every path to every Put (for a deferred Put: on every path to every
// return of the function).  A field that is reset on the success path only
// leaks the failed call's state into the next, unrelated call.  The rule is a
// contradiction rule: it holds the code to its own belief, so only a field
// that the acquiring or the releasing function resets on some path is required
// to be reset on all of them.
func rulePoolReset(c *Ctx, rule string, pkgFilter func(string) bool) {
	l := c.L
	type poolUse struct {
		name string
		pos  string
		T    *types.Named
		gets []*ssa.Call
		puts []ssa.CallInstruction
	}
	pools := map[string]*poolUse{}
	var order []string
	poolKey := func(recv ssa.Value) string {
		if g := addrOfGlobal(recv); g != nil {
			return g.Pkg.Pkg.Path() + "." + g.Name()
		}
		if fa, ok := recv.(*ssa.FieldAddr); ok {
			if p, ok := fa.X.Type().Underlying().(*types.Pointer); ok {
				if st, ok := p.Elem().Underlying().(*types.Struct); ok {
					return tstr(p.Elem()) + "." + st.Field(fa.Field).Name()
				}
			}
		}
		if u, ok := recv.(*ssa.UnOp); ok { // *sync.Pool held in a variable
			if g := addrOfGlobal(u.X); g != nil {
				return g.Pkg.Pkg.Path() + "." + g.Name()
			}
		}
		return ""
	}
	structOf := func(t types.Type) *types.Named {
		p, ok := t.Underlying().(*types.Pointer)
		if !ok {
			return nil
		}
		n, ok := p.Elem().(*types.Named)
		if !ok || n.Obj().Pkg() == nil || !strings.HasPrefix(n.Obj().Pkg().Path(), modPath) {
			return nil
		}
		if _, ok := n.Underlying().(*types.Struct); !ok {
			return nil
		}
		return n
	}
	for _, fn := range l.RepoFuncs(pkgFilter) {
		eachInstr(fn, func(ins ssa.Instruction) {
			ci, ok := ins.(ssa.CallInstruction)
			if !ok {
				return
			}
			f := ci.Common().StaticCallee()
			if f == nil || f.Pkg == nil || f.Pkg.Pkg.Path() != "sync" || f.Signature.Recv() == nil || len(ci.Common().Args) == 0 {
				return
			}
			if !strings.HasSuffix(f.Signature.Recv().Type().String(), "sync.Pool") {
				return
			}
			k := poolKey(ci.Common().Args[0])
			if k == "" {
				return
			}
			pu := pools[k]
			if pu == nil {
				pu = &poolUse{name: k, pos: l.Pos(ins.Pos())}
				pools[k] = pu
				order = append(order, k)
			}
			switch f.Name() {
			case "Get":
				if cl, ok := ins.(*ssa.Call); ok {
					pu.gets = append(pu.gets, cl)
					for _, r := range *cl.Referrers() {
						if ta, ok := r.(*ssa.TypeAssert); ok {
							if n := structOf(ta.AssertedType); n != nil {
								pu.T = n
							}
						}
					}
				}
			case "Put":
				pu.puts = append(pu.puts, ci)
				if len(ci.Common().Args) > 1 {
					if mi, ok := ci.Common().Args[1].(*ssa.MakeInterface); ok {
						if n := structOf(mi.X.Type()); n != nil {
							pu.T = n
						}
					}
				}
			}
		})
	}
	n := 0
	for _, k := range order {
		pu := pools[k]
		if pu.T == nil || len(pu.puts) == 0 || len(pu.gets) == 0 {
			continue
		}
		st := pu.T.Underlying().(*types.Struct)
		isT := func(v ssa.Value) bool {
			p, ok := v.Type().Underlying().(*types.Pointer)
			return ok && types.Identical(p.Elem(), pu.T)
		}
		resets := func(field int) func(ssa.Instruction) bool {
			onField := func(v ssa.Value) bool {
				for d := 0; d < 4; d++ {
					switch x := v.(type) {
					case *ssa.FieldAddr:
						if x.Field == field && isT(x.X) {
							return true
						}
						v = x.X
					case *ssa.UnOp:
						v = x.X
					default:
						return false
					}
				}
				return false
			}
			return viaDeep(func(ins ssa.Instruction) bool {
				switch x := ins.(type) {
				case *ssa.Store:
					if fa, ok := x.Addr.(*ssa.FieldAddr); ok && fa.Field == field && isT(fa.X) {
						// initialising a value built on the spot is not a reset of a recycled one
						if _, fresh := fa.X.(*ssa.Alloc); !fresh {
							return true
						}
					}
					// *v = T{...}
					if isT(x.Addr) && types.Identical(x.Val.Type(), pu.T) {
						return true
					}
				case ssa.CallInstruction:
					com := x.Common()
					name := ""
					if f := com.StaticCallee(); f != nil {
						name = f.Name()
					} else if b, ok := com.Value.(*ssa.Builtin); ok {
						name = b.Name()
					}
					lname := strings.ToLower(name)
					if !(strings.Contains(lname, "reset") || strings.Contains(lname, "truncate") || strings.Contains(lname, "clear") || strings.Contains(lname, "init")) {
						return false
					}
					for _, a := range com.Args {
						if onField(a) {
							return true
						}
					}
				}
				return false
			})
		}
		// the acquiring side: returns of the Get's function that hand out the pooled value
		derived := func(get *ssa.Call) map[ssa.Value]bool {
			d := map[ssa.Value]bool{get: true}
			for changed := true; changed; {
				changed = false
				eachInstr(get.Parent(), func(ins ssa.Instruction) {
					v, ok := ins.(ssa.Value)
					if !ok || d[v] {
						return
					}
					for _, op := range ins.Operands(nil) {
						if *op != nil && d[*op] {
							switch ins.(type) {
							case *ssa.TypeAssert, *ssa.Extract, *ssa.Phi, *ssa.ChangeType, *ssa.MakeInterface:
								d[v] = true
								changed = true
							}
						}
					}
				})
			}
			return d
		}
		for i := 0; i < st.NumFields(); i++ {
			fld := st.Field(i)
			ft := fld.Type().String()
			if strings.HasPrefix(ft, "sync.") || strings.HasPrefix(ft, "sync/atomic.") {
				continue
			}
			pred := resets(i)
			// a belief stated by the code itself: only a field that the pooling
			// code resets somewhere is held to be reset everywhere (a scratch
			// buffer that is written before it is read needs no reset)
			anyReset := false
			for _, get := range pu.gets {
				eachInstr(get.Parent(), func(ins ssa.Instruction) {
					if pred(ins) {
						anyReset = true
					}
				})
			}
			for _, put := range pu.puts {
				eachInstr(put.Parent(), func(ins ssa.Instruction) {
					if pred(ins) {
						anyReset = true
					}
				})
			}
			if !anyReset {
				continue
			}
			acquireOK := true
			for _, get := range pu.gets {
				d := derived(get)
				handsOut := false
				stop := func(ins ssa.Instruction) bool {
					r, ok := ins.(*ssa.Return)
					if !ok {
						return false
					}
					for _, v := range r.Results {
						if d[v] {
							return true
						}
					}
					return false
				}
				eachInstr(get.Parent(), func(ins ssa.Instruction) {
					if stop(ins) {
						handsOut = true
					}
				})
				if !handsOut {
					acquireOK = false
					continue
				}
				if _, ok := mustPassBefore(get, pred, stop); !ok {
					acquireOK = false
				}
			}
			releaseOK := true
			where := ""
			for _, put := range pu.puts {
				fn := put.Parent()
				entry := fn.Blocks[0].Instrs[0]
				if pred(entry) {
					continue
				}
				ok := false
				if _, isDefer := put.(*ssa.Defer); isDefer {
					_, ok = mustPassBefore(entry, pred, isReturn)
				} else {
					_, ok = mustPassBefore(entry, pred, func(x ssa.Instruction) bool { return x == put.(ssa.Instruction) })
				}
				if !ok {
					releaseOK = false
					where = l.Pos(put.Pos())
				}
			}
			n++
			key := pu.name + " | field " + tstr(pu.T) + "." + fld.Name()
			c.Check(rule, key, pu.pos, acquireOK || releaseOK, "reset on every path before the value is pooled or handed out again",
				"a value recycled through the pool keeps field "+fld.Name()+" from its previous user on some path (Put at "+where+"): the state of one call (e.g. the partial output of a failed one) leaks into the next")
		}
	}
	c.extra["pools_examined"] = len(order)
	if n == 0 {
		c.Note("pool-reset: no sync.Pool of repository structs with both Get and Put in scope")
	}
}

// ---- C07/lock-first (also C09) ---------------------------------------------------------------------------------------
// A method of VM that takes the VM's mutex owns the VM only once the lock is
// held.  Every write to the receiver's state in such a method (a store to a
// field, an atomic Store/Swap/Add/CompareAndSwap on a field, a call of another
// method of the receiver that writes fields) is dominated by the Lock call.  A
// reset performed before the lock is taken runs concurrently with the run that
// still holds it: Run clearing the abort flag early erases an Abort meant for
// the run in progress.
func ruleLockFirst(c *Ctx, rule string, vf *vmFacts) {
	l := c.L
	n := 0
	for _, fn := range l.RepoFuncs(func(pp string) bool { return pp == modPath }) {
		if fn.Signature.Recv() == nil || len(fn.Params) == 0 || len(fn.Blocks) == 0 {
			continue
		}
		recv := fn.Params[0]
		p, ok := recv.Type().Underlying().(*types.Pointer)
		if !ok || !types.Identical(p.Elem().Underlying(), vf.vmS) {
			continue
		}
		onRecv := func(v ssa.Value) bool {
			for d := 0; d < 4; d++ {
				switch x := v.(type) {
				case *ssa.FieldAddr:
					if x.X == recv {
						return true
					}
					v = x.X
				case *ssa.IndexAddr:
					v = x.X
				default:
					return false
				}
			}
			return false
		}
		var lock *ssa.Call
		eachInstr(fn, func(ins ssa.Instruction) {
			cl, ok := ins.(*ssa.Call)
			if !ok || lock != nil {
				return
			}
			f := cl.Call.StaticCallee()
			if f == nil || f.Pkg == nil || f.Pkg.Pkg.Path() != "sync" || f.Name() != "Lock" || len(cl.Call.Args) == 0 {
				return
			}
			if fa, ok := cl.Call.Args[0].(*ssa.FieldAddr); ok && fa.X == recv {
				lock = cl
			}
		})
		if lock == nil {
			continue
		}
		var early []string
		eachInstr(fn, func(ins ssa.Instruction) {
			writes := false
			switch x := ins.(type) {
			case *ssa.Store:
				writes = onRecv(x.Addr)
			case ssa.CallInstruction:
				if ins == ssa.Instruction(lock) {
					return
				}
				if _, isDefer := ins.(*ssa.Defer); isDefer {
					return
				}
				com := x.Common()
				f := com.StaticCallee()
				if f == nil {
					return
				}
				if f.Pkg != nil && f.Pkg.Pkg.Path() == "sync/atomic" {
					switch f.Name() {
					case "Store", "Swap", "Add", "CompareAndSwap", "And", "Or":
						writes = len(com.Args) > 0 && onRecv(com.Args[0])
					}
				} else if strings.HasPrefix(funcPkgPath(f), modPath) && len(f.Blocks) > 0 {
					for i, a := range com.Args {
						if a == recv && storesThroughParam(f, i, 0, map[*ssa.Function]bool{}) {
							writes = true
						}
					}
				}
			}
			if writes && !instrDominates(lock, ins) {
				early = append(early, l.Pos(ins.Pos()))
			}
		})
		n++
		c.Check(rule, fnName(fn)+" | writes of VM state", l.Pos(lock.Pos()), len(early) == 0, "every write of the receiver's state follows the Lock call",
			"the method writes VM state at "+strings.Join(early, ", ")+" before it holds the VM's mutex: the write races with the run that still owns the VM (an abort flag cleared there erases an Abort aimed at the run in progress, which then never ends)")
	}
	if n == 0 {
		c.Und(rule, "VM methods that lock the VM", "-", "no method of VM takes the VM's mutex: the rule no longer sees the ownership protocol")
	}
}

// ---- C02/counter-balance (also C10) ----------------------------------------------------------------------------------
// The compiler and the optimizer keep nesting depths in counters (try depth,
// loop depth, expression level) that are incremented when a construct is
// entered and decremented when it is left; the emitted code addresses run-time
// structures by these depths.  In every function that enters (an inline
// increment of a counter field, or a call of a function that only increments
// it), every path to a successful return leaves again (an inline decrement, a
// call of the function that only decrements it, or a deferred one).  A
// decrement that is skipped on one shape of the construct (a try without
// catch) leaves the depth one too high for the rest of the compilation.
func ruleCounterBalance(c *Ctx, rule string) {
	l := c.L
	type ckey struct {
		st  *types.Struct
		fld int
	}
	name := func(k ckey) string { return k.st.Field(k.fld).Name() }
	stepOf := func(ins ssa.Instruction) (ckey, int, bool) {
		st, ok := ins.(*ssa.Store)
		if !ok {
			return ckey{}, 0, false
		}
		fa, ok := st.Addr.(*ssa.FieldAddr)
		if !ok {
			return ckey{}, 0, false
		}
		bo, ok := st.Val.(*ssa.BinOp)
		if !ok || (bo.Op != token.ADD && bo.Op != token.SUB) {
			return ckey{}, 0, false
		}
		k, ok := bo.Y.(*ssa.Const)
		if !ok || k.Value == nil || k.Value.ExactString() != "1" {
			return ckey{}, 0, false
		}
		ld, ok := bo.X.(*ssa.UnOp)
		if !ok || ld.Op != token.MUL {
			return ckey{}, 0, false
		}
		fa2, ok := ld.X.(*ssa.FieldAddr)
		if !ok || fa2.Field != fa.Field || !(fa2.X == fa.X || exprEq(fa2.X, fa.X)) {
			return ckey{}, 0, false
		}
		p, ok := fa.X.Type().Underlying().(*types.Pointer)
		if !ok {
			return ckey{}, 0, false
		}
		s, ok := p.Elem().Underlying().(*types.Struct)
		if !ok {
			return ckey{}, 0, false
		}
		d := 1
		if bo.Op == token.SUB {
			d = -1
		}
		return ckey{s, fa.Field}, d, true
	}
	fns := l.RepoFuncs(func(pp string) bool { return pp == modPath })
	type steps struct{ inc, dec map[ckey][]ssa.Instruction }
	per := map[*ssa.Function]*steps{}
	for _, fn := range fns {
		s := &steps{map[ckey][]ssa.Instruction{}, map[ckey][]ssa.Instruction{}}
		eachInstr(fn, func(ins ssa.Instruction) {
			if k, d, ok := stepOf(ins); ok {
				if d > 0 {
					s.inc[k] = append(s.inc[k], ins)
				} else {
					s.dec[k] = append(s.dec[k], ins)
				}
			}
		})
		per[fn] = s
	}
	// counters: fields that are both incremented and decremented somewhere
	counters := map[ckey]bool{}
	hasInc, hasDec := map[ckey]bool{}, map[ckey]bool{}
	for _, s := range per {
		for k := range s.inc {
			hasInc[k] = true
		}
		for k := range s.dec {
			hasDec[k] = true
		}
	}
	for k := range hasInc {
		if hasDec[k] {
			counters[k] = true
		}
	}
	enterFn, leaveFn := map[*ssa.Function]ckey{}, map[*ssa.Function]ckey{}
	for fn, s := range per {
		if fn.Parent() != nil {
			continue
		}
		for k := range counters {
			if len(s.inc[k]) > 0 && len(s.dec[k]) == 0 {
				enterFn[fn] = k
			}
			if len(s.dec[k]) > 0 && len(s.inc[k]) == 0 {
				leaveFn[fn] = k
			}
		}
	}
	isNilErrReturn := func(ins ssa.Instruction) bool {
		r, ok := ins.(*ssa.Return)
		if !ok {
			return false
		}
		if len(r.Results) == 0 {
			return true
		}
		last := returnedValue(r, len(r.Results)-1)
		if !isErrorType(last.Type()) {
			return true
		}
		k, ok := last.(*ssa.Const)
		return ok && k.IsNil()
	}
	n := 0
	for _, fn := range sortedFuncs(funcSet(fns)) {
		if _, ok := enterFn[fn]; ok {
			continue
		}
		if _, ok := leaveFn[fn]; ok {
			continue
		}
		if len(fn.Blocks) == 0 {
			continue
		}
		// events of this function per counter
		incs, decs := map[ckey][]ssa.Instruction{}, map[ckey]func(ssa.Instruction) bool{}
		deferred := map[ckey]bool{}
		s := per[fn]
		for k := range counters {
			incs[k] = append(incs[k], s.inc[k]...)
		}
		eachInstr(fn, func(ins ssa.Instruction) {
			ci, ok := ins.(ssa.CallInstruction)
			if !ok {
				return
			}
			g := ci.Common().StaticCallee()
			if g == nil {
				// defer func() { ... }() with a closure
				if mc, ok := ci.Common().Value.(*ssa.MakeClosure); ok {
					g, _ = mc.Fn.(*ssa.Function)
				}
			}
			if g == nil {
				return
			}
			_, isDefer := ins.(*ssa.Defer)
			if k, ok := enterFn[g]; ok && !isDefer {
				incs[k] = append(incs[k], ins)
			}
			if isDefer {
				if k, ok := leaveFn[g]; ok {
					deferred[k] = true
				}
				if gs := per[g]; gs != nil {
					for k := range gs.dec {
						deferred[k] = true
					}
				}
			}
		})
		for k := range counters {
			k := k
			decs[k] = func(ins ssa.Instruction) bool {
				if kk, d, ok := stepOf(ins); ok && kk == k && d < 0 {
					return true
				}
				if cl, ok := ins.(*ssa.Call); ok {
					if g := cl.Call.StaticCallee(); g != nil {
						if kk, ok := leaveFn[g]; ok && kk == k {
							return true
						}
					}
				}
				return false
			}
		}
		for k, list := range incs {
			if len(list) == 0 {
				continue
			}
			for i, inc := range list {
				n++
				key := fmt.Sprintf("%s | %s entered", fnName(fn), name(k))
				if i > 0 {
					key += fmt.Sprintf(" #%d", i+1)
				}
				if deferred[k] {
					c.Ok(rule, key, l.Pos(inc.Pos()), "left by a deferred call")
					continue
				}
				bad, ok := mustPassBefore(inc, decs[k], isNilErrReturn)
				where := ""
				if bad != nil {
					where = l.Pos(bad.Pos())
				}
				c.Check(rule, key, l.Pos(inc.Pos()), ok, "every path to a successful return decrements the counter again",
					"the function increments "+name(k)+" and can return successfully (at "+where+") without decrementing it: the nesting depth stays one too high for whatever is compiled next (loops compiled later record the wrong try depth, so break / continue out of a try skips its finally block)")
			}
		}
	}
	if n == 0 {
		c.Und(rule, "nesting counters", "-", "no increment of a nesting counter found: the rule no longer sees how depths are tracked")
	}
}

func funcSet(fns []*ssa.Function) map[*ssa.Function]bool {
	m := map[*ssa.Function]bool{}
	for _, f := range fns {
		m[f] = true
	}
	return m
}

// ---- C01/decl-kind-agree (also C10) ----------------------------------------------------------------------------------
// The compiler and the optimizer both dispatch on the kind of a declaration
// (param, global, var, const).  Every function of the package that dispatches
// on GenDecl.Tok (compares it with two or more token constants) handles the
// same set of kinds: a kind that the compiler declares names for and the
// optimizer's scope tracking skips leaves a declared name (a `global len`)
// looking like the builtin to the optimizer, which then folds calls of it.
func ruleDeclKindAgree(c *Ctx, rule string) {
	l := c.L
	_, fTok := l.structField(parserPath, "GenDecl", "Tok")
	if !c.Anchor(rule, "parser.GenDecl.Tok", fTok >= 0) {
		return
	}
	sets := map[*ssa.Function]map[string]bool{}
	for _, fn := range l.RepoFuncs(func(pp string) bool { return pp == modPath }) {
		eachInstr(fn, func(ins ssa.Instruction) {
			bo, ok := ins.(*ssa.BinOp)
			if !ok || bo.Op != token.EQL {
				return
			}
			for _, pr := range [][2]ssa.Value{{bo.X, bo.Y}, {bo.Y, bo.X}} {
				k, ok := pr[1].(*ssa.Const)
				if !ok || k.Value == nil {
					continue
				}
				ld, ok := pr[0].(*ssa.UnOp)
				if !ok || ld.Op != token.MUL {
					continue
				}
				if _, ok := isFieldAddrOf(ld.X, parserPath, "GenDecl", fTok); !ok {
					continue
				}
				if sets[fn] == nil {
					sets[fn] = map[string]bool{}
				}
				sets[fn][tokenName(l, k)] = true
			}
		})
	}
	// the two sides: the optimizer's functions and everything else (the compiler)
	optT := l.NamedType(modPath, "SimpleOptimizer")
	if !c.Anchor(rule, "type SimpleOptimizer", optT != nil) {
		return
	}
	isOpt := func(fn *ssa.Function) bool {
		for fn.Parent() != nil {
			fn = fn.Parent()
		}
		if r := fn.Signature.Recv(); r != nil {
			t := r.Type()
			if p, ok := t.(*types.Pointer); ok {
				t = p.Elem()
			}
			return types.Identical(t, optT)
		}
		return false
	}
	comp, opt := map[string]bool{}, map[string]bool{}
	var optFn *ssa.Function
	for fn, s := range sets {
		for k := range s {
			if isOpt(fn) {
				opt[k] = true
				if optFn == nil || fn.Pos() < optFn.Pos() {
					optFn = fn
				}
			} else {
				comp[k] = true
			}
		}
	}
	if !c.Anchor(rule, "comparisons of GenDecl.Tok in the compiler and in the optimizer", len(comp) >= 2 && len(opt) >= 1) {
		return
	}
	var missing []string
	for k := range comp {
		if !opt[k] {
			missing = append(missing, k)
		}
	}
	sort.Strings(missing)
	c.Check(rule, "optimizer | declaration kinds handled", l.Pos(optFn.Pos()), len(missing) == 0, fmt.Sprintf("all %d kinds the compiler distinguishes", len(comp)),
		"the optimizer dispatches on the declaration kind but has no case for "+strings.Join(missing, ", ")+", which the compiler handles: names declared that way are invisible to its scope tracking (it folds `len(\"abc\")` after `global len`)")
}

// tokenName: the name of the token constant with the value of k, or the value.
func tokenName(l *Loaded, k *ssa.Const) string {
	if p := l.ByPath[modPath+"/token"]; p != nil {
		sc := p.Types.Scope()
		for _, nm := range sc.Names() {
			if cst, ok := sc.Lookup(nm).(*types.Const); ok && types.Identical(cst.Type(), k.Type()) && cst.Val().ExactString() == k.Value.ExactString() {
				return "token." + nm
			}
		}
	}
	return k.Value.ExactString()
}

// ---- C09/aborted-own ---------------------------------------------------------------------------------------------------
// Aborted reports the abort flag of the VM it is called on.  Abort flags a
// VM's children one by one and the VM itself last; each VM's Run clears its own
// flag.  A child that answered with another VM's flag (its root's) lets an
// Invoke pass the aborted-check in the window between the two stores, after
// which the child's Run clears the only flag that was set: the abort is lost.
func ruleAbortedOwn(c *Ctx, rule string, vf *vmFacts) {
	l := c.L
	ab := l.Method(modPath, "VM", "Aborted")
	fAbort := vf.field("abort")
	if !c.Anchor(rule, "VM.Aborted / VM.abort", ab != nil && fAbort >= 0 && len(ab.Params) > 0) {
		return
	}
	recv := ab.Params[0]
	n, bad := 0, 0
	where := l.Pos(ab.Pos())
	eachInstrDeep(ab, 2, func(ins ssa.Instruction) {
		cl, ok := ins.(*ssa.Call)
		if !ok {
			return
		}
		f := cl.Call.StaticCallee()
		if f == nil || f.Pkg == nil || f.Pkg.Pkg.Path() != "sync/atomic" || len(cl.Call.Args) == 0 {
			return
		}
		fa, ok := cl.Call.Args[0].(*ssa.FieldAddr)
		if !ok {
			return
		}
		p, ok := fa.X.Type().Underlying().(*types.Pointer)
		if !ok || !types.Identical(p.Elem().Underlying(), vf.vmS) || fa.Field != fAbort {
			return
		}
		n++
		base := fa.X
		if ins.Parent() != ab {
			base = l.paramArg(base)
		}
		if base != ssa.Value(recv) {
			bad++
			where = l.Pos(ins.Pos())
		}
	})
	if n == 0 {
		c.Und(rule, "VM.Aborted | flag read", l.Pos(ab.Pos()), "no atomic read of a VM's abort flag found in Aborted")
		return
	}
	c.Check(rule, "VM.Aborted | flag read", where, bad == 0, "the flag read is the receiver's own",
		"Aborted reads the abort flag of a VM other than the receiver (a child answering with its root's flag): between Abort flagging the child and flagging the root an Invoke passes the check and the child's Run clears the child's flag - the Abort is lost and the root's Run never returns")
}

// ---- C08/syncmap-lock (also C04) -------------------------------------------------------------------------------------
// A SyncMap's map is shared between goroutines by design (it is the one
// container scripts running on different VMs may share); every use of the map
// read from its Value field - lookup, update, range, len, delete, or handing
// it to a function - happens while the SyncMap's lock is held: a Lock / RLock
// on the same SyncMap dominates the use and no Unlock / RUnlock lies between.
// Reading the field under the lock and walking the map after releasing it (to
// "not block writers" while encoding) is a concurrent map iteration and write.
func ruleSyncMapLock(c *Ctx, rule string, pkgFilter func(string) bool) {
	l := c.L
	smS, fValue := l.structField(modPath, "SyncMap", "Value")
	if !c.Anchor(rule, "SyncMap.Value", smS != nil && fValue >= 0) {
		return
	}
	strip := func(v ssa.Value) ssa.Value {
		for {
			switch x := v.(type) {
			case *ssa.ChangeType:
				v = x.X
			default:
				return v
			}
		}
	}
	isSM := func(v ssa.Value) bool {
		p, ok := v.Type().Underlying().(*types.Pointer)
		return ok && types.Identical(p.Elem().Underlying(), smS)
	}
	lockBase := func(ins ssa.Instruction, names ...string) (ssa.Value, bool) {
		ci, ok := ins.(ssa.CallInstruction)
		if !ok {
			return nil, false
		}
		f := ci.Common().StaticCallee()
		if f == nil || len(ci.Common().Args) == 0 {
			return nil, false
		}
		okName := false
		for _, n := range names {
			if f.Name() == n {
				okName = true
			}
		}
		if !okName {
			return nil, false
		}
		a := strip(ci.Common().Args[0])
		if isSM(a) {
			return a, true // wrapper methods (*SyncMap).RLock ...
		}
		if fa, ok := a.(*ssa.FieldAddr); ok && isSM(fa.X) { // o.mu.RLock()
			return strip(fa.X), true
		}
		return nil, false
	}
	n := 0
	for _, fn := range l.RepoFuncs(pkgFilter) {
		fn := fn
		lockedAt := func(base ssa.Value, at ssa.Instruction) bool {
			ok := false
			eachInstr(fn, func(ins ssa.Instruction) {
				if _, isDefer := ins.(*ssa.Defer); isDefer {
					return
				}
				b, is := lockBase(ins, "Lock", "RLock")
				if !is || !(b == base || exprEq(b, base)) || !instrDominates(ins, at) {
					return
				}
				released := false
				eachInstr(fn, func(u ssa.Instruction) {
					if _, isDefer := u.(*ssa.Defer); isDefer {
						return
					}
					ub, is := lockBase(u, "Unlock", "RUnlock")
					if is && (ub == base || exprEq(ub, base)) && instrDominates(ins, u) && instrDominates(u, at) {
						released = true
					}
				})
				if !released {
					ok = true
				}
			})
			return ok
		}
		explicitUnlock := func(base ssa.Value) bool {
			found := false
			eachInstr(fn, func(u ssa.Instruction) {
				if _, isDefer := u.(*ssa.Defer); isDefer {
					return
				}
				if ub, is := lockBase(u, "Unlock", "RUnlock"); is && (ub == base || exprEq(ub, base)) {
					found = true
				}
			})
			return found
		}
		eachInstr(fn, func(ins ssa.Instruction) {
			ld, ok := ins.(*ssa.UnOp)
			if !ok || ld.Op != token.MUL {
				return
			}
			fa, ok := ld.X.(*ssa.FieldAddr)
			if !ok || fa.Field != fValue || !isSM(fa.X) {
				return
			}
			base := strip(fa.X)
			if _, fresh := base.(*ssa.Alloc); fresh {
				return
			}
			// the uses of the map value (through re-typings)
			var uses []ssa.Instruction
			var walk func(v ssa.Value, d int)
			walk = func(v ssa.Value, d int) {
				if v.Referrers() == nil || d > 3 {
					return
				}
				for _, r := range *v.Referrers() {
					switch x := r.(type) {
					case *ssa.ChangeType:
						walk(x, d+1)
					case *ssa.MakeInterface:
						walk(x, d+1)
					case *ssa.DebugRef:
					case *ssa.BinOp:
						// comparison with nil reads the header only; still a read of shared state
						uses = append(uses, r)
					default:
						uses = append(uses, r)
					}
				}
			}
			walk(ld, 0)
			uses = append(uses, ld)
			var bad []string
			for _, u := range uses {
				if phi, isPhi := u.(*ssa.Phi); isPhi {
					// the value joins another one (a plain Map of the other arm of a
					// type switch): the lock is held at the end of the block the
					// value comes from and is released by a deferred call only, so it
					// is held wherever the joined value is used
					held := false
					for i, e := range phi.Edges {
						if i < len(phi.Block().Preds) && derivesFrom(e, func(x ssa.Value) bool { return x == ssa.Value(ld) }, 3) {
							pb := phi.Block().Preds[i]
							held = lockedAt(base, pb.Instrs[len(pb.Instrs)-1]) && !explicitUnlock(base)
						}
					}
					if !held {
						bad = append(bad, l.Pos(ld.Pos())+" (joined value used after the lock's scope)")
					}
					continue
				}
				if !lockedAt(base, u) {
					bad = append(bad, l.Pos(u.Pos()))
				}
			}
			n++
			c.Check(rule, fmt.Sprintf("%s | map of %s", fnName(fn), describe(base)), l.Pos(ld.Pos()), len(bad) == 0, "read and used under the SyncMap's lock",
				"the SyncMap's map is read or used at "+strings.Join(bad, ", ")+" without the SyncMap's lock held (released before the use, or never taken): concurrent map iteration and map write with a script or host that updates the SyncMap")
		})
	}
	if n == 0 {
		c.Und(rule, "reads of SyncMap.Value", "-", "no read of a SyncMap's map found")
	}
}
