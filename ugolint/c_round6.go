package main

import (
	"fmt"
	"go/ast"
	"strconv"
	"go/constant"
	"go/token"
	"go/types"
	"sort"
	"strings"

	"golang.org/x/tools/go/ssa"
)

// Rules added after the sixth round of independently seeded changes and the
// repairs that accompanied it.

// ---- C02/pending-err-per-handler -------------------------------------------------------------------------------------
// An error that is thrown while a try statement is active is parked until the
// statement's catch block takes it or its finally block has run.  While the
// finally (or catch) block runs, a nested try statement can throw and catch an
// error of its own, so two errors are parked at the same time in one function
// activation.  A parking slot that exists once per activation (a plain field of
// the frame or of the frame's handler list) cannot hold both: the nested
// statement's catch clears it and the outer error is gone after the finally
// block.  The rule: wherever the throw path stores a *RuntimeError into memory
// that outlives the call, the slot is an element of a slice (or a field of a
// struct type that is the element type of a slice field): one slot per handler.
func rulePendingErrPerHandler(c *Ctx, rule string) {
	l := c.L
	throw := l.Method(modPath, "VM", "throw")
	rtErr := l.NamedType(modPath, "RuntimeError")
	if !c.Anchor(rule, "VM.throw / type RuntimeError", throw != nil && rtErr != nil) {
		return
	}
	isRtErrPtr := func(t types.Type) bool {
		p, ok := t.Underlying().(*types.Pointer)
		return ok && types.Identical(p.Elem(), rtErr)
	}
	// struct types that are the element type of a slice-typed field of some
	// struct of the package
	elemStructs := map[*types.Struct]bool{}
	for _, pkg := range l.Pkgs {
		if pkg.PkgPath != modPath {
			continue
		}
		sc := pkg.Types.Scope()
		for _, nm := range sc.Names() {
			tn, ok := sc.Lookup(nm).(*types.TypeName)
			if !ok {
				continue
			}
			st, ok := tn.Type().Underlying().(*types.Struct)
			if !ok {
				continue
			}
			for i := 0; i < st.NumFields(); i++ {
				if sl, ok := st.Field(i).Type().Underlying().(*types.Slice); ok {
					if es, ok := sl.Elem().Underlying().(*types.Struct); ok {
						elemStructs[es] = true
					} else if ep, ok := sl.Elem().Underlying().(*types.Pointer); ok {
						if es, ok := ep.Elem().Underlying().(*types.Struct); ok {
							elemStructs[es] = true
						}
					}
				}
			}
		}
	}
	var perElement func(addr ssa.Value, depth int) bool
	perElement = func(addr ssa.Value, depth int) bool {
		if depth > 6 {
			return false
		}
		switch a := addr.(type) {
		case *ssa.IndexAddr:
			if _, isSlice := a.X.Type().Underlying().(*types.Slice); isSlice {
				return true
			}
			return perElement(a.X, depth+1)
		case *ssa.FieldAddr:
			if p, ok := a.X.Type().Underlying().(*types.Pointer); ok {
				if st, ok := p.Elem().Underlying().(*types.Struct); ok && elemStructs[st] {
					return true
				}
			}
			return perElement(a.X, depth+1)
		case *ssa.UnOp:
			return false
		}
		return false
	}
	n := 0
	eachInstrDeep(throw, 3, func(ins ssa.Instruction) {
		st, ok := ins.(*ssa.Store)
		if !ok || !isRtErrPtr(st.Val.Type()) {
			return
		}
		if _, isConst := st.Val.(*ssa.Const); isConst {
			return // clearing a slot
		}
		switch root := st.Addr.(type) {
		case *ssa.Alloc:
			return // a local variable
		case *ssa.FieldAddr, *ssa.IndexAddr:
			_ = root
		default:
			return
		}
		// a field of the error value itself (wrapping) is not a parking slot
		if fa, ok := st.Addr.(*ssa.FieldAddr); ok {
			if p, ok := fa.X.Type().Underlying().(*types.Pointer); ok && types.Identical(p.Elem(), rtErr) {
				return
			}
		}
		n++
		fn := ins.Parent()
		key := fnKey(fn) + " | parks the thrown error in " + slotName(st.Addr)
		c.Check(rule, key, l.Pos(ins.Pos()), perElement(st.Addr, 0), "the slot belongs to one handler (slice element)",
			"the thrown error is parked in a slot that exists once per activation: a try statement nested in a finally or catch block that catches an error of its own clears it, and the outer error is lost after the finally block (`try { boom() } finally { try { throw 1 } catch { } }` continues as if nothing was thrown)")
	})
	if n == 0 {
		c.Und(rule, "VM.throw | parking slot", l.Pos(throw.Pos()), "no store of the thrown error found on the throw path: the rule no longer sees where a pending error is kept")
	}
}

func fnKey(fn *ssa.Function) string {
	s := fn.RelString(fn.Pkg.Pkg)
	s = strings.TrimPrefix(s, "(*")
	s = strings.Replace(s, ")", "", 1)
	return s
}

func slotName(addr ssa.Value) string {
	switch a := addr.(type) {
	case *ssa.FieldAddr:
		if p, ok := a.X.Type().Underlying().(*types.Pointer); ok {
			if st, ok := p.Elem().Underlying().(*types.Struct); ok {
				tn := types.TypeString(p.Elem(), func(*types.Package) string { return "" })
				return tn + "." + st.Field(a.Field).Name()
			}
		}
	case *ssa.IndexAddr:
		return "a slice element"
	}
	return "memory"
}

// ---- C07/pool-reset (also C17) ----------------------------------------------------------------------------------------
// A value recycled through a sync.Pool carries whatever its last user left in
// it.  For every sync.Pool of the repository whose values are pointers to a
// repository struct, each field of the struct is brought to a known state
// either on every path from the Get to the return of the acquiring function, or
// on every path to every Put (for a deferred Put: on every path to every
// return of the function).  A field that is reset on the success path only
// leaks the failed call's state into the next, unrelated call.  The rule is a
// contradiction rule: it holds the code to its own belief, so only a field
// that the acquiring or the releasing function resets on some path is required
// to be reset on all of them.
func rulePoolReset(c *Ctx, rule string, pkgFilter func(string) bool) {
	l := c.L
	type poolUse struct {
		name string
		pos  string
		T    *types.Named
		gets []*ssa.Call
		puts []ssa.CallInstruction
	}
	pools := map[string]*poolUse{}
	var order []string
	poolKey := func(recv ssa.Value) string {
		if g := addrOfGlobal(recv); g != nil {
			return g.Pkg.Pkg.Path() + "." + g.Name()
		}
		if fa, ok := recv.(*ssa.FieldAddr); ok {
			if p, ok := fa.X.Type().Underlying().(*types.Pointer); ok {
				if st, ok := p.Elem().Underlying().(*types.Struct); ok {
					return tstr(p.Elem()) + "." + st.Field(fa.Field).Name()
				}
			}
		}
		if u, ok := recv.(*ssa.UnOp); ok { // *sync.Pool held in a variable
			if g := addrOfGlobal(u.X); g != nil {
				return g.Pkg.Pkg.Path() + "." + g.Name()
			}
		}
		return ""
	}
	structOf := func(t types.Type) *types.Named {
		p, ok := t.Underlying().(*types.Pointer)
		if !ok {
			return nil
		}
		n, ok := p.Elem().(*types.Named)
		if !ok || n.Obj().Pkg() == nil || !strings.HasPrefix(n.Obj().Pkg().Path(), modPath) {
			return nil
		}
		if _, ok := n.Underlying().(*types.Struct); !ok {
			return nil
		}
		return n
	}
	for _, fn := range l.RepoFuncs(pkgFilter) {
		eachInstr(fn, func(ins ssa.Instruction) {
			ci, ok := ins.(ssa.CallInstruction)
			if !ok {
				return
			}
			f := ci.Common().StaticCallee()
			if f == nil || f.Pkg == nil || f.Pkg.Pkg.Path() != "sync" || f.Signature.Recv() == nil || len(ci.Common().Args) == 0 {
				return
			}
			if !strings.HasSuffix(f.Signature.Recv().Type().String(), "sync.Pool") {
				return
			}
			k := poolKey(ci.Common().Args[0])
			if k == "" {
				return
			}
			pu := pools[k]
			if pu == nil {
				pu = &poolUse{name: k, pos: l.Pos(ins.Pos())}
				pools[k] = pu
				order = append(order, k)
			}
			switch f.Name() {
			case "Get":
				if cl, ok := ins.(*ssa.Call); ok {
					pu.gets = append(pu.gets, cl)
					for _, r := range *cl.Referrers() {
						if ta, ok := r.(*ssa.TypeAssert); ok {
							if n := structOf(ta.AssertedType); n != nil {
								pu.T = n
							}
						}
					}
				}
			case "Put":
				pu.puts = append(pu.puts, ci)
				if len(ci.Common().Args) > 1 {
					if mi, ok := ci.Common().Args[1].(*ssa.MakeInterface); ok {
						if n := structOf(mi.X.Type()); n != nil {
							pu.T = n
						}
					}
				}
			}
		})
	}
	n := 0
	for _, k := range order {
		pu := pools[k]
		if pu.T == nil || len(pu.puts) == 0 || len(pu.gets) == 0 {
			continue
		}
		st := pu.T.Underlying().(*types.Struct)
		isT := func(v ssa.Value) bool {
			p, ok := v.Type().Underlying().(*types.Pointer)
			return ok && types.Identical(p.Elem(), pu.T)
		}
		resets := func(field int) func(ssa.Instruction) bool {
			onField := func(v ssa.Value) bool {
				for d := 0; d < 4; d++ {
					switch x := v.(type) {
					case *ssa.FieldAddr:
						if x.Field == field && isT(x.X) {
							return true
						}
						v = x.X
					case *ssa.UnOp:
						v = x.X
					default:
						return false
					}
				}
				return false
			}
			return viaDeep(func(ins ssa.Instruction) bool {
				switch x := ins.(type) {
				case *ssa.Store:
					if fa, ok := x.Addr.(*ssa.FieldAddr); ok && fa.Field == field && isT(fa.X) {
						// initialising a value built on the spot is not a reset of a recycled one
						if _, fresh := fa.X.(*ssa.Alloc); !fresh {
							return true
						}
					}
					// *v = T{...}
					if isT(x.Addr) && types.Identical(x.Val.Type(), pu.T) {
						return true
					}
				case ssa.CallInstruction:
					com := x.Common()
					name := ""
					if f := com.StaticCallee(); f != nil {
						name = f.Name()
					} else if b, ok := com.Value.(*ssa.Builtin); ok {
						name = b.Name()
					}
					lname := strings.ToLower(name)
					if !(strings.Contains(lname, "reset") || strings.Contains(lname, "truncate") || strings.Contains(lname, "clear") || strings.Contains(lname, "init")) {
						return false
					}
					for _, a := range com.Args {
						if onField(a) {
							return true
						}
					}
				}
				return false
			})
		}
		// the acquiring side: returns of the Get's function that hand out the pooled value
		derived := func(get *ssa.Call) map[ssa.Value]bool {
			d := map[ssa.Value]bool{get: true}
			for changed := true; changed; {
				changed = false
				eachInstr(get.Parent(), func(ins ssa.Instruction) {
					v, ok := ins.(ssa.Value)
					if !ok || d[v] {
						return
					}
					for _, op := range ins.Operands(nil) {
						if *op != nil && d[*op] {
							switch ins.(type) {
							case *ssa.TypeAssert, *ssa.Extract, *ssa.Phi, *ssa.ChangeType, *ssa.MakeInterface:
								d[v] = true
								changed = true
							}
						}
					}
				})
			}
			return d
		}
		for i := 0; i < st.NumFields(); i++ {
			fld := st.Field(i)
			ft := fld.Type().String()
			if strings.HasPrefix(ft, "sync.") || strings.HasPrefix(ft, "sync/atomic.") {
				continue
			}
			pred := resets(i)
			// a belief stated by the code itself: only a field that the pooling
			// code resets somewhere is held to be reset everywhere (a scratch
			// buffer that is written before it is read needs no reset)
			anyReset := false
			for _, get := range pu.gets {
				eachInstr(get.Parent(), func(ins ssa.Instruction) {
					if pred(ins) {
						anyReset = true
					}
				})
			}
			for _, put := range pu.puts {
				eachInstr(put.Parent(), func(ins ssa.Instruction) {
					if pred(ins) {
						anyReset = true
					}
				})
			}
			if !anyReset {
				continue
			}
			acquireOK := true
			for _, get := range pu.gets {
				d := derived(get)
				handsOut := false
				stop := func(ins ssa.Instruction) bool {
					r, ok := ins.(*ssa.Return)
					if !ok {
						return false
					}
					for _, v := range r.Results {
						if d[v] {
							return true
						}
					}
					return false
				}
				eachInstr(get.Parent(), func(ins ssa.Instruction) {
					if stop(ins) {
						handsOut = true
					}
				})
				if !handsOut {
					acquireOK = false
					continue
				}
				if _, ok := mustPassBefore(get, pred, stop); !ok {
					acquireOK = false
				}
			}
			releaseOK := true
			where := ""
			for _, put := range pu.puts {
				fn := put.Parent()
				entry := fn.Blocks[0].Instrs[0]
				if pred(entry) {
					continue
				}
				ok := false
				if _, isDefer := put.(*ssa.Defer); isDefer {
					_, ok = mustPassBefore(entry, pred, isReturn)
				} else {
					_, ok = mustPassBefore(entry, pred, func(x ssa.Instruction) bool { return x == put.(ssa.Instruction) })
				}
				if !ok {
					releaseOK = false
					where = l.Pos(put.Pos())
				}
			}
			n++
			key := pu.name + " | field " + tstr(pu.T) + "." + fld.Name()
			c.Check(rule, key, pu.pos, acquireOK || releaseOK, "reset on every path before the value is pooled or handed out again",
				"a value recycled through the pool keeps field "+fld.Name()+" from its previous user on some path (Put at "+where+"): the state of one call (e.g. the partial output of a failed one) leaks into the next")
		}
	}
	c.extra["pools_examined"] = len(order)
	if n == 0 {
		c.Note("pool-reset: no sync.Pool of repository structs with both Get and Put in scope")
	}
}

// ---- C07/lock-first (also C09) ---------------------------------------------------------------------------------------
// A method of VM that takes the VM's mutex owns the VM only once the lock is
// held.  Every write to the receiver's state in such a method (a store to a
// field, an atomic Store/Swap/Add/CompareAndSwap on a field, a call of another
// method of the receiver that writes fields) is dominated by the Lock call.  A
// reset performed before the lock is taken runs concurrently with the run that
// still holds it: Run clearing the abort flag early erases an Abort meant for
// the run in progress.
func ruleLockFirst(c *Ctx, rule string, vf *vmFacts) {
	l := c.L
	n := 0
	for _, fn := range l.RepoFuncs(func(pp string) bool { return pp == modPath }) {
		if fn.Signature.Recv() == nil || len(fn.Params) == 0 || len(fn.Blocks) == 0 {
			continue
		}
		recv := fn.Params[0]
		p, ok := recv.Type().Underlying().(*types.Pointer)
		if !ok || !types.Identical(p.Elem().Underlying(), vf.vmS) {
			continue
		}
		onRecv := func(v ssa.Value) bool {
			for d := 0; d < 4; d++ {
				switch x := v.(type) {
				case *ssa.FieldAddr:
					if x.X == recv {
						return true
					}
					v = x.X
				case *ssa.IndexAddr:
					v = x.X
				default:
					return false
				}
			}
			return false
		}
		var lock *ssa.Call
		eachInstr(fn, func(ins ssa.Instruction) {
			cl, ok := ins.(*ssa.Call)
			if !ok || lock != nil {
				return
			}
			f := cl.Call.StaticCallee()
			if f == nil || f.Pkg == nil || f.Pkg.Pkg.Path() != "sync" || f.Name() != "Lock" || len(cl.Call.Args) == 0 {
				return
			}
			if fa, ok := cl.Call.Args[0].(*ssa.FieldAddr); ok && fa.X == recv {
				lock = cl
			}
		})
		if lock == nil {
			continue
		}
		var early []string
		eachInstr(fn, func(ins ssa.Instruction) {
			writes := false
			switch x := ins.(type) {
			case *ssa.Store:
				writes = onRecv(x.Addr)
			case ssa.CallInstruction:
				if ins == ssa.Instruction(lock) {
					return
				}
				if _, isDefer := ins.(*ssa.Defer); isDefer {
					return
				}
				com := x.Common()
				f := com.StaticCallee()
				if f == nil {
					return
				}
				if f.Pkg != nil && f.Pkg.Pkg.Path() == "sync/atomic" {
					switch f.Name() {
					case "Store", "Swap", "Add", "CompareAndSwap", "And", "Or":
						writes = len(com.Args) > 0 && onRecv(com.Args[0])
					}
				} else if strings.HasPrefix(funcPkgPath(f), modPath) && len(f.Blocks) > 0 {
					for i, a := range com.Args {
						if a == recv && storesThroughParam(f, i, 0, map[*ssa.Function]bool{}) {
							writes = true
						}
					}
				}
			}
			if writes && !instrDominates(lock, ins) {
				early = append(early, l.Pos(ins.Pos()))
			}
		})
		n++
		c.Check(rule, fnName(fn)+" | writes of VM state", l.Pos(lock.Pos()), len(early) == 0, "every write of the receiver's state follows the Lock call",
			"the method writes VM state at "+strings.Join(early, ", ")+" before it holds the VM's mutex: the write races with the run that still owns the VM (an abort flag cleared there erases an Abort aimed at the run in progress, which then never ends)")
	}
	if n == 0 {
		c.Und(rule, "VM methods that lock the VM", "-", "no method of VM takes the VM's mutex: the rule no longer sees the ownership protocol")
	}
}

// ---- C02/counter-balance (also C10) ----------------------------------------------------------------------------------
// The compiler and the optimizer keep nesting depths in counters (try depth,
// loop depth, expression level) that are incremented when a construct is
// entered and decremented when it is left; the emitted code addresses run-time
// structures by these depths.  In every function that enters (an inline
// increment of a counter field, or a call of a function that only increments
// it), every path to a successful return leaves again (an inline decrement, a
// call of the function that only decrements it, or a deferred one).  A
// decrement that is skipped on one shape of the construct (a try without
// catch) leaves the depth one too high for the rest of the compilation.
func ruleCounterBalance(c *Ctx, rule string) {
	l := c.L
	type ckey struct {
		st  *types.Struct
		fld int
	}
	name := func(k ckey) string { return k.st.Field(k.fld).Name() }
	stepOf := func(ins ssa.Instruction) (ckey, int, bool) {
		st, ok := ins.(*ssa.Store)
		if !ok {
			return ckey{}, 0, false
		}
		fa, ok := st.Addr.(*ssa.FieldAddr)
		if !ok {
			return ckey{}, 0, false
		}
		bo, ok := st.Val.(*ssa.BinOp)
		if !ok || (bo.Op != token.ADD && bo.Op != token.SUB) {
			return ckey{}, 0, false
		}
		k, ok := bo.Y.(*ssa.Const)
		if !ok || k.Value == nil || k.Value.ExactString() != "1" {
			return ckey{}, 0, false
		}
		ld, ok := bo.X.(*ssa.UnOp)
		if !ok || ld.Op != token.MUL {
			return ckey{}, 0, false
		}
		fa2, ok := ld.X.(*ssa.FieldAddr)
		if !ok || fa2.Field != fa.Field || !(fa2.X == fa.X || exprEq(fa2.X, fa.X)) {
			return ckey{}, 0, false
		}
		p, ok := fa.X.Type().Underlying().(*types.Pointer)
		if !ok {
			return ckey{}, 0, false
		}
		s, ok := p.Elem().Underlying().(*types.Struct)
		if !ok {
			return ckey{}, 0, false
		}
		d := 1
		if bo.Op == token.SUB {
			d = -1
		}
		return ckey{s, fa.Field}, d, true
	}
	fns := l.RepoFuncs(func(pp string) bool { return pp == modPath })
	type steps struct{ inc, dec map[ckey][]ssa.Instruction }
	per := map[*ssa.Function]*steps{}
	for _, fn := range fns {
		s := &steps{map[ckey][]ssa.Instruction{}, map[ckey][]ssa.Instruction{}}
		eachInstr(fn, func(ins ssa.Instruction) {
			if k, d, ok := stepOf(ins); ok {
				if d > 0 {
					s.inc[k] = append(s.inc[k], ins)
				} else {
					s.dec[k] = append(s.dec[k], ins)
				}
			}
		})
		per[fn] = s
	}
	// counters: fields that are both incremented and decremented somewhere
	counters := map[ckey]bool{}
	hasInc, hasDec := map[ckey]bool{}, map[ckey]bool{}
	for _, s := range per {
		for k := range s.inc {
			hasInc[k] = true
		}
		for k := range s.dec {
			hasDec[k] = true
		}
	}
	for k := range hasInc {
		if hasDec[k] {
			counters[k] = true
		}
	}
	enterFn, leaveFn := map[*ssa.Function]ckey{}, map[*ssa.Function]ckey{}
	for fn, s := range per {
		if fn.Parent() != nil {
			continue
		}
		for k := range counters {
			if len(s.inc[k]) > 0 && len(s.dec[k]) == 0 {
				enterFn[fn] = k
			}
			if len(s.dec[k]) > 0 && len(s.inc[k]) == 0 {
				leaveFn[fn] = k
			}
		}
	}
	isNilErrReturn := func(ins ssa.Instruction) bool {
		r, ok := ins.(*ssa.Return)
		if !ok {
			return false
		}
		if len(r.Results) == 0 {
			return true
		}
		last := returnedValue(r, len(r.Results)-1)
		if !isErrorType(last.Type()) {
			return true
		}
		k, ok := last.(*ssa.Const)
		return ok && k.IsNil()
	}
	n := 0
	for _, fn := range sortedFuncs(funcSet(fns)) {
		if _, ok := enterFn[fn]; ok {
			continue
		}
		if _, ok := leaveFn[fn]; ok {
			continue
		}
		if len(fn.Blocks) == 0 {
			continue
		}
		// events of this function per counter
		incs, decs := map[ckey][]ssa.Instruction{}, map[ckey]func(ssa.Instruction) bool{}
		deferred := map[ckey]bool{}
		s := per[fn]
		for k := range counters {
			incs[k] = append(incs[k], s.inc[k]...)
		}
		eachInstr(fn, func(ins ssa.Instruction) {
			ci, ok := ins.(ssa.CallInstruction)
			if !ok {
				return
			}
			g := ci.Common().StaticCallee()
			if g == nil {
				// defer func() { ... }() with a closure
				if mc, ok := ci.Common().Value.(*ssa.MakeClosure); ok {
					g, _ = mc.Fn.(*ssa.Function)
				}
			}
			if g == nil {
				return
			}
			_, isDefer := ins.(*ssa.Defer)
			if k, ok := enterFn[g]; ok && !isDefer {
				incs[k] = append(incs[k], ins)
			}
			if isDefer {
				if k, ok := leaveFn[g]; ok {
					deferred[k] = true
				}
				if gs := per[g]; gs != nil {
					for k := range gs.dec {
						deferred[k] = true
					}
				}
			}
		})
		for k := range counters {
			k := k
			decs[k] = func(ins ssa.Instruction) bool {
				if kk, d, ok := stepOf(ins); ok && kk == k && d < 0 {
					return true
				}
				if cl, ok := ins.(*ssa.Call); ok {
					if g := cl.Call.StaticCallee(); g != nil {
						if kk, ok := leaveFn[g]; ok && kk == k {
							return true
						}
					}
				}
				return false
			}
		}
		for k, list := range incs {
			if len(list) == 0 {
				continue
			}
			for i, inc := range list {
				n++
				key := fmt.Sprintf("%s | %s entered", fnName(fn), name(k))
				if i > 0 {
					key += fmt.Sprintf(" #%d", i+1)
				}
				if deferred[k] {
					c.Ok(rule, key, l.Pos(inc.Pos()), "left by a deferred call")
					continue
				}
				bad, ok := mustPassBefore(inc, decs[k], isNilErrReturn)
				where := ""
				if bad != nil {
					where = l.Pos(bad.Pos())
				}
				c.Check(rule, key, l.Pos(inc.Pos()), ok, "every path to a successful return decrements the counter again",
					"the function increments "+name(k)+" and can return successfully (at "+where+") without decrementing it: the nesting depth stays one too high for whatever is compiled next (loops compiled later record the wrong try depth, so break / continue out of a try skips its finally block)")
			}
		}
	}
	if n == 0 {
		c.Und(rule, "nesting counters", "-", "no increment of a nesting counter found: the rule no longer sees how depths are tracked")
	}
}

func funcSet(fns []*ssa.Function) map[*ssa.Function]bool {
	m := map[*ssa.Function]bool{}
	for _, f := range fns {
		m[f] = true
	}
	return m
}

// ---- C01/decl-kind-agree (also C10) ----------------------------------------------------------------------------------
// The compiler and the optimizer both dispatch on the kind of a declaration
// (param, global, var, const).  Every function of the package that dispatches
// on GenDecl.Tok (compares it with two or more token constants) handles the
// same set of kinds: a kind that the compiler declares names for and the
// optimizer's scope tracking skips leaves a declared name (a `global len`)
// looking like the builtin to the optimizer, which then folds calls of it.
func ruleDeclKindAgree(c *Ctx, rule string) {
	l := c.L
	_, fTok := l.structField(parserPath, "GenDecl", "Tok")
	if !c.Anchor(rule, "parser.GenDecl.Tok", fTok >= 0) {
		return
	}
	sets := map[*ssa.Function]map[string]bool{}
	for _, fn := range l.RepoFuncs(func(pp string) bool { return pp == modPath }) {
		eachInstr(fn, func(ins ssa.Instruction) {
			bo, ok := ins.(*ssa.BinOp)
			if !ok || bo.Op != token.EQL {
				return
			}
			for _, pr := range [][2]ssa.Value{{bo.X, bo.Y}, {bo.Y, bo.X}} {
				k, ok := pr[1].(*ssa.Const)
				if !ok || k.Value == nil {
					continue
				}
				ld, ok := pr[0].(*ssa.UnOp)
				if !ok || ld.Op != token.MUL {
					continue
				}
				if _, ok := isFieldAddrOf(ld.X, parserPath, "GenDecl", fTok); !ok {
					continue
				}
				if sets[fn] == nil {
					sets[fn] = map[string]bool{}
				}
				sets[fn][tokenName(l, k)] = true
			}
		})
	}
	// the two sides: the optimizer's functions and everything else (the compiler)
	optT := l.NamedType(modPath, "SimpleOptimizer")
	if !c.Anchor(rule, "type SimpleOptimizer", optT != nil) {
		return
	}
	isOpt := func(fn *ssa.Function) bool {
		for fn.Parent() != nil {
			fn = fn.Parent()
		}
		if r := fn.Signature.Recv(); r != nil {
			t := r.Type()
			if p, ok := t.(*types.Pointer); ok {
				t = p.Elem()
			}
			return types.Identical(t, optT)
		}
		return false
	}
	comp, opt := map[string]bool{}, map[string]bool{}
	var optFn *ssa.Function
	for fn, s := range sets {
		for k := range s {
			if isOpt(fn) {
				opt[k] = true
				if optFn == nil || fn.Pos() < optFn.Pos() {
					optFn = fn
				}
			} else {
				comp[k] = true
			}
		}
	}
	if !c.Anchor(rule, "comparisons of GenDecl.Tok in the compiler and in the optimizer", len(comp) >= 2 && len(opt) >= 1) {
		return
	}
	var missing []string
	for k := range comp {
		if !opt[k] {
			missing = append(missing, k)
		}
	}
	sort.Strings(missing)
	c.Check(rule, "optimizer | declaration kinds handled", l.Pos(optFn.Pos()), len(missing) == 0, fmt.Sprintf("all %d kinds the compiler distinguishes", len(comp)),
		"the optimizer dispatches on the declaration kind but has no case for "+strings.Join(missing, ", ")+", which the compiler handles: names declared that way are invisible to its scope tracking (it folds `len(\"abc\")` after `global len`)")
}

// tokenName: the name of the token constant with the value of k, or the value.
func tokenName(l *Loaded, k *ssa.Const) string {
	if p := l.ByPath[modPath+"/token"]; p != nil {
		sc := p.Types.Scope()
		for _, nm := range sc.Names() {
			if cst, ok := sc.Lookup(nm).(*types.Const); ok && types.Identical(cst.Type(), k.Type()) && cst.Val().ExactString() == k.Value.ExactString() {
				return "token." + nm
			}
		}
	}
	return k.Value.ExactString()
}

// ---- C09/aborted-own ---------------------------------------------------------------------------------------------------
// Aborted reports the abort flag of the VM it is called on.  Abort flags a
// VM's children one by one and the VM itself last; each VM's Run clears its own
// flag.  A child that answered with another VM's flag (its root's) lets an
// Invoke pass the aborted-check in the window between the two stores, after
// which the child's Run clears the only flag that was set: the abort is lost.
func ruleAbortedOwn(c *Ctx, rule string, vf *vmFacts) {
	l := c.L
	ab := l.Method(modPath, "VM", "Aborted")
	fAbort := vf.field("abort")
	if !c.Anchor(rule, "VM.Aborted / VM.abort", ab != nil && fAbort >= 0 && len(ab.Params) > 0) {
		return
	}
	recv := ab.Params[0]
	n, bad := 0, 0
	where := l.Pos(ab.Pos())
	eachInstrDeep(ab, 2, func(ins ssa.Instruction) {
		cl, ok := ins.(*ssa.Call)
		if !ok {
			return
		}
		f := cl.Call.StaticCallee()
		if f == nil || f.Pkg == nil || f.Pkg.Pkg.Path() != "sync/atomic" || len(cl.Call.Args) == 0 {
			return
		}
		fa, ok := cl.Call.Args[0].(*ssa.FieldAddr)
		if !ok {
			return
		}
		p, ok := fa.X.Type().Underlying().(*types.Pointer)
		if !ok || !types.Identical(p.Elem().Underlying(), vf.vmS) || fa.Field != fAbort {
			return
		}
		n++
		base := fa.X
		if ins.Parent() != ab {
			base = l.paramArg(base)
		}
		if base != ssa.Value(recv) {
			bad++
			where = l.Pos(ins.Pos())
		}
	})
	if n == 0 {
		c.Und(rule, "VM.Aborted | flag read", l.Pos(ab.Pos()), "no atomic read of a VM's abort flag found in Aborted")
		return
	}
	c.Check(rule, "VM.Aborted | flag read", where, bad == 0, "the flag read is the receiver's own",
		"Aborted reads the abort flag of a VM other than the receiver (a child answering with its root's flag): between Abort flagging the child and flagging the root an Invoke passes the check and the child's Run clears the child's flag - the Abort is lost and the root's Run never returns")
}

// ---- C08/syncmap-lock (also C04) -------------------------------------------------------------------------------------
// A SyncMap's map is shared between goroutines by design (it is the one
// container scripts running on different VMs may share); every use of the map
// read from its Value field - lookup, update, range, len, delete, or handing
// it to a function - happens while the SyncMap's lock is held: a Lock / RLock
// on the same SyncMap dominates the use and no Unlock / RUnlock lies between.
// Reading the field under the lock and walking the map after releasing it (to
// "not block writers" while encoding) is a concurrent map iteration and write.
func ruleSyncMapLock(c *Ctx, rule string, pkgFilter func(string) bool) {
	l := c.L
	smS, fValue := l.structField(modPath, "SyncMap", "Value")
	if !c.Anchor(rule, "SyncMap.Value", smS != nil && fValue >= 0) {
		return
	}
	strip := func(v ssa.Value) ssa.Value {
		for {
			switch x := v.(type) {
			case *ssa.ChangeType:
				v = x.X
			default:
				return v
			}
		}
	}
	isSM := func(v ssa.Value) bool {
		p, ok := v.Type().Underlying().(*types.Pointer)
		return ok && types.Identical(p.Elem().Underlying(), smS)
	}
	lockBase := func(ins ssa.Instruction, names ...string) (ssa.Value, bool) {
		ci, ok := ins.(ssa.CallInstruction)
		if !ok {
			return nil, false
		}
		f := ci.Common().StaticCallee()
		if f == nil || len(ci.Common().Args) == 0 {
			return nil, false
		}
		okName := false
		for _, n := range names {
			if f.Name() == n {
				okName = true
			}
		}
		if !okName {
			return nil, false
		}
		a := strip(ci.Common().Args[0])
		if isSM(a) {
			return a, true // wrapper methods (*SyncMap).RLock ...
		}
		if fa, ok := a.(*ssa.FieldAddr); ok && isSM(fa.X) { // o.mu.RLock()
			return strip(fa.X), true
		}
		return nil, false
	}
	var lockedAtIn func(f *ssa.Function, base ssa.Value, at ssa.Instruction, names []string, depth int) bool
	lockedAtIn = func(f *ssa.Function, base ssa.Value, at ssa.Instruction, names []string, depth int) bool {
		ok := false
		eachInstr(f, func(ins ssa.Instruction) {
			if _, isDefer := ins.(*ssa.Defer); isDefer {
				return
			}
			b, is := lockBase(ins, names...)
			if !is || !(b == base || exprEq(b, base)) || !instrDominates(ins, at) {
				return
			}
			released := false
			eachInstr(f, func(u ssa.Instruction) {
				if _, isDefer := u.(*ssa.Defer); isDefer {
					return
				}
				ub, is := lockBase(u, "Unlock", "RUnlock")
				if is && (ub == base || exprEq(ub, base)) && instrDominates(ins, u) && instrDominates(u, at) {
					released = true
				}
			})
			if !released {
				ok = true
			}
		})
		if ok {
			return true
		}
		// "caller holds the lock": an unexported helper whose SyncMap is a parameter,
		// every call site of which holds the lock of the argument
		p, isParam := base.(*ssa.Parameter)
		if !isParam || depth > 2 || f.Object() == nil || f.Object().Exported() || l.AddressTaken(f) {
			return false
		}
		pi := -1
		for k, q := range f.Params {
			if q == p {
				pi = k
			}
		}
		cs := l.RealCallers(f)
		if pi < 0 || len(cs) == 0 {
			return false
		}
		for _, ci := range cs {
			a := ci.Common().Args
			if pi >= len(a) || ci.Parent() == nil || !lockedAtIn(ci.Parent(), strip(a[pi]), ci, names, depth+1) {
				return false
			}
		}
		return true
	}
	n := 0
	for _, fn := range l.RepoFuncs(pkgFilter) {
		fn := fn
		lockNames := []string{"Lock", "RLock"}
		lockedAt := func(base ssa.Value, at ssa.Instruction) bool { return lockedAtIn(fn, base, at, lockNames, 0) }
		explicitUnlock := func(base ssa.Value) bool {
			found := false
			eachInstr(fn, func(u ssa.Instruction) {
				if _, isDefer := u.(*ssa.Defer); isDefer {
					return
				}
				if ub, is := lockBase(u, "Unlock", "RUnlock"); is && (ub == base || exprEq(ub, base)) {
					found = true
				}
			})
			return found
		}
		eachInstr(fn, func(ins ssa.Instruction) {
			ld, ok := ins.(*ssa.UnOp)
			if !ok || ld.Op != token.MUL {
				return
			}
			fa, ok := ld.X.(*ssa.FieldAddr)
			if !ok || fa.Field != fValue || !isSM(fa.X) {
				return
			}
			base := strip(fa.X)
			if _, fresh := base.(*ssa.Alloc); fresh {
				return
			}
			// the uses of the map value (through re-typings)
			var uses []ssa.Instruction
			var walk func(v ssa.Value, d int)
			walk = func(v ssa.Value, d int) {
				if v.Referrers() == nil || d > 3 {
					return
				}
				for _, r := range *v.Referrers() {
					switch x := r.(type) {
					case *ssa.ChangeType:
						walk(x, d+1)
					case *ssa.MakeInterface:
						walk(x, d+1)
					case *ssa.DebugRef:
					case *ssa.BinOp:
						// comparison with nil reads the header only; still a read of shared state
						uses = append(uses, r)
					default:
						uses = append(uses, r)
					}
				}
			}
			walk(ld, 0)
			uses = append(uses, ld)
			// updates of the map need the write lock: a reader's lock admits other readers
			for _, u := range uses {
				if mu, isUpd := u.(*ssa.MapUpdate); isUpd {
					lockNames = []string{"Lock"}
					held := lockedAt(base, mu)
					lockNames = []string{"Lock", "RLock"}
					n++
					c.Check(rule, fmt.Sprintf("%s | update of the map of %s", fnName(fn), describe(base)), l.Pos(mu.Pos()), held, "under the SyncMap's write lock",
						"the SyncMap's map is updated without the write lock held (a read lock admits other readers and writers of the same kind): concurrent map writes")
				}
			}
			var bad []string
			for _, u := range uses {
				if phi, isPhi := u.(*ssa.Phi); isPhi {
					// the value joins another one (a plain Map of the other arm of a
					// type switch): the lock is held at the end of the block the
					// value comes from and is released by a deferred call only, so it
					// is held wherever the joined value is used
					held := false
					for i, e := range phi.Edges {
						if i < len(phi.Block().Preds) && derivesFrom(e, func(x ssa.Value) bool { return x == ssa.Value(ld) }, 3) {
							pb := phi.Block().Preds[i]
							held = lockedAt(base, pb.Instrs[len(pb.Instrs)-1]) && !explicitUnlock(base)
						}
					}
					if !held {
						bad = append(bad, l.Pos(ld.Pos())+" (joined value used after the lock's scope)")
					}
					continue
				}
				if !lockedAt(base, u) {
					bad = append(bad, l.Pos(u.Pos()))
				}
			}
			n++
			c.Check(rule, fmt.Sprintf("%s | map of %s", fnName(fn), describe(base)), l.Pos(ld.Pos()), len(bad) == 0, "read and used under the SyncMap's lock",
				"the SyncMap's map is read or used at "+strings.Join(bad, ", ")+" without the SyncMap's lock held (released before the use, or never taken): concurrent map iteration and map write with a script or host that updates the SyncMap")
		})
	}
	// stores to the Value field itself (initialising a zero SyncMap in place)
	for _, fn := range l.RepoFuncs(pkgFilter) {
		fn := fn
		eachInstr(fn, func(ins ssa.Instruction) {
			st, ok := ins.(*ssa.Store)
			if !ok {
				return
			}
			fa, ok := st.Addr.(*ssa.FieldAddr)
			if !ok || fa.Field != fValue || !isSM(fa.X) {
				return
			}
			base := strip(fa.X)
			if _, fresh := base.(*ssa.Alloc); fresh {
				return
			}
			// the codec's shim type (encoder.SyncMap) is a decoding target that nothing shares yet
			if pt, ok := base.Type().Underlying().(*types.Pointer); !ok || !isNamed(pt.Elem(), modPath, "SyncMap") {
				return
			}
			held := lockedAtIn(fn, base, st, []string{"Lock"}, 0)
			n++
			c.Check(rule, fmt.Sprintf("%s | store to the map field of %s", fnName(fn), describe(base)), l.Pos(st.Pos()), held, "under the SyncMap's write lock",
				"the Value field of a shared SyncMap is assigned without the write lock held (under the read lock at most, which admits other readers doing the same): a data race on the field between VMs that share the SyncMap (a module constant, a global)")
		})
	}
	if n == 0 {
		c.Und(rule, "reads of SyncMap.Value", "-", "no read of a SyncMap's map found")
	}
}

// ---- C12/fork-same-file --------------------------------------------------------------------------------------------------
// A compiler forked for code of the SAME source file (a function literal: the
// fork is given the forking compiler's own file) inherits the import context
// unchanged: the module path and the module map handed to the fork are the
// forking compiler's own fields.  A relative import written inside a function
// of a module must resolve exactly as one written at the module's top level,
// otherwise the same text names two different modules (one body run twice, two
// objects) or none.
func ruleForkSameFile(c *Ctx, rule string) {
	l := c.L
	fork := l.Method(modPath, "Compiler", "fork")
	cs, fFile := l.structField(modPath, "Compiler", "file")
	if !c.Anchor(rule, "Compiler.fork / Compiler.file", fork != nil && cs != nil && fFile >= 0 && len(fork.Params) >= 4) {
		return
	}
	// parameters of fork by type: *ModuleMap, string (module path)
	idxFile, idxPath, idxMap := -1, -1, -1
	for i, p := range fork.Params {
		if i == 0 {
			continue
		}
		ts := p.Type().String()
		switch {
		case strings.HasSuffix(ts, "parser.SourceFile"):
			idxFile = i
		case ts == "string":
			idxPath = i
		case strings.HasSuffix(ts, ".ModuleMap"):
			idxMap = i
		}
	}
	if !c.Anchor(rule, "fork(file, modulePath, moduleMap, ...)", idxFile > 0 && idxPath > 0 && idxMap > 0) {
		return
	}
	ownField := func(v ssa.Value, recv ssa.Value) (string, bool) {
		ld, ok := v.(*ssa.UnOp)
		if !ok || ld.Op != token.MUL {
			return "", false
		}
		fa, ok := ld.X.(*ssa.FieldAddr)
		if !ok || fa.X != recv {
			return "", false
		}
		return cs.Field(fa.Field).Name(), true
	}
	n := 0
	for _, ci := range l.RealCallers(fork) {
		args := ci.Common().Args
		if len(args) <= idxMap {
			continue
		}
		recv := args[0]
		if f, ok := ownField(args[idxFile], recv); !ok || f != "file" {
			continue // a fork for another file (an imported module)
		}
		n++
		_, okPath := ownField(args[idxPath], recv)
		fm, okMap := ownField(args[idxMap], recv)
		okMap = okMap && strings.Contains(strings.ToLower(fm), "map")
		c.Check(rule, fnName(ci.Parent())+" | fork for the same file", l.Pos(ci.Pos()), okPath && okMap, "module path and module map are the forking compiler's own",
			"a compiler forked for a function literal of the same file does not inherit the forking compiler's module path / module map: an import inside a function of a module resolves against another context than the same import at the module's top level (a second module body is run, or the file is not found)")
	}
	if n == 0 {
		c.Und(rule, "Compiler.fork | same-file callers", l.Pos(fork.Pos()), "no caller forks a compiler for its own file: the rule no longer sees how function literals are compiled")
	}
}

// ---- C14/throw-identity ----------------------------------------------------------------------------------------------------
// A Go callee that ran a script function through an Invoker hands the script
// function's error back as a Go error.  Where the VM turns a Go error into a
// thrown error, an error that already is a *RuntimeError is thrown as that very
// object: `err == sentinel` in a catch block, isError(err, sentinel) and
// errors.Is on the host side see the same error whether the function was called
// inside the script or from Go.
func ruleThrowIdentity(c *Ctx, rule string) {
	l := c.L
	throw := l.Method(modPath, "VM", "throw")
	rtErr := l.NamedType(modPath, "RuntimeError")
	if !c.Anchor(rule, "VM.throw / type RuntimeError", throw != nil && rtErr != nil) {
		return
	}
	n := 0
	for _, fn := range l.RepoFuncs(func(pp string) bool { return pp == modPath }) {
		// functions with an `error` parameter that call throw
		var errParam *ssa.Parameter
		for _, p := range fn.Params {
			if isErrorType(p.Type()) {
				errParam = p
			}
		}
		if errParam == nil {
			continue
		}
		var throws []*ssa.Call
		eachInstr(fn, func(ins ssa.Instruction) {
			if cl, ok := ins.(*ssa.Call); ok && cl.Call.StaticCallee() == throw {
				throws = append(throws, cl)
			}
		})
		if len(throws) == 0 {
			continue
		}
		eachInstr(fn, func(ins ssa.Instruction) {
			ta, ok := ins.(*ssa.TypeAssert)
			if !ok || ta.X != ssa.Value(errParam) {
				return
			}
			p, ok := ta.AssertedType.(*types.Pointer)
			if !ok || !types.Identical(p.Elem(), rtErr) {
				return
			}
			n++
			same := false
			for _, t := range throws {
				if len(t.Call.Args) < 2 {
					continue
				}
				v := t.Call.Args[1]
				for d := 0; d < 4; d++ {
					switch x := v.(type) {
					case *ssa.ChangeType:
						v = x.X
						continue
					case *ssa.Extract:
						v = x.Tuple
						continue
					}
					break
				}
				if v == ssa.Value(ta) {
					same = true
				}
				// one throw after a type switch: the arm of the assertion contributes the asserted value itself
				if phi, ok := v.(*ssa.Phi); ok {
					for _, e := range phi.Edges {
						for d := 0; d < 4; d++ {
							switch x := e.(type) {
							case *ssa.ChangeType:
								e = x.X
								continue
							case *ssa.Extract:
								e = x.Tuple
								continue
							}
							break
						}
						if e == ssa.Value(ta) {
							same = true
						}
					}
				}
			}
			c.Check(rule, fnName(fn)+" | an error that is a *RuntimeError", l.Pos(ta.Pos()), same, "thrown as the same object",
				"a Go error that already is a *RuntimeError is not thrown as the same object (a copy or a wrapper is thrown): the error a script function raises loses its identity when the function is called from Go - `err == sentinel`, isError and errors.Is succeed for the in-script call and fail for the call through an Invoker")
		})
	}
	if n == 0 {
		c.Und(rule, "conversion of a Go error into a thrown error", "-", "no function asserts its error parameter to *RuntimeError before throwing: the rule no longer sees where Go errors re-enter the VM")
	}
}

// ---- C02/blank-never-const -----------------------------------------------------------------------------------------------
// The blank identifier can be declared any number of times (`_, v := f()`, a
// second `const ( _ = iota; ...)` group).  It is therefore never made a
// constant symbol: every call that defines a compile-time constant for a name
// is reached only after the name was compared with "_" and found different, and
// every store to a symbol's Constant flag stores false, or a value that is false
// for "_".  A constant named _ makes the next blank declaration in the scope a
// compile error ("assignment to constant variable").
func ruleBlankNeverConst(c *Ctx, rule string) {
	l := c.L
	def := l.Method(modPath, "SymbolTable", "defineConstLit")
	_, fConst := l.structField(modPath, "Symbol", "Constant")
	if !c.Anchor(rule, "SymbolTable.defineConstLit / Symbol.Constant", def != nil && fConst >= 0) {
		return
	}
	isBlank := func(v ssa.Value) bool {
		k, ok := v.(*ssa.Const)
		return ok && k.Value != nil && k.Value.Kind() == constant.String && constant.StringVal(k.Value) == "_"
	}
	// notBlankAt: on the way to block b the name was compared with "_" and differs
	notBlankAt := func(name ssa.Value, b *ssa.BasicBlock) bool {
		for _, g := range guardEdges(b) {
			bo, ok := g.If.Cond.(*ssa.BinOp)
			if !ok || (bo.Op != token.EQL && bo.Op != token.NEQ) {
				continue
			}
			for _, pr := range [][2]ssa.Value{{bo.X, bo.Y}, {bo.Y, bo.X}} {
				if isBlank(pr[1]) && (pr[0] == name || exprEq(pr[0], name)) {
					if (bo.Op == token.NEQ) == g.Truth {
						return true
					}
				}
			}
		}
		return false
	}
	n := 0
	for _, ci := range l.RealCallers(def) {
		args := ci.Common().Args
		if len(args) < 2 {
			continue
		}
		n++
		c.Check(rule, fnName(ci.Parent())+" | constant defined for a declared name", l.Pos(ci.Pos()), notBlankAt(args[1], ci.Block()), "reached only for names other than _",
			"a compile-time constant is defined without the name having been compared with \"_\": a blank constant (`const _ = iota`) becomes a constant symbol named _, and the next blank target in the scope (`_, v := f()`, a second const group) fails to compile with 'assignment to constant variable'")
	}
	for _, fn := range l.RepoFuncs(func(pp string) bool { return pp == modPath }) {
		if fn == def {
			continue // the definer itself: its callers carry the obligation above
		}
		eachInstr(fn, func(ins ssa.Instruction) {
			st, ok := ins.(*ssa.Store)
			if !ok {
				return
			}
			if _, ok := isFieldAddrOf(st.Addr, modPath, "Symbol", fConst); !ok {
				return
			}
			if k, ok := st.Val.(*ssa.Const); ok && k.Value != nil && k.Value.Kind() == constant.Bool && !constant.BoolVal(k.Value) {
				return // Constant = false
			}
			// a copy of another symbol's flag (free variables inherit it)
			if ld, ok := st.Val.(*ssa.UnOp); ok && ld.Op == token.MUL {
				if _, ok := isFieldAddrOf(ld.X, modPath, "Symbol", fConst); ok {
					return
				}
			}
			n++
			// the stored value is false for "_": it is (a phi over) false and a
			// comparison name != "_", or the store itself is guarded
			okVal := false
			var hasNE func(v ssa.Value, d int) bool
			hasNE = func(v ssa.Value, d int) bool {
				if d > 4 {
					return false
				}
				switch x := v.(type) {
				case *ssa.BinOp:
					if x.Op == token.NEQ && (isBlank(x.X) || isBlank(x.Y)) {
						return true
					}
				case *ssa.Phi:
					// `a && name != "_"`: false on the short-circuit edges, the comparison on the other
					all := true
					any := false
					for _, e := range x.Edges {
						if k, ok := e.(*ssa.Const); ok && k.Value != nil && k.Value.Kind() == constant.Bool && !constant.BoolVal(k.Value) {
							continue
						}
						if hasNE(e, d+1) {
							any = true
						} else {
							all = false
						}
					}
					return all && any
				}
				return false
			}
			okVal = hasNE(st.Val, 0)
			if !okVal {
				// guarded store: find the symbol's name compared with "_" on the way
				for _, g := range guardEdges(st.Block()) {
					if bo, ok := g.If.Cond.(*ssa.BinOp); ok && (isBlank(bo.X) || isBlank(bo.Y)) && (bo.Op == token.NEQ) == g.Truth {
						okVal = true
					}
				}
			}
			c.Check(rule, fnName(fn)+" | Symbol.Constant set", l.Pos(st.Pos()), okVal, "false for the blank identifier",
				"a symbol is flagged constant without the blank identifier being excluded: `const _ = f()` makes _ a constant and a later blank target in the same scope is a compile error")
		})
	}
	if n == 0 {
		c.Und(rule, "definitions of constants", "-", "no constant definition found")
	}
}

// ---- C20/conv-passthrough ------------------------------------------------------------------------------------------------
// A converter registered for a Go or uGO type wraps or unwraps a payload; it
// does not compute one.  In every registered converter, the value returned is
// built from the input by type assertions, conversions, dereferences, field
// reads and by placing it into a new wrapper struct - or it is a constant / a
// fresh empty value (the answer for nil).  No call whose result depends on the
// payload (compacting, trimming, normalising, re-parsing) lies between input
// and output: whatever bytes, time or location go in come out again.
func ruleConvPassthrough(c *Ctx, rule string) {
	l := c.L
	reg := l.Func(modPath+"/registry", "RegisterObjectConverter")
	regAny := l.Func(modPath+"/registry", "RegisterAnyConverter")
	if !c.Anchor(rule, "registry.RegisterObjectConverter / RegisterAnyConverter", reg != nil && regAny != nil) {
		return
	}
	n := 0
	for _, ci := range append(append([]ssa.CallInstruction{}, l.StaticCallers(reg)...), l.StaticCallers(regAny)...) {
		args := ci.Common().Args
		if len(args) != 2 {
			continue
		}
		var conv *ssa.Function
		switch v := args[1].(type) {
		case *ssa.MakeClosure:
			conv, _ = v.Fn.(*ssa.Function)
		case *ssa.Function:
			conv = v
		case *ssa.ChangeType:
			if f, ok := v.X.(*ssa.Function); ok {
				conv = f
			}
			if mc, ok := v.X.(*ssa.MakeClosure); ok {
				conv, _ = mc.Fn.(*ssa.Function)
			}
		}
		if conv == nil || len(conv.Blocks) == 0 || len(conv.Params) == 0 {
			continue
		}
		var offender ssa.Value
		var pure func(fn *ssa.Function, inputs map[ssa.Value]bool, v ssa.Value, depth int) bool
		pure = func(fn *ssa.Function, inputs map[ssa.Value]bool, v ssa.Value, depth int) bool {
			if depth > 12 {
				offender = v
				return false
			}
			if inputs[v] {
				return true
			}
			switch x := v.(type) {
			case *ssa.Const, *ssa.Global, *ssa.Function:
				return true
			case *ssa.Parameter:
				offender = v
				return false
			case *ssa.TypeAssert:
				return pure(fn, inputs, x.X, depth+1)
			case *ssa.Extract:
				return pure(fn, inputs, x.Tuple, depth+1)
			case *ssa.ChangeType:
				return pure(fn, inputs, x.X, depth+1)
			case *ssa.ChangeInterface:
				return pure(fn, inputs, x.X, depth+1)
			case *ssa.Convert:
				return pure(fn, inputs, x.X, depth+1)
			case *ssa.MakeInterface:
				return pure(fn, inputs, x.X, depth+1)
			case *ssa.Field:
				return pure(fn, inputs, x.X, depth+1)
			case *ssa.FieldAddr:
				return pure(fn, inputs, x.X, depth+1)
			case *ssa.Phi:
				for _, e := range x.Edges {
					if !pure(fn, inputs, e, depth+1) {
						return false
					}
				}
				return true
			case *ssa.UnOp:
				if x.Op != token.MUL {
					offender = v
					return false
				}
				if g, ok := x.X.(*ssa.Global); ok {
					_ = g
					return true // a package-level value (ugo.Undefined)
				}
				return pure(fn, inputs, x.X, depth+1)
			case *ssa.Alloc:
				// a new wrapper (or a new empty array behind an empty slice): every value stored into it is pure
				if x.Referrers() != nil {
					for _, r := range *x.Referrers() {
						switch st := r.(type) {
						case *ssa.Store:
							if st.Addr == ssa.Value(x) && !pure(fn, inputs, st.Val, depth+1) {
								return false
							}
						case *ssa.FieldAddr:
							if st.Referrers() != nil {
								for _, rr := range *st.Referrers() {
									if s2, ok := rr.(*ssa.Store); ok && s2.Addr == ssa.Value(st) && !pure(fn, inputs, s2.Val, depth+1) {
										return false
									}
								}
							}
						}
					}
				}
				return true
			case *ssa.Slice:
				// T{}: a slice of a fresh zero-length array
				if al, ok := x.X.(*ssa.Alloc); ok {
					if p, ok := al.Type().Underlying().(*types.Pointer); ok {
						if arr, ok := p.Elem().Underlying().(*types.Array); ok && arr.Len() == 0 {
							return true
						}
					}
				}
				offender = v
				return false
			case *ssa.MakeSlice:
				if k, ok := x.Len.(*ssa.Const); ok && k.Value != nil && k.Value.ExactString() == "0" {
					return true
				}
				offender = v
				return false
			case *ssa.MakeMap:
				return true
			case *ssa.Call:
				com := x.Common()
				g := com.StaticCallee()
				// a getter of the repository on the input (no further arguments),
				// or a repository helper: its results are pure in terms of its arguments
				if g != nil && len(g.Blocks) > 0 && strings.HasPrefix(funcPkgPath(g), modPath) && depth < 6 {
					in2 := map[ssa.Value]bool{}
					for i, a := range com.Args {
						if i < len(g.Params) && pure(fn, inputs, a, depth+1) {
							in2[g.Params[i]] = true
						}
					}
					okAll := true
					eachInstr(g, func(ins ssa.Instruction) {
						if r, ok := ins.(*ssa.Return); ok && len(r.Results) > 0 {
							if !pure(g, in2, returnedValue(r, 0), depth+1) {
								okAll = false
							}
						}
					})
					return okAll
				}
				if com.IsInvoke() && len(com.Args) == 0 {
					// a zero-argument method of an interface held by the input (an accessor)
					return pure(fn, inputs, com.Value, depth+1)
				}
				offender = v
				return false
			}
			offender = v
			return false
		}
		inputs := map[ssa.Value]bool{conv.Params[0]: true}
		eachInstr(conv, func(ins ssa.Instruction) {
			r, ok := ins.(*ssa.Return)
			if !ok || len(r.Results) == 0 {
				return
			}
			n++
			offender = nil
			okp := pure(conv, inputs, returnedValue(r, 0), 0)
			what := ""
			if offender != nil {
				what = fmt.Sprintf("%s at %s", describe(offender), l.Pos(offender.Pos()))
			}
			key := fmt.Sprintf("%s | converter #%d | return", fnName(ci.Parent()), converterOrdinal(ci, l))
			if k := countKey(key); k > 1 {
				key += fmt.Sprintf(" #%d", k)
			}
			// a result that does not contain the input at all (a constant, an
			// empty value) is the answer for a nil input only - unless the
			// converter declines (second result false)
			res0 := returnedValue(r, 0)
			isInput := func(x ssa.Value) bool { return x == ssa.Value(conv.Params[0]) }
			mentions := derivesFrom(res0, isInput, 8)
			if al, ok := stripMI(res0).(*ssa.Alloc); ok && !mentions && al.Referrers() != nil {
				for _, rr := range *al.Referrers() {
					if fa, ok := rr.(*ssa.FieldAddr); ok && fa.Referrers() != nil {
						for _, r2 := range *fa.Referrers() {
							if st, ok := r2.(*ssa.Store); ok && derivesFrom(st.Val, isInput, 8) {
								mentions = true
							}
						}
					}
				}
			}
			declines := false
			if len(r.Results) > 1 {
				if k, ok := returnedValue(r, 1).(*ssa.Const); ok && k.Value != nil && k.Value.Kind() == constant.Bool && !constant.BoolVal(k.Value) {
					declines = true
				}
			}
			if !mentions && !declines {
				forNil := false
				for _, g := range guardEdges(r.Block()) {
					bo, ok := g.If.Cond.(*ssa.BinOp)
					if !ok || (bo.Op != token.EQL && bo.Op != token.NEQ) {
						continue
					}
					for _, pr := range [][2]ssa.Value{{bo.X, bo.Y}, {bo.Y, bo.X}} {
						if k, ok := pr[1].(*ssa.Const); ok && k.IsNil() && derivesFrom(pr[0], isInput, 6) && (bo.Op == token.EQL) == g.Truth {
							forNil = true
						}
					}
				}
				c.Check(rule, key+" | constant answer", l.Pos(r.Pos()), forNil, "given for a nil input only",
					"the converter answers with a value that does not contain its input (nil, undefined, a constant) on a path where the input is not known to be nil: a non-nil value (an empty message, the zero time) crosses the boundary as something else")
			}
			c.Check(rule, key, l.Pos(r.Pos()), okp, "the result is the input re-typed, unwrapped or wrapped (or a constant / empty value)",
				"the converter's result is computed from its input ("+what+"): the value that crosses the Go boundary is not the value that was handed over (e.g. a json.RawMessage comes back compacted, with different bytes)")
		})
	}
	resetKeyCount()
	if n == 0 {
		c.Und(rule, "registered converters", "-", "no registered converter with a body found")
	}
}

var keyCounts = map[string]int{}

func countKey(k string) int { keyCounts[k]++; return keyCounts[k] }
func resetKeyCount()        { keyCounts = map[string]int{} }

// converterOrdinal: the position of the registering call among the
// registering calls of its function (source order).
func converterOrdinal(ci ssa.CallInstruction, l *Loaded) int {
	n := 0
	eachInstr(ci.Parent(), func(ins ssa.Instruction) {
		if x, ok := ins.(ssa.CallInstruction); ok && x.Pos() <= ci.Pos() {
			if f := x.Common().StaticCallee(); f != nil && f.Pkg != nil && f.Pkg.Pkg.Path() == modPath+"/registry" {
				n++
			}
		}
	})
	return n
}

func stripMI(v ssa.Value) ssa.Value {
	for {
		switch x := v.(type) {
		case *ssa.MakeInterface:
			v = x.X
		case *ssa.ChangeType:
			v = x.X
		default:
			return v
		}
	}
}

// ---- C04/gob-register-cover ------------------------------------------------------------------------------------------------
// Objects without a codec of their own (errors, ObjectPtr, the stdlib's
// wrapper objects) are written through encoding/gob, and may hold any data
// object in an interface-typed field.  gob can encode a value held in an
// interface only if its concrete type was registered.  Every data object type
// the encoder has a codec for - a uGO type U with an encoder type of the same
// name and underlying type, U or *U implementing Object, no func-typed field -
// is passed to gob.Register in the encoder package: otherwise a module
// attribute such as EncoderOptions{Value: Map{...}} compiles and runs but its
// Bytecode cannot be encoded.
func ruleGobRegisterCover(c *Ctx, rule string) {
	l := c.L
	ep := l.ByPath[encPath]
	up := l.ByPath[modPath]
	objT := l.NamedType(modPath, "Object")
	if !c.Anchor(rule, "packages ugo, encoder; interface Object", ep != nil && up != nil && objT != nil) {
		return
	}
	obj := objT.Underlying().(*types.Interface)
	registered := map[string]bool{}
	for _, fn := range l.RepoFuncs(func(pp string) bool { return pp == encPath }) {
		eachInstr(fn, func(ins ssa.Instruction) {
			cl, ok := ins.(*ssa.Call)
			if !ok {
				return
			}
			f := cl.Call.StaticCallee()
			if f == nil || f.Pkg == nil || f.Pkg.Pkg.Path() != "encoding/gob" || (f.Name() != "Register" && f.Name() != "RegisterName") {
				return
			}
			a := cl.Call.Args[len(cl.Call.Args)-1]
			if ci, ok := a.(*ssa.ChangeInterface); ok {
				a = ci.X
			}
			if mi, ok := a.(*ssa.MakeInterface); ok {
				registered[types.TypeString(mi.X.Type(), nil)] = true
			} else {
				// an interface-typed value (ugo.Undefined): the dynamic type of the global's initialiser
				if ld, ok := a.(*ssa.UnOp); ok {
					if g, ok := ld.X.(*ssa.Global); ok {
						if v, ok := g.Object().(*types.Var); ok {
							if t := initType(l.ByPath[g.Pkg.Pkg.Path()], v); t != nil {
								registered[types.TypeString(t, nil)] = true
							}
						}
					}
				}
			}
		})
	}
	if !c.Anchor(rule, "gob.Register calls in the encoder", len(registered) >= 3) {
		return
	}
	n := 0
	sc := ep.Types.Scope()
	for _, nm := range sc.Names() {
		tn, ok := sc.Lookup(nm).(*types.TypeName)
		if !ok {
			continue
		}
		un, ok := up.Types.Scope().Lookup(nm).(*types.TypeName)
		if !ok || !types.Identical(tn.Type().Underlying(), un.Type().Underlying()) {
			continue
		}
		// a codec type: has MarshalBinary
		hasCodec := false
		for _, t := range []types.Type{tn.Type(), types.NewPointer(tn.Type())} {
			ms := types.NewMethodSet(t)
			if ms.Lookup(ep.Types, "MarshalBinary") != nil {
				hasCodec = true
			}
		}
		if !hasCodec {
			continue
		}
		var form types.Type
		if types.Implements(un.Type(), obj) {
			form = un.Type()
		} else if types.Implements(types.NewPointer(un.Type()), obj) {
			form = types.NewPointer(un.Type())
		} else {
			continue // not an object (Bytecode)
		}
		if st, ok := un.Type().Underlying().(*types.Struct); ok {
			fn := false
			for i := 0; i < st.NumFields(); i++ {
				if _, ok := st.Field(i).Type().Underlying().(*types.Signature); ok {
					fn = true
				}
			}
			if fn {
				continue // a callable: not data
			}
		}
		n++
		fs := types.TypeString(form, nil)
		c.Check(rule, "gob registration of "+tstr(form), l.Pos(tn.Pos()), registered[fs], "registered",
			"the data object type "+tstr(form)+" has a codec but is not registered with gob: held in an interface-typed field of an object that is written through gob (an error's cause, EncoderOptions.Value, an ObjectPtr) it makes encoding fail with 'gob: type not registered for interface'")
	}
	if n == 0 {
		c.Und(rule, "codec types", "-", "no data object type with a codec found")
	}
}

// ---- C04/assert-inhabited --------------------------------------------------------------------------------------------------
// A type assertion to a concrete type can succeed only if some value of that
// type is ever placed into an interface from which the asserted operand can
// come.  For every assertion in the given packages whose target is a concrete
// type declared in the repository, the repository contains a conversion of a
// value of exactly that type to the operand's interface type, to an interface
// that converts to it implicitly, or to the empty interface (whole program,
// every package analysed).  The codec types of the
// encoder are distinct named types with the layout of the uGO types
// (`type BuiltinFunction ugo.BuiltinFunction`): asserting an Object taken from
// the VM's tables to the encoder's own type never succeeds, and the decoder
// then rejects every encoded builtin function.
func ruleAssertInhabited(c *Ctx, rule string, pkgFilter func(string) bool) {
	l := c.L
	// concrete type -> the interface types its values are converted to
	inhabited := map[string][]types.Type{}
	for _, fn := range l.RepoFuncs(nil) {
		eachInstr(fn, func(ins ssa.Instruction) {
			if mi, ok := ins.(*ssa.MakeInterface); ok {
				k := types.TypeString(mi.X.Type(), nil)
				inhabited[k] = append(inhabited[k], mi.Type())
			}
		})
	}
	n := 0
	for _, fn := range l.RepoFuncs(pkgFilter) {
		eachInstr(fn, func(ins ssa.Instruction) {
			ta, ok := ins.(*ssa.TypeAssert)
			if !ok {
				return
			}
			t := ta.AssertedType
			if _, isIface := t.Underlying().(*types.Interface); isIface {
				return
			}
			base := t
			if p, ok := t.(*types.Pointer); ok {
				base = p.Elem()
			}
			nt, ok := base.(*types.Named)
			if !ok || nt.Obj().Pkg() == nil || !strings.HasPrefix(nt.Obj().Pkg().Path(), modPath) {
				return
			}
			n++
			key := fmt.Sprintf("%s | .(%s)", fnName(fn), tstr(t))
			if k := countKey(key); k > 1 {
				key += fmt.Sprintf(" #%d", k)
			}
			// the interface a value must have been put into to arrive here: the
			// operand's own interface type, one that converts to it implicitly, or
			// the empty interface (from which it can be asserted)
			opI, _ := ta.X.Type().Underlying().(*types.Interface)
			can := false
			for _, j := range inhabited[types.TypeString(t, nil)] {
				ji, ok := j.Underlying().(*types.Interface)
				if !ok {
					continue
				}
				if ji.NumMethods() == 0 || opI == nil || types.Identical(j, ta.X.Type()) || types.Implements(j, opI) {
					can = true
				}
			}
			c.Check(rule, key, l.Pos(ta.Pos()), can, "values of the asserted type are placed into such an interface somewhere in the repository",
				"no value of type "+tstr(t)+" is ever converted to "+tstr(ta.X.Type())+" (or to an interface convertible to it) anywhere in the repository, so this assertion can never succeed: the branch that depends on it is dead (the decoder rejects every encoded builtin function with 'not a ugo.BuiltinFunction type')")
		})
	}
	resetKeyCount()
	if n == 0 {
		c.Und(rule, "type assertions to repository types", "-", "none found")
	}
}

// ---- C06/handler-active (also C02) -----------------------------------------------------------------------------------------
// The routine that switches the VM to a frame's error handler assumes that the
// frame's innermost handler still has a catch or a finally block to run.  Every
// frame handed to it was selected by the test that skips (and pops) consumed
// handlers - hasActiveHandler on that very frame's handler list, true edge - not
// by the mere presence of a handler: a handler whose finally block is already
// running has catch = finally = 0, and "jumping" to it restarts the function
// from its first instruction with the error still pending (a callee that always
// fails makes Run spin for ever).
func ruleHandlerActive(c *Ctx, rule string) {
	l := c.L
	hte := l.Method(modPath, "VM", "handleThrownError")
	active := l.Method(modPath, "errHandlers", "hasActiveHandler")
	_, fEH := l.structField(modPath, "frame", "errHandlers")
	if !c.Anchor(rule, "VM.handleThrownError / errHandlers.hasActiveHandler / frame.errHandlers", hte != nil && active != nil && fEH >= 0) {
		return
	}
	// selectedActive: the frame value v is known active at the end of block b
	selectedActive := func(v ssa.Value, b *ssa.BasicBlock) bool {
		for _, g := range guardEdges(b) {
			cl, ok := g.If.Cond.(*ssa.Call)
			if !ok || cl.Call.StaticCallee() != active || !g.Truth || len(cl.Call.Args) == 0 {
				continue
			}
			ld, ok := cl.Call.Args[0].(*ssa.UnOp)
			if !ok {
				continue
			}
			fa, ok := isFieldAddrOf(ld.X, modPath, "frame", fEH)
			if !ok {
				continue
			}
			if fa.X == v || exprEq(fa.X, v) {
				return true
			}
		}
		return false
	}
	n := 0
	for _, ci := range l.RealCallers(hte) {
		args := ci.Common().Args
		if len(args) < 2 {
			continue
		}
		n++
		frame := args[1]
		ok := true
		var visit func(v ssa.Value, at *ssa.BasicBlock, d int)
		seen := map[ssa.Value]bool{}
		visit = func(v ssa.Value, at *ssa.BasicBlock, d int) {
			if d > 4 {
				ok = false
				return
			}
			if k, isC := v.(*ssa.Const); isC && k.IsNil() {
				return // the "not found" value, excluded by the caller's nil test
			}
			if phi, isPhi := v.(*ssa.Phi); isPhi {
				if seen[v] {
					return
				}
				seen[v] = true
				for i, e := range phi.Edges {
					visit(e, phi.Block().Preds[i], d+1)
				}
				return
			}
			// the result of a helper that searches the frames: every value it returns
			var call *ssa.Call
			idx := 0
			switch x := v.(type) {
			case *ssa.Extract:
				call, _ = x.Tuple.(*ssa.Call)
				idx = x.Index
			case *ssa.Call:
				call = x
			}
			if call != nil {
				if g := call.Call.StaticCallee(); g != nil && len(g.Blocks) > 0 && funcPkgPath(g) == modPath {
					if seen[v] {
						return
					}
					seen[v] = true
					eachInstr(g, func(ins ssa.Instruction) {
						if r, isRet := ins.(*ssa.Return); isRet && idx < len(r.Results) {
							visit(returnedValue(r, idx), r.Block(), d+1)
						}
					})
					return
				}
			}
			if !selectedActive(v, at) {
				ok = false
			}
		}
		visit(frame, ci.Block(), 0)
		key := fnName(ci.Parent()) + " | frame handed to the handler switch"
		if k := countKey(key); k > 1 {
			key += fmt.Sprintf(" #%d", k)
		}
		c.Check(rule, key, l.Pos(ci.Pos()), ok, "selected by hasActiveHandler on the same frame",
			"a frame is handed to the handler switch without hasActiveHandler having succeeded for that frame: its innermost handler may be a consumed one (its finally block already running), and the VM then restarts the function at its first instruction with the error still pending")
	}
	resetKeyCount()
	if n == 0 {
		c.Und(rule, "callers of handleThrownError", "-", "none found")
	}
}

// ---- C04/decode-fresh (also C16) -------------------------------------------------------------------------------------------
// A decoder builds the slices and maps it stores into its receiver in this
// call: no UnmarshalBinary method re-slices or appends to storage read from its
// receiver (`sf.Lines[:0]`).  A receiver that is a scratch value decoded into
// repeatedly and copied (one SourceFile per file of a set) would otherwise hand
// the same backing array to every copy: decoding the next file overwrites the
// line table of the previous one and positions of errors move.
func ruleDecodeFresh(c *Ctx, rule string) {
	l := c.L
	n := 0
	for _, fn := range l.RepoFuncs(func(pp string) bool { return pp == encPath }) {
		if fn.Name() != "UnmarshalBinary" || fn.Signature.Recv() == nil || len(fn.Params) == 0 || len(fn.Blocks) == 0 {
			continue
		}
		recv := fn.Params[0]
		fromRecv := func(v ssa.Value) bool {
			for d := 0; d < 6; d++ {
				switch x := v.(type) {
				case *ssa.UnOp:
					v = x.X
				case *ssa.FieldAddr:
					v = x.X
				case *ssa.Field:
					v = x.X
				case *ssa.ChangeType:
					v = x.X
				case *ssa.Parameter:
					return x == recv
				default:
					return false
				}
			}
			return false
		}
		var bad []string
		eachInstr(fn, func(ins ssa.Instruction) {
			switch x := ins.(type) {
			case *ssa.Slice:
				if _, isLoad := x.X.(*ssa.UnOp); isLoad && fromRecv(x.X) {
					bad = append(bad, l.Pos(x.Pos()))
				}
			case *ssa.Call:
				if b, ok := x.Call.Value.(*ssa.Builtin); ok && b.Name() == "append" && len(x.Call.Args) > 0 {
					if _, isLoad := x.Call.Args[0].(*ssa.UnOp); isLoad && fromRecv(x.Call.Args[0]) {
						bad = append(bad, l.Pos(x.Pos()))
					}
				}
			}
		})
		n++
		c.Check(rule, fnName(fn)+" | storage of the decoded value", l.Pos(fn.Pos()), len(bad) == 0, "nothing is appended to or re-sliced from the receiver's previous storage",
			"the decoder builds its result in storage taken from the receiver ("+strings.Join(bad, ", ")+"): values decoded one after the other into a reused receiver share one backing array, so decoding the next file overwrites the line table of the previous ones and error positions move")
	}
	if n == 0 {
		c.Und(rule, "UnmarshalBinary methods", "-", "none found")
	}
}

// ---- C16/trace-complete -------------------------------------------------------------------------------------------------------
// The stack trace handed to the host has one entry for every position the VM
// recorded: every StackTrace the method builds has exactly len(Trace) elements
// (the length operand of the allocation is the length of the receiver's Trace
// itself, not a value capped or otherwise derived from it), so the outermost
// call statements of a deep call chain are reported like the innermost.
func ruleTraceComplete(c *Ctx, rule string) {
	l := c.L
	st := l.Method(modPath, "RuntimeError", "StackTrace")
	_, fTrace := l.structField(modPath, "RuntimeError", "Trace")
	if !c.Anchor(rule, "RuntimeError.StackTrace / RuntimeError.Trace", st != nil && fTrace >= 0) {
		return
	}
	n := 0
	eachInstrDeep(st, 1, func(ins ssa.Instruction) {
		ms, ok := ins.(*ssa.MakeSlice)
		if !ok {
			return
		}
		n++
		full := false
		// make(T, len(Trace)) or make(T, 0, len(Trace)) filled by append
		for _, v := range []ssa.Value{ms.Len, ms.Cap} {
			if cv, ok := v.(*ssa.Convert); ok {
				v = cv.X
			}
			if cl, ok := v.(*ssa.Call); ok {
				if b, ok := cl.Call.Value.(*ssa.Builtin); ok && b.Name() == "len" && len(cl.Call.Args) == 1 {
					if ld, ok := cl.Call.Args[0].(*ssa.UnOp); ok {
						if _, ok := isFieldAddrOf(ld.X, modPath, "RuntimeError", fTrace); ok {
							full = true
						}
					}
				}
			}
		}
		key := fnName(ins.Parent()) + " | length of the trace built"
		if k := countKey(key); k > 1 {
			key += fmt.Sprintf(" #%d", k)
		}
		c.Check(rule, key, l.Pos(ms.Pos()), full, "len(Trace)",
			"the stack trace is allocated with a length other than the number of recorded positions (a cap): for an error that escapes through more call sites than the cap the outermost call statements are missing from the reported trace")
	})
	resetKeyCount()
	if n == 0 {
		c.Und(rule, "RuntimeError.StackTrace | allocation", l.Pos(st.Pos()), "the method allocates no trace")
	}
}

// ---- C01/rewrite-by-result ---------------------------------------------------------------------------------------------------
// The optimizer rewrites the tree only by putting the result of a folding or
// evaluating call in the place of the expression it folded: every store the
// optimizer makes into an expression-typed field (or element) of a parser node
// stores the result of a call (transform, evalExpr, binaryop, ...), never an
// expression read from another node.  Moving existing sub-expressions between
// nodes (re-associating `(x + 1) + 2` into `x + (1 + 2)`) changes what is
// computed whenever the operator is not associative for the operand types
// (string and array concatenation, floats).
func ruleRewriteByResult(c *Ctx, rule string) {
	l := c.L
	optT := l.NamedType(modPath, "SimpleOptimizer")
	exprT := l.NamedType(parserPath, "Expr")
	if !c.Anchor(rule, "type SimpleOptimizer / parser.Expr", optT != nil && exprT != nil) {
		return
	}
	isOpt := func(fn *ssa.Function) bool {
		for fn.Parent() != nil {
			fn = fn.Parent()
		}
		if r := fn.Signature.Recv(); r != nil {
			t := r.Type()
			if p, ok := t.(*types.Pointer); ok {
				t = p.Elem()
			}
			return types.Identical(t, optT)
		}
		return false
	}
	inParserNode := func(addr ssa.Value) bool {
		for d := 0; d < 4; d++ {
			switch x := addr.(type) {
			case *ssa.FieldAddr:
				if p, ok := x.X.Type().Underlying().(*types.Pointer); ok {
					if nt, ok := p.Elem().(*types.Named); ok && nt.Obj().Pkg() != nil && nt.Obj().Pkg().Path() == parserPath {
						return true
					}
				}
				addr = x.X
			case *ssa.IndexAddr:
				addr = x.X
			case *ssa.UnOp:
				addr = x.X
			default:
				return false
			}
		}
		return false
	}
	var fromCall func(v ssa.Value, d int) bool
	fromCall = func(v ssa.Value, d int) bool {
		if d > 4 {
			return false
		}
		switch x := v.(type) {
		case *ssa.Extract:
			_, ok := x.Tuple.(*ssa.Call)
			return ok
		case *ssa.Call:
			return true
		case *ssa.MakeInterface:
			return fromCall(x.X, d+1)
		case *ssa.ChangeInterface:
			return fromCall(x.X, d+1)
		case *ssa.TypeAssert:
			return fromCall(x.X, d+1)
		case *ssa.Alloc:
			return true // a literal node built on the spot
		case *ssa.Phi:
			for _, e := range x.Edges {
				if !fromCall(e, d+1) {
					return false
				}
			}
			return true
		}
		return false
	}
	n := 0
	for _, fn := range l.RepoFuncs(func(pp string) bool { return pp == modPath }) {
		if !isOpt(fn) {
			continue
		}
		eachInstr(fn, func(ins ssa.Instruction) {
			st, ok := ins.(*ssa.Store)
			if !ok || !types.Identical(st.Val.Type(), exprT) || !inParserNode(st.Addr) {
				return
			}
			n++
			key := fnName(fn) + " | expression stored into a node"
			if k := countKey(key); k > 1 {
				key += fmt.Sprintf(" #%d", k)
			}
			c.Check(rule, key, l.Pos(st.Pos()), fromCall(st.Val, 0), "the stored expression is the result of a folding / evaluating call",
				"the optimizer stores an expression taken from another place of the tree ("+describe(st.Val)+") into a node: sub-expressions are moved between nodes, which changes the result whenever the operator is not associative for the operands' types (`s + 1 + 2` on a string, float sums)")
		})
	}
	resetKeyCount()
	// the tree walker itself returns, as the replacement of a node, only what a
	// folding / evaluating call returned: a literal built on the spot for a CALL
	// (`len("abc")` -> 3) bypasses the evaluator and with it the disabled and
	// shadowed builtins the evaluator honours
	if tr := l.Method(modPath, "SimpleOptimizer", "transform"); tr != nil {
		eachInstr(tr, func(ins ssa.Instruction) {
			r, ok := ins.(*ssa.Return)
			if !ok || len(r.Results) != 2 || !r.Pos().IsValid() {
				return // (the synthetic return of the recover block has no position)
			}
			v := returnedValue(r, 0)
			if k, isC := v.(*ssa.Const); isC && k.IsNil() {
				return
			}
			var viaCall func(v ssa.Value, d int) bool
			viaCall = func(v ssa.Value, d int) bool {
				if d > 4 {
					return false
				}
				switch x := v.(type) {
				case *ssa.Extract:
					_, ok := x.Tuple.(*ssa.Call)
					return ok
				case *ssa.Call:
					return true
				case *ssa.MakeInterface:
					return viaCall(x.X, d+1)
				case *ssa.ChangeInterface:
					return viaCall(x.X, d+1)
				case *ssa.Const:
					return x.IsNil()
				case *ssa.Phi:
					for _, e := range x.Edges {
						if !viaCall(e, d+1) {
							return false
						}
					}
					return true
				}
				return false
			}
			n++
			key := fnName(tr) + " | replacement returned"
			if k := countKey(key); k > 1 {
				key += fmt.Sprintf(" #%d", k)
			}
			c.Check(rule, key, l.Pos(r.Pos()), viaCall(v, 0), "the result of a folding / evaluating call",
				"the tree walker returns an expression it built itself ("+describe(v)+") as the replacement of a node: a call folded without the evaluator ignores the builtins the host disabled or the script shadowed (`len(\"abc\")` becomes 3 although `len` is disabled)")
		})
		resetKeyCount()
	}
	if n == 0 {
		c.Und(rule, "optimizer stores into parser nodes", "-", "none found")
	}
}

// ---- C01/shared-expr-no-rewrite ------------------------------------------------------------------------------------------------
// Folding constants into an expression at compile time rewrites the expression
// in place.  An expression of a const group that is repeated implicitly is
// compiled once per member, each time in the scope of the members before it:
// rewritten for the first member, it keeps that member's resolution of its
// names (`const ( x = x + 1; y )` under an outer `const x = 1` gave y the value
// of x instead of x + 1, with the optimizer only).  Two clauses: (a) every call
// of the compile-time rewriting entry is guarded by a flag field of the
// compiler being zero; (b) the function that re-uses a loop-carried expression
// for later members raises that flag.
func ruleSharedExprNoRewrite(c *Ctx, rule string) {
	l := c.L
	opt := l.Method(modPath, "Compiler", "optimizeExpr")
	cs, _ := l.structField(modPath, "Compiler", "file")
	exprT := l.NamedType(parserPath, "Expr")
	if !c.Anchor(rule, "Compiler.optimizeExpr / parser.Expr", opt != nil && cs != nil && exprT != nil) {
		return
	}
	flags := map[int]bool{}
	n := 0
	for _, ci := range l.RealCallers(opt) {
		n++
		guard := -1
		for _, g := range guardEdges(ci.Block()) {
			bo, ok := g.If.Cond.(*ssa.BinOp)
			if !ok || (bo.Op != token.EQL && bo.Op != token.NEQ) {
				continue
			}
			for _, pr := range [][2]ssa.Value{{bo.X, bo.Y}, {bo.Y, bo.X}} {
				k, ok := pr[1].(*ssa.Const)
				if !ok || k.Value == nil || !(k.Value.ExactString() == "0" || k.Value.ExactString() == "false") {
					continue
				}
				ld, ok := pr[0].(*ssa.UnOp)
				if !ok {
					continue
				}
				fa, ok := ld.X.(*ssa.FieldAddr)
				if !ok {
					continue
				}
				if p, ok := fa.X.Type().Underlying().(*types.Pointer); ok && types.Identical(p.Elem().Underlying(), cs) && (bo.Op == token.EQL) == g.Truth {
					guard = fa.Field
				}
			}
		}
		if guard >= 0 {
			flags[guard] = true
		}
		key := fnName(ci.Parent()) + " | compile-time rewriting of an expression"
		if k := countKey(key); k > 1 {
			key += fmt.Sprintf(" #%d", k)
		}
		c.Check(rule, key, l.Pos(ci.Pos()), guard >= 0, "only while the compiler's shared-expression flag is zero",
			"the compile-time folder rewrites the expression in place without the compiler's shared-expression flag being tested: an implicitly repeated expression of a const group is rewritten for its first member and later members are compiled from the rewritten tree (the optimizer changes `const ( x = x + 1; y )`)")
	}
	resetKeyCount()
	// (b) functions that pass a loop-carried expression to a compile call
	for _, fn := range l.RepoFuncs(func(pp string) bool { return pp == modPath }) {
		var carried *ssa.Phi
		eachInstr(fn, func(ins ssa.Instruction) {
			phi, ok := ins.(*ssa.Phi)
			if !ok || !types.Identical(phi.Type(), exprT) || carried != nil {
				return
			}
			// loop-carried: an incoming edge from a block the phi's block dominates
			for i := range phi.Edges {
				if i < len(phi.Block().Preds) && phi.Block().Dominates(phi.Block().Preds[i]) {
					if k, isC := phi.Edges[i].(*ssa.Const); isC && k.IsNil() {
						continue
					}
					carried = phi
				}
			}
		})
		if carried == nil {
			continue
		}
		// does the carried value reach a call (through phis)?
		used := false
		seen := map[ssa.Value]bool{}
		var walk func(v ssa.Value, d int)
		walk = func(v ssa.Value, d int) {
			if seen[v] || d > 5 || v.Referrers() == nil {
				return
			}
			seen[v] = true
			for _, r := range *v.Referrers() {
				switch x := r.(type) {
				case *ssa.Phi:
					walk(x, d+1)
				case *ssa.Store:
					// stored into a slice literal handed to a call
					used = true
				case ssa.CallInstruction:
					used = true
				}
			}
		}
		walk(carried, 0)
		if !used {
			continue
		}
		n++
		raises := false
		eachInstr(fn, func(ins ssa.Instruction) {
			st, ok := ins.(*ssa.Store)
			if !ok {
				return
			}
			fa, ok := st.Addr.(*ssa.FieldAddr)
			if !ok || !flags[fa.Field] {
				return
			}
			if p, ok := fa.X.Type().Underlying().(*types.Pointer); !ok || !types.Identical(p.Elem().Underlying(), cs) {
				return
			}
			if k, isC := st.Val.(*ssa.Const); isC && k.Value != nil && (k.Value.ExactString() == "0" || k.Value.ExactString() == "false") {
				return
			}
			raises = true
		})
		c.Check(rule, fnName(fn)+" | an expression carried over to later members", l.Pos(carried.Pos()), raises, "the function raises the shared-expression flag",
			"the function compiles one expression node for several members of a declaration group but never raises the flag that stops compile-time rewriting: the node is rewritten in place while the first member is compiled")
	}
	// (c) a compiler forked for the same file (a function literal inside the
	// repeated expression) inherits the flag
	if fork := l.Method(modPath, "Compiler", "fork"); fork != nil && len(flags) > 0 {
		inherits := false
		eachInstr(fork, func(ins ssa.Instruction) {
			st, ok := ins.(*ssa.Store)
			if !ok {
				return
			}
			fa, ok := st.Addr.(*ssa.FieldAddr)
			if !ok || !flags[fa.Field] {
				return
			}
			if ld, ok := st.Val.(*ssa.UnOp); ok {
				if sfa, ok := ld.X.(*ssa.FieldAddr); ok && sfa.Field == fa.Field && sfa.X == ssa.Value(fork.Params[0]) {
					inherits = true
				}
			}
		})
		n++
		c.Check(rule, "Compiler.fork | shared-expression flag", l.Pos(fork.Pos()), inherits, "the forked compiler inherits the flag",
			"a compiler forked for a function literal starts with the shared-expression flag cleared: the body of a function literal inside an implicitly repeated const expression is folded in place with the first member's resolution of its names (`const x = 1; const ( f = func() { return x + 1 }; x; g ); g()` returns 2 optimized and fails unoptimized)")
	}
	// (d) the optimizer's own pass over a const declaration does not rewrite the
	// values of a group with an implicit repetition: every store into an element
	// of ValueSpec.Values made by the optimizer is reached only when a flag
	// computed from the group (a bool carried out of a loop, or the result of a
	// helper) is false
	if _, fValues := l.structField(parserPath, "ValueSpec", "Values"); fValues >= 0 {
		optT := l.NamedType(modPath, "SimpleOptimizer")
		for _, fn := range l.RepoFuncs(func(pp string) bool { return pp == modPath }) {
			root := fn
			for root.Parent() != nil {
				root = root.Parent()
			}
			r := root.Signature.Recv()
			if r == nil || optT == nil {
				continue
			}
			rt := r.Type()
			if p, ok := rt.(*types.Pointer); ok {
				rt = p.Elem()
			}
			if !types.Identical(rt, optT) {
				continue
			}
			eachInstr(fn, func(ins ssa.Instruction) {
				st, ok := ins.(*ssa.Store)
				if !ok {
					return
				}
				ia, ok := st.Addr.(*ssa.IndexAddr)
				if !ok {
					return
				}
				ld, ok := ia.X.(*ssa.UnOp)
				if !ok {
					return
				}
				if _, ok := isFieldAddrOf(ld.X, parserPath, "ValueSpec", fValues); !ok {
					return
				}
				n++
				guarded := false
				for _, g := range guardEdges(st.Block()) {
					switch cnd := g.If.Cond.(type) {
					case *ssa.Phi:
						if b, ok := cnd.Type().Underlying().(*types.Basic); ok && b.Kind() == types.Bool && !g.Truth {
							guarded = true
						}
					case *ssa.Call:
						if b, ok := cnd.Type().Underlying().(*types.Basic); ok && b.Kind() == types.Bool && !g.Truth {
							guarded = true
						}
					case *ssa.Parameter:
						// the flag computed by the caller and handed to a helper
						if b, ok := cnd.Type().Underlying().(*types.Basic); ok && b.Kind() == types.Bool && !g.Truth {
							guarded = true
						}
					}
				}
				key := fnName(fn) + " | value of a declaration rewritten by the optimizer"
				if k := countKey(key); k > 1 {
					key += fmt.Sprintf(" #%d", k)
				}
				c.Check(rule, key, l.Pos(st.Pos()), guarded, "only when the group has no implicit repetition",
					"the optimizer's pass rewrites the value of a declaration in place without having established that the const group has no implicitly repeated member: a repeated `int(\"5\")` is folded with the first member's meaning of `int` (`const ( a = int(\"5\"); int; b )` gives [5, 5, 5] optimized and NotCallableError unoptimized)")
			})
		}
		resetKeyCount()
	}
	if n == 0 {
		c.Und(rule, "compile-time rewriting", "-", "no call of the compile-time folder found")
	}
}

// ---- C02/catch-var-fresh ----------------------------------------------------------------------------------------------------
// The catch variable is declared by the try statement, but the instructions
// that define it sit at the end of the try body and are skipped when an error
// is thrown.  On the catch path the variable's slot may therefore still hold
// the cell of a captured variable of a scope that was left (slots are reused),
// and OpSetLocal writes THROUGH such a cell.  The function that emits
// OpSetupCatch binds the error with OpDefineLocal (a fresh variable per
// execution of the catch clause); OpSetLocal is emitted only for a symbol known
// to be assigned already (a variable of the try body with the same name).
func ruleCatchVarFresh(c *Ctx, rule string) {
	l := c.L
	emit := l.Method(modPath, "Compiler", "emit")
	opCatch, ok1 := constOf(l, modPath, "OpSetupCatch")
	opSetL, ok2 := constOf(l, modPath, "OpSetLocal")
	_, fAssigned := l.structField(modPath, "Symbol", "Assigned")
	if !c.Anchor(rule, "Compiler.emit / OpSetupCatch / OpSetLocal / Symbol.Assigned", emit != nil && ok1 && ok2 && fAssigned >= 0) {
		return
	}
	n := 0
	for _, fn := range l.RepoFuncs(func(pp string) bool { return pp == modPath }) {
		emitsCatch := false
		var sets []*ssa.Call
		eachInstr(fn, func(ins ssa.Instruction) {
			cl, ok := ins.(*ssa.Call)
			if !ok || cl.Call.StaticCallee() != emit || len(cl.Call.Args) < 3 {
				return
			}
			if k, ok := constInt64(cl.Call.Args[2]); ok {
				if k == opCatch {
					emitsCatch = true
				}
				if k == opSetL {
					sets = append(sets, cl)
				}
			}
		})
		if !emitsCatch {
			continue
		}
		n++
		var bad []string
		for _, s := range sets {
			guarded := false
			for _, g := range guardEdges(s.Block()) {
				if ld, ok := g.If.Cond.(*ssa.UnOp); ok && ld.Op == token.MUL && g.Truth {
					if _, ok := isFieldAddrOf(ld.X, modPath, "Symbol", fAssigned); ok {
						guarded = true
					}
				}
			}
			if !guarded {
				bad = append(bad, l.Pos(s.Pos()))
			}
		}
		c.Check(rule, fnName(fn)+" | binding of the catch variable", l.Pos(fn.Pos()), len(bad) == 0, "OpDefineLocal, or OpSetLocal for a symbol known to be assigned",
			"the catch clause binds the error with OpSetLocal ("+strings.Join(bad, ", ")+") although the variable's definition is skipped on the path that throws: the slot can still hold the cell of a captured variable of a closed scope, and the error is written through it into that variable; closures created in the catch body of a loop also share one variable")
	}
	if n == 0 {
		c.Und(rule, "emitter of OpSetupCatch", "-", "no function emits OpSetupCatch")
	}
}

// ---- C13/disable-uncache -----------------------------------------------------------------------------------------------------
// Resolve caches the symbol of a builtin in the root table's store the first
// time the name is used, and a cached symbol is returned without looking at the
// disabled set again.  DisableBuiltin therefore removes the cached symbol of
// each name it disables (a delete on the store of the table whose disabled set
// it updates, with the same key): a builtin disabled after a fragment of the
// session used it is unreachable for the fragments that follow.
func ruleDisableUncache(c *Ctx, rule string) {
	l := c.L
	dis := l.Method(modPath, "SymbolTable", "DisableBuiltin")
	_, fDis := l.structField(modPath, "SymbolTable", "disabledBuiltins")
	_, fStore := l.structField(modPath, "SymbolTable", "store")
	if !c.Anchor(rule, "SymbolTable.DisableBuiltin / disabledBuiltins / store", dis != nil && fDis >= 0 && fStore >= 0) {
		return
	}
	// the alternative design: Resolve tests the disabled set also when the name
	// was found in the store (the test is not confined to the store-miss path)
	resolveRechecks := false
	if res, isDis := l.Method(modPath, "SymbolTable", "Resolve"), l.Method(modPath, "SymbolTable", "isBuiltinDisabled"); res != nil && isDis != nil {
		eachInstr(res, func(ins ssa.Instruction) {
			cl, ok := ins.(*ssa.Call)
			if !ok || cl.Call.StaticCallee() != isDis {
				return
			}
			missOnly := false
			for _, g := range guardEdges(cl.Block()) {
				if ex, ok := g.If.Cond.(*ssa.Extract); ok && ex.Index == 1 {
					if _, isLookup := ex.Tuple.(*ssa.Lookup); isLookup && !g.Truth {
						missOnly = true
					}
				}
				if phi, ok := g.If.Cond.(*ssa.Phi); ok && !g.Truth {
					_ = phi
					missOnly = true // `ok` merged from the parent's answer: still the not-found path
				}
			}
			if !missOnly {
				resolveRechecks = true
			}
		})
	}
	n := 0
	eachInstrDeep(dis, 1, func(ins ssa.Instruction) {
		mu, ok := ins.(*ssa.MapUpdate)
		if !ok {
			return
		}
		ld, ok := mu.Map.(*ssa.UnOp)
		if !ok {
			return
		}
		fa, ok := isFieldAddrOf(ld.X, modPath, "SymbolTable", fDis)
		if !ok {
			return
		}
		n++
		found := false
		eachInstr(ins.Parent(), func(x ssa.Instruction) {
			cl, ok := x.(*ssa.Call)
			if !ok {
				return
			}
			b, ok := cl.Call.Value.(*ssa.Builtin)
			if !ok || b.Name() != "delete" || len(cl.Call.Args) != 2 {
				return
			}
			if !(cl.Call.Args[1] == mu.Key || exprEq(cl.Call.Args[1], mu.Key)) {
				return
			}
			ml, ok := cl.Call.Args[0].(*ssa.UnOp)
			if !ok {
				return
			}
			sfa, ok := isFieldAddrOf(ml.X, modPath, "SymbolTable", fStore)
			if ok && (sfa.X == fa.X || exprEq(sfa.X, fa.X)) {
				found = true
			}
		})
		if !found && resolveRechecks {
			c.Ok(rule, fnName(ins.Parent())+" | a name is added to the disabled set", l.Pos(mu.Pos()), "Resolve tests the disabled set for names found in the store as well")
			return
		}
		c.Check(rule, fnName(ins.Parent())+" | a name is added to the disabled set", l.Pos(mu.Pos()), found, "its cached symbol is deleted from the same table's store",
			"a name is disabled without its cached builtin symbol being removed from the table: Resolve keeps returning the symbol cached while the builtin was enabled, so a builtin disabled in the middle of a session (or between two compilations sharing a symbol table) stays reachable")
	})
	if n == 0 {
		c.Und(rule, "SymbolTable.DisableBuiltin | disabled set update", l.Pos(dis.Pos()), "DisableBuiltin does not update the disabled set")
	}
}

// ---- C06/frame-claim-atomic (also C07) ---------------------------------------------------------------------------------------
// The call routine reports a frame overflow as an ordinary error, which the
// calling script may catch.  Once the routine has advanced the frame index it
// cannot fail any more: no return of a non-nil error is reachable from the
// increment.  An overflow reported after the increment leaves the index one too
// high; the catching function's return then takes a cleared frame for its
// parent (nil function: a Go panic without recovery, wrong counts with it).
func ruleFrameClaimAtomic(c *Ctx, rule string, vf *vmFacts) {
	l := c.L
	fFI := vf.field("frameIndex")
	if !c.Anchor(rule, "VM.frameIndex", fFI >= 0) {
		return
	}
	n := 0
	for _, fn := range l.RepoFuncs(func(pp string) bool { return pp == modPath }) {
		res := fn.Signature.Results()
		if res.Len() == 0 || !isErrorType(res.At(res.Len()-1).Type()) {
			continue
		}
		eachInstr(fn, func(ins ssa.Instruction) {
			st, ok := ins.(*ssa.Store)
			if !ok {
				return
			}
			fa, ok := st.Addr.(*ssa.FieldAddr)
			if !ok || fa.Field != fFI {
				return
			}
			if p, ok := fa.X.Type().Underlying().(*types.Pointer); !ok || !types.Identical(p.Elem().Underlying(), vf.vmS) {
				return
			}
			bo, ok := st.Val.(*ssa.BinOp)
			if !ok || bo.Op != token.ADD {
				return
			}
			if k, ok := bo.Y.(*ssa.Const); !ok || k.Value == nil || k.Value.ExactString() != "1" {
				return
			}
			// an increment of the index itself (not `index + 1` of a search result)
			if ld, ok := bo.X.(*ssa.UnOp); !ok || ld.Op != token.MUL {
				return
			} else if fa2, ok := ld.X.(*ssa.FieldAddr); !ok || fa2.Field != fFI || !(fa2.X == fa.X || exprEq(fa2.X, fa.X)) {
				return
			}
			n++
			bad, ok2 := mustPassBefore(ins, func(ssa.Instruction) bool { return false }, func(x ssa.Instruction) bool {
				r, isRet := x.(*ssa.Return)
				if !isRet || len(r.Results) == 0 {
					return false
				}
				v := returnedValue(r, len(r.Results)-1)
				k, isC := v.(*ssa.Const)
				return !(isC && k.IsNil())
			})
			where := ""
			if bad != nil {
				where = l.Pos(bad.Pos())
			}
			// nor can it panic on the value stack any more: no store into the stack
			// with a computed index is reachable from the increment (an exhausted
			// value stack is a recovered Go panic, delivered to the script's catch)
			fStack := vf.field("stack")
			var stackStore ssa.Instruction
			if fStack >= 0 {
				stackStore, _ = mustPassBefore(ins, func(ssa.Instruction) bool { return false }, func(x ssa.Instruction) bool {
					s2, ok := x.(*ssa.Store)
					if !ok {
						return false
					}
					ia, ok := s2.Addr.(*ssa.IndexAddr)
					if !ok {
						return false
					}
					if _, isConst := ia.Index.(*ssa.Const); isConst {
						return false
					}
					fa2, ok := vf.isVMFieldAddr(ia.X)
					return ok && fa2.Field == fStack
				})
			}
			whereS := ""
			if stackStore != nil {
				whereS = l.Pos(stackStore.Pos())
			}
			c.Check(rule, fnName(fn)+" | frame index advanced | value stack", l.Pos(st.Pos()), stackStore == nil, "no store into the value stack with a computed index after the increment",
				"the routine writes the value stack (at "+whereS+") after it advanced the frame index: when the stack is exhausted that store is a Go panic, recovered and delivered to the calling script's catch with the frame index one too high - the script that handled the overflow then returns into a cleared frame")
			c.Check(rule, fnName(fn)+" | frame index advanced", l.Pos(st.Pos()), ok2, "no error return is reachable after the increment",
				"the routine can return an error (at "+where+") after it advanced the frame index: a frame overflow caught by the calling script leaves the index one too high, and the catching function's return takes a cleared frame for its parent (nil dereference without recovery; a second, spurious catch with it)")
		})
	}
	if n == 0 {
		c.Und(rule, "increment of VM.frameIndex in an error-returning routine", "-", "none found")
	}
}

// ---- C16/search-last-le (also C04) -------------------------------------------------------------------------------------------
// A position is mapped to its file (and its line) by "the last entry whose
// start is <= the position": sort.Search(n, pred) - 1 is that index exactly when
// pred(i) is `entry(i) > x` (strictly greater).  With `>=` the first byte of
// every file (line) is attributed to the previous file (line): errors at the
// start of an imported module are reported in the wrong file.
func ruleSearchLastLE(c *Ctx, rule string) {
	l := c.L
	n := 0
	for _, fn := range l.RepoFuncs(func(pp string) bool { return pp == parserPath }) {
		eachInstr(fn, func(ins ssa.Instruction) {
			cl, ok := ins.(*ssa.Call)
			if !ok {
				return
			}
			f := cl.Call.StaticCallee()
			if f == nil || f.Pkg == nil || f.Pkg.Pkg.Path() != "sort" || f.Name() != "Search" || len(cl.Call.Args) != 2 {
				return
			}
			// used as Search(...) - 1
			minus1 := false
			if cl.Referrers() != nil {
				for _, r := range *cl.Referrers() {
					if bo, ok := r.(*ssa.BinOp); ok && bo.Op == token.SUB && bo.X == ssa.Value(cl) {
						if k, ok := constInt64(bo.Y); ok && k == 1 {
							minus1 = true
						}
					}
				}
			}
			if !minus1 {
				return
			}
			var pred *ssa.Function
			switch v := cl.Call.Args[1].(type) {
			case *ssa.MakeClosure:
				pred, _ = v.Fn.(*ssa.Function)
			case *ssa.Function:
				pred = v
			}
			if pred == nil || len(pred.Blocks) == 0 {
				return
			}
			n++
			strict := false
			eachInstr(pred, func(x ssa.Instruction) {
				r, ok := x.(*ssa.Return)
				if !ok || len(r.Results) != 1 {
					return
				}
				bo, ok := r.Results[0].(*ssa.BinOp)
				if !ok {
					return
				}
				// elem > x   or   x < elem, where x is the captured key
				isKey := func(v ssa.Value) bool {
					for {
						if cv, ok := v.(*ssa.Convert); ok {
							v = cv.X
							continue
						}
						if ct, ok := v.(*ssa.ChangeType); ok {
							v = ct.X
							continue
						}
						break
					}
					if ld, ok := v.(*ssa.UnOp); ok {
						_, fv := ld.X.(*ssa.FreeVar)
						return fv
					}
					_, fv := v.(*ssa.FreeVar)
					return fv
				}
				if (bo.Op == token.GTR && isKey(bo.Y)) || (bo.Op == token.LSS && isKey(bo.X)) {
					strict = true
				}
			})
			// the searched range is the whole slice: n is len(x) of the slice the predicate indexes
			whole := false
			if lc, ok := cl.Call.Args[0].(*ssa.Call); ok {
				if b, ok := lc.Call.Value.(*ssa.Builtin); ok && b.Name() == "len" {
					whole = true
				}
			}
			c.Check(rule, fnName(fn)+" | sort.Search range", l.Pos(cl.Pos()), whole, "all entries are searched (n is the length of the slice)",
				"the binary search covers fewer entries than the slice has (n is not its length): positions in the last file are not found unless a cache that decoded file sets do not have happens to hold it, and errors there are reported without file and line")
			c.Check(rule, fnName(fn)+" | sort.Search(...) - 1", l.Pos(cl.Pos()), strict, "the predicate is `entry > key`: the result is the last entry <= key",
				"the index is computed as sort.Search(n, pred) - 1 with a predicate other than `entry > key`: the first position of every file (line) is looked up in the previous one, so errors at the very start of an imported source module (also after an encode / decode round trip) are reported with the wrong file")
		})
	}
	if n == 0 {
		c.Und(rule, "position lookups", "-", "no sort.Search(...) - 1 lookup in package parser")
	}
}

// ---- C16/trace-dedup-adjacent ----------------------------------------------------------------------------------------------------
// addTrace drops a position only when it repeats the LAST recorded one (the
// same statement seen again by the next unwinding step).  The function has no
// loop over the trace: a position that occurs earlier in the trace is a genuine
// frame (recursion through another call site and back) and must be recorded.
func ruleTraceDedupAdjacent(c *Ctx, rule string) {
	l := c.L
	at := l.Method(modPath, "RuntimeError", "addTrace")
	if !c.Anchor(rule, "RuntimeError.addTrace", at != nil) {
		return
	}
	loop := false
	for _, b := range at.Blocks {
		for _, s := range b.Succs {
			if s == b || blockReaches(s, b) {
				loop = true
			}
		}
	}
	c.Check(rule, "RuntimeError.addTrace | which earlier positions suppress a new one", l.Pos(at.Pos()), !loop, "no loop: only the last recorded position is compared",
		"addTrace walks over the recorded trace: a position is suppressed when it occurs anywhere earlier, so frames of a recursion that passes through the same statement again are missing from the reported stack trace")
}

// ---- C14/callback-err (also C09) -----------------------------------------------------------------------------------------------
// Library functions that call a script function once per element (strings.Map,
// IndexFunc, TrimFunc ...) run the Invoker inside a Go callback that cannot
// return an error; the callback records the error in a variable it captures and
// the library function returns it afterwards.  Two clauses per such callback:
// (sticky) the Invoke call is reached only while the captured error is nil, so
// that a later, successful call cannot overwrite an error already recorded -
// the error a script function throws reaches the caller as it would from a
// plain loop in the script; (per-call) the captured variable is a local of the
// function that makes the library call, not of an enclosing factory: otherwise
// the error of one call (a VMAbortedError, say) is still there for every later
// call, on any VM.
func ruleCallbackErr(c *Ctx, rule string) {
	l := c.L
	inv := l.Method(modPath, "Invoker", "Invoke")
	if !c.Anchor(rule, "Invoker.Invoke", inv != nil) {
		return
	}
	n := 0
	for _, fn := range l.RepoFuncs(func(pp string) bool { return strings.HasPrefix(pp, modPath+"/stdlib") || pp == modPath }) {
		if fn.Parent() == nil {
			continue
		}
		eachInstr(fn, func(ins ssa.Instruction) {
			cl, ok := ins.(*ssa.Call)
			if !ok || cl.Call.StaticCallee() != inv || cl.Referrers() == nil {
				return
			}
			// the error result stored into a captured variable
			var cell *ssa.FreeVar
			indirect := false
			for _, r := range *cl.Referrers() {
				ex, ok := r.(*ssa.Extract)
				if !ok || ex.Index != 1 || ex.Referrers() == nil {
					continue
				}
				for _, rr := range *ex.Referrers() {
					if st, ok := rr.(*ssa.Store); ok {
						if fv, ok := st.Addr.(*ssa.FreeVar); ok {
							cell = fv
						}
						// `*errp = err` with errp a captured pointer parameter of a shared helper
						if ld, ok := st.Addr.(*ssa.UnOp); ok && ld.Op == token.MUL {
							if fv, ok := ld.X.(*ssa.FreeVar); ok {
								cell, indirect = fv, true
							}
						}
					}
				}
			}
			if cell == nil {
				return
			}
			n++
			// (sticky)
			sticky := false
			for _, g := range guardEdges(cl.Block()) {
				bo, ok := g.If.Cond.(*ssa.BinOp)
				if !ok || (bo.Op != token.EQL && bo.Op != token.NEQ) {
					continue
				}
				for _, pr := range [][2]ssa.Value{{bo.X, bo.Y}, {bo.Y, bo.X}} {
					k, isNil := pr[1].(*ssa.Const)
					ld, isLoad := pr[0].(*ssa.UnOp)
					if isNil && k.IsNil() && isLoad && (bo.Op == token.EQL) == g.Truth {
						if ld.X == ssa.Value(cell) {
							sticky = true
						}
						if l2, ok := ld.X.(*ssa.UnOp); ok && indirect && l2.X == ssa.Value(cell) {
							sticky = true
						}
					}
				}
			}
			key := fnName(fn) + " | error of the script function recorded by the callback"
			c.Check(rule, key+" | sticky", l.Pos(cl.Pos()), sticky, "Invoke is reached only while the recorded error is nil",
				"the callback calls the script function again after an error was recorded and stores the new (nil) error over it: an error thrown by the script function for one element is lost when a later element succeeds (IndexFunc returns an index and no error)")
			// (every element): apart from that test nothing decides whether the script
			// function is called - no cache, no shortcut for elements "seen before":
			// the function may read and update captured variables and globals
			var other []string
			for _, g := range guardEdges(cl.Block()) {
				isErrTest := false
				if bo, ok := g.If.Cond.(*ssa.BinOp); ok {
					for _, pr := range [][2]ssa.Value{{bo.X, bo.Y}, {bo.Y, bo.X}} {
						k, isNil := pr[1].(*ssa.Const)
						ld, isLoad := pr[0].(*ssa.UnOp)
						if isNil && k.IsNil() && isLoad && ld.X == ssa.Value(cell) {
							isErrTest = true
						}
						if isNil && k.IsNil() && isLoad && indirect {
							if l2, ok := ld.X.(*ssa.UnOp); ok && l2.X == ssa.Value(cell) {
								isErrTest = true
							}
						}
					}
				}
				if !isErrTest {
					other = append(other, l.Pos(g.If.Pos()))
				}
			}
			c.Check(rule, key+" | every element", l.Pos(cl.Pos()), len(other) == 0, "the script function is called for every element while no error is recorded",
				"whether the script function is called depends on another condition ("+strings.Join(other, ", ")+") than the recorded error - a cache keyed by the element, say: a function whose result depends on captured variables or globals is called fewer times than the same loop in the script would call it, with other results")
			// (per-call): the cell bound to the free variable is an Alloc of the direct parent
			idx := -1
			for k, q := range fn.FreeVars {
				if q == cell {
					idx = k
				}
			}
			perCall := false
			eachInstr(fn.Parent(), func(x ssa.Instruction) {
				if mc, ok := x.(*ssa.MakeClosure); ok && mc.Fn == ssa.Value(fn) && idx >= 0 && idx < len(mc.Bindings) {
					al, isAlloc := mc.Bindings[idx].(*ssa.Alloc)
					if isAlloc && !indirect {
						perCall = true
					}
					if isAlloc && indirect && al.Referrers() != nil {
						// the cell holds a pointer parameter of the helper: every caller of
						// the helper passes the address of one of its own locals
						for _, r := range *al.Referrers() {
							st, ok := r.(*ssa.Store)
							if !ok {
								continue
							}
							p, ok := st.Val.(*ssa.Parameter)
							if !ok {
								continue
							}
							pi := -1
							for k, q := range fn.Parent().Params {
								if q == p {
									pi = k
								}
							}
							cs := l.RealCallers(fn.Parent())
							good := pi >= 0 && len(cs) > 0
							for _, ci := range cs {
								if a := ci.Common().Args; pi >= len(a) {
									good = false
								} else if _, isLocal := a[pi].(*ssa.Alloc); !isLocal {
									good = false
								}
							}
							if good {
								perCall = true
							}
						}
					}
				}
			})
			c.Check(rule, key+" | per call", l.Pos(cl.Pos()), perCall, "the variable is a local of the function that makes the library call",
				"the variable in which the callback records the error belongs to an enclosing function (it is shared by every call of the library function, on every VM): an abort or error recorded once makes every later call fail with it without calling the script function")
		})
	}
	if n == 0 {
		c.Und(rule, "callbacks recording the error of Invoker.Invoke", "-", "none found")
	}
}

// ---- C16/throw-trace-flag ------------------------------------------------------------------------------------------------------
// throw(err, noTrace) records the position of the failing instruction unless
// noTrace is set.  Where a Go error re-enters the VM, only an error that already
// is a *RuntimeError (it carries its own trace: it comes from a nested VM) is
// thrown with noTrace = true; an error the VM wraps right there (newError,
// newErrorFromError ...) is thrown with noTrace = false, otherwise the line of
// the statement that failed is missing from the trace while its callers' lines
// are reported.
func ruleThrowTraceFlag(c *Ctx, rule string) {
	l := c.L
	throw := l.Method(modPath, "VM", "throw")
	if !c.Anchor(rule, "VM.throw", throw != nil) {
		return
	}
	n := 0
	for _, fn := range l.RepoFuncs(func(pp string) bool { return pp == modPath }) {
		var errParam *ssa.Parameter
		for _, p := range fn.Params {
			if isErrorType(p.Type()) {
				errParam = p
			}
		}
		if errParam == nil {
			continue
		}
		eachInstr(fn, func(ins ssa.Instruction) {
			cl, ok := ins.(*ssa.Call)
			if !ok || cl.Call.StaticCallee() != throw || len(cl.Call.Args) < 3 {
				return
			}
			// the (error, flag) pairs this call can be made with: both arguments may be
			// phis of one block (a type switch that computes them, followed by one throw)
			type pair struct{ v, flag ssa.Value }
			pairs := []pair{{cl.Call.Args[1], cl.Call.Args[2]}}
			if pv, ok := cl.Call.Args[1].(*ssa.Phi); ok {
				pairs = nil
				pf, flagPhi := cl.Call.Args[2].(*ssa.Phi)
				for i, e := range pv.Edges {
					fl := cl.Call.Args[2]
					if flagPhi && pf.Block() == pv.Block() && i < len(pf.Edges) {
						fl = pf.Edges[i]
					}
					pairs = append(pairs, pair{e, fl})
				}
			}
			for _, pr := range pairs {
				// is the thrown error made here (a call result), or the parameter itself?
				made := false
				switch x := pr.v.(type) {
				case *ssa.Call:
					made = true
				case *ssa.Extract:
					_, made = x.Tuple.(*ssa.Call)
				}
				if !made {
					continue
				}
				n++
				k, isConst := pr.flag.(*ssa.Const)
				traced := isConst && k.Value != nil && k.Value.Kind() == constant.Bool && !constant.BoolVal(k.Value)
				key := fnName(fn) + " | error wrapped here and thrown"
				if kk := countKey(key); kk > 1 {
					key += fmt.Sprintf(" #%d", kk)
				}
				c.Check(rule, key, l.Pos(cl.Pos()), traced, "thrown with noTrace = false: the failing instruction's position is recorded",
					"an error that the VM wraps at this point is thrown with noTrace = true: the position of the statement that failed (a host function returning a plain Go error, a recovered panic) is missing from the stack trace, only the callers' lines are reported")
			}
		})
	}
	resetKeyCount()
	if n == 0 {
		c.Und(rule, "errors wrapped and thrown", "-", "no function with an error parameter throws a freshly wrapped error")
	}
}

// ---- C05/fixpoint-reset ---------------------------------------------------------------------------------------------------------
// The optimizer repeats passes until a pass changes nothing: the loop's exit
// tests a counter of the changes of the pass against zero.  The counter is reset
// to zero INSIDE that loop (a store of 0 into the tested field on the cycle
// through the test): reset once before the loop, the test can never succeed
// after the first productive pass, every further pass is booked as productive
// again, and Compile ends only when the budget is used up - never, for an
// unlimited budget.
func ruleFixpointReset(c *Ctx, rule string) {
	l := c.L
	optT := l.NamedType(modPath, "SimpleOptimizer")
	if !c.Anchor(rule, "type SimpleOptimizer", optT != nil) {
		return
	}
	ost, _ := optT.Underlying().(*types.Struct)
	n := 0
	for _, fn := range l.RepoFuncs(func(pp string) bool { return pp == modPath }) {
		for _, b := range fn.Blocks {
			if len(b.Instrs) == 0 {
				continue
			}
			iff, ok := b.Instrs[len(b.Instrs)-1].(*ssa.If)
			if !ok {
				continue
			}
			bo, ok := iff.Cond.(*ssa.BinOp)
			if !ok || (bo.Op != token.EQL && bo.Op != token.NEQ) {
				continue
			}
			k, ok := constInt64(bo.Y)
			if !ok || k != 0 {
				continue
			}
			ld, ok := bo.X.(*ssa.UnOp)
			if !ok || ld.Op != token.MUL {
				continue
			}
			fa, ok := ld.X.(*ssa.FieldAddr)
			if !ok {
				continue
			}
			pt, ok := fa.X.Type().Underlying().(*types.Pointer)
			if !ok || ost == nil || !types.Identical(pt.Elem().Underlying(), ost) {
				continue
			}
			// the test lies on a cycle and one outcome leaves it (a loop exit)
			onCycle := false
			exits := false
			for _, s := range b.Succs {
				if s == b || blockReaches(s, b) {
					onCycle = true
				} else {
					exits = true
				}
			}
			if !onCycle || !exits {
				continue
			}
			n++
			reset := false
			for _, x := range fn.Blocks {
				if !(x == b || (blockReaches(x, b) && blockReaches(b, x))) {
					continue
				}
				for _, ins := range x.Instrs {
					if st, ok := ins.(*ssa.Store); ok {
						if sfa, ok := st.Addr.(*ssa.FieldAddr); ok && sfa.Field == fa.Field && (sfa.X == fa.X || exprEq(sfa.X, fa.X)) {
							if kk, ok := constInt64(st.Val); ok && kk == 0 {
								reset = true
							}
						}
					}
				}
			}
			c.Check(rule, fmt.Sprintf("%s | loop exit on %s == 0", fnName(fn), ost.Field(fa.Field).Name()), l.Pos(iff.Pos()), reset, "the counter is reset to zero inside the loop",
				"the loop ends when "+ost.Field(fa.Field).Name()+" is zero, but the counter is never reset to zero inside the loop: after the first productive pass the test cannot succeed, every pass is booked as productive again and the loop runs until the budget is exhausted - Compile does not terminate for a large budget")
		}
	}
	if n == 0 {
		c.Und(rule, "fixpoint loops of the optimizer", "-", "no loop exit on a zero counter found")
	}
}

// ---- C05/rollback-boundary (also C10, C12) ----------------------------------------------------------------------------------
// Rolling the module store back to a count n keeps exactly the modules with an
// index below n: module indexes are 0-based and the count is also the next index
// handed out.  In the function that stores its parameter into the store's count,
// the delete of an entry is guarded by `index >= n` (interval analysis of the
// entry's index at the delete: its lower bound is n itself).  With `index > n`
// the first module registered by the failed compilation survives with an index
// equal to the restored count; the next fragment importing it indexes a constant
// that was never stored.
func ruleRollbackBoundary(c *Ctx, rule string) {
	l := c.L
	st, fCount := l.structField(modPath, "moduleStore", "count")
	if !c.Anchor(rule, "moduleStore.count", st != nil && fCount >= 0) {
		return
	}
	n := 0
	for _, fn := range l.RepoFuncs(func(pp string) bool { return pp == modPath }) {
		// stores a parameter into count
		var param *ssa.Parameter
		eachInstr(fn, func(ins ssa.Instruction) {
			s, ok := ins.(*ssa.Store)
			if !ok {
				return
			}
			if _, ok := isFieldAddrOf(s.Addr, modPath, "moduleStore", fCount); !ok {
				return
			}
			if p, ok := s.Val.(*ssa.Parameter); ok {
				param = p
			}
		})
		if param == nil {
			continue
		}
		eachInstr(fn, func(ins ssa.Instruction) {
			cl, ok := ins.(*ssa.Call)
			if !ok {
				return
			}
			b, ok := cl.Call.Value.(*ssa.Builtin)
			if !ok || b.Name() != "delete" {
				return
			}
			n++
			// a guard on the way compares an int field load with the parameter such
			// that at the delete index >= param holds, and nothing weaker
			exact := false
			for _, g := range guardEdges(cl.Block()) {
				bo, ok := g.If.Cond.(*ssa.BinOp)
				if !ok {
					continue
				}
				x, y, op := bo.X, bo.Y, bo.Op
				if x == ssa.Value(param) { // n <op> idx  ->  idx <op'> n
					x, y = y, x
					switch op {
					case token.LSS:
						op = token.GTR
					case token.LEQ:
						op = token.GEQ
					case token.GTR:
						op = token.LSS
					case token.GEQ:
						op = token.LEQ
					}
				}
				if y != ssa.Value(param) {
					continue
				}
				if !g.Truth { // negate
					switch op {
					case token.LSS:
						op = token.GEQ
					case token.LEQ:
						op = token.GTR
					case token.GTR:
						op = token.LEQ
					case token.GEQ:
						op = token.LSS
					}
				}
				if op == token.GEQ {
					exact = true
				}
			}
			c.Check(rule, fnName(fn)+" | entries removed by the rollback", l.Pos(cl.Pos()), exact, "exactly the entries with index >= the restored count",
				"the rollback removes the entries selected by another comparison than `index >= n` with n the restored count: the entry whose index equals the restored count survives (or a valid one is removed); the next compilation that imports that module indexes a constant that was never stored (index out of range inside Compile, or bytecode with NumModules 0 that loads module 0)")
		})
	}
	if n == 0 {
		c.Und(rule, "rollback of the module store", "-", "no function restores the module count from a parameter and deletes entries")
	}
}

// ---- C01/lookup-every-scope ----------------------------------------------------------------------------------------------------
// The name lookup the optimizer's constant substitution relies on visits EVERY
// enclosing symbol table, innermost first: the loop steps from a table to the
// table in its `parent` field.  A step that skips tables (block tables, the
// enclosing function's table) misses the definition that hides an outer literal
// constant - a parameter, a local, a loop variable of the same name - and the
// optimizer substitutes the constant for it.
func ruleLookupEveryScope(c *Ctx, rule string) {
	l := c.L
	fb := l.Method(modPath, "SymbolTable", "findByName")
	_, fParent := l.structField(modPath, "SymbolTable", "parent")
	if !c.Anchor(rule, "SymbolTable.findByName / SymbolTable.parent", fb != nil && fParent >= 0) {
		return
	}
	n, ok := 0, true
	where := l.Pos(fb.Pos())
	eachInstr(fb, func(ins ssa.Instruction) {
		phi, isPhi := ins.(*ssa.Phi)
		if !isPhi {
			return
		}
		if p, isPtr := phi.Type().Underlying().(*types.Pointer); !isPtr || !isNamed(p.Elem(), modPath, "SymbolTable") {
			return
		}
		for i, e := range phi.Edges {
			if i >= len(phi.Block().Preds) || !phi.Block().Dominates(phi.Block().Preds[i]) {
				continue // not the back edge
			}
			n++
			ld, isLoad := e.(*ssa.UnOp)
			step := false
			if isLoad && ld.Op == token.MUL {
				if fa, isFA := isFieldAddrOf(ld.X, modPath, "SymbolTable", fParent); isFA && fa.X == ssa.Value(phi) {
					step = true
				}
			}
			if !step {
				ok = false
				if v, isV := e.(ssa.Instruction); isV {
					where = l.Pos(v.Pos())
				}
			}
		}
	})
	if n == 0 {
		c.Und(rule, "SymbolTable.findByName | step to the next table", where, "no loop over the chain of tables found")
		return
	}
	c.Check(rule, "SymbolTable.findByName | step to the next table", where, ok, "the table in the `parent` field: every enclosing scope is visited",
		"the lookup steps to another table than the direct parent: enclosing block tables or the enclosing function's table are skipped, a parameter / local / loop variable that hides an outer literal constant is not seen, and the optimizer substitutes the constant for it (`const x = 1; f := func(x) { return x + 1 }; f(5)` is 2 optimized)")
}

// ---- C17/strconv-err (also C19) ---------------------------------------------------------------------------------------------------
// Syntax is not all that can be wrong with a JSON number: 1e400 passes the
// validating scanner and is out of range for a float64.  Every call of a
// strconv parsing function in the json package uses its error result (it is
// returned, tested or stored): a discarded error turns an out-of-range number
// into +Inf without a word, where encoding/json reports it, and the value then
// cannot be marshalled again.
func ruleStrconvErr(c *Ctx, rule string) {
	l := c.L
	n := 0
	for _, fn := range l.RepoFuncs(func(pp string) bool { return pp == jsonPath }) {
		eachInstr(fn, func(ins ssa.Instruction) {
			cl, ok := ins.(*ssa.Call)
			if !ok {
				return
			}
			f := cl.Call.StaticCallee()
			if f == nil || f.Pkg == nil || f.Pkg.Pkg.Path() != "strconv" || !strings.HasPrefix(f.Name(), "Parse") {
				return
			}
			res := f.Signature.Results()
			if res.Len() != 2 || !isErrorType(res.At(1).Type()) {
				return
			}
			n++
			used := false
			if cl.Referrers() != nil {
				for _, r := range *cl.Referrers() {
					if ex, ok := r.(*ssa.Extract); ok && ex.Index == 1 && ex.Referrers() != nil {
						for _, rr := range *ex.Referrers() {
							if _, isDbg := rr.(*ssa.DebugRef); !isDbg {
								used = true
							}
						}
					}
				}
			}
			key := fmt.Sprintf("%s | strconv.%s", fnName(fn), f.Name())
			if k := countKey(key); k > 1 {
				key += fmt.Sprintf(" #%d", k)
			}
			c.Check(rule, key, l.Pos(cl.Pos()), used, "the error result is used",
				"the error of strconv."+f.Name()+" is discarded: a number that is syntactically valid but out of range (1e400) is decoded as +Inf without an error where encoding/json refuses it, and the decoded value cannot be marshalled again")
		})
	}
	resetKeyCount()
	if n == 0 {
		c.Und(rule, "strconv parsing calls of the json package", "-", "none found")
	}
}

// ---- C04/varint-only ----------------------------------------------------------------------------------------------------------
// The integer codecs write their value as a varint and read it back with the
// varint reader.  In the MarshalBinary of an integer-kinded codec type no byte
// of the payload is produced by truncating the value itself (`byte(o)`): the
// payload comes from binary.PutUvarint / PutVarint (or the package's varint
// helper).  A hand-written "single byte" fast path is a varint only below 128:
// for 128..255 the byte has the continuation bit set and the reader rejects the
// constant the writer just produced.
func ruleVarintOnly(c *Ctx, rule string) {
	l := c.L
	n := 0
	for _, fn := range l.RepoFuncs(func(pp string) bool { return pp == encPath }) {
		if fn.Name() != "MarshalBinary" || fn.Signature.Recv() == nil || len(fn.Params) == 0 {
			continue
		}
		recv := fn.Params[0]
		b, ok := recv.Type().Underlying().(*types.Basic)
		if !ok || b.Info()&types.IsInteger == 0 {
			continue
		}
		n++
		var bad []string
		eachInstr(fn, func(ins ssa.Instruction) {
			st, ok := ins.(*ssa.Store)
			if !ok {
				return
			}
			cv, ok := st.Val.(*ssa.Convert)
			if !ok {
				return
			}
			if tb, ok := cv.Type().Underlying().(*types.Basic); !ok || tb.Kind() != types.Uint8 {
				return
			}
			// the value itself, through conversions and arithmetic (not through a call:
			// byte(n) of the varint writer's count is the length prefix)
			var isVal func(v ssa.Value, d int) bool
			isVal = func(v ssa.Value, d int) bool {
				if d > 4 {
					return false
				}
				switch x := v.(type) {
				case *ssa.Parameter:
					return x == recv
				case *ssa.Convert:
					return isVal(x.X, d+1)
				case *ssa.ChangeType:
					return isVal(x.X, d+1)
				case *ssa.BinOp:
					return isVal(x.X, d+1) || isVal(x.Y, d+1)
				}
				return false
			}
			if isVal(cv.X, 0) {
				bad = append(bad, l.Pos(st.Pos()))
			}
		})
		c.Check(rule, fnName(fn)+" | payload bytes", l.Pos(fn.Pos()), len(bad) == 0, "no byte is produced by truncating the value: the payload is a varint",
			"the codec stores byte(value) into its output ("+strings.Join(bad, ", ")+") instead of a varint: for values whose low byte has the top bit set the reader sees a continuation bit and rejects (or mis-reads) the constant - a script with the constant 200u encodes and then fails to decode")
	}
	if n == 0 {
		c.Und(rule, "integer codecs", "-", "no MarshalBinary of an integer-kinded codec type found")
	}
}

// ---- C02/compound-op-agree ------------------------------------------------------------------------------------------------------
// `x op= y` means `x = x op y`.  The compiler's table from compound-assignment
// tokens to the binary operator it emits agrees with the token package's own
// table of spellings: for every case of the switch over assignment tokens, the
// operator token emitted in that case is the token whose spelling is the case
// token's spelling without its final "=" ("%=" -> "%").
func ruleCompoundOpAgree(c *Ctx, rule string) {
	l := c.L
	tp := l.ByPath[modPath+"/token"]
	up := l.ByPath[modPath]
	if !c.Anchor(rule, "packages ugo and token", tp != nil && up != nil) {
		return
	}
	// spelling table: const name -> string, from the composite literal keyed by token constants
	spell := map[string]string{}
	for _, f := range tp.Syntax {
		ast.Inspect(f, func(n ast.Node) bool {
			cl, ok := n.(*ast.CompositeLit)
			if !ok {
				return true
			}
			for _, el := range cl.Elts {
				kv, ok := el.(*ast.KeyValueExpr)
				if !ok {
					continue
				}
				id, ok := kv.Key.(*ast.Ident)
				bl, ok2 := kv.Value.(*ast.BasicLit)
				if ok && ok2 && bl.Kind == token.STRING {
					if s, err := strconv.Unquote(bl.Value); err == nil {
						if _, isConst := tp.TypesInfo.Uses[id].(*types.Const); isConst {
							spell[id.Name] = s
						}
					}
				}
			}
			return true
		})
	}
	bySpell := map[string]string{}
	for n, s := range spell {
		bySpell[s] = n
	}
	if !c.Anchor(rule, "the token package's table of spellings", len(spell) > 20) {
		return
	}
	tokName := func(e ast.Expr) string {
		if se, ok := ast.Unparen(e).(*ast.SelectorExpr); ok {
			if cst, ok := up.TypesInfo.Uses[se.Sel].(*types.Const); ok && cst.Pkg() == tp.Types {
				return se.Sel.Name
			}
		}
		return ""
	}
	n := 0
	for _, f := range up.Syntax {
		ast.Inspect(f, func(nd ast.Node) bool {
			sw, ok := nd.(*ast.SwitchStmt)
			if !ok || sw.Tag == nil {
				return true
			}
			for _, cl := range sw.Body.List {
				cc := cl.(*ast.CaseClause)
				for _, ce := range cc.List {
					cn := tokName(ce)
					s := spell[cn]
					if cn == "" || len(s) < 2 || !strings.HasSuffix(s, "=") {
						continue
					}
					want := bySpell[strings.TrimSuffix(s, "=")]
					if want == "" || s == "==" || s == "!=" || s == "<=" || s == ">=" || s == ":=" {
						continue
					}
					// the operator tokens mentioned in the clause body
					var got []string
					for _, st := range cc.Body {
						ast.Inspect(st, func(x ast.Node) bool {
							if e, ok := x.(ast.Expr); ok {
								if tn := tokName(e); tn != "" {
									got = append(got, tn)
								}
							}
							return true
						})
					}
					if len(got) == 0 {
						continue // not a table from assignment tokens to operators
					}
					n++
					okc := len(got) == 1 && got[0] == want
					c.Check(rule, "compound assignment "+cn, l.Pos(cc.Pos()), okc, "emits token."+want+" ("+strings.TrimSuffix(s, "=")+")",
						fmt.Sprintf("the case for token.%s (%s) uses token.%s where the spelling table pairs it with token.%s: `x %s y` is compiled as another operator than `x = x %s y`", cn, s, strings.Join(got, ", token."), want, s, strings.TrimSuffix(s, "=")))
				}
			}
			return true
		})
	}
	if n == 0 {
		c.Und(rule, "table from compound-assignment tokens to operators", "-", "no switch case over an assignment token names an operator token")
	}
}

// ---- C02/stack-index-paired (also C03) --------------------------------------------------------------------------------------
// The compiler keeps its open loops in a slice and the innermost one in an index
// that is incremented when a loop is entered and decremented when it is left.
// The two move together: a function that only increments an index field of the
// compiler and also appends to a slice field of the same struct has a
// counterpart that only decrements the index - that counterpart also shortens
// the same slice.  With the pop dropped, index and slice are out of step after
// the first finished loop: the break / continue of a later loop are recorded on
// the finished one, their jumps are never patched and land on instruction 0.
func ruleStackIndexPaired(c *Ctx, rule string) {
	l := c.L
	cs, _ := l.structField(modPath, "Compiler", "loopIndex")
	if !c.Anchor(rule, "type Compiler", cs != nil) {
		return
	}
	isC := func(v ssa.Value) bool {
		p, ok := v.Type().Underlying().(*types.Pointer)
		return ok && types.Identical(p.Elem().Underlying(), cs)
	}
	type fx struct {
		inc, dec   map[int]bool
		app, shrnk map[int]bool
	}
	per := map[*ssa.Function]*fx{}
	for _, fn := range l.RepoFuncs(func(pp string) bool { return pp == modPath }) {
		f := &fx{map[int]bool{}, map[int]bool{}, map[int]bool{}, map[int]bool{}}
		eachInstr(fn, func(ins ssa.Instruction) {
			st, ok := ins.(*ssa.Store)
			if !ok {
				return
			}
			fa, ok := st.Addr.(*ssa.FieldAddr)
			if !ok || !isC(fa.X) {
				return
			}
			switch v := st.Val.(type) {
			case *ssa.BinOp:
				if k, ok := constInt64(v.Y); ok && k == 1 {
					if ld, ok := v.X.(*ssa.UnOp); ok {
						if fa2, ok := ld.X.(*ssa.FieldAddr); ok && fa2.Field == fa.Field {
							if v.Op == token.ADD {
								f.inc[fa.Field] = true
							} else if v.Op == token.SUB {
								f.dec[fa.Field] = true
							}
						}
					}
				}
			case *ssa.Call:
				if b, ok := v.Call.Value.(*ssa.Builtin); ok && b.Name() == "append" && len(v.Call.Args) > 0 {
					if ld, ok := v.Call.Args[0].(*ssa.UnOp); ok {
						if fa2, ok := ld.X.(*ssa.FieldAddr); ok && fa2.Field == fa.Field {
							f.app[fa.Field] = true
						}
					}
				}
			case *ssa.Slice:
				if ld, ok := v.X.(*ssa.UnOp); ok {
					if fa2, ok := ld.X.(*ssa.FieldAddr); ok && fa2.Field == fa.Field && v.High != nil {
						f.shrnk[fa.Field] = true
					}
				}
			}
		})
		per[fn] = f
	}
	n := 0
	for _, ent := range sortedFuncs(funcSetOf(per)) {
		ef := per[ent]
		for idx := range ef.inc {
			if ef.dec[idx] {
				continue
			}
			for sl := range ef.app {
				// ent pushes: increments idx and appends to sl.  Its counterparts: functions that only decrement idx
				for _, lv := range sortedFuncs(funcSetOf(per)) {
					lf := per[lv]
					if !lf.dec[idx] || lf.inc[idx] {
						continue
					}
					n++
					c.Check(rule, fmt.Sprintf("%s / %s | %s and %s", fnName(ent), fnName(lv), cs.Field(idx).Name(), cs.Field(sl).Name()), l.Pos(lv.Pos()), lf.shrnk[sl],
						"the function that decrements the index also shortens the slice",
						fmt.Sprintf("%s appends to %s and increments %s, but %s only decrements %s: the slice keeps the finished entry, index and slice are out of step for the next loop of the same depth (its break / continue are recorded on the finished loop and their jumps, never patched, go to instruction 0)", fnName(ent), cs.Field(sl).Name(), cs.Field(idx).Name(), fnName(lv), cs.Field(idx).Name()))
				}
			}
		}
	}
	if n == 0 {
		c.Und(rule, "push / pop pairs of the compiler", "-", "no function both appends to a slice field and increments an index field of the compiler")
	}
}

func funcSetOf[T any](m map[*ssa.Function]T) map[*ssa.Function]bool {
	out := map[*ssa.Function]bool{}
	for f := range m {
		out[f] = true
	}
	return out
}
