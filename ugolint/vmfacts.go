package main

import (
	"fmt"
	"go/token"
	"go/types"
	"sort"
	"strings"

	"golang.org/x/tools/go/ssa"
)

// vmFacts: anchors and computed read/write sets of the VM, shared by the
// properties about runs (C06, C07, C08, C09, C10, C12, C14).
type vmFacts struct {
	l        *Loaded
	vmT      types.Type
	vmS      *types.Struct
	frameS   *types.Struct
	Run      *ssa.Function // exported entry (*VM).Run
	run      *ssa.Function // the function with the deferred recover that calls the loop
	loop     *ssa.Function // the dispatch loop
	reach    map[*ssa.Function]bool
	reachFns []*ssa.Function
}

func (v *vmFacts) field(name string) int {
	for i := 0; i < v.vmS.NumFields(); i++ {
		if v.vmS.Field(i).Name() == name {
			return i
		}
	}
	return -1
}

func (v *vmFacts) frameField(name string) int {
	if v.frameS == nil {
		return -1
	}
	for i := 0; i < v.frameS.NumFields(); i++ {
		if v.frameS.Field(i).Name() == name {
			return i
		}
	}
	return -1
}

func getVMFacts(c *Ctx, rule string) *vmFacts {
	l := c.L
	v := &vmFacts{l: l}
	v.vmT = l.NamedType(modPath, "VM")
	if !c.Anchor(rule, "type VM", v.vmT != nil) {
		return nil
	}
	v.vmS, _ = v.vmT.Underlying().(*types.Struct)
	if ft := l.NamedType(modPath, "frame"); ft != nil {
		v.frameS, _ = ft.Underlying().(*types.Struct)
	}
	v.Run = l.Method(modPath, "VM", "Run")
	if !c.Anchor(rule, "VM.Run", v.Run != nil && v.vmS != nil) {
		return nil
	}
	loopDecl, _ := vmLoopSwitch(l)
	if !c.Anchor(rule, "VM dispatch loop (function containing the switch over opcodes)", loopDecl != nil) {
		return nil
	}
	for _, f := range l.RepoFuncs(func(pp string) bool { return pp == modPath }) {
		if l.DeclOfSSA(f) == loopDecl {
			v.loop = f
		}
	}
	if !c.Anchor(rule, "SSA function of the dispatch loop", v.loop != nil) {
		return nil
	}
	// run: the static caller chain Run -> ... -> loop
	for _, ci := range l.StaticCallers(v.loop) {
		v.run = ci.Parent()
		for v.run.Parent() != nil {
			v.run = v.run.Parent()
		}
	}
	if !c.Anchor(rule, "caller of the dispatch loop", v.run != nil) {
		return nil
	}
	g := l.VTA()
	v.reach = Reach(g, func(f *ssa.Function) bool { return !strings.HasPrefix(funcPkgPath(f), modPath) }, v.loop)
	for f := range v.reach {
		if strings.HasPrefix(funcPkgPath(f), modPath) && len(f.Blocks) > 0 {
			v.reachFns = append(v.reachFns, f)
		}
	}
	sort.Slice(v.reachFns, func(i, j int) bool { return fnName(v.reachFns[i]) < fnName(v.reachFns[j]) })
	return v
}

// isVMFieldAddr: &vm.f for the VM struct.
func (v *vmFacts) isVMFieldAddr(x ssa.Value) (*ssa.FieldAddr, bool) {
	fa, ok := x.(*ssa.FieldAddr)
	if !ok {
		return nil, false
	}
	pt, ok := fa.X.Type().Underlying().(*types.Pointer)
	if !ok || !types.Identical(pt.Elem(), v.vmT) {
		return nil, false
	}
	return fa, true
}

// storedVMFields: fields of VM that fn stores to directly (whole-field stores
// and element stores through the field), by name.
func (v *vmFacts) storedVMFields(fn *ssa.Function) (direct map[string]bool, elem map[string]bool) {
	direct, elem = map[string]bool{}, map[string]bool{}
	eachInstr(fn, func(ins ssa.Instruction) {
		switch st := ins.(type) {
		case *ssa.Store:
			if fa, ok := v.isVMFieldAddr(st.Addr); ok {
				// the initialisation of a VM this function has just allocated is not
				// a write to the state of a VM that runs
				if _, fresh := fa.X.(*ssa.Alloc); fresh {
					return
				}
				direct[v.vmS.Field(fa.Field).Name()] = true
				return
			}
			// element store: &vm.f[i] or &(*vm.f)[i]
			if ia, ok := st.Addr.(*ssa.IndexAddr); ok {
				base := ia.X
				if u, ok := base.(*ssa.UnOp); ok && u.Op == token.MUL {
					base = u.X
				}
				if fa, ok := v.isVMFieldAddr(base); ok {
					elem[v.vmS.Field(fa.Field).Name()] = true
				}
			}
		case *ssa.Call:
			// atomic stores: vm.abort.Store(..)
			if f := st.Call.StaticCallee(); f != nil && f.Pkg != nil && f.Pkg.Pkg.Path() == "sync/atomic" && (f.Name() == "Store" || f.Name() == "Swap" || f.Name() == "CompareAndSwap" || f.Name() == "Add") {
				if len(st.Call.Args) > 0 {
					if fa, ok := v.isVMFieldAddr(st.Call.Args[0]); ok {
						direct[v.vmS.Field(fa.Field).Name()] = true
					}
				}
			}
		}
	})
	return
}

// storesVMField returns a predicate: instruction stores VM field `name`
// directly, or calls (statically) a repository function that stores it on
// every path (depth-limited summary).
func (v *vmFacts) storesVMField(name string) func(ssa.Instruction) bool {
	memo := map[*ssa.Function]int{} // 1 always, 2 not
	var always func(fn *ssa.Function, depth int) bool
	var pred func(ins ssa.Instruction, depth int) bool
	pred = func(ins ssa.Instruction, depth int) bool {
		switch st := ins.(type) {
		case *ssa.Store:
			if fa, ok := v.isVMFieldAddr(st.Addr); ok && v.vmS.Field(fa.Field).Name() == name {
				return true
			}
			// whole-struct store *vm = VM{...}
			if pt, ok := st.Addr.Type().Underlying().(*types.Pointer); ok && types.Identical(pt.Elem(), v.vmT) {
				return true
			}
		case ssa.CallInstruction:
			if _, isDefer := ins.(*ssa.Defer); isDefer {
				return false
			}
			f := st.Common().StaticCallee()
			if f != nil && f.Pkg != nil && f.Pkg.Pkg.Path() == "sync/atomic" && f.Name() == "Store" && len(st.Common().Args) > 0 {
				if fa, ok := v.isVMFieldAddr(st.Common().Args[0]); ok && v.vmS.Field(fa.Field).Name() == name {
					return true
				}
			}
			if f != nil && depth < 3 && strings.HasPrefix(funcPkgPath(f), modPath) && len(f.Blocks) > 0 {
				return always(f, depth+1)
			}
		}
		return false
	}
	always = func(fn *ssa.Function, depth int) bool {
		if r, ok := memo[fn]; ok {
			return r == 1
		}
		memo[fn] = 2
		first := fn.Blocks[0].Instrs[0]
		ok := pred(first, depth)
		if !ok {
			_, ok = mustPassBefore(first, func(i ssa.Instruction) bool { return pred(i, depth) }, isReturn)
		}
		if ok {
			memo[fn] = 1
		}
		return ok
	}
	return func(ins ssa.Instruction) bool { return pred(ins, 0) }
}

func sortedKeys(m map[string]bool) []string {
	var out []string
	for k := range m {
		out = append(out, k)
	}
	sort.Strings(out)
	return out
}

// storesStructField returns a predicate: the instruction stores field `field`
// of named struct pkgPath.typ (through any pointer to it), stores the whole
// struct, or statically calls a repository function that does so on every
// path (summaries to depth 3).
func storesStructField(l *Loaded, pkgPath, typ, field string) func(ssa.Instruction) bool {
	_, idx := l.structField(pkgPath, typ, field)
	memo := map[*ssa.Function]int{}
	var always func(fn *ssa.Function, depth int) bool
	var pred func(ins ssa.Instruction, depth int) bool
	pred = func(ins ssa.Instruction, depth int) bool {
		switch st := ins.(type) {
		case *ssa.Store:
			if _, ok := isFieldAddrOf(st.Addr, pkgPath, typ, idx); ok {
				return true
			}
			if pt, ok := st.Addr.Type().Underlying().(*types.Pointer); ok && isNamed(pt.Elem(), pkgPath, typ) {
				if _, isPtr := pt.Elem().(*types.Pointer); !isPtr {
					return true // whole-struct store
				}
			}
		case ssa.CallInstruction:
			if _, isDefer := ins.(*ssa.Defer); isDefer {
				return false
			}
			f := st.Common().StaticCallee()
			if f != nil && depth < 3 && strings.HasPrefix(funcPkgPath(f), modPath) && len(f.Blocks) > 0 {
				return always(f, depth+1)
			}
		}
		return false
	}
	always = func(fn *ssa.Function, depth int) bool {
		if r, ok := memo[fn]; ok {
			return r == 1
		}
		memo[fn] = 2
		first := fn.Blocks[0].Instrs[0]
		ok := pred(first, depth)
		if !ok {
			_, ok = mustPassBefore(first, func(i ssa.Instruction) bool { return pred(i, depth) }, isReturn)
		}
		if ok {
			memo[fn] = 1
		}
		return ok
	}
	return func(ins ssa.Instruction) bool { return idx >= 0 && pred(ins, 0) }
}

// ruleModCopy: the module cache is written only by the dispatch loop, and the
// value stored is the result of Copy() whenever the module value implements
// the Copier interface (the test must be against the interface, so that every
// mutable module value type is covered).
func ruleModCopy(c *Ctx, rule string, vf *vmFacts) {
	l := c.L
	idx := vf.field("modulesCache")
	if !c.Anchor(rule, "VM.modulesCache", idx >= 0) {
		return
	}
	copier := l.NamedType(modPath, "Copier")
	var copierI *types.Interface
	if copier != nil {
		copierI, _ = copier.Underlying().(*types.Interface)
	}
	if !c.Anchor(rule, "interface Copier", copierI != nil) {
		return
	}
	n := 0
	for _, fn := range l.RepoFuncs(func(pp string) bool { return pp == modPath }) {
		eachInstr(fn, func(ins ssa.Instruction) {
			st, ok := ins.(*ssa.Store)
			if !ok {
				return
			}
			ia, ok := st.Addr.(*ssa.IndexAddr)
			if !ok {
				return
			}
			u, ok := ia.X.(*ssa.UnOp)
			if !ok {
				return
			}
			fa, ok := vf.isVMFieldAddr(u.X)
			if !ok || fa.Field != idx {
				return
			}
			n++
			key := fmt.Sprintf("%s | modulesCache[i] = %s", fnName(fn), describe(st.Val))
			pos := l.Pos(st.Pos())
			if fn != vf.loop {
				c.Bad(rule, key, pos, "the module cache is written outside the dispatch loop's store-module arm")
				return
			}
			// stored value: phi(original, original.(Copier).Copy())
			good, why := false, "stored value is not a merge of the module value and its Copy()"
			if phi, ok := st.Val.(*ssa.Phi); ok {
				for _, e := range phi.Edges {
					cl, ok := e.(*ssa.Call)
					if !ok || !cl.Call.IsInvoke() || cl.Call.Method.Name() != "Copy" {
						continue
					}
					ex, ok := cl.Call.Value.(*ssa.Extract)
					if !ok {
						continue
					}
					ta, ok := ex.Tuple.(*ssa.TypeAssert)
					if !ok || !ta.CommaOk {
						continue
					}
					if !types.Identical(ta.AssertedType.Underlying(), copierI) {
						why = "the copy is made only for values of type " + tstr(ta.AssertedType) + ", not for every Copier: other mutable module values are shared with the Bytecode constant"
						continue
					}
					// every other edge must be the asserted operand itself
					all := true
					for _, o := range phi.Edges {
						if o != e && o != ta.X {
							all = false
						}
					}
					if all {
						good = true
					}
				}
			}
			c.Check(rule, key, pos, good, "Copier values are copied before being cached", why)
		})
	}
	if n == 0 {
		c.Und(rule, "store into modulesCache", "-", "no store into the module cache found: anchor lost")
	}
}
