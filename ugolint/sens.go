package main

// Sensitivity suite (thorough tier).  The seeded changes stored under
// /verif/seeded/*/patch.diff - written by independent agents that saw only the
// property text - are applied to the CURRENT sources in memory
// (packages.Config.Overlay; nothing is copied to disk), the mutated program is
// type-checked and analysed with the same rules, and the rule set must report
// a violation that the unchanged tree does not have.  A patch whose context no
// longer matches the current sources is skipped and counted; a patch that
// applies and is not reported is recorded as "insensitive" in the evidence (it
// does not become a VIOLATION of the property: it says the rules lost their
// teeth for that change on this tree).

import (
	"encoding/json"
	"fmt"
	"os"
	"path/filepath"
	"sort"
	"strconv"
	"strings"

	"golang.org/x/tools/go/ssa"
)

type diffHunk struct {
	oldStart int
	lines    []string // with leading ' ', '-', '+'
}

type fileDiff struct {
	path  string
	hunks []diffHunk
}

func parseUnifiedDiff(text string) []fileDiff {
	var out []fileDiff
	var cur *fileDiff
	var hk *diffHunk
	for _, ln := range strings.Split(text, "\n") {
		switch {
		case strings.HasPrefix(ln, "+++ "):
			p := strings.TrimPrefix(ln, "+++ ")
			p = strings.TrimPrefix(p, "b/")
			out = append(out, fileDiff{path: strings.TrimSpace(p)})
			cur = &out[len(out)-1]
			hk = nil
		case strings.HasPrefix(ln, "--- "), strings.HasPrefix(ln, "diff "), strings.HasPrefix(ln, "index "):
			hk = nil
		case strings.HasPrefix(ln, "@@"):
			if cur == nil {
				continue
			}
			// @@ -a,b +c,d @@
			f := strings.Fields(ln)
			start := 1
			if len(f) > 1 {
				o := strings.TrimPrefix(f[1], "-")
				if i := strings.Index(o, ","); i >= 0 {
					o = o[:i]
				}
				start, _ = strconv.Atoi(o)
			}
			cur.hunks = append(cur.hunks, diffHunk{oldStart: start})
			hk = &cur.hunks[len(cur.hunks)-1]
		default:
			if hk != nil && len(ln) > 0 && (ln[0] == ' ' || ln[0] == '-' || ln[0] == '+') {
				hk.lines = append(hk.lines, ln)
			} else if hk != nil && ln == "" {
				hk.lines = append(hk.lines, " ")
			}
		}
	}
	return out
}

// applyDiff applies the hunks to src; ok=false if some hunk's context is not found.
func applyDiff(src string, fd fileDiff) (string, bool) {
	lines := strings.Split(src, "\n")
	offset := 0
	for _, h := range fd.hunks {
		var old, neu []string
		for _, l := range h.lines {
			switch l[0] {
			case ' ':
				old = append(old, l[1:])
				neu = append(neu, l[1:])
			case '-':
				old = append(old, l[1:])
			case '+':
				neu = append(neu, l[1:])
			}
		}
		// trailing empty context produced by the splitter
		for len(old) > 0 && len(neu) > 0 && old[len(old)-1] == "" && neu[len(neu)-1] == "" && len(h.lines) > 0 && h.lines[len(h.lines)-1] == " " {
			old, neu = old[:len(old)-1], neu[:len(neu)-1]
			h.lines = h.lines[:len(h.lines)-1]
		}
		match := func(at int) bool {
			if at < 0 || at+len(old) > len(lines) {
				return false
			}
			for i, o := range old {
				if lines[at+i] != o {
					return false
				}
			}
			return true
		}
		at := h.oldStart - 1 + offset
		found := -1
		for d := 0; d <= 400 && found < 0; d++ {
			if match(at + d) {
				found = at + d
			} else if match(at - d) {
				found = at - d
			}
		}
		if found < 0 {
			return "", false
		}
		nl := append([]string{}, lines[:found]...)
		nl = append(nl, neu...)
		nl = append(nl, lines[found+len(old):]...)
		offset += len(neu) - len(old)
		lines = nl
	}
	return strings.Join(lines, "\n"), true
}

func runSensitivity(c *Ctx, fn propFn) {
	vd := verifDir()
	var results map[string]map[string]json.RawMessage
	if err := loadJSON(filepath.Join(vd, "seeded", "RESULTS.json"), &results); err != nil {
		c.Note("sensitivity suite skipped: seeded/RESULTS.json not readable: %v", err)
		return
	}
	// baseline keys (unchanged tree, host configuration only)
	base := newCtx(c.Prop, c.Tier, nil)
	l0, err := load("", "", nil)
	if err != nil {
		c.Note("sensitivity suite skipped: %v", err)
		return
	}
	base.L = l0
	gL = l0
	fn(base)
	base.classify()
	baseBad := map[string]bool{}
	for _, o := range base.obls {
		if o.Outcome == Violation || o.Outcome == Undecided {
			baseBad[o.Rule+"|"+o.Key] = true
		}
	}
	var seeds []string
	for s, det := range results {
		if _, ok := det[c.Prop]; ok {
			seeds = append(seeds, s)
		}
	}
	sort.Strings(seeds)
	for _, seed := range seeds {
		patch, err := os.ReadFile(filepath.Join(vd, "seeded", seed, "patch.diff"))
		if err != nil {
			c.sens = append(c.sens, sensResult{Name: seed, Result: "skipped", Reported: "patch file missing"})
			continue
		}
		overlay := map[string][]byte{}
		applies := true
		for _, fd := range parseUnifiedDiff(string(patch)) {
			abs := filepath.Join(repoDir(), fd.path)
			src, err := os.ReadFile(abs)
			if err != nil {
				applies = false
				break
			}
			neu, ok := applyDiff(string(src), fd)
			if !ok {
				applies = false
				break
			}
			overlay[abs] = []byte(neu)
		}
		if !applies {
			c.sens = append(c.sens, sensResult{Name: seed, Result: "skipped", Reported: "patch context does not match the current sources"})
			continue
		}
		lm, err := load("", "", overlay)
		if err != nil {
			c.sens = append(c.sens, sensResult{Name: seed, Result: "skipped", Reported: "mutated sources do not type-check: " + err.Error()})
			continue
		}
		mc := newCtx(c.Prop, c.Tier, lm)
		gL = lm
		guardMemo = map[*ssa.BasicBlock][]guardEdge{}
		func() {
			defer func() {
				if r := recover(); r != nil {
					mc.Und(mc.Rule("checker", "checker ran", 0), "panic", "-", fmt.Sprint(r))
				}
			}()
			fn(mc)
		}()
		mc.classify()
		var rep []string
		rule := ""
		for _, o := range mc.obls {
			if (o.Outcome == Violation || o.Outcome == Undecided) && !baseBad[o.Rule+"|"+o.Key] {
				rep = append(rep, o.Pos+" "+o.Rule+" ["+o.Key+"]")
				rule = o.Rule
			}
		}
		r := sensResult{Name: seed, Rule: rule}
		if len(rep) > 0 {
			r.Result = "detected"
			if len(rep) > 3 {
				rep = rep[:3]
			}
			r.Reported = strings.Join(rep, "; ")
		} else {
			r.Result = "insensitive"
		}
		c.sens = append(c.sens, r)
	}
	gL = c.L
	det, ins, skp := 0, 0, 0
	for _, r := range c.sens {
		switch r.Result {
		case "detected":
			det++
		case "insensitive":
			ins++
		default:
			skp++
		}
	}
	c.extra["sensitivity_summary"] = fmt.Sprintf("%d seeded changes relevant to %s: %d detected, %d insensitive, %d skipped", len(c.sens), c.Prop, det, ins, skp)
	fmt.Printf("sensitivity: %s\n", c.extra["sensitivity_summary"])
}
