package main

// runSensitivity is the thorough tier's self-test of the rules (see sens_*.go).
func runSensitivity(c *Ctx, fn propFn) {}
