// ugolint is the repository-specific static analyser for ozanh/ugo described
// in /verif/DESIGN.md.  It never executes uGO code: every verdict is derived
// from the type-checked AST, the SSA form and the call graph of the working
// tree found at $UGO_REPO (default /repo) at the time of the run.
package main

import (
	"encoding/json"
	"fmt"
	"os"
	"runtime/debug"
	"sort"
	"strings"
)

type propFn func(c *Ctx)

var props = map[string]propFn{}

func usage() {
	var ids []string
	for k := range props {
		ids = append(ids, k)
	}
	sort.Strings(ids)
	fmt.Fprintf(os.Stderr, "usage: ugolint <property> <quick|thorough>\n       ugolint --replay <file>\nproperties: %s\n", strings.Join(ids, " "))
	os.Exit(2)
}

func main() {
	if len(os.Args) < 2 {
		usage()
	}
	if os.Args[1] == "--manifest" {
		p := "-"
		if len(os.Args) > 2 {
			p = os.Args[2]
		}
		if err := writeManifest(p); err != nil {
			fmt.Println("ERROR:", err)
			os.Exit(2)
		}
		return
	}
	prop, tier := os.Args[1], "quick"
	replayRK := ""
	if prop == "--replay" {
		if len(os.Args) < 3 {
			usage()
		}
		var r struct{ Property, Rule, Construct string }
		if err := loadJSON(os.Args[2], &r); err != nil {
			fmt.Println("ERROR:", err)
			os.Exit(2)
		}
		prop, replayRK = r.Property, r.Rule+"|"+r.Construct
	} else if len(os.Args) >= 3 {
		tier = os.Args[2]
	}
	if t := os.Getenv("VERIF_TIER"); t == "quick" || t == "thorough" {
		tier = t
	}
	fn, ok := props[prop]
	if !ok || (tier != "quick" && tier != "thorough") {
		usage()
	}
	os.Exit(run(prop, tier, fn, replayRK))
}

type buildCfg struct{ goos, goarch string }

func run(prop, tier string, fn propFn, replayRK string) (code int) {
	c := newCtx(prop, tier, nil)
	defer func() {
		if r := recover(); r != nil {
			fmt.Printf("ERROR: checker panic: %v\n%s\n", r, debug.Stack())
			fmt.Printf("VIOLATION property=%s replay=%s\n", prop, "checker-panic")
			code = 1
		}
	}()
	cfgs := []buildCfg{{"", ""}}
	if tier == "thorough" {
		cfgs = append(cfgs, buildCfg{"linux", "386"}, buildCfg{"windows", "amd64"})
	}
	var cfgNames []string
	for _, bc := range cfgs {
		l, err := load(bc.goos, bc.goarch, nil)
		if err != nil {
			fmt.Println("ERROR:", err)
			fmt.Printf("VIOLATION property=%s replay=%s\n", prop, "load-failure")
			return 1
		}
		c.L = l
		gL = l
		cfgNames = append(cfgNames, l.Config)
		fn(c)
	}
	c.extra["configurations"] = cfgNames
	if tier == "thorough" {
		runSensitivity(c, fn)
	}
	if replayRK != "" {
		var keep []Obl
		for _, o := range c.obls {
			if o.Rule+"|"+o.Key == replayRK {
				keep = append(keep, o)
			}
		}
		b, _ := json.MarshalIndent(keep, "", " ")
		fmt.Printf("replay of %s on the current tree:\n%s\n", replayRK, b)
	}
	return c.finish()
}

