package main

import (
	"fmt"
	"go/token"
	"go/types"
	"math/big"

	"golang.org/x/tools/go/ssa"
)

// A small decision procedure for linear integer inequalities, used as the
// fallback of the bounds rules (index, slice, allocation size) when interval
// reasoning is not enough because the guard is relational:
//
//	if w < 0 || w > len(insts)-i-1 { return err }
//	... insts[i+1 : i+1+w]
//
// Every integer SSA value is translated to its MATHEMATICAL value as a linear
// form over atoms (values the translation does not look into: loads,
// parameters, call results, len(x), phis).  An addition, subtraction or
// conversion is translated structurally only when the facts already collected
// prove that its mathematical value lies inside the range of its Go type (no
// wrap-around, in the integer width of the configuration analysed); otherwise
// the value becomes an opaque atom.  Facts are the comparisons on the guard
// edges of the block (dominating, or correlated, see guardEdges), the interval
// the range engine derives for each atom, and the type range of each atom.
// A goal a <= b is proven when facts together with a >= b+1 are infeasible
// over the rationals (Fourier-Motzkin elimination), which implies
// infeasibility over the integers.
type linProver struct {
	b       *ssa.BasicBlock
	ptrBits int
	depth   int // nesting of summary computations
	atoms   []linAtom
	cons    []linCon // each: sum coef[i]*atom[i] + k <= 0
	busy    map[ssa.Value]bool
}

type linAtom struct {
	v     ssa.Value // the SSA value, or
	lenOf ssa.Value // len(lenOf)
}

type linForm2 struct {
	coef map[int]*big.Rat
	k    *big.Rat
}

type linCon = linForm2

func newLin() linForm2 { return linForm2{coef: map[int]*big.Rat{}, k: new(big.Rat)} }

func (l linForm2) clone() linForm2 {
	o := newLin()
	for i, c := range l.coef {
		o.coef[i] = new(big.Rat).Set(c)
	}
	o.k.Set(l.k)
	return o
}

func (l linForm2) addScaled(o linForm2, s *big.Rat) linForm2 {
	r := l.clone()
	for i, c := range o.coef {
		t := new(big.Rat).Mul(c, s)
		if cur, ok := r.coef[i]; ok {
			cur.Add(cur, t)
			if cur.Sign() == 0 {
				delete(r.coef, i)
			}
		} else if t.Sign() != 0 {
			r.coef[i] = t
		}
	}
	r.k.Add(r.k, new(big.Rat).Mul(o.k, s))
	return r
}

func linConst(k int64) linForm2 {
	l := newLin()
	l.k.SetInt64(k)
	return l
}

func linBig(k *big.Int) linForm2 {
	l := newLin()
	l.k.SetInt(k)
	return l
}

var ratOne = big.NewRat(1, 1)
var ratMinusOne = big.NewRat(-1, 1)

var linProvers = map[*ssa.BasicBlock]*linProver{}

func linProverAt(b *ssa.BasicBlock, ptrBits int) *linProver {
	if p, ok := linProvers[b]; ok && p.ptrBits == ptrBits {
		return p
	}
	p := &linProver{b: b, ptrBits: ptrBits, busy: map[ssa.Value]bool{}}
	linProvers[b] = p
	p.collectGuards()
	p.collectExecuted()
	return p
}

func bigTypeRange(t types.Type, ptrBits int) (lo, hi *big.Int, ok bool) {
	signed, bits, ok := isIntegerType(t)
	if !ok {
		return nil, nil, false
	}
	if bits == 0 {
		bits = ptrBits
	}
	one := big.NewInt(1)
	if signed {
		hi = new(big.Int).Lsh(one, uint(bits-1))
		lo = new(big.Int).Neg(hi)
		hi = hi.Sub(hi, one)
	} else {
		lo = big.NewInt(0)
		hi = new(big.Int).Lsh(one, uint(bits))
		hi = hi.Sub(hi, one)
	}
	return lo, hi, true
}

// atomIndex returns the index of the atom for value v (structurally equal
// values share one atom) and adds its interval facts when it is new.
func (p *linProver) atomIndex(v ssa.Value) int {
	// len(x) calls are identified by their operand
	if cl, ok := v.(*ssa.Call); ok {
		if bi, ok := cl.Call.Value.(*ssa.Builtin); ok && bi.Name() == "len" && len(cl.Call.Args) == 1 {
			return p.lenAtom(cl.Call.Args[0], v)
		}
	}
	for i, a := range p.atoms {
		if a.v != nil && (a.v == v || exprEq(a.v, v)) {
			return i
		}
	}
	p.atoms = append(p.atoms, linAtom{v: v})
	idx := len(p.atoms) - 1
	p.atomFacts(idx, v)
	return idx
}

// lenAtom: the atom standing for len(x); call (may be nil) is an SSA len call
// whose interval facts are added.
func (p *linProver) lenAtom(x ssa.Value, call ssa.Value) int {
	for i, a := range p.atoms {
		if a.lenOf != nil && (a.lenOf == x || exprEq(a.lenOf, x)) {
			return i
		}
	}
	p.atoms = append(p.atoms, linAtom{lenOf: x})
	idx := len(p.atoms) - 1
	// 0 <= len(x) <= max int (and what the range engine knows)
	self := newLin()
	self.coef[idx] = new(big.Rat).Set(ratOne)
	p.addLE(linConst(0), self)
	_, hi, _ := bigTypeRange(types.Typ[types.Int], p.ptrBits)
	p.addLE(self, linBig(hi))
	lr := lenRangeOf(x, p.ptrBits, 0)
	if lr.hi != posInf {
		p.addLE(self, linConst(lr.hi))
	}
	if lr.lo > 0 {
		p.addLE(linConst(lr.lo), self)
	}
	// result of a repository call whose error has been tested: only the
	// successful returns count
	if ex, ok := x.(*ssa.Extract); ok {
		if cl, ok := ex.Tuple.(*ssa.Call); ok {
			if f := cl.Call.StaticCallee(); f != nil && len(f.Blocks) > 0 {
				if ei := errResultIndex(f); ei >= 0 && ei != ex.Index && errNilAt(cl, ei, p.b) {
					or := returnLenRange(f, ex.Index, ei, true, p.ptrBits, 1)
					if or.hi != posInf {
						p.addLE(self, linConst(or.hi))
					}
					if or.lo > 0 {
						p.addLE(linConst(or.lo), self)
					}
				}
			}
		}
	}
	if call != nil {
		r := rangeAt(call, p.b, p.ptrBits)
		if r.hi != posInf {
			p.addLE(self, linConst(r.hi))
		}
		if r.lo != negInf && r.lo > 0 {
			p.addLE(linConst(r.lo), self)
		}
	}
	// length known by construction
	switch m := stripChangeOnly(x).(type) {
	case *ssa.Slice:
		// len(y[l:h]) = h - l (h defaults to len(y), l to 0), for slices and strings
		if _, isArr := arrayLen(m.X.Type()); !isArr && m.Max == nil && !p.busy[m] {
			p.busy[m] = true
			var hi linForm2
			if m.High != nil {
				hi = p.toLin(m.High, 0)
			} else {
				hi = newLin()
				hi.coef[p.lenAtom(m.X, nil)] = new(big.Rat).Set(ratOne)
			}
			if m.Low != nil {
				hi = hi.addScaled(p.toLin(m.Low, 0), ratMinusOne)
			}
			delete(p.busy, m)
			p.addLE(self, hi)
			p.addLE(hi, self)
		}
	case *ssa.MakeSlice:
		if !p.busy[m] {
			p.busy[m] = true
			ml := p.toLin(m.Len, 0)
			delete(p.busy, m)
			p.addLE(self, ml)
			p.addLE(ml, self)
		}
	}
	return idx
}

func (p *linProver) atomFacts(idx int, v ssa.Value) {
	self := newLin()
	self.coef[idx] = new(big.Rat).Set(ratOne)
	if lo, hi, ok := bigTypeRange(v.Type(), p.ptrBits); ok {
		p.addLE(linBig(lo), self)
		p.addLE(self, linBig(hi))
	}
	if p.busy[v] {
		return
	}
	p.busy[v] = true
	defer delete(p.busy, v)
	r := rangeAt(v, p.b, p.ptrBits)
	if r.lo != negInf {
		p.addLE(linConst(r.lo), self)
	}
	if r.hi != posInf {
		p.addLE(self, linConst(r.hi))
	}
	// results of calls: a library contract and summaries of repository functions
	if ex, ok := v.(*ssa.Extract); ok {
		if cl, ok := ex.Tuple.(*ssa.Call); ok {
			p.callResultFacts(self, cl, ex.Index)
		}
	}
}

// callResultFacts: relations between result idx of the call and the lengths of
// its slice arguments.
func (p *linProver) callResultFacts(self linForm2, cl *ssa.Call, idx int) {
	f := cl.Call.StaticCallee()
	if f == nil {
		return
	}
	lenOfArg := func(a ssa.Value) linForm2 {
		l := newLin()
		l.coef[p.lenAtom(a, nil)] = new(big.Rat).Set(ratOne)
		return l
	}
	if f.Pkg != nil && f.Pkg.Pkg.Path() == "encoding/binary" && (f.Name() == "Varint" || f.Name() == "Uvarint") && idx == 1 && len(cl.Call.Args) == 1 {
		// documented: n bytes were read from buf (n <= len(buf)); n <= 0 on failure
		p.addLE(self, lenOfArg(cl.Call.Args[0]))
		return
	}
	if len(f.Blocks) == 0 || p.depth >= 2 {
		return
	}
	ei := errResultIndex(f)
	okOnly := ei >= 0 && ei != idx && errNilAt(cl, ei, p.b)
	for _, j := range retLeLenParams(f, idx, ei, okOnly, p.ptrBits, p.depth) {
		if j < len(cl.Call.Args) {
			p.addLE(self, lenOfArg(cl.Call.Args[j]))
		}
	}
}

var retLeLenMemo = map[string][]int{}

// retLeLenParams: the indexes j of slice/string parameters of f for which
// result idx <= len(param j) is entailed at every return (okOnly: at every
// return whose error result can be nil).
func retLeLenParams(f *ssa.Function, idx, ei int, okOnly bool, ptrBits, depth int) []int {
	key := fmt.Sprintf("%p/%d/%v/%d", f, idx, okOnly, ptrBits)
	if r, ok := retLeLenMemo[key]; ok {
		return r
	}
	retLeLenMemo[key] = nil // recursion guard
	if idx >= f.Signature.Results().Len() {
		return nil
	}
	if _, _, ok := isIntegerType(f.Signature.Results().At(idx).Type()); !ok {
		return nil
	}
	var out []int
	for j, prm := range f.Params {
		switch u := prm.Type().Underlying().(type) {
		case *types.Slice:
		case *types.Basic:
			if u.Info()&types.IsString == 0 {
				continue
			}
		default:
			continue
		}
		all, n := true, 0
		for _, b := range f.Blocks {
			ret, ok := b.Instrs[len(b.Instrs)-1].(*ssa.Return)
			if !ok || idx >= len(ret.Results) {
				continue
			}
			if okOnly && ei < len(ret.Results) && nonNilErrAtReturn(ret, ei) {
				continue
			}
			n++
			q := &linProver{b: b, ptrBits: ptrBits, busy: map[ssa.Value]bool{}, depth: depth + 1}
			q.collectGuards()
			q.collectExecuted()
			ll := newLin()
			ll.coef[q.lenAtom(prm, nil)] = new(big.Rat).Set(ratOne)
			if !q.entailsLE(q.toLin(ret.Results[idx], 0), ll) {
				all = false
				break
			}
		}
		if all && n > 0 {
			out = append(out, j)
		}
	}
	retLeLenMemo[key] = out
	return out
}

// collectExecuted adds what the instructions that must have executed before
// the block say: an index expression x[i] on a slice or string in a strictly
// dominating block did not panic, so 0 <= i < len(x).
func (p *linProver) collectExecuted() {
	for d := p.b.Idom(); d != nil; d = d.Idom() {
		for _, ins := range d.Instrs {
			var base, idx ssa.Value
			switch x := ins.(type) {
			case *ssa.IndexAddr:
				base, idx = x.X, x.Index
			case *ssa.Lookup:
				if bt, ok := x.X.Type().Underlying().(*types.Basic); ok && bt.Info()&types.IsString != 0 {
					base, idx = x.X, x.Index
				}
			}
			if base == nil {
				continue
			}
			if _, ok := arrayLen(base.Type()); ok {
				continue
			}
			li := p.toLin(idx, 0)
			ll := newLin()
			ll.coef[p.lenAtom(base, nil)] = new(big.Rat).Set(ratOne)
			p.addLE(li.addScaled(linConst(1), ratOne), ll)
			p.addLE(linConst(0), li)
		}
	}
}

// addLE records a <= b.
func (p *linProver) addLE(a, b linForm2) {
	c := a.addScaled(b, ratMinusOne)
	if len(c.coef) == 0 {
		return
	}
	if len(p.cons) < 400 {
		p.cons = append(p.cons, c)
	}
}

// toLin translates v to its mathematical value.
func (p *linProver) toLin(v ssa.Value, depth int) linForm2 {
	if k, ok := v.(*ssa.Const); ok {
		if kk, ok := constInt64(k); ok {
			return linConst(kk)
		}
	}
	if depth > 8 {
		return p.atomLin(v)
	}
	switch x := v.(type) {
	case *ssa.ChangeType:
		if _, _, ok := isIntegerType(x.X.Type()); ok {
			return p.toLin(x.X, depth+1)
		}
	case *ssa.Convert:
		if _, _, ok := isIntegerType(x.X.Type()); ok {
			if _, _, ok := isIntegerType(x.Type()); ok {
				src := p.toLin(x.X, depth+1)
				if p.fits(src, x.Type()) {
					return src
				}
			}
		}
	case *ssa.BinOp:
		if _, _, ok := isIntegerType(x.Type()); !ok {
			break
		}
		switch x.Op {
		case token.ADD, token.SUB:
			lx, ly := p.toLin(x.X, depth+1), p.toLin(x.Y, depth+1)
			s := ratOne
			if x.Op == token.SUB {
				s = ratMinusOne
			}
			sum := lx.addScaled(ly, s)
			if p.fits(sum, x.Type()) {
				return sum
			}
		case token.MUL:
			for _, pr := range [][2]ssa.Value{{x.X, x.Y}, {x.Y, x.X}} {
				if k, ok := constInt64(pr[1]); ok {
					prod := newLin().addScaled(p.toLin(pr[0], depth+1), big.NewRat(k, 1))
					if p.fits(prod, x.Type()) {
						return prod
					}
					break
				}
			}
		}
	}
	return p.atomLin(v)
}

func (p *linProver) atomLin(v ssa.Value) linForm2 {
	l := newLin()
	l.coef[p.atomIndex(v)] = new(big.Rat).Set(ratOne)
	return l
}

// fits: the facts prove that the mathematical value l lies in the range of t.
func (p *linProver) fits(l linForm2, t types.Type) bool {
	lo, hi, ok := bigTypeRange(t, p.ptrBits)
	if !ok {
		return false
	}
	return p.entailsLE(l, linBig(hi)) && p.entailsLE(linBig(lo), l)
}

// entailsLE: facts |= a <= b.
func (p *linProver) entailsLE(a, b linForm2) bool {
	// negation: a >= b+1  <=>  b - a + 1 <= 0
	neg := b.addScaled(a, ratMinusOne)
	neg.k.Add(neg.k, ratOne)
	if len(neg.coef) == 0 {
		return neg.k.Sign() > 0
	}
	cons := make([]linCon, 0, len(p.cons)+1)
	cons = append(cons, p.cons...)
	cons = append(cons, neg)
	return fmInfeasible(cons, neg)
}

// collectGuards turns the comparisons on the guard edges of the block into facts.
func (p *linProver) collectGuards() {
	for _, g := range guardEdges(p.b) {
		p.addCond(g.If.Cond, g.Truth, 0)
	}
}

func (p *linProver) addCond(cond ssa.Value, truth bool, depth int) {
	if depth > 3 {
		return
	}
	if x, op, k, ok := helperCompare(cond); ok {
		if _, _, isInt := isIntegerType(x.Type()); isInt {
			p.addCmp(x, op, k, truth)
		}
		return
	}
	switch c := cond.(type) {
	case *ssa.UnOp:
		if c.Op == token.NOT {
			p.addCond(c.X, !truth, depth+1)
		}
	case *ssa.BinOp:
		if _, _, ok := isIntegerType(c.X.Type()); !ok {
			return
		}
		p.addCmp(c.X, c.Op, c.Y, truth)
	}
}

func (p *linProver) addCmp(x ssa.Value, op token.Token, y ssa.Value, truth bool) {
	switch op {
	case token.LSS, token.LEQ, token.GTR, token.GEQ, token.EQL, token.NEQ:
	default:
		return
	}
	if !truth {
		op = negOp(op)
	}
	if op == token.NEQ {
		return
	}
	lx, ly := p.toLin(x, 0), p.toLin(y, 0)
	one := linConst(1)
	switch op {
	case token.LSS:
		p.addLE(lx.addScaled(one, ratOne), ly)
	case token.LEQ:
		p.addLE(lx, ly)
	case token.GTR:
		p.addLE(ly.addScaled(one, ratOne), lx)
	case token.GEQ:
		p.addLE(ly, lx)
	case token.EQL:
		p.addLE(lx, ly)
		p.addLE(ly, lx)
	}
}

// ---- queries -------------------------------------------------------------------------

// linLE: the Go values satisfy a <= b (strict: a < b) at block blk.
func linLE(a, b ssa.Value, blk *ssa.BasicBlock, ptrBits int, strict bool) bool {
	p := linProverAt(blk, ptrBits)
	la, lb := p.toLin(a, 0), p.toLin(b, 0)
	if strict {
		la = la.addScaled(linConst(1), ratOne)
	}
	return p.entailsLE(la, lb)
}

// linLELen: a <= len(x) (strict: a < len(x)).
func linLELen(a, x ssa.Value, blk *ssa.BasicBlock, ptrBits int, strict bool) bool {
	p := linProverAt(blk, ptrBits)
	la := p.toLin(a, 0)
	if strict {
		la = la.addScaled(linConst(1), ratOne)
	}
	// array operands have a constant length
	if n, ok := arrayLen(x.Type()); ok {
		return p.entailsLE(la, linConst(n))
	}
	ll := newLin()
	ll.coef[p.lenAtom(x, nil)] = new(big.Rat).Set(ratOne)
	return p.entailsLE(la, ll)
}

// linGE0: a >= 0.
func linGE0(a ssa.Value, blk *ssa.BasicBlock, ptrBits int) bool {
	p := linProverAt(blk, ptrBits)
	return p.entailsLE(linConst(0), p.toLin(a, 0))
}

// linLEConst: a <= k.
func linLEConst(a ssa.Value, k int64, blk *ssa.BasicBlock, ptrBits int) bool {
	p := linProverAt(blk, ptrBits)
	return p.entailsLE(p.toLin(a, 0), linConst(k))
}

func arrayLen(t types.Type) (int64, bool) {
	switch u := t.Underlying().(type) {
	case *types.Array:
		return u.Len(), true
	case *types.Pointer:
		if a, ok := u.Elem().Underlying().(*types.Array); ok {
			return a.Len(), true
		}
	}
	return 0, false
}

// ---- Fourier-Motzkin --------------------------------------------------------------------

// fmInfeasible: the conjunction of the constraints (each: form <= 0) has no
// rational solution.  Only the constraints connected to the goal's atoms are
// considered; elimination is abandoned (result false) when it grows too much.
func fmInfeasible(cons []linCon, goal linCon) bool {
	// restrict to the constraints transitively sharing atoms with the goal
	rel := map[int]bool{}
	for i := range goal.coef {
		rel[i] = true
	}
	used := make([]bool, len(cons))
	for changed := true; changed; {
		changed = false
		for ci, c := range cons {
			if used[ci] {
				continue
			}
			touch := false
			for i := range c.coef {
				if rel[i] {
					touch = true
				}
			}
			if touch {
				used[ci] = true
				changed = true
				for i := range c.coef {
					rel[i] = true
				}
			}
		}
	}
	var cur []linCon
	for ci, c := range cons {
		if used[ci] {
			cur = append(cur, c)
		}
	}
	for {
		// trivial contradiction / drop trivial truths
		var next []linCon
		vars := map[int]int{}
		for _, c := range cur {
			if len(c.coef) == 0 {
				if c.k.Sign() > 0 {
					return true
				}
				continue
			}
			next = append(next, c)
			for i := range c.coef {
				vars[i]++
			}
		}
		cur = next
		if len(vars) == 0 {
			return false
		}
		// choose the variable with the fewest pos*neg combinations
		best, bestCost := -1, 0
		for v := range vars {
			pos, neg := 0, 0
			for _, c := range cur {
				if co, ok := c.coef[v]; ok {
					if co.Sign() > 0 {
						pos++
					} else {
						neg++
					}
				}
			}
			cost := pos*neg - pos - neg
			if best < 0 || cost < bestCost || (cost == bestCost && v < best) {
				best, bestCost = v, cost
			}
		}
		var pos, neg, rest []linCon
		for _, c := range cur {
			co, ok := c.coef[best]
			switch {
			case !ok:
				rest = append(rest, c)
			case co.Sign() > 0:
				pos = append(pos, c)
			default:
				neg = append(neg, c)
			}
		}
		if len(pos)*len(neg) > 4000 {
			return false
		}
		for _, a := range pos {
			for _, b := range neg {
				// a: ca*x + A <= 0 (ca>0), b: cb*x + B <= 0 (cb<0)
				// => A/ca - B/cb... combine: (-cb)*a + ca*b eliminates x
				ca := a.coef[best]
				cb := new(big.Rat).Neg(b.coef[best])
				comb := newLin().addScaled(a, cb).addScaled(b, ca)
				delete(comb.coef, best)
				rest = append(rest, comb)
			}
		}
		cur = dedupCons(rest)
		if len(cur) > 3000 {
			return false
		}
	}
}

func dedupCons(cs []linCon) []linCon {
	seen := map[string]int{}
	var out []linCon
	for _, c := range cs {
		// normalise by the sum of absolute coefficients is overkill; key on the
		// coefficient vector, keep the strongest constant
		key := ""
		idxs := make([]int, 0, len(c.coef))
		for i := range c.coef {
			idxs = append(idxs, i)
		}
		sortInts(idxs)
		for _, i := range idxs {
			key += string(rune('a'+i%26)) + itoa(i) + ":" + c.coef[i].RatString() + ";"
		}
		if j, ok := seen[key]; ok {
			if c.k.Cmp(out[j].k) > 0 {
				out[j] = c
			}
			continue
		}
		seen[key] = len(out)
		out = append(out, c)
	}
	return out
}

func sortInts(a []int) {
	for i := 1; i < len(a); i++ {
		for j := i; j > 0 && a[j] < a[j-1]; j-- {
			a[j], a[j-1] = a[j-1], a[j]
		}
	}
}

func itoa(i int) string {
	return big.NewInt(int64(i)).String()
}

// ---- lengths of values ---------------------------------------------------------------------

var lenRangeMemo = map[ssa.Value]*ival{}

// lenRangeOf: an interval containing len(x), from the way x is built: a slice
// of an array (at most the array's length), x[:h], a nil constant, a phi of
// such values, or the result of a repository function all of whose returns
// are such values.
func lenRangeOf(x ssa.Value, ptrBits, depth int) ival {
	full := ival{lo: 0, hi: posInf}
	if depth > 5 {
		return full
	}
	if r, ok := lenRangeMemo[x]; ok {
		if r == nil {
			return full
		}
		return *r
	}
	lenRangeMemo[x] = nil
	r := lenRangeOf1(x, ptrBits, depth)
	rr := r
	lenRangeMemo[x] = &rr
	return r
}

func lenRangeOf1(x ssa.Value, ptrBits, depth int) ival {
	full := ival{lo: 0, hi: posInf}
	if n, ok := arrayLen(x.Type()); ok {
		return ival{lo: n, hi: n}
	}
	switch v := x.(type) {
	case *ssa.Const:
		if v.IsNil() {
			return ival{lo: 0, hi: 0}
		}
	case *ssa.ChangeType:
		return lenRangeOf(v.X, ptrBits, depth+1)
	case *ssa.Slice:
		hi := int64(posInf)
		if n, ok := arrayLen(v.X.Type()); ok {
			hi = n
		} else if _, isStr := v.X.Type().Underlying().(*types.Basic); !isStr {
			// len(x[l:h]) <= cap(x): no bound from here
		} else {
			hi = lenRangeOf(v.X, ptrBits, depth+1).hi
		}
		if v.High != nil {
			hr := rangeAt(v.High, v.Block(), ptrBits)
			if hr.hi != posInf && hr.hi < hi {
				hi = hr.hi
			}
		} else if v.Max == nil {
			if xr := lenRangeOf(v.X, ptrBits, depth+1); xr.hi < hi {
				hi = xr.hi
			}
		}
		if hi < 0 {
			hi = 0
		}
		// lower bound: (high or len(x)) - low
		lo := int64(0)
		top := int64(0)
		if v.High != nil {
			if hr := rangeAt(v.High, v.Block(), ptrBits); hr.lo > 0 {
				top = hr.lo
			}
		} else if n, ok := arrayLen(v.X.Type()); ok {
			top = n
		} else {
			top = lenRangeOf(v.X, ptrBits, depth+1).lo
		}
		if v.Low == nil {
			lo = top
		} else if lr := rangeAt(v.Low, v.Block(), ptrBits); lr.hi != posInf && lr.hi >= 0 && top-lr.hi > 0 {
			lo = top - lr.hi
		}
		if lo > hi {
			lo = hi
		}
		return ival{lo: lo, hi: hi}
	case *ssa.Phi:
		j := ival{lo: posInf, hi: 0}
		for _, e := range v.Edges {
			if e == x {
				continue
			}
			er := lenRangeOf(e, ptrBits, depth+1)
			if er.lo < j.lo {
				j.lo = er.lo
			}
			if er.hi > j.hi {
				j.hi = er.hi
			}
		}
		if j.lo == posInf {
			j.lo = 0
		}
		return j
	case *ssa.Extract:
		if cl, ok := v.Tuple.(*ssa.Call); ok {
			if f := cl.Call.StaticCallee(); f != nil && len(f.Blocks) > 0 {
				return returnLenRange(f, v.Index, -1, false, ptrBits, depth+1)
			}
		}
	case *ssa.Call:
		if bi, ok := v.Call.Value.(*ssa.Builtin); ok && bi.Name() == "append" && len(v.Call.Args) == 2 {
			// append(s, e1..ek): at least len(s)+k elements
			base := lenRangeOf(v.Call.Args[0], ptrBits, depth+1)
			add := lenRangeOf(v.Call.Args[1], ptrBits, depth+1)
			lo := base.lo + add.lo
			hi := int64(posInf)
			if base.hi != posInf && add.hi != posInf {
				hi = base.hi + add.hi
			}
			return ival{lo: lo, hi: hi}
		}
		if f := v.Call.StaticCallee(); f != nil && len(f.Blocks) > 0 && f.Signature.Results().Len() == 1 {
			return returnLenRange(f, 0, -1, false, ptrBits, depth+1)
		}
	}
	return full
}

// returnLenRange: okOnly restricts the join to the returns whose error result
// (index ei) can be nil.
func returnLenRange(f *ssa.Function, idx, ei int, okOnly bool, ptrBits, depth int) ival {
	j := ival{lo: posInf, hi: 0}
	n := 0
	for _, b := range f.Blocks {
		ret, ok := b.Instrs[len(b.Instrs)-1].(*ssa.Return)
		if !ok || idx >= len(ret.Results) {
			continue
		}
		if okOnly && ei >= 0 && ei < len(ret.Results) && nonNilErrAtReturn(ret, ei) {
			continue
		}
		n++
		er := lenRangeOf(ret.Results[idx], ptrBits, depth+1)
		if er.lo < j.lo {
			j.lo = er.lo
		}
		if er.hi > j.hi {
			j.hi = er.hi
		}
	}
	if n == 0 {
		return ival{lo: 0, hi: posInf}
	}
	if j.lo == posInf {
		j.lo = 0
	}
	return j
}
