package main

// Engine C: effect, ownership and must-pass-through helpers on SSA.

import (
	"go/constant"
	"go/token"
	"go/types"
	"sort"
	"strings"

	"golang.org/x/tools/go/ssa"
)

// structField returns the struct type and index of a named field of the named
// type pkgPath.typ, or -1.
func (l *Loaded) structField(pkgPath, typ, field string) (*types.Struct, int) {
	T := l.NamedType(pkgPath, typ)
	if T == nil {
		return nil, -1
	}
	st, ok := T.Underlying().(*types.Struct)
	if !ok {
		return nil, -1
	}
	for i := 0; i < st.NumFields(); i++ {
		if st.Field(i).Name() == field {
			return st, i
		}
	}
	return st, -1
}

// isFieldAddrOf reports whether v is &x.f for field index idx of named type
// pkgPath.typ.
func isFieldAddrOf(v ssa.Value, pkgPath, typ string, idx int) (*ssa.FieldAddr, bool) {
	fa, ok := v.(*ssa.FieldAddr)
	if !ok || fa.Field != idx {
		return nil, false
	}
	pt, ok := fa.X.Type().Underlying().(*types.Pointer)
	if !ok || !isNamed(pt.Elem(), pkgPath, typ) {
		return nil, false
	}
	return fa, true
}

// fieldAccess describes one access to a struct field.
type fieldAccess struct {
	Fn    *ssa.Function
	Addr  *ssa.FieldAddr // nil for value-struct reads (ssa.Field)
	Instr ssa.Instruction
	Write bool      // a Store whose address is the field (or an element of it)
	Elem  bool      // the access goes through an element (index / map update) of the field value
	Value ssa.Value // stored value for direct writes
}

// fieldAccesses lists every access to field idx of pkgPath.typ in fns.
func fieldAccesses(fns []*ssa.Function, pkgPath, typ string, idx int) []fieldAccess {
	var out []fieldAccess
	for _, fn := range fns {
		eachInstr(fn, func(ins ssa.Instruction) {
			switch x := ins.(type) {
			case *ssa.FieldAddr:
				fa, ok := isFieldAddrOf(x, pkgPath, typ, idx)
				if !ok {
					return
				}
				refs := fa.Referrers()
				if refs == nil {
					return
				}
				for _, r := range *refs {
					switch rr := r.(type) {
					case *ssa.Store:
						if rr.Addr == fa {
							out = append(out, fieldAccess{Fn: fn, Addr: fa, Instr: rr, Write: true, Value: rr.Val})
						} else {
							out = append(out, fieldAccess{Fn: fn, Addr: fa, Instr: rr})
						}
					case *ssa.UnOp:
						// a load; look one level further for element writes
						w := false
						if lr := rr.Referrers(); lr != nil {
							for _, u := range *lr {
								switch uu := u.(type) {
								case *ssa.MapUpdate:
									if uu.Map == rr {
										out = append(out, fieldAccess{Fn: fn, Addr: fa, Instr: uu, Write: true, Elem: true})
										w = true
									}
								case *ssa.IndexAddr:
									if er := uu.Referrers(); er != nil {
										for _, e := range *er {
											if st, ok := e.(*ssa.Store); ok && st.Addr == uu {
												out = append(out, fieldAccess{Fn: fn, Addr: fa, Instr: st, Write: true, Elem: true})
												w = true
											}
										}
									}
								}
							}
						}
						_ = w
						out = append(out, fieldAccess{Fn: fn, Addr: fa, Instr: rr})
					default:
						out = append(out, fieldAccess{Fn: fn, Addr: fa, Instr: r})
					}
				}
			case *ssa.Field:
				if x.Field == idx && isNamed(x.X.Type(), pkgPath, typ) {
					out = append(out, fieldAccess{Fn: fn, Instr: x})
				}
			}
		})
	}
	return out
}

// instrIndex returns the position of ins inside its block.
func instrIndex(ins ssa.Instruction) int {
	for i, x := range ins.Block().Instrs {
		if x == ins {
			return i
		}
	}
	return -1
}

// instrDominates: a executes before b on every path that reaches b.
func instrDominates(a, b ssa.Instruction) bool {
	if a.Block() == b.Block() {
		return instrIndex(a) < instrIndex(b)
	}
	return a.Block().Dominates(b.Block())
}

// mustPassBefore reports whether every path from instruction `from` to any
// instruction satisfying `target` executes an instruction satisfying `via`
// first.  Returns the offending target if not.
func mustPassBefore(from ssa.Instruction, via, target func(ssa.Instruction) bool) (ssa.Instruction, bool) {
	start := from.Block()
	type item struct {
		b    *ssa.BasicBlock
		idx  int
		pred *ssa.BasicBlock // block we came from (nil at the start)
	}
	type visitKey struct {
		b, pred *ssa.BasicBlock
	}
	seen := map[visitKey]bool{}
	startIdx := instrIndex(from) + 1
	fn := start.Parent()
	if fn != nil && len(fn.Blocks) > 0 && start == fn.Blocks[0] && instrIndex(from) == 0 {
		startIdx = 0 // from the function entry: the first instruction itself counts
	}
	work := []item{{start, startIdx, nil}}
	for len(work) > 0 {
		it := work[len(work)-1]
		work = work[:len(work)-1]
		blocked := false
		for i := it.idx; i < len(it.b.Instrs); i++ {
			ins := it.b.Instrs[i]
			if via(ins) {
				blocked = true
				break
			}
			if target(ins) {
				return ins, false
			}
			// a call of a helper that never returns ends the path
			if cl, ok := ins.(*ssa.Call); ok && isNoReturn(cl.Call.StaticCallee()) {
				blocked = true
				break
			}
		}
		if blocked {
			continue
		}
		for si, s := range it.b.Succs {
			if !edgeFeasible(it.pred, it.b, si) {
				continue
			}
			k := visitKey{s, it.b}
			if !seen[k] {
				seen[k] = true
				work = append(work, item{s, 0, it.b})
			}
		}
	}
	return nil, true
}

// nilFact: what the branch p -> b says about a value being nil.
func nilFact(p, b *ssa.BasicBlock) (ssa.Value, bool, bool) {
	if p == nil || len(p.Instrs) == 0 {
		return nil, false, false
	}
	iff, ok := p.Instrs[len(p.Instrs)-1].(*ssa.If)
	if !ok || len(p.Succs) != 2 || p.Succs[0] == p.Succs[1] {
		return nil, false, false
	}
	bo, ok := iff.Cond.(*ssa.BinOp)
	if !ok || (bo.Op != token.EQL && bo.Op != token.NEQ) {
		return nil, false, false
	}
	var v ssa.Value
	if c, ok := bo.Y.(*ssa.Const); ok && c.IsNil() {
		v = bo.X
	} else if c, ok := bo.X.(*ssa.Const); ok && c.IsNil() {
		v = bo.Y
	} else {
		return nil, false, false
	}
	truth := p.Succs[0] == b
	isNil := (bo.Op == token.EQL) == truth
	return v, isNil, true
}

// edgeFeasible prunes the classic infeasible path of error threading: having
// come into block b from pred on a branch that decided v ==/!= nil, and b
// ending in a test of a phi whose incoming value on that edge is v, only the
// consistent successor is feasible.
func edgeFeasible(pred, b *ssa.BasicBlock, succIdx int) bool {
	if pred == nil || len(b.Instrs) == 0 {
		return true
	}
	v, isNil, ok := nilFact(pred, b)
	if !ok {
		return true
	}
	iff, ok := b.Instrs[len(b.Instrs)-1].(*ssa.If)
	if !ok || len(b.Succs) != 2 {
		return true
	}
	bo, ok := iff.Cond.(*ssa.BinOp)
	if !ok || (bo.Op != token.EQL && bo.Op != token.NEQ) {
		return true
	}
	var tested ssa.Value
	if c, ok := bo.Y.(*ssa.Const); ok && c.IsNil() {
		tested = bo.X
	} else if c, ok := bo.X.(*ssa.Const); ok && c.IsNil() {
		tested = bo.Y
	} else {
		return true
	}
	if phi, ok := tested.(*ssa.Phi); ok && phi.Block() == b {
		pi := -1
		for i, p := range b.Preds {
			if p == pred {
				pi = i
			}
		}
		if pi < 0 || pi >= len(phi.Edges) || phi.Edges[pi] != v {
			return true
		}
	} else if tested != v {
		return true
	}
	// the test in b is decided
	condTrue := (bo.Op == token.EQL) == isNil
	return (succIdx == 0) == condTrue
}

func isReturn(ins ssa.Instruction) bool {
	_, ok := ins.(*ssa.Return)
	return ok
}

// callTo returns a predicate matching static calls to fn (call, defer or go).
func callTo(pred func(*ssa.Function) bool) func(ssa.Instruction) bool {
	return func(ins ssa.Instruction) bool {
		ci, ok := ins.(ssa.CallInstruction)
		if !ok {
			return false
		}
		f := ci.Common().StaticCallee()
		return f != nil && pred(f)
	}
}

// derivesFrom reports whether v is computed (through conversions, calls'
// arguments, phis, field loads, extracts) from a value satisfying pred.
func derivesFrom(v ssa.Value, pred func(ssa.Value) bool, depth int) bool {
	seen := map[ssa.Value]bool{}
	var rec func(v ssa.Value, d int) bool
	rec = func(v ssa.Value, d int) bool {
		if v == nil || seen[v] || d > depth {
			return false
		}
		seen[v] = true
		if pred(v) {
			return true
		}
		switch x := v.(type) {
		case *ssa.ChangeType:
			return rec(x.X, d+1)
		case *ssa.Convert:
			return rec(x.X, d+1)
		case *ssa.MakeInterface:
			return rec(x.X, d+1)
		case *ssa.ChangeInterface:
			return rec(x.X, d+1)
		case *ssa.TypeAssert:
			return rec(x.X, d+1)
		case *ssa.Extract:
			return rec(x.Tuple, d+1)
		case *ssa.UnOp:
			// a load of a local (named results spilled for defer): follow what was stored into it
			if al, ok := x.X.(*ssa.Alloc); ok && al.Referrers() != nil {
				for _, r := range *al.Referrers() {
					if st, ok := r.(*ssa.Store); ok && st.Addr == ssa.Value(al) && rec(st.Val, d+1) {
						return true
					}
				}
			}
			return rec(x.X, d+1)
		case *ssa.Phi:
			for _, e := range x.Edges {
				if rec(e, d+1) {
					return true
				}
			}
		case *ssa.Call:
			for _, a := range x.Call.Args {
				if rec(a, d+1) {
					return true
				}
			}
			if x.Call.IsInvoke() {
				return rec(x.Call.Value, d+1)
			}
		case *ssa.FieldAddr:
			return rec(x.X, d+1)
		case *ssa.Field:
			return rec(x.X, d+1)
		case *ssa.Slice:
			return rec(x.X, d+1)
		case *ssa.BinOp:
			return rec(x.X, d+1) || rec(x.Y, d+1)
		case *ssa.IndexAddr:
			return rec(x.X, d+1)
		case *ssa.Index:
			return rec(x.X, d+1)
		case *ssa.Lookup:
			return rec(x.X, d+1)
		}
		return false
	}
	return rec(v, 0)
}

func isCallOf(v ssa.Value, pred func(*ssa.Function) bool) bool {
	c, ok := v.(*ssa.Call)
	if !ok {
		return false
	}
	f := c.Call.StaticCallee()
	return f != nil && pred(f)
}

func constOf(l *Loaded, pkgPath, name string) (int64, bool) {
	p := l.ByPath[pkgPath]
	if p == nil {
		return 0, false
	}
	c, ok := p.Types.Scope().Lookup(name).(*types.Const)
	if !ok {
		return 0, false
	}
	return constant.Int64Val(c.Val())
}

func sortedFuncs(m map[*ssa.Function]bool) []*ssa.Function {
	var out []*ssa.Function
	for f := range m {
		out = append(out, f)
	}
	sort.Slice(out, func(i, j int) bool { return fnName(out[i]) < fnName(out[j]) })
	return out
}

// condTests reports whether cond (possibly negated) is value v or a
// comparison of v; returns the polarity with which "v is true / v != 0" holds
// when the branch with the given truth is taken.
func condIsValue(cond, v ssa.Value, truth bool) (bool, bool) {
	for {
		if u, ok := cond.(*ssa.UnOp); ok && u.Op == token.NOT {
			cond = u.X
			truth = !truth
			continue
		}
		break
	}
	if cond == v {
		return truth, true
	}
	return false, false
}

// viaDeep lifts a value-independent instruction predicate over static calls:
// an instruction also satisfies the lifted predicate when it is a plain
// (not deferred, not go) static call of a repository function on every
// entry-to-return path of which some instruction satisfies the lifted
// predicate (summaries to depth 3).  Extracting the statements a rule looks
// for into a helper therefore does not change the verdict.
func viaDeep(via func(ssa.Instruction) bool) func(ssa.Instruction) bool {
	memo := map[*ssa.Function]int{} // 1 always, 2 not (or in progress)
	var pred func(ins ssa.Instruction, depth int) bool
	always := func(fn *ssa.Function, depth int) bool {
		if r, ok := memo[fn]; ok {
			return r == 1
		}
		memo[fn] = 2
		first := fn.Blocks[0].Instrs[0]
		_, ok := mustPassBefore(first, func(i ssa.Instruction) bool { return pred(i, depth) }, isReturn)
		if ok {
			memo[fn] = 1
		}
		return ok
	}
	pred = func(ins ssa.Instruction, depth int) bool {
		if via(ins) {
			return true
		}
		cl, ok := ins.(*ssa.Call)
		if !ok || depth >= 3 {
			return false
		}
		f := cl.Call.StaticCallee()
		if f == nil || len(f.Blocks) == 0 || !strings.HasPrefix(funcPkgPath(f), modPath) {
			return false
		}
		return always(f, depth+1)
	}
	return func(ins ssa.Instruction) bool { return pred(ins, 0) }
}

// eachInstrDeep visits the instructions of fn and of the repository functions
// it calls statically (plain calls, defers and go statements alike), to the
// given depth, each function once.
func eachInstrDeep(fn *ssa.Function, depth int, f func(ssa.Instruction)) {
	seen := map[*ssa.Function]bool{}
	var rec func(fn *ssa.Function, d int)
	rec = func(fn *ssa.Function, d int) {
		if seen[fn] {
			return
		}
		seen[fn] = true
		eachInstr(fn, func(ins ssa.Instruction) {
			f(ins)
			if ci, ok := ins.(ssa.CallInstruction); ok && d < depth {
				if g := ci.Common().StaticCallee(); g != nil && len(g.Blocks) > 0 && strings.HasPrefix(funcPkgPath(g), modPath) {
					rec(g, d+1)
				}
			}
		})
	}
	rec(fn, 0)
}

// paramArg: when v is a parameter of a function that is not used as a value
// and has exactly one static call site in the repository, the argument passed
// there (resolved repeatedly); otherwise v itself.
func (l *Loaded) paramArg(v ssa.Value) ssa.Value {
	for i := 0; i < 4; i++ {
		p, ok := v.(*ssa.Parameter)
		if !ok {
			return v
		}
		fn := p.Parent()
		if fn == nil || l.AddressTaken(fn) || l.mayBeInvoked(fn) {
			return v
		}
		cs := l.RealCallers(fn)
		if len(cs) != 1 {
			return v
		}
		idx := -1
		for k, q := range fn.Params {
			if q == p {
				idx = k
			}
		}
		args := cs[0].Common().Args
		if idx < 0 || idx >= len(args) {
			return v
		}
		v = args[idx]
	}
	return v
}

// mayBeInvoked: fn is a method whose name occurs in some interface type of
// the repository (it may then be called dynamically), or is exported.
func (l *Loaded) mayBeInvoked(fn *ssa.Function) bool {
	if fn.Signature.Recv() == nil {
		return token.IsExported(fn.Name())
	}
	if token.IsExported(fn.Name()) {
		return true
	}
	if l.ifaceMethods == nil {
		l.ifaceMethods = map[string]bool{}
		for _, p := range l.Pkgs {
			sc := p.Types.Scope()
			for _, n := range sc.Names() {
				if tn, ok := sc.Lookup(n).(*types.TypeName); ok {
					if it, ok := tn.Type().Underlying().(*types.Interface); ok {
						for i := 0; i < it.NumMethods(); i++ {
							l.ifaceMethods[it.Method(i).Name()] = true
						}
					}
				}
			}
		}
	}
	return l.ifaceMethods[fn.Name()]
}

// poolDomain: the methods of vmPool together with the unexported functions
// all of whose call sites are in the domain (helpers split out of a pool
// method): the code that prepares and recycles CHILD VMs, whose stores go to
// another VM than the running one.
func (l *Loaded) poolDomain() map[*ssa.Function]bool {
	if l.poolDom != nil {
		return l.poolDom
	}
	E := map[*ssa.Function]bool{}
	fns := l.RepoFuncs(func(pp string) bool { return pp == modPath })
	for _, fn := range fns {
		root := fn
		for root.Parent() != nil {
			root = root.Parent()
		}
		if r := root.Signature.Recv(); r != nil && isNamed(r.Type(), modPath, "vmPool") {
			E[fn] = true
		}
	}
	for changed := true; changed; {
		changed = false
		for _, fn := range fns {
			if E[fn] || fn.Parent() != nil || l.AddressTaken(fn) || l.mayBeInvoked(fn) {
				continue
			}
			cs := l.RealCallers(fn)
			if len(cs) == 0 {
				continue
			}
			all := true
			for _, ci := range cs {
				if !E[ci.Parent()] {
					all = false
				}
			}
			if all {
				E[fn] = true
				changed = true
			}
		}
	}
	l.poolDom = E
	return E
}

// invokerVMFields: the two *VM fields of Invoker by role: the one its
// constructor (the function returning a new *Invoker) stores from a parameter
// is the caller's VM, the other is the child VM the calls run on.  Names are
// used only as a fallback.
func (l *Loaded) invokerVMFields() (fVM, fChild int) {
	fVM, fChild = -1, -1
	T := l.NamedType(modPath, "Invoker")
	vmT := l.NamedType(modPath, "VM")
	if T == nil || vmT == nil {
		return
	}
	st, ok := T.Underlying().(*types.Struct)
	if !ok {
		return
	}
	var vmFields []int
	for i := 0; i < st.NumFields(); i++ {
		if pt, ok := st.Field(i).Type().(*types.Pointer); ok && types.Identical(pt.Elem(), vmT) {
			vmFields = append(vmFields, i)
		}
	}
	if len(vmFields) != 2 {
		_, fVM = l.structField(modPath, "Invoker", "vm")
		_, fChild = l.structField(modPath, "Invoker", "child")
		return
	}
	for _, fn := range l.RepoFuncs(func(pp string) bool { return pp == modPath }) {
		if fn.Signature.Recv() != nil || fn.Signature.Results().Len() != 1 {
			continue
		}
		if rp, ok := fn.Signature.Results().At(0).Type().(*types.Pointer); !ok || !types.Identical(rp.Elem(), T) {
			continue
		}
		eachInstr(fn, func(ins ssa.Instruction) {
			s, ok := ins.(*ssa.Store)
			if !ok {
				return
			}
			if f2, ok2 := s.Addr.(*ssa.FieldAddr); ok2 {
				if pt, ok3 := f2.X.Type().Underlying().(*types.Pointer); ok3 && types.Identical(pt.Elem(), T) {
					if _, isParam := s.Val.(*ssa.Parameter); isParam {
						for _, i := range vmFields {
							if f2.Field == i {
								fVM = i
							}
						}
					}
				}
			}
		})
	}
	for _, i := range vmFields {
		if i != fVM && fVM >= 0 {
			fChild = i
		}
	}
	if fVM < 0 {
		_, fVM = l.structField(modPath, "Invoker", "vm")
		_, fChild = l.structField(modPath, "Invoker", "child")
	}
	return
}

// storesFieldIdx: the instruction stores field idx of named struct pkgPath.typ
// (directly, through a whole-struct store, or by calling a repository function
// that does so on every path).
func storesFieldIdx(l *Loaded, pkgPath, typ string, idx int) func(ssa.Instruction) bool {
	T := l.NamedType(pkgPath, typ)
	if T == nil || idx < 0 {
		return func(ssa.Instruction) bool { return false }
	}
	st, ok := T.Underlying().(*types.Struct)
	if !ok || idx >= st.NumFields() {
		return func(ssa.Instruction) bool { return false }
	}
	return storesStructField(l, pkgPath, typ, st.Field(idx).Name())
}

// returnedValue: the value result i of a return statement stands for.  In a
// function with defers go/ssa spills the results (`*r = X; rundefers; t = *r;
// return t`): the value stored into the result variable in the return's own
// block is reported instead of the load.
func returnedValue(ret *ssa.Return, i int) ssa.Value {
	v := ret.Results[i]
	ld, ok := v.(*ssa.UnOp)
	if !ok || ld.Op != token.MUL {
		return v
	}
	al, ok := ld.X.(*ssa.Alloc)
	if !ok {
		return v
	}
	b := ret.Block()
	for j := len(b.Instrs) - 1; j >= 0; j-- {
		if st, ok := b.Instrs[j].(*ssa.Store); ok && st.Addr == ssa.Value(al) {
			return st.Val
		}
	}
	return v
}
