package main

import (
	"fmt"
	"go/ast"
	"go/token"
	"go/types"
	"os"
	"sort"
	"strings"

	"golang.org/x/tools/go/callgraph"
	"golang.org/x/tools/go/callgraph/cha"
	"golang.org/x/tools/go/callgraph/vta"
	"golang.org/x/tools/go/packages"
	"golang.org/x/tools/go/ssa"
	"golang.org/x/tools/go/ssa/ssautil"
)

const modPath = "github.com/ozanh/ugo"

// Loaded is the type-checked and SSA-lowered program of the repository's
// current working tree under one build configuration.
type Loaded struct {
	Dir          string
	Config       string // e.g. "linux/amd64"
	Pkgs         []*packages.Package
	ByPath       map[string]*packages.Package
	Fset         *token.FileSet
	Prog         *ssa.Program
	SPkgs        map[string]*ssa.Package
	all          map[*ssa.Function]bool
	chaG         *callgraph.Graph
	vtaG         *callgraph.Graph
	declOf       map[*types.Func]*ast.FuncDecl
	callers      map[*ssa.Function][]ssa.CallInstruction
	addrTaken    map[*ssa.Function]bool
	ifaceMethods map[string]bool
	poolDom      map[*ssa.Function]bool
	NumFunc      int
}

// currentOverlay: the file contents the program being analysed was loaded with
// (sensitivity suite); rules that read sources themselves (Engine D) use it too.
var currentOverlay map[string][]byte

// readSource reads a source file of the analysed tree, honouring the overlay.
func readSource(path string) ([]byte, error) {
	if b, ok := currentOverlay[path]; ok {
		return b, nil
	}
	return os.ReadFile(path)
}

func repoDir() string {
	if d := os.Getenv("UGO_REPO"); d != "" {
		return d
	}
	return "/repo"
}

// load type-checks every non-test package of the module.  goos/goarch empty
// means the host configuration.  overlay may replace file contents (used by
// the sensitivity suite only).
func load(goos, goarch string, overlay map[string][]byte) (*Loaded, error) {
	dir := repoDir()
	env := append(os.Environ(), "GOFLAGS=-mod=mod", "GOPROXY=off", "GOSUMDB=off", "GOTOOLCHAIN=local", "GOWORK=off")
	cfgName := "host"
	if goos != "" {
		env = append(env, "GOOS="+goos, "GOARCH="+goarch, "CGO_ENABLED=0")
		cfgName = goos + "/" + goarch
	}
	cfg := &packages.Config{
		Mode:    packages.LoadAllSyntax,
		Dir:     dir,
		Env:     env,
		Tests:   false,
		Overlay: overlay,
	}
	pkgs, err := packages.Load(cfg, "./...")
	if err != nil {
		return nil, fmt.Errorf("packages.Load: %v", err)
	}
	if len(pkgs) == 0 {
		return nil, fmt.Errorf("no packages loaded from %s", dir)
	}
	var errs []string
	packages.Visit(pkgs, nil, func(p *packages.Package) {
		for _, e := range p.Errors {
			errs = append(errs, e.Error())
		}
	})
	if len(errs) > 0 {
		return nil, fmt.Errorf("type errors in %s (%s): %s", dir, cfgName, strings.Join(errs, "; "))
	}
	sort.Slice(pkgs, func(i, j int) bool { return pkgs[i].PkgPath < pkgs[j].PkgPath })
	currentOverlay = overlay
	l := &Loaded{Dir: dir, Config: cfgName, Pkgs: pkgs, ByPath: map[string]*packages.Package{}, SPkgs: map[string]*ssa.Package{}, declOf: map[*types.Func]*ast.FuncDecl{}}
	for _, p := range pkgs {
		l.ByPath[p.PkgPath] = p
		l.Fset = p.Fset
		for _, f := range p.Syntax {
			for _, d := range f.Decls {
				if fd, ok := d.(*ast.FuncDecl); ok {
					if fo, ok := p.TypesInfo.Defs[fd.Name].(*types.Func); ok {
						l.declOf[fo] = fd
					}
				}
			}
		}
	}
	if l.ByPath[modPath] == nil {
		return nil, fmt.Errorf("root package %s not found", modPath)
	}
	prog, spkgs := ssautil.AllPackages(pkgs, ssa.InstantiateGenerics)
	prog.Build()
	l.Prog = prog
	for _, sp := range spkgs {
		if sp != nil {
			l.SPkgs[sp.Pkg.Path()] = sp
		}
	}
	// also index dependency packages created by AllPackages
	for _, sp := range prog.AllPackages() {
		if _, ok := l.SPkgs[sp.Pkg.Path()]; !ok {
			l.SPkgs[sp.Pkg.Path()] = sp
		}
	}
	return l, nil
}

func (l *Loaded) AllFuncs() map[*ssa.Function]bool {
	if l.all == nil {
		l.all = ssautil.AllFunctions(l.Prog)
	}
	return l.all
}

// RepoFuncs returns every function (including anonymous ones) whose package is
// inside the module, sorted by name for determinism.
func (l *Loaded) RepoFuncs(filter func(pkgPath string) bool) []*ssa.Function {
	var out []*ssa.Function
	for f := range l.AllFuncs() {
		pp := funcPkgPath(f)
		if pp == "" || !strings.HasPrefix(pp, modPath) {
			continue
		}
		if filter != nil && !filter(pp) {
			continue
		}
		if len(f.Blocks) == 0 {
			continue
		}
		out = append(out, f)
	}
	sort.Slice(out, func(i, j int) bool {
		a, b := out[i], out[j]
		if a.String() != b.String() {
			return a.String() < b.String()
		}
		return a.Pos() < b.Pos()
	})
	return out
}

func funcPkgPath(f *ssa.Function) string {
	for g := f; g != nil; g = g.Parent() {
		if g.Pkg != nil {
			return g.Pkg.Pkg.Path()
		}
		if g.Object() != nil && g.Object().Pkg() != nil {
			return g.Object().Pkg().Path()
		}
		if o := g.Origin(); o != nil && o != g {
			if o.Pkg != nil {
				return o.Pkg.Pkg.Path()
			}
		}
	}
	return ""
}

func isLibPkg(pp string) bool {
	return strings.HasPrefix(pp, modPath) && !strings.HasPrefix(pp, modPath+"/cmd/") && !strings.HasPrefix(pp, modPath+"/internal/tests")
}

func (l *Loaded) CHA() *callgraph.Graph {
	if l.chaG == nil {
		l.chaG = cha.CallGraph(l.Prog)
	}
	return l.chaG
}

func (l *Loaded) VTA() *callgraph.Graph {
	if l.vtaG == nil {
		l.vtaG = vta.CallGraph(l.AllFuncs(), l.CHA())
	}
	return l.vtaG
}

// Reach returns the functions reachable from roots in g.  stop, if non-nil,
// prunes traversal below a function (the function itself is still included).
func Reach(g *callgraph.Graph, stop func(*ssa.Function) bool, roots ...*ssa.Function) map[*ssa.Function]bool {
	seen := map[*ssa.Function]bool{}
	var stack []*callgraph.Node
	for _, r := range roots {
		if r == nil {
			continue
		}
		if n := g.Nodes[r]; n != nil {
			stack = append(stack, n)
		}
	}
	for len(stack) > 0 {
		n := stack[len(stack)-1]
		stack = stack[:len(stack)-1]
		if seen[n.Func] {
			continue
		}
		seen[n.Func] = true
		if stop != nil && stop(n.Func) {
			continue
		}
		for _, e := range n.Out {
			if !seen[e.Callee.Func] {
				stack = append(stack, e.Callee)
			}
		}
	}
	return seen
}

// ---- anchors ---------------------------------------------------------------

func (l *Loaded) Pkg(path string) *packages.Package { return l.ByPath[path] }

func (l *Loaded) SPkg(path string) *ssa.Package { return l.SPkgs[path] }

// Func resolves "pkgpath.Name" or "pkgpath.(T).M" / "pkgpath.(*T).M".
func (l *Loaded) Func(pkgPath, name string) *ssa.Function {
	sp := l.SPkgs[pkgPath]
	if sp == nil {
		return nil
	}
	return sp.Func(name)
}

func (l *Loaded) Method(pkgPath, typ, name string) *ssa.Function {
	sp := l.SPkgs[pkgPath]
	if sp == nil {
		return nil
	}
	tn, ok := sp.Pkg.Scope().Lookup(typ).(*types.TypeName)
	if !ok {
		return nil
	}
	T := tn.Type()
	for _, t := range []types.Type{T, types.NewPointer(T)} {
		ms := l.Prog.MethodSets.MethodSet(t)
		if sel := ms.Lookup(sp.Pkg, name); sel != nil {
			if fn := l.Prog.MethodValue(sel); fn != nil {
				// prefer the declared (non-wrapper) function
				if fn.Synthetic != "" {
					if fo, ok := sel.Obj().(*types.Func); ok {
						if d := l.Prog.FuncValue(fo); d != nil {
							return d
						}
					}
				}
				return fn
			}
		}
	}
	return nil
}

func (l *Loaded) NamedType(pkgPath, name string) types.Type {
	p := l.ByPath[pkgPath]
	if p == nil {
		if sp := l.SPkgs[pkgPath]; sp != nil {
			if o := sp.Pkg.Scope().Lookup(name); o != nil {
				return o.Type()
			}
		}
		return nil
	}
	o := p.Types.Scope().Lookup(name)
	if o == nil {
		return nil
	}
	if _, ok := o.(*types.TypeName); !ok {
		return nil
	}
	return o.Type()
}

func (l *Loaded) Decl(fn *types.Func) *ast.FuncDecl { return l.declOf[fn] }

func (l *Loaded) DeclOfSSA(f *ssa.Function) *ast.FuncDecl {
	if f == nil {
		return nil
	}
	if fo, ok := f.Object().(*types.Func); ok {
		return l.declOf[fo]
	}
	return nil
}

// PkgOfFunc returns the packages.Package holding the declaration of f.
func (l *Loaded) PkgOfFunc(f *ssa.Function) *packages.Package {
	return l.ByPath[funcPkgPath(f)]
}

func (l *Loaded) Pos(p token.Pos) string {
	if !p.IsValid() {
		return "-"
	}
	pos := l.Fset.Position(p)
	fn := pos.Filename
	if strings.HasPrefix(fn, l.Dir+"/") {
		fn = fn[len(l.Dir)+1:]
	}
	return fmt.Sprintf("%s:%d", fn, pos.Line)
}

// fnName gives a stable, position-free name of a function: pkg-relative
// "Type.Method", "Func", or "Func$1" for closures.
func fnName(f *ssa.Function) string {
	if f == nil {
		return "<nil>"
	}
	pp := funcPkgPath(f)
	rel := strings.TrimPrefix(strings.TrimPrefix(pp, modPath), "/")
	name := f.Name()
	if f.Parent() != nil {
		// closure: name is like Parent$1
		chain := []string{}
		g := f
		for g.Parent() != nil {
			chain = append([]string{g.Name()}, chain...)
			g = g.Parent()
		}
		name = chain[len(chain)-1]
		f = g
		_ = f
		if recv := g.Signature.Recv(); recv != nil {
			name = recvName(recv.Type()) + "." + name
		}
	} else if recv := f.Signature.Recv(); recv != nil {
		name = recvName(recv.Type()) + "." + name
	}
	if rel == "" {
		return name
	}
	return rel + "." + name
}

func recvName(t types.Type) string {
	if p, ok := t.(*types.Pointer); ok {
		t = p.Elem()
	}
	if n, ok := t.(*types.Named); ok {
		return n.Obj().Name()
	}
	return t.String()
}

func tstr(t types.Type) string {
	if t == nil {
		return "<nil>"
	}
	return types.TypeString(t, func(p *types.Package) string {
		if p.Path() == modPath {
			return ""
		}
		return p.Name()
	})
}

// StaticCallers returns the call instructions in repository functions whose
// static callee is fn.
func (l *Loaded) StaticCallers(fn *ssa.Function) []ssa.CallInstruction {
	if l.callers == nil {
		l.callers = map[*ssa.Function][]ssa.CallInstruction{}
		for _, f := range l.RepoFuncs(nil) {
			eachInstr(f, func(ins ssa.Instruction) {
				if ci, ok := ins.(ssa.CallInstruction); ok {
					if cal := ci.Common().StaticCallee(); cal != nil {
						l.callers[cal] = append(l.callers[cal], ci)
					}
				}
			})
		}
	}
	return l.callers[fn]
}

// AddressTaken reports whether fn is used as a value (stored, passed) anywhere
// in the repository, in which case its callers cannot be enumerated.
func (l *Loaded) AddressTaken(fn *ssa.Function) bool {
	if l.addrTaken == nil {
		l.addrTaken = map[*ssa.Function]bool{}
		for _, f := range l.RepoFuncs(nil) {
			eachInstr(f, func(ins ssa.Instruction) {
				var ops []*ssa.Value
				for _, op := range ins.Operands(ops) {
					if op == nil || *op == nil {
						continue
					}
					g, ok := (*op).(*ssa.Function)
					if !ok {
						continue
					}
					if ci, isCall := ins.(ssa.CallInstruction); isCall && ci.Common().Value == g {
						// direct call position only
						direct := true
						for _, a := range ci.Common().Args {
							if a == g {
								direct = false
							}
						}
						if direct {
							continue
						}
					}
					l.addrTaken[g] = true
				}
			})
		}
	}
	return l.addrTaken[fn]
}

// RealCallers: the static call sites of fn that are not inside synthetic
// wrappers (pointer-receiver wrappers of value methods, bound-method thunks).
func (l *Loaded) RealCallers(fn *ssa.Function) []ssa.CallInstruction {
	var out []ssa.CallInstruction
	for _, ci := range l.StaticCallers(fn) {
		if ci.Parent() != nil && ci.Parent().Synthetic == "" {
			out = append(out, ci)
		}
	}
	return out
}
