package main

import (
	"fmt"
	"go/ast"
	"go/constant"
	"go/token"
	"go/types"
	"sort"
	"strings"

	"golang.org/x/tools/go/ssa"
)

func init() {
	props["C15"] = propC15
}

func libFuncs(c *Ctx) []*ssa.Function { return c.L.RepoFuncs(isLibPkg) }

// eqInfo summarises the cell Equal_T(R).
type eqInfo struct {
	canTrue   bool
	domains   []string // types in which the deciding comparisons are made
	undecided []string
	pos       token.Pos
}

func cellCanBeTrue(c leafCell) bool {
	switch c.Kind {
	case "dyn":
		return true
	case "ret":
		if len(c.Results) == 0 {
			return false
		}
		if tv, ok := c.Pkg.TypesInfo.Types[c.Results[0]]; ok && tv.Value != nil && tv.Value.Kind() == constant.Bool {
			return constant.BoolVal(tv.Value)
		}
		return c.Truth != 0
	}
	return false
}

// cmpDomains: the operand types of the ==/!=/< ... comparisons in x, constants
// taking the type of the other operand; bool-typed comparisons are skipped.
func cmpDomains(info *types.Info, x ast.Expr, ops map[token.Token]bool) []string {
	set := map[string]bool{}
	ast.Inspect(x, func(n ast.Node) bool {
		be, ok := n.(*ast.BinaryExpr)
		if !ok || !ops[be.Op] {
			return true
		}
		for _, side := range []ast.Expr{be.X, be.Y} {
			tv, ok := info.Types[side]
			if !ok || tv.Value != nil {
				continue
			}
			t := tv.Type
			if b, ok := t.Underlying().(*types.Basic); ok && b.Info()&types.IsBoolean != 0 {
				continue
			}
			set[tstr(t)] = true
		}
		return true
	})
	var out []string
	for k := range set {
		out = append(out, k)
	}
	sort.Strings(out)
	return out
}

var eqOps = map[token.Token]bool{token.EQL: true, token.NEQ: true}

func propC15(c *Ctx) {
	defer func() {
		rpa := c.Rule("precedence-agree", "the binary operators uGO shares with Go have Go's precedence in token.Precedence (expressions group as in Go)", 15)
		rulePrecedenceAgree(c, rpa)
	}()
	tb := newTabber(c.L)
	otypes := objectTypes(c.L, modPath)
	c.extra["object_types"] = len(otypes)
	var names []string
	for _, t := range otypes {
		names = append(names, tstr(t))
	}
	c.extra["object_type_names"] = names

	rmp := c.Rule("map-equal-presence", "Map.Equal tests the presence of every key of the receiver in the other map (comma-ok lookup): equality of maps is symmetric also when values are undefined", 1)
	ruleMapEqualPresence(c, rmp)

	// ---- Equal table ---------------------------------------------------------
	rs := c.Rule("eq-sym", "Equal is symmetric on types: T accepts R (some path of T.Equal can return true for a right operand of dynamic type R) iff R accepts T, and both directions compare in the same domain (the operand type of the deciding == comparisons); extracted by partial evaluation of every Equal method with delegations followed", 100)
	if c.Anchor(rs, "Object implementations in package ugo (fewer than 15 found)", len(otypes) >= 15) {
		eq := map[string]eqInfo{}
		for _, T := range otypes {
			for _, R := range otypes {
				var inf eqInfo
				for _, lc := range tb.resolve("Equal", T, R, nil) {
					if lc.Kind == "undecided" {
						inf.undecided = append(inf.undecided, lc.Why)
						if inf.pos == 0 {
							inf.pos = lc.Pos
						}
						continue
					}
					if cellCanBeTrue(lc) {
						inf.canTrue = true
						if inf.pos == 0 {
							inf.pos = lc.Pos
						}
						if lc.Kind == "dyn" {
							inf.domains = append(inf.domains, "elementwise")
						} else {
							inf.domains = append(inf.domains, cmpDomains(lc.Pkg.TypesInfo, lc.Results[0], eqOps)...)
						}
					}
				}
				sort.Strings(inf.domains)
				inf.domains = uniq(inf.domains)
				eq[tstr(T)+"|"+tstr(R)] = inf
			}
		}
		for i, T := range otypes {
			for j, R := range otypes {
				a, b := eq[tstr(T)+"|"+tstr(R)], eq[tstr(R)+"|"+tstr(T)]
				key := tstr(T) + "," + tstr(R)
				if len(a.undecided) > 0 {
					c.Und(rs, key, c.L.Pos(a.pos), "Equal cell not modelled: "+strings.Join(a.undecided, "; "))
					continue
				}
				if j < i {
					continue
				}
				pos := c.L.Pos(a.pos)
				if a.pos == 0 {
					pos = c.L.Pos(b.pos)
				}
				switch {
				case a.canTrue != b.canTrue:
					acc, rej := T, R
					if b.canTrue {
						acc, rej = R, T
					}
					c.Bad(rs, key, pos, fmt.Sprintf("%s.Equal can return true for a %s operand but %s.Equal never does: a == b differs from b == a", tstr(acc), tstr(rej), tstr(rej)))
				case a.canTrue && strings.Join(a.domains, ",") != strings.Join(b.domains, ","):
					c.Bad(rs, key, pos, fmt.Sprintf("%s.Equal(%s) compares in %v but %s.Equal(%s) compares in %v: values the two conversions map differently make a == b differ from b == a", tstr(T), tstr(R), a.domains, tstr(R), tstr(T), b.domains))
				default:
					d := "both reject"
					if a.canTrue {
						d = "both accept, domain " + strings.Join(a.domains, ",")
					}
					c.Ok(rs, key, pos, d)
				}
			}
		}
	}

	propC15BinaryOp(c, tb, otypes)
	propC15NeqNeg(c)
	ru := c.Rule("unary", "in the VM's unary-operator routine every numeric arm of - and ^ applies the Go unary operator of its token to the operand itself", 5)
	ruleUnary(c, ru)

	ag := c.Rule("arith-guard", "every integer / and % is dominated by a non-zero test of the divisor, every shift by a signed count by a non-negative test (Go panics otherwise; the property demands ZeroDivisionError/TypeError instead of a Go panic)", 10)
	ruleArithGuard(c, ag, c.L.RepoFuncs(func(pp string) bool { return pp == modPath }))
}

func uniq(s []string) []string {
	var out []string
	for i, x := range s {
		if i == 0 || x != s[i-1] {
			out = append(out, x)
		}
	}
	return out
}

// ---- BinaryOp table ----------------------------------------------------------

var relTokens = []string{"Less", "LessEq", "Greater", "GreaterEq"}
var relGoOp = map[string]token.Token{"Less": token.LSS, "LessEq": token.LEQ, "Greater": token.GTR, "GreaterEq": token.GEQ}
var converseTok = map[string]string{"Less": "Greater", "LessEq": "GreaterEq", "Greater": "Less", "GreaterEq": "LessEq"}
var arithGoOp = map[string]token.Token{"Add": token.ADD, "Sub": token.SUB, "Mul": token.MUL, "Quo": token.QUO, "Rem": token.REM,
	"And": token.AND, "Or": token.OR, "Xor": token.XOR, "AndNot": token.AND_NOT, "Shl": token.SHL, "Shr": token.SHR}
var relOps = map[token.Token]bool{token.LSS: true, token.LEQ: true, token.GTR: true, token.GEQ: true}

// boCell summarises the cell BinaryOp_T(tok, R).
type boCell struct {
	defined   bool // some path returns a value
	undecided []string
	consts    []string // constant results (True / False) when every value path returns one
	allConst  bool
	domains   []string
	ops       []string // Go operators applied to (L-derived, R-derived) operands, normalised to L-on-the-left
	cmpConsts []string // for three-way compare shapes: the outcomes accepted
	dynamic   bool     // delegates to the operand's run-time type: not decidable here
	impure    []string // operator applied to an adjusted (masked, offset ...) operand
	pos       token.Pos
	rets      int
}

func stripConv(info *types.Info, x ast.Expr) ast.Expr {
	for {
		x = ast.Unparen(x)
		call, ok := x.(*ast.CallExpr)
		if !ok || len(call.Args) != 1 {
			return x
		}
		if tv, ok := info.Types[call.Fun]; ok && tv.IsType() {
			x = call.Args[0]
			continue
		}
		return x
	}
}

// sideOf classifies an operand expression: "L" if it mentions only the
// receiver (or values derived from it), "R" for the right operand, "LR", or "".
func sideOf(info *types.Info, x ast.Expr, st *tabState) string {
	l, r := false, false
	ast.Inspect(x, func(n ast.Node) bool {
		if id, ok := n.(*ast.Ident); ok {
			if o := info.Uses[id]; o != nil {
				switch st.role[o] {
				case "L", "L~":
					l = true
				case "R", "R~":
					r = true
				case "LR~":
					l, r = true, true
				}
			}
		}
		return true
	})
	switch {
	case l && r:
		return "LR"
	case l:
		return "L"
	case r:
		return "R"
	}
	return ""
}

func flipGo(op token.Token) token.Token {
	switch op {
	case token.LSS:
		return token.GTR
	case token.GTR:
		return token.LSS
	case token.LEQ:
		return token.GEQ
	case token.GEQ:
		return token.LEQ
	}
	return op
}

func summariseBO(tb *tabber, T, R types.Type, tok int64) boCell {
	var bc boCell
	bc.allConst = true
	for _, lc := range tb.resolve("BinaryOp", T, R, &tok) {
		switch lc.Kind {
		case "undecided":
			bc.undecided = append(bc.undecided, lc.Why)
			if bc.pos == 0 {
				bc.pos = lc.Pos
			}
		case "dyn":
			bc.defined = true
			bc.allConst = false
			bc.dynamic = true
		case "ret":
			bc.defined = true
			bc.rets++
			if bc.pos == 0 {
				bc.pos = lc.Pos
			}
			info := lc.Pkg.TypesInfo
			res := lc.Results[0]
			inner := stripConv(info, res)
			if id, ok := inner.(*ast.Ident); ok && (id.Name == "True" || id.Name == "False") {
				if o := info.Uses[id]; o != nil && o.Pkg() != nil && o.Pkg().Path() == modPath && o.Parent() == o.Pkg().Scope() {
					bc.consts = append(bc.consts, id.Name)
					continue
				}
			}
			bc.allConst = false
			bc.domains = append(bc.domains, cmpDomains(info, res, relOps)...)
			ast.Inspect(res, func(n ast.Node) bool {
				be, ok := n.(*ast.BinaryExpr)
				if !ok {
					return true
				}
				sx, sy := sideOf(info, be.X, lc.St), sideOf(info, be.Y, lc.St)
				if lc.Flipped {
					// reached through a delegation that swapped the operands: this cell's L is the original right operand
					sw := map[string]string{"L": "R", "R": "L"}
					if v, ok := sw[sx]; ok {
						sx = v
					}
					if v, ok := sw[sy]; ok {
						sy = v
					}
				}
				if ((sx == "L" && sy == "R") || (sx == "R" && sy == "L")) && arithOps[be.Op.String()] && (impureOperand(info, be.X) || impureOperand(info, be.Y)) {
					bc.impure = append(bc.impure, exprShape(info, be, lc.St))
				}
				switch {
				case sx == "L" && sy == "R":
					bc.ops = append(bc.ops, be.Op.String())
				case sx == "R" && sy == "L":
					bc.ops = append(bc.ops, "flipped:"+flipGo(be.Op).String())
				case (sx == "LR" && sy == "") || (sx == "" && sy == "LR"):
					// three-way compare result against a constant
					k := be.Y
					if sx == "" {
						k = be.X
					}
					if tv, ok := info.Types[k]; ok && tv.Value != nil && be.Op == token.EQL {
						bc.cmpConsts = append(bc.cmpConsts, tv.Value.ExactString())
					}
				}
				return true
			})
		}
	}
	sort.Strings(bc.domains)
	bc.domains = uniq(bc.domains)
	sort.Strings(bc.consts)
	bc.consts = uniq(bc.consts)
	sort.Strings(bc.ops)
	bc.ops = uniq(bc.ops)
	sort.Strings(bc.cmpConsts)
	bc.cmpConsts = uniq(bc.cmpConsts)
	return bc
}

func propC15BinaryOp(c *Ctx, tb *tabber, otypes []types.Type) {
	rq := c.Rule("rel-quad", "for every ordered pair of built-in types the four relational operators are defined together or not at all, each applies the Go operator of its token to (left, right) in that order (three-way compare shapes: the matching outcomes), all four compare in one domain, and that domain is the one Equal uses for the pair (otherwise trichotomy / a<=b == (a<b || a==b) fail for values the conversions map differently)", 200)
	rc := c.Rule("rel-converse", "a<b and b>a (a<=b and b>=a) agree: when both cells return constants they return the same constant (comparisons with undefined), when both compare values they compare in the same domain", 50)
	ro := c.Rule("op-token", "every arithmetic, bitwise and shift cell applies the Go operator that corresponds to its token to (left, right) in that order", 50)
	toks := tokenConsts(c.L)
	for _, n := range append(append([]string{}, relTokens...), "Add", "Sub", "Mul", "Quo", "Rem", "And", "Or", "Xor", "AndNot", "Shl", "Shr") {
		if _, ok := toks[n]; !c.Anchor(rq, "token."+n, ok) {
			return
		}
	}
	if len(otypes) < 15 {
		return
	}
	cell := map[string]boCell{}
	get := func(T, R types.Type, tn string) boCell {
		k := tstr(T) + "|" + tstr(R) + "|" + tn
		if v, ok := cell[k]; ok {
			return v
		}
		v := summariseBO(tb, T, R, toks[tn])
		cell[k] = v
		return v
	}
	eqDomain := func(T, R types.Type) []string {
		var d []string
		for _, lc := range tb.resolve("Equal", T, R, nil) {
			if cellCanBeTrue(lc) && lc.Kind == "ret" {
				d = append(d, cmpDomains(lc.Pkg.TypesInfo, lc.Results[0], eqOps)...)
			}
		}
		sort.Strings(d)
		return uniq(d)
	}
	nCells := 0
	for _, T := range otypes {
		for _, R := range otypes {
			pair := tstr(T) + "," + tstr(R)
			// ---- relational quadruple
			var probs []string
			var und []string
			defined := 0
			var doms [][]string
			var pos token.Pos
			dyn := false
			for _, tn := range relTokens {
				bc := get(T, R, tn)
				nCells++
				if pos == 0 {
					pos = bc.pos
				}
				if len(bc.undecided) > 0 {
					und = append(und, tn+": "+strings.Join(bc.undecided, "; "))
					continue
				}
				if !bc.defined {
					continue
				}
				defined++
				if bc.dynamic {
					dyn = true
				}
				want := relGoOp[tn].String()
				for _, op := range bc.ops {
					o := strings.TrimPrefix(op, "flipped:")
					if tok2go[o] && o != want {
						probs = append(probs, fmt.Sprintf("token %s applies Go operator %s to (left,right)", tn, o))
					}
				}
				if len(bc.cmpConsts) > 0 {
					wantC := map[string]string{"Less": "-1", "LessEq": "-1,0", "Greater": "1", "GreaterEq": "0,1"}[tn]
					if got := strings.Join(bc.cmpConsts, ","); got != wantC {
						probs = append(probs, fmt.Sprintf("token %s accepts three-way compare outcomes {%s}, want {%s}", tn, got, wantC))
					}
				}
				if len(bc.domains) > 0 {
					doms = append(doms, bc.domains)
				}
			}
			if len(und) > 0 {
				c.Und(rq, pair, c.L.Pos(pos), "BinaryOp cell not modelled: "+strings.Join(und, " | "))
			} else {
				if defined != 0 && defined != 4 {
					probs = append(probs, fmt.Sprintf("only %d of the four relational operators are defined", defined))
				}
				for i := 1; i < len(doms); i++ {
					if strings.Join(doms[i], ",") != strings.Join(doms[0], ",") {
						probs = append(probs, fmt.Sprintf("relational operators compare in different domains %v vs %v", doms[0], doms[i]))
						break
					}
				}
				if len(doms) > 0 && !dyn {
					if ed := eqDomain(T, R); len(ed) > 0 && strings.Join(ed, ",") != strings.Join(doms[0], ",") {
						probs = append(probs, fmt.Sprintf("relational operators compare in %v but == compares in %v", doms[0], ed))
					}
				}
				det := "not defined"
				if defined == 4 {
					det = "all four defined"
					if len(doms) > 0 {
						det += ", domain " + strings.Join(doms[0], ",")
					}
				}
				c.Check(rq, pair, c.L.Pos(pos), len(probs) == 0, det, strings.Join(probs, "; "))
			}
			// ---- converse cells
			for _, tn := range []string{"Less", "LessEq"} {
				a, b := get(T, R, tn), get(R, T, converseTok[tn])
				if len(a.undecided)+len(b.undecided) > 0 || !a.defined || !b.defined || a.dynamic || b.dynamic {
					continue
				}
				key := fmt.Sprintf("%s %s %s", tstr(T), tn, tstr(R))
				p := c.L.Pos(a.pos)
				switch {
				case a.allConst && b.allConst:
					c.Check(rc, key, p, strings.Join(a.consts, ",") == strings.Join(b.consts, ","),
						"both constant "+strings.Join(a.consts, ","),
						fmt.Sprintf("%s %s %s returns %v but the converse %s %s %s returns %v", tstr(T), tn, tstr(R), a.consts, tstr(R), converseTok[tn], tstr(T), b.consts))
				case !a.allConst && !b.allConst && len(a.domains) > 0 && len(b.domains) > 0:
					// a cell that compares values may also answer with a constant on some
					// path (under a condition on the operand values): the converse cell
					// must then do the same, with the same constants
					ac, bcs := append([]string(nil), a.consts...), append([]string(nil), b.consts...)
					sort.Strings(ac)
					sort.Strings(bcs)
					c.Check(rc, key, p, strings.Join(a.domains, ",") == strings.Join(b.domains, ",") && strings.Join(ac, ",") == strings.Join(bcs, ","),
						"same domain "+strings.Join(a.domains, ","),
						fmt.Sprintf("%s %s %s compares in %v (constant answers on some paths: %v) but the converse compares in %v (constant answers: %v): a<b and b>a differ for the operand values that take the constant path", tstr(T), tn, tstr(R), a.domains, a.consts, b.domains, b.consts))
				case a.allConst != b.allConst:
					c.Bad(rc, key, p, fmt.Sprintf("%s %s %s and its converse disagree in kind: one returns a constant, the other compares values", tstr(T), tn, tstr(R)))
				}
			}
			// ---- arithmetic operators
			for tn, gop := range arithGoOp {
				bc := get(T, R, tn)
				nCells++
				key := fmt.Sprintf("%s %s %s", tstr(T), tn, tstr(R))
				if len(bc.undecided) > 0 {
					c.Und(ro, key, c.L.Pos(bc.pos), "BinaryOp cell not modelled: "+strings.Join(bc.undecided, "; "))
					continue
				}
				if !bc.defined || len(bc.ops) == 0 {
					continue
				}
				var bad []string
				for _, op := range bc.ops {
					if strings.HasPrefix(op, "flipped:") {
						if !commutative[gop] || strings.TrimPrefix(op, "flipped:") != gop.String() {
							bad = append(bad, "operands swapped: "+op)
						}
						continue
					}
					if tok2go[op] || arithOps[op] {
						if op != gop.String() {
							bad = append(bad, "applies "+op)
						}
					}
				}
				for _, im := range bc.impure {
					bad = append(bad, "operator applied to an adjusted operand: "+im)
				}
				c.Check(ro, key, c.L.Pos(bc.pos), len(bad) == 0, "applies "+gop.String(), fmt.Sprintf("token %s: %s (want %s on left, right)", tn, strings.Join(bad, ", "), gop))
			}
		}
	}
	c.extra["binaryop_cells_evaluated"] = nCells
}

var tok2go = map[string]bool{"<": true, "<=": true, ">": true, ">=": true}
var arithOps = map[string]bool{"+": true, "-": true, "*": true, "/": true, "%": true, "&": true, "|": true, "^": true, "&^": true, "<<": true, ">>": true}
var commutative = map[token.Token]bool{token.ADD: true, token.MUL: true, token.AND: true, token.OR: true, token.XOR: true}

// ---- OpEqual / OpNotEqual --------------------------------------------------------

// opcodeConsts: the constants used as keys of the OpcodeOperands table
// (Opcode is an alias of byte, so opcodes cannot be recognised by type).
func opcodeConsts(l *Loaded) map[types.Object]int64 {
	out := map[types.Object]int64{}
	p := l.ByPath[modPath]
	if p == nil {
		return out
	}
	for _, f := range p.Syntax {
		for _, d := range f.Decls {
			gd, ok := d.(*ast.GenDecl)
			if !ok || gd.Tok != token.VAR {
				continue
			}
			for _, sp := range gd.Specs {
				vs := sp.(*ast.ValueSpec)
				for i, n := range vs.Names {
					if n.Name != "OpcodeOperands" || i >= len(vs.Values) {
						continue
					}
					cl, ok := vs.Values[i].(*ast.CompositeLit)
					if !ok {
						continue
					}
					for _, el := range cl.Elts {
						kv, ok := el.(*ast.KeyValueExpr)
						if !ok {
							continue
						}
						if id, ok := kv.Key.(*ast.Ident); ok {
							if co, ok := p.TypesInfo.Uses[id].(*types.Const); ok {
								if v, ok := constant.Int64Val(co.Val()); ok {
									out[co] = v
								}
							}
						}
					}
				}
			}
		}
	}
	return out
}

// vmLoopSwitch finds the function of package ugo whose body contains the
// switch over opcode constants with the most arms (the dispatch loop).
func vmLoopSwitch(l *Loaded) (*ast.FuncDecl, *ast.SwitchStmt) {
	p := l.ByPath[modPath]
	if p == nil {
		return nil, nil
	}
	ops := opcodeConsts(l)
	var bestFn *ast.FuncDecl
	var best *ast.SwitchStmt
	bestN := 0
	for _, f := range p.Syntax {
		for _, d := range f.Decls {
			fd, ok := d.(*ast.FuncDecl)
			if !ok || fd.Body == nil {
				continue
			}
			ast.Inspect(fd.Body, func(n ast.Node) bool {
				sw, ok := n.(*ast.SwitchStmt)
				if !ok || sw.Tag == nil {
					return true
				}
				// the dispatch switch reads its tag from the instruction stream
				if _, isIdx := ast.Unparen(sw.Tag).(*ast.IndexExpr); !isIdx {
					return true
				}
				cnt := 0
				for _, cc := range sw.Body.List {
					for _, x := range cc.(*ast.CaseClause).List {
						if id, ok := ast.Unparen(x).(*ast.Ident); ok {
							if _, isOp := ops[p.TypesInfo.Uses[id]]; isOp {
								cnt++
							}
						}
					}
				}
				if cnt > bestN {
					bestN, best, bestFn = cnt, sw, fd
				}
				return true
			})
		}
	}
	if bestN < 30 {
		return nil, nil
	}
	return bestFn, best
}

func opcodeValue(l *Loaded, name string) (int64, bool) {
	p := l.ByPath[modPath]
	if p == nil {
		return 0, false
	}
	c, ok := p.Types.Scope().Lookup(name).(*types.Const)
	if !ok {
		return 0, false
	}
	return constant.Int64Val(c.Val())
}

func opcodeArm(l *Loaded, sw *ast.SwitchStmt, op int64) *ast.CaseClause {
	p := l.ByPath[modPath]
	for _, cc := range sw.Body.List {
		cl := cc.(*ast.CaseClause)
		for _, x := range cl.List {
			if tv, ok := p.TypesInfo.Types[x]; ok && tv.Value != nil {
				if v, ok := constant.Int64Val(tv.Value); ok && v == op {
					return cl
				}
			}
		}
	}
	return nil
}

func propC15NeqNeg(c *Ctx) {
	r := c.Rule("neq-neg", "in the VM dispatch loop the != arm stores, in every arm of its type switch, the negation of exactly the Equal call that the == arm stores (same receiver, same argument, operands taken from the same stack slots)", 2)
	_, sw := vmLoopSwitch(c.L)
	if !c.Anchor(r, "VM dispatch switch over Opcode", sw != nil) {
		return
	}
	p := c.L.ByPath[modPath]
	info := p.TypesInfo
	shapes := map[string][]string{}
	for _, name := range []string{"OpEqual", "OpNotEqual"} {
		v, ok := opcodeValue(c.L, name)
		if !c.Anchor(r, "opcode "+name, ok) {
			return
		}
		arm := opcodeArm(c.L, sw, v)
		if !c.Anchor(r, "dispatch arm for "+name, arm != nil) {
			return
		}
		// every Bool(...) conversion stored in the arm, printed with local names
		// replaced by the shape of their defining expression
		defs := map[types.Object]string{}
		var out []string
		var operandDefs []string
		ast.Inspect(arm, func(n ast.Node) bool {
			switch x := n.(type) {
			case *ast.AssignStmt:
				if x.Tok == token.DEFINE && len(x.Lhs) == len(x.Rhs) {
					for i, lh := range x.Lhs {
						if id, ok := lh.(*ast.Ident); ok {
							if o := info.Defs[id]; o != nil {
								defs[o] = exprShape(info, x.Rhs[i], nil)
								operandDefs = append(operandDefs, defs[o])
							}
						}
					}
				}
				for _, rh := range x.Rhs {
					if call, ok := ast.Unparen(rh).(*ast.CallExpr); ok && len(call.Args) == 1 {
						if tv, ok := info.Types[call.Fun]; ok && tv.IsType() && isNamed(tv.Type, modPath, "Bool") {
							out = append(out, eqCallShape(info, call.Args[0], defs))
						}
					}
				}
			}
			return true
		})
		sort.Strings(operandDefs)
		shapes[name] = out
		shapes[name+"/operands"] = operandDefs
	}
	eqs, nes := shapes["OpEqual"], shapes["OpNotEqual"]
	pos := c.L.Pos(sw.Pos())
	if len(eqs) == 0 || len(nes) == 0 {
		c.Und(r, "OpEqual/OpNotEqual arms", pos, "no Bool(...) store found in the arms: shape not modelled")
		return
	}
	okEq := true
	for _, s := range eqs {
		if s != "SW.Equal(right)" && s != "left.Equal(right)" {
			okEq = false
		}
	}
	c.Check(r, "OpEqual stores Equal", pos, okEq, fmt.Sprintf("%d arms store left.Equal(right)", len(eqs)), fmt.Sprintf("== arm stores %v, want left.Equal(right) in every arm", uniq(sortedCopy(eqs))))
	okNe := len(nes) == len(eqs)
	for _, s := range nes {
		if s != "!SW.Equal(right)" && s != "!left.Equal(right)" {
			okNe = false
		}
	}
	c.Check(r, "OpNotEqual stores !Equal", pos, okNe && strings.Join(shapes["OpEqual/operands"], ";") == strings.Join(shapes["OpNotEqual/operands"], ";"),
		fmt.Sprintf("%d arms store !left.Equal(right), operands %v", len(nes), shapes["OpNotEqual/operands"]),
		fmt.Sprintf("!= arm stores %v with operands %v; == arm has %d arms with operands %v: a != b is not the negation of a == b for some operand type", uniq(sortedCopy(nes)), shapes["OpNotEqual/operands"], len(eqs), shapes["OpEqual/operands"]))
}

func sortedCopy(s []string) []string {
	o := append([]string{}, s...)
	sort.Strings(o)
	return o
}

// eqCallShape prints x as "[!]recv.Equal(arg)" where recv is "SW" for a
// type-switch-bound variable, or the variable's name for left/right.
func eqCallShape(info *types.Info, x ast.Expr, defs map[types.Object]string) string {
	x = ast.Unparen(x)
	neg := ""
	if u, ok := x.(*ast.UnaryExpr); ok && u.Op == token.NOT {
		neg = "!"
		x = ast.Unparen(u.X)
	}
	call, ok := x.(*ast.CallExpr)
	if !ok || len(call.Args) != 1 {
		return neg + "<" + exprShape(info, x, nil) + ">"
	}
	sel, ok := call.Fun.(*ast.SelectorExpr)
	if !ok {
		return neg + "<" + exprShape(info, x, nil) + ">"
	}
	recv := "?"
	if id, ok := ast.Unparen(sel.X).(*ast.Ident); ok {
		if o := info.Uses[id]; o != nil {
			if _, isDef := defs[o]; isDef {
				recv = "left"
				if id.Name != "left" {
					recv = id.Name
				}
			} else {
				recv = "SW" // implicit type-switch object
			}
		}
	}
	arg := exprShape(info, call.Args[0], nil)
	return neg + recv + "." + sel.Sel.Name + "(" + arg + ")"
}
