package main

import "golang.org/x/tools/go/ssa"

func init() {
	props["C15"] = propC15
	propExplain["C15"] = "TODO"
}

func libFuncs(c *Ctx) []*ssa.Function { return c.L.RepoFuncs(isLibPkg) }

func propC15(c *Ctx) {
	ag := c.Rule("arith-guard", "every integer / and % is dominated by a non-zero test of the divisor, every shift by a signed count by a non-negative test (Go panics otherwise; the property demands ZeroDivisionError/TypeError instead of a Go panic)", 10)
	ruleArithGuard(c, ag, c.L.RepoFuncs(func(pp string) bool { return pp == modPath }))
}
