package main

const trustedNote = "Trusted base: go/packages + go/types + go/ssa (x/tools v0.29.0) for the configuration analysed; the audit table audit.json (one named construct per exception, reason recorded); the argument in DESIGN.md that each clause is a necessary condition of the property. The check decides the named structural clauses on every path / table cell of the current source; it does not execute uGO programs and does not decide the behavioural statement as a whole."

func init() {
	for _, id := range []string{"C20"} {
		notApplicable[id] = "static check for this property is not implemented in this revision of /verif (planned clauses: DESIGN.md section 3); no claim is made"
	}

	metas["C06"] = propMeta{
		Text:      "Decides the structure that makes recovery possible: (recover-dom) the dispatch loop is entered only from a function with a dominating deferred closure that calls recover() under the recovery flag, and that function only from Run; (handler-guard) in the panic handler every call that can unwind to a script handler is dominated by sp <= len(stack)-1 and frameIndex <= len(frames) (interval analysis of the dominating comparisons: the unwinder indexes stack[sp]); (child-flag) a pooled child VM receives the parent's recovery flag on every path of acquire. Does not decide whether the recovery path can itself panic for some VM state, Go fatal errors, or panics in goroutines started by callbacks. 'other'.",
		Note:      trustedNote,
		Technique: "static analysis: call-graph callers + dominance of deferred recover, interval analysis of guard conditions, must-store on all paths",
		DesignRef: "DESIGN.md section 3, C06",
	}
	metas["C07"] = propMeta{
		Text:      "Decides: (run-reset) the set of VM fields stored by any function reachable (VTA call graph) from the dispatch loop is contained in the set stored on every path from Run's entry to the loop (must-store with callee summaries), audited persistent fields aside; (frame0-reset) every call-frame field run-time code reads is stored for frame 0 on every prologue path; (clear) Clear/SetBytecode reset stack, module cache, globals, pool / bytecode, constants, module cache; (mod-copy) the module cache is written only in the loop with Copy() of every Copier value; (bc-immutable) no run-reachable function stores into a Bytecode / CompiledFunction / Constants / Instructions / SourceMap it did not allocate. Does not decide whether residue in unreset storage (stack slots above NumLocals, frames > 0) is observable, nor object graphs reachable from globals/arguments. 'other'.",
		Note:      trustedNote,
		Technique: "static analysis: computed write sets over the call graph vs must-store-on-all-paths in the prologue; who-may-write query on shared bytecode types",
		DesignRef: "DESIGN.md section 3, C07",
	}
	metas["C09"] = propMeta{
		Text:      "Decides, for each happens-before edge the abort protocol needs, that the construct creating it exists: (poll) an atomic load of the abort flag decides the dispatch loop's condition on a cycle; (abort-prop) every path through Abort stores the flag and calls the pool's abort, which ranges over the registered children; (pool-lock) every access to the registry is under the pool mutex; (no-entry-clear) no store to the flag between Run's entry and the loop; (child-start-check) Invoke tests the ROOT's flag before the child run; (pool-zero) a released VM is fully reset including the flag; (ctx-abort) every ctx.Done() select arm in functions that run a VM calls Abort and, if the run was started, waits for completion; (callback-poll) sleeping library loops poll Aborted(). Does not decide promptness, fairness, the bound on further instructions, or host callbacks. 'other': protocol structure, not schedule exploration.",
		Note:      trustedNote + " The Go memory model for atomics and mutexes is assumed.",
		Technique: "static analysis: must-pass-through, lockset, dominance and CFG-cycle rules on SSA",
		DesignRef: "DESIGN.md section 3, C09",
	}
	metas["C14"] = propMeta{
		Text:      "Decides: (child-init) K = VM fields read by run-time code and not initialised by Run's prologue (computed) are each stored by the pool's acquire on every path, as is every Bytecode field run-time code reads; (root-share) the child's module cache is the root's slice itself and constants / recovery flag come from the root; (globals) Invoke passes the root VM's globals to the child run; (release-pair) library users pair Acquire with Release on all paths; (pool-zero) release resets every field before sync.Pool.Put. Does not decide equality of argument binding between initLocals and the in-script call sequence, nor error content. 'other'.",
		Note:      trustedNote,
		Technique: "static analysis: computed read set vs must-store, value-flow from the root VM, must-pass-through",
		DesignRef: "DESIGN.md section 3, C14",
	}
	metas["C19"] = propMeta{
		Text:      "Decides over builtin and stdlib function bodies: (get-bound) every Call.Get(k) is reached only with k < Len() (interval analysis per Call value: CheckLen, comparisons/switch on Len(), shift(), loop conditions, constant-parameter summaries); (assert) assertions on arguments are dominated by a successful test; (nil-vm) methods on c.VM() are nil-guarded; (size-sink) script-supplied sizes reaching Repeat/make/Grow are bounded above and below; (arith-guard) integer / % and signed shifts are guarded; (err-nil-use) a value returned with an error is used as receiver only where the error is nil; (objimpl) types embedding ObjectImpl override TypeName/String; (registry) BuiltinsMap indexes have BuiltinObjects entries. Does not decide panics inside Go library calls for other out-of-domain values, user callables, cyclic values (Go stack exhaustion). 'other'.",
		Note:      trustedNote,
		Technique: "static analysis: interval abstract interpretation of argument counts, dominating-guard analysis of panicking sinks, registry cross-check",
		DesignRef: "DESIGN.md section 3, C19",
	}
	metas["C08"] = propMeta{
		Text:      "Decides: (shared-write) the who-may-write set over Bytecode, CompiledFunction, SourceFileSet and SourceFile, taken over every function reachable (VTA) from VM.Run and from the error-formatting entry points, contains only stores into values the function allocated itself; (global-write) no run-reachable repository function stores to a package-level variable; (mod-copy) the module cache is written only in the dispatch loop with Copy() of every Copier; (copy-fresh) Copy() of container types never returns the receiver; (import-copy) BuiltinModule.Import returns a copy of Attrs; (pool-zero, pool-lock) pooled VMs are fully reset and the child registry is accessed under its mutex. Does not decide races on objects the host shares through globals/arguments, races inside user Importables, or results of concurrent runs. 'other': an ownership/effect analysis, not a schedule exploration.",
		Note:      trustedNote + " The Go memory model is assumed; aliasing is handled by type-rooted access paths (any store through a pointer to one of the shared types counts).",
		Technique: "static analysis: who-may-write query over the call graph, lockset, must-store, value-flow rules on SSA",
		DesignRef: "DESIGN.md section 3, C08",
	}
	metas["C10"] = propMeta{
		Text:      "Decides that Eval.Run threads the session state (thread): the compile call receives &r.Opts and &r.moduleStore; Opts.Constants is assigned between compile and run; VM.modulesCache is restored from the session after SetBytecode and before the run; Locals and ModulesCache are saved between the run and Clear; NumParams = NumLocals; (cache-grow) VM.Run only appends to an existing module cache; (shadow-define) every insertion of a non-builtin symbol into a symbol table is followed by shadowBuiltin(name) on every path, so later fragments' optimizers see earlier redefinitions of builtin names. Does not decide slot numbering coherence, const-literal folding across fragments, or the rewrite of the trailing POP. 'other'.",
		Note:      trustedNote,
		Technique: "static analysis: ordering (dominance) and value-flow rules inside Eval.Run, must-pass-through in the symbol-table definers",
		DesignRef: "DESIGN.md section 3, C10",
	}
	metas["C12"] = propMeta{
		Text:      "Decides: (mod-copy) the module cache has a single writer (the store-module arm) which copies Copier values; (root-share) a child VM's module cache is the root's slice; (cache-grow) Run never replaces a populated cache; (emit-pair) every OpStoreModule emission is dominated by an OpLoadModule emission with the same module-index value; (cycle-dom) the cyclic-import check dominates parse/fork/compile of a module on its nil-error side and walks the parent chain; (name-canonical) the file importer's module key passes through filepath.Abs. Does not decide which import executes first or the identity of values across import sites at run time. 'other'.",
		Note:      trustedNote,
		Technique: "static analysis: single-writer / value-flow / dominance rules on SSA",
		DesignRef: "DESIGN.md section 3, C12",
	}
	metas["C04"] = propMeta{
		Text:      "Decides agreement between the writer and the reader of the serialization format: (tag-agree) for each codec type the type tags MarshalBinary writes are accepted by its UnmarshalBinary, and each DecodeObject arm constructs a codec type accepting exactly the arm's tag; (field-cover) every field of Bytecode, CompiledFunction, SourceFileSet and SourceFile is read on the encoding side and stored on the decoding side (three audited exclusions); (elide) no codec function decides on a float equality (zero elision must test the bit pattern, or -0 is lost); (rebind) in fixObjects every module item other than the module-name key reaches the re-binding assignment or an error return. Does not decide lengths, varint values, map ordering, gob fallback content, or that decoding re-creates equal behaviour. 'other': sibling-table agreement and path rules.",
		Note:      trustedNote,
		Technique: "static analysis: cross-check of sibling codec functions on the typed AST, field read/write sets on SSA, path rule over the rebind loop",
		DesignRef: "DESIGN.md section 3, C04",
	}
	metas["C20"] = propMeta{
		Text:      "Decides table agreement of the three conversion type switches: (inverse) for each of the ten plain uGO types the ToInterface arm yields a Go type whose ToObject arm yields the same uGO type, and conversely for the ten canonical Go types; (widths) every scalar conversion in ToObject, ToObjectAlt and ToInterface is range-inclusive for the analysed platform (signedness and bit width); (containers) container arms build a fresh container of the operand's length, convert each element with the same function and never return a package-level value, nil-able pass-through arms substitute an empty container; (errors) default arms report an error; (registry-key) the converter registry is looked up with reflect.TypeOf's result as the key of a map keyed by reflect.Type. Does not decide deep equality of nested values at run time (follows from the structural induction only) or reflect's behaviour. 'other'.",
		Note:      trustedNote,
		Technique: "static analysis: extraction and cross-check of sibling type-switch tables on the typed AST; value-flow check of the registry lookup on SSA",
		DesignRef: "DESIGN.md section 3, C20",
	}
	metas["C01"] = propMeta{
		Text:      "Decides structural necessary conditions of 'the optimizer never changes what a script does': (fold-agree) every cell of the hand-written binary folding tables applies the Go operator the VM's BinaryOp applies for the same token and operand types (the optimizer's table against the operator table extracted from the run-time code); (falsy-agree) literal truthiness is IsFalsy of the paired object type in every arm; (lit-roundtrip) evaluator object->literal and compiler literal->object tables are inverse on all seven constant kinds; (fold-guard) integer / % and signed shifts in folding code are guarded; (bind-cover) every Ident-typed field of the parser's AST nodes and assignment targets reach the optimizer's shadow tracking; (symtab-current) the optimizer's symbol-table view is set from a parameter to which every compiler call site passes its current scope table; (eval-inherit) the evaluator re-inherits disabled/shadowed names before each Compile; (shadow-define) every symbol definer records builtin shadowing. Does not decide equivalence of the two bytecodes for all programs, OptimizerLimit interactions, or dead-branch removal beyond literal truthiness. 'other'.",
		Note:      trustedNote,
		Technique: "static analysis: sibling-table cross-check by partial evaluation (typed AST), dominating-guard analysis, value-flow and must-pass-through rules on SSA",
		DesignRef: "DESIGN.md section 3, C01",
	}
	metas["C02"] = propMeta{
		Text:      "Claims single structural clauses of a few sentences of the property, nothing more. (tailcall) 'a function that calls itself in tail position returns exactly what ordinary recursion would return': the frame-reusing fast path of the compiled-call routine (located by role: the store that resets ip without claiming a frame) is dominated by callee == current frame's function, the opcode after the call is compared with OpReturn only, the frame's error handlers are cleared, the loop that resets non-parameter locals lies on every path to it. Declarations and closures: (define-fresh) := always compiles to OpDefineLocal; (locals-elements) an Eval session never overwrites a saved local's cell; (free-const) a captured constant stays constant; (blank-never-const) _ is never made a constant symbol; (catch-var-fresh) the catch clause binds a fresh variable. Try statements, as far as the shape of the code shows it: (try-end-pop) the closing instruction pops the handler on the nothing-pending path; (pending-err-per-handler) the parked error lives in a per-handler slot; (handler-active) a frame is handed to the handler switch only after hasActiveHandler succeeded for it; (counter-balance) the compiler's nesting counters are decremented on every successful path after being incremented. Evaluation order, argument binding, destructuring, loop control and what any given program computes are NOT decided. 'other'.",
		Note:      trustedNote,
		Technique: "static analysis: dominance, guard and must-pass-through rules on SSA over the compiled-call fast path, the try/catch machinery of the VM and the compiler's definers",
		DesignRef: "DESIGN.md section 3, C02",
	}
	metas["C11"] = propMeta{
		Text:      "Decides: (opcode-num) every version 1 opcode has the same number in today's VM; (width-diff) the set D of opcodes whose operand widths differ is computed from the two OpcodeOperands tables and both the converter's pre-scan and its rewriting arm list exactly D; (no-identity) operands read from the old stream are not forwarded unchanged to MakeInstruction while widening; (srcmap-all) the re-keying loop starts at offset 0 and keys by the new stream's length; (all-funcs) Main and every CompiledFunction constant are converted; (table-index) the converter's table indexing and slicing is bounds-guarded (shared with C18). Does not decide that a relocation, once present, is the right one, nor error line mapping values. 'other'.",
		Note:      trustedNote,
		Technique: "static analysis: cross-check of the two opcode tables against the converter's switch arms (typed AST), value-flow and bounds rules on SSA",
		DesignRef: "DESIGN.md section 3, C11",
	}
	metas["C16"] = propMeta{
		Text:      "Decides that positions are never dropped on the way from source to error report: (lit-pos) every literal node constructed outside the parser sets its position field; (emit-srcmap) the emitter records a source-map entry on every path; (dedup-srcmap) an identical earlier function constant is reused only after a successful source-map comparison; (line-table) every scanner function that advances the read offset records line starts; (throw-trace) throw appends the current position and one per unwound frame; the codec carries SourceMap and file tables (C04 field-cover). Does not decide that a recorded position is the right one, line arithmetic or the nearest-lower lookup. 'other'.",
		Note:      trustedNote,
		Technique: "static analysis: construction-site rule on the typed AST, must-store / dominance rules on SSA",
		DesignRef: "DESIGN.md section 3, C16",
	}
	metas["C17"] = propMeta{
		Text:      "Claims only the clause 'never emits a malformed document for values it cannot represent' plus validation-before-decoding: (enc-write) every encoder the type dispatch can return writes to the encode state or aborts on every feasible path; (float-finite) the float encoder excludes +Inf, -Inf and NaN (by IsInf/IsNaN or equivalent comparisons) before formatting; (unmarshal-valid) decoding calls are on the nil-error side of checkValid; (marshal-recover) the entry recovers exactly jsonError. Agreement with encoding/json is decided for what is visible in the shape of the code: (scanner-agree) every state function of the validating scanner has, per byte value, the effects and result of its namesake in GOROOT's encoding/json (abstract interpretation of both sources over byte sets), (table-agree) the character class tables are equal entry by entry, (escape-agree) the string writers append, for each ASCII byte, the bytes appendString appends, (enc-sign, strconv-err, json-depth, array-nonnil, json-value-nonnil, marshaler-validated) single clauses on numbers, depth, empty arrays, null and Marshalers. Byte-for-byte agreement beyond that (invalid UTF-8, U+2028/9, float formatting, key order), the values Unmarshal builds, Indent/Compact are differential by nature and NOT decided. 'other'.",
		Note:      trustedNote,
		Technique: "static analysis: must-call on all feasible paths, dominating-guard facts, recover-barrier classification",
		DesignRef: "DESIGN.md section 3, C17",
	}
	metas["C05"] = propMeta{
		Text:      "Decides structural necessary conditions of 'Compile returns Bytecode or an error, never panics': (panic-reach) every explicit panic statement reachable in the VTA call graph from Compile / compileScript / Compiler.Compile / Eval.Run (VM excluded) is swallowed on every call path by a deferred recover that type-asserts its value type, or is a named audited unreachable site; (fold-guard) every integer / % and signed shift in the optimizer's folding code has a dominating zero/sign test; (cap-check) every success return after Compiler.Bytecode() is dominated by the NumLocals limit test made on that very bytecode; (op-table) for each of the opcodes the operand table, name table, MakeInstruction arm (bytes appended = sum of widths), VM dispatch arm and the width handlers of MakeInstruction/ReadOperands agree. Does not decide termination, Go stack exhaustion on deep nesting, implicit index/nil panics in general, or that emitted jump targets are in range. 'other': reachability + dominance + table agreement, not an exploration of inputs.",
		Note:      trustedNote + " The VTA call graph is taken as an over-approximation of calls inside the repository.",
		Technique: "static analysis: call-graph reachability of panic sites against recover barriers, dominating-guard analysis, opcode table cross-check",
		DesignRef: "DESIGN.md section 3, C05",
	}
	metas["C13"] = propMeta{
		Text:      "Decides the who-may-create and propagation structure behind 'a disabled builtin cannot be reached': (roles) root() walks to the table with nil parent and the getter, the disabled test and the evaluator's copy function read/write the ROOT table's set; (root-read) every access to SymbolTable.disabledBuiltins is on a root table (result of root(), a fresh NewSymbolTable, or a field/parameter that only ever holds such values); (gate) every Symbol created with ScopeBuiltin is dominated by the false outcome of the disabled test for the same name; (emit) OpGetBuiltin is emitted only with the index of a symbol just tested to be ScopeBuiltin or the private BuiltinMakeArray constant, BuiltinObjects is indexed only by the VM's dispatch loop and BuiltinsMap indexes are read only behind the gate; (propagate) every NewSymbolTable() is a fork, a module root that receives the importer's root set before use, the evaluator's table followed by the copy call on every path, or a default for a nil option; (eval-inherit) reset of the evaluator's table is followed by both copy calls on every path and every evaluator Compile is dominated by that function. Does not decide host code that disables a name after it was resolved, nor decoding of foreign bytecode. 'other': structural necessary conditions, not an exploration of scripts.",
		Note:      trustedNote,
		Technique: "static analysis: who-may-create / must-pass-through / dominance rules on SSA with role verification of the symbol-table helpers",
		DesignRef: "DESIGN.md section 3, C13",
	}
	metas["C18"] = propMeta{
		Text:      "Decides, over the functions of package encoder reachable by static calls from DecodeBytecodeFrom, DecodeObject and every UnmarshalBinary/Decode method, that each construct that can panic or over-allocate for some input byte string is guarded on every path: non-comma-ok type assertions on decoded objects (assert), make() sizes non-negative and bounded by the in-memory input length or a constant <= 2^20 (alloc), slice bounds <= len and low <= high with integer wrap-around modelled (slice), indexes inside their operand including fixed tables (index), no method call on an absent map element (nil-call), no explicit panic (panic-reach). Guards are found by an interval analysis over dominating comparisons with structural expression equality; preconditions of unexported helpers are checked at every call site. Does not decide gob's behaviour, termination, total allocation across nested containers, or negative lower slice bounds derived from library contracts. Level 'other': a sound-for-the-modelled-sinks static guard analysis, not a proof of total decoding.",
		Note:      trustedNote,
		Technique: "static analysis: SSA sink enumeration + dominating-guard interval analysis with overflow-aware arithmetic and caller-established preconditions",
		DesignRef: "DESIGN.md section 3, C18",
	}
	metas["C15"] = propMeta{
		Text:      "Decides, for every built-in Object type pair and operator token, structural clauses of the operator tables extracted from the current source by tag-level partial evaluation: Equal is symmetric as a relation on types and compares in one domain (eq-sym); != is the negation of the same Equal call (neq-neg); < <= > >= are defined together with the matching Go operator and converse cells agree (rel-quad, rel-undefined); arithmetic/bitwise cells apply the Go operator of their token (op-token); every integer / % is dominated by a zero test and every shift by a signed count by a sign test (arith-guard). Does not compute operator results, NaN behaviour or deep equality of nested values; 'other' because a table-consistency proof over finite cells is neither a proof of the behavioural law nor an exploration of values.",
		Note:      trustedNote,
		Technique: "static analysis: partial evaluation of type/token switches (typed AST) + dominating-guard interval analysis on SSA",
		DesignRef: "DESIGN.md section 3, C15",
	}
}
