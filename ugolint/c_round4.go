package main

import (
	"go/constant"
	"fmt"
	"go/ast"
	"go/token"
	"go/types"
	"sort"
	"strings"

	"golang.org/x/tools/go/ssa"
)

// Rules added after the fourth round of independently seeded changes.  Each is
// a structural necessary condition of a clause of its property; see RULES.md.

// ---- C09/abort-store-loop ------------------------------------------------------------------
// The abort flag is never stored to inside a cycle of Run / run (the retry loop
// that re-enters the dispatch loop after a recovered panic): a pending Abort
// would be erased every time the loop is re-entered.  (The store in Run's
// prologue is the separate known finding no-entry-clear.)
func ruleAbortStoreLoop(c *Ctx, rule string, vf *vmFacts, fAbort int) {
	l := c.L
	n := 0
	for _, fn := range []*ssa.Function{vf.Run, vf.run} {
		if fn == nil {
			continue
		}
		for _, b := range fn.Blocks {
			onCycle := false
			for _, s := range b.Succs {
				if blockReaches(s, b) {
					onCycle = true
				}
			}
			for _, ins := range b.Instrs {
				stores := atomicCallOn(ins, vf, fAbort, "Store", "Swap", "CompareAndSwap")
				if st, ok := ins.(*ssa.Store); ok {
					if fa, ok := vf.isVMFieldAddr(st.Addr); ok && fa.Field == fAbort {
						stores = true
					}
				}
				if !stores {
					continue
				}
				n++
				c.Check(rule, fnName(fn)+" | store to the abort flag", l.Pos(ins.Pos()), !onCycle, "not inside the retry loop",
					"the abort flag is reset inside the loop that re-enters the dispatch loop after a recovered panic: an Abort that arrived while the script was in a Go callback is erased when the handler resumes and the script keeps running")
			}
		}
	}
	if n == 0 {
		c.Ok(rule, "no store to the abort flag in Run", l.Pos(vf.Run.Pos()), "Run never stores to the abort flag")
	}
}

// ---- C09/call-vm (also C19) -----------------------------------------------------------------
// Every Call value built by a method of VM or Invoker carries the VM: builtins
// poll c.VM().Aborted() and run callbacks on c.VM(); a Call without it makes a
// Go callee reached through that path uninterruptible.
func ruleCallVM(c *Ctx, rule string) {
	l := c.L
	p := l.ByPath[modPath]
	callT := l.NamedType(modPath, "Call")
	if !c.Anchor(rule, "type Call", p != nil && callT != nil) {
		return
	}
	info := p.TypesInfo
	for _, f := range p.Syntax {
		for _, d := range f.Decls {
			fd, ok := d.(*ast.FuncDecl)
			if !ok || fd.Recv == nil || fd.Body == nil || len(fd.Recv.List) == 0 {
				continue
			}
			rt := info.TypeOf(fd.Recv.List[0].Type)
			if !(isNamed(rt, modPath, "VM") || isNamed(rt, modPath, "Invoker")) {
				continue
			}
			ast.Inspect(fd.Body, func(n ast.Node) bool {
				cl, ok := n.(*ast.CompositeLit)
				if !ok || !types.Identical(info.TypeOf(cl), callT) {
					return true
				}
				sets := false
				for _, el := range cl.Elts {
					if kv, ok := el.(*ast.KeyValueExpr); ok {
						if id, ok := kv.Key.(*ast.Ident); ok && id.Name == "vm" {
							if tv, ok := info.Types[kv.Value]; !ok || !tv.IsNil() {
								sets = true
							}
						}
					}
				}
				if len(cl.Elts) > 0 {
					if _, keyed := cl.Elts[0].(*ast.KeyValueExpr); !keyed {
						sets = true // positional literal sets every field
					}
				}
				c.Check(rule, recvName(rt)+"."+fd.Name.Name+" | Call{...}", l.Pos(cl.Pos()), sets, "sets vm",
					"a Call is built without the VM in a method that has one: the Go callee cannot observe Abort (c.VM() is nil) and cannot run script callbacks on the caller's VM")
				return true
			})
		}
	}
}

// ---- C10/save-all-paths -----------------------------------------------------------------------
// After the VM run inside Eval.Run, every path to a return stores r.Locals and
// r.ModulesCache (also when the fragment failed: the state up to the failure
// is part of the session).
func ruleEvalSaveAllPaths(c *Ctx, rule string, run *ssa.Function, vmRunCall ssa.Instruction) {
	l := c.L
	// Every path from the run to a return stores the field, except through the
	// edge on which the runner reported that it did not start the VM.  (Judged
	// from the call, not from the "started" branch: a return between the call and
	// the test of the report - `if err != nil { return }` - loses a failing
	// fragment's state just the same.)
	var notRan *ssa.If
	if from := afterStartedRun(l, vmRunCall); from != vmRunCall {
		for _, p := range from.Block().Preds {
			if iff, ok := p.Instrs[len(p.Instrs)-1].(*ssa.If); ok && p.Succs[0] == from.Block() {
				notRan = iff
			}
		}
	}
	for _, f := range []string{"Locals", "ModulesCache"} {
		pred := viaDeep(storesStructField(l, modPath, "Eval", f))
		ok := true
		seen := map[*ssa.BasicBlock]bool{}
		var walk func(b *ssa.BasicBlock, idx int)
		walk = func(b *ssa.BasicBlock, idx int) {
			for _, ins := range b.Instrs[idx:] {
				if pred(ins) {
					return
				}
				if isReturn(ins) {
					ok = false
					return
				}
			}
			for i, sc := range b.Succs {
				if notRan != nil && b == notRan.Block() && i == 1 {
					continue
				}
				if !seen[sc] {
					seen[sc] = true
					walk(sc, 0)
				}
			}
		}
		for i, ins := range vmRunCall.Block().Instrs {
			if ins == vmRunCall {
				walk(vmRunCall.Block(), i+1)
			}
		}
		c.Check(rule, "Eval.Run | r."+f+" saved after the run", l.Pos(vmRunCall.Pos()), ok, "stored on every path from the run to a return",
			"a path from the VM run to a return of Eval.Run (e.g. the failing-fragment path) does not store r."+f+": what the fragment did before it failed is lost for the next fragment")
	}
}

// ---- C10/save-only-if-ran (also C09) ---------------------------------------------------------------
// The session's runner refuses to start the VM when the context is already
// done.  The VM's stack is then still what the previous Clear left behind (nil
// slots): reading the locals back from it replaces every variable of the
// session by a nil Object, and the next fragment that touches one crashes.  If
// the runner has a path that returns without starting the VM, the stores that
// take r.Locals / r.ModulesCache back from the VM are reached only on the
// branch on which the runner reported that it did start it.
func ruleEvalSaveOnlyIfRan(c *Ctx, rule string, run *ssa.Function, vmRunCall ssa.Instruction) {
	l := c.L
	cl, ok := vmRunCall.(*ssa.Call)
	if !ok {
		return
	}
	callee := cl.Call.StaticCallee()
	vmRun := l.Method(modPath, "VM", "Run")
	if callee == nil || len(callee.Blocks) == 0 || vmRun == nil || callee == vmRun {
		c.Ok(rule, "Eval.Run | the runner always starts the VM", l.Pos(vmRunCall.Pos()), "the VM run is called directly")
		return
	}
	starts := func(ins ssa.Instruction) bool {
		found := false
		if ci, ok := ins.(ssa.CallInstruction); ok {
			g := ci.Common().StaticCallee()
			if g == nil {
				if mc, ok := ci.Common().Value.(*ssa.MakeClosure); ok {
					g, _ = mc.Fn.(*ssa.Function)
				}
			}
			if g == vmRun {
				found = true
			} else if g != nil && g.Parent() == callee {
				eachInstr(g, func(x ssa.Instruction) {
					if xc, ok := x.(ssa.CallInstruction); ok && xc.Common().StaticCallee() == vmRun {
						found = true
					}
				})
			}
		}
		return found
	}
	first := callee.Blocks[0].Instrs[0]
	_, always := mustPassBefore(first, starts, func(x ssa.Instruction) bool {
		r, ok := x.(*ssa.Return)
		return ok && r.Pos().IsValid()
	})
	if always || starts(first) {
		c.Ok(rule, "Eval.Run | the runner always starts the VM", l.Pos(vmRunCall.Pos()), "every path of the runner starts the VM")
		return
	}
	from := afterStartedRun(l, vmRunCall)
	for _, f := range []string{"Locals", "ModulesCache"} {
		guarded := from != vmRunCall
		if guarded {
			eachInstr(run, func(ins ssa.Instruction) {
				if storesStructField(l, modPath, "Eval", f)(ins) && instrDominates(vmRunCall, ins) {
					if !(from.Block() == ins.Block() || from.Block().Dominates(ins.Block())) {
						guarded = false
					}
				}
			})
		}
		c.Check(rule, "Eval.Run | r."+f+" taken back from the VM", l.Pos(vmRunCall.Pos()), guarded, "only on the branch on which the runner reports that it started the VM",
			"the runner can return without starting the VM (context already done), and r."+f+" is then still read back from the VM: the stack holds what the previous Clear left (nil slots), so a refused run replaces every variable of the session by a nil Object and the next fragment that touches one fails with a nil dereference")
	}
}

// ---- C10/locals-elements (also C02) ----------------------------------------------------------------
// No code of the package writes an element of Eval.Locals: the slots are the
// VM's own values (pointer boxes of captured variables included) and must come
// back verbatim.
func ruleEvalLocalsElements(c *Ctx, rule string) {
	l := c.L
	_, fLocals := l.structField(modPath, "Eval", "Locals")
	if !c.Anchor(rule, "Eval.Locals", fLocals >= 0) {
		return
	}
	n := 0
	for _, fn := range l.RepoFuncs(func(pp string) bool { return pp == modPath }) {
		eachInstr(fn, func(ins ssa.Instruction) {
			st, ok := ins.(*ssa.Store)
			if !ok {
				return
			}
			ia, ok := st.Addr.(*ssa.IndexAddr)
			if !ok {
				return
			}
			fromLocals := derivesFrom(ia.X, func(v ssa.Value) bool {
				u, ok := v.(*ssa.UnOp)
				if !ok {
					return false
				}
				_, ok = isFieldAddrOf(u.X, modPath, "Eval", fLocals)
				return ok
			}, 4)
			if !fromLocals {
				return
			}
			n++
			c.Bad(rule, fnName(fn)+" | r.Locals[i] = ...", l.Pos(st.Pos()), "an element of the session's locals is overwritten outside the VM: a captured variable's cell is replaced by its value, so the closure of an earlier fragment and the variable of later fragments are no longer the same variable")
		})
	}
	if n == 0 {
		c.Ok(rule, "no element store into Eval.Locals", "-", "the session's locals are only replaced as a whole by GetLocals")
	}
}

// ---- C14/pool-symmetric (also C08, C09) --------------------------------------------------------------
// The pool on which a child is registered (receiver of the registering method
// at its call sites) and the pool from which it is unregistered are the same
// access path (the ROOT VM's pool): otherwise a released child stays in the
// root's registry and a later Abort of that VM reaches whoever uses the pooled
// VM next.
func rulePoolSymmetric(c *Ctx, rule string, pf *poolFacts) {
	l := c.L
	isPoolMethod := func(f *ssa.Function) bool {
		r := f.Signature.Recv()
		return r != nil && isNamed(r.Type(), modPath, "vmPool") && f.Parent() == nil
	}
	// registry accesses of a role function and of the helpers split out of it:
	// the pool value whose `vms` field is written (map update) or deleted from
	regBases := func(role *ssa.Function, wantDelete bool) []ssa.Value {
		var out []ssa.Value
		eachInstrDeep(role, 2, func(ins ssa.Instruction) {
			if !l.poolDomain()[ins.Parent()] {
				return
			}
			var m ssa.Value
			switch x := ins.(type) {
			case *ssa.MapUpdate:
				if !wantDelete {
					m = x.Map
				}
			case *ssa.Call:
				if bi, ok := x.Call.Value.(*ssa.Builtin); ok && bi.Name() == "delete" && wantDelete {
					m = x.Call.Args[0]
				}
			}
			if m == nil {
				return
			}
			if u, ok := m.(*ssa.UnOp); ok {
				if fa, ok := isFieldAddrOf(u.X, modPath, "vmPool", pf.fVMs); ok {
					out = append(out, fa.X)
				}
			}
		})
		return out
	}
	// full path of a pool value relative to the receiver of the outermost pool
	// method: the path inside the function, prefixed (recursively) by the path of
	// the receiver argument at the call sites that are themselves pool methods
	var full func(v ssa.Value, depth int) []string
	full = func(v ssa.Value, depth int) []string {
		root, path := accessPath(v)
		fn := v.Parent()
		if p, ok := root.(*ssa.Parameter); ok && fn != nil && len(fn.Params) > 0 && fn.Params[0] == p && depth < 4 {
			var outs []string
			composed := false
			for _, ci := range l.StaticCallers(fn) {
				if !isPoolMethod(ci.Parent()) && !l.poolDomain()[ci.Parent()] {
					continue
				}
				composed = true
				for _, pre := range full(ci.Common().Args[0], depth+1) {
					outs = append(outs, pre+path)
				}
			}
			if composed {
				return outs
			}
			return []string{"recv" + path}
		}
		// a local copy of the pool pointer (rp := &v.root.pool)
		if root != nil {
			if _, isParam := root.(*ssa.Parameter); !isParam {
				return []string{describe(root) + path}
			}
		}
		return []string{"?" + path}
	}
	collect := func(role *ssa.Function, del bool) []string {
		set := map[string]bool{}
		for _, b := range regBases(role, del) {
			for _, p := range full(b, 0) {
				set[p] = true
			}
		}
		return sortedKeys(set)
	}
	a, r := collect(pf.acquire, false), collect(pf.release, true)
	if len(a) == 0 || len(r) == 0 {
		c.Und(rule, "registry accesses of the registering / unregistering pool methods", l.Pos(pf.acquire.Pos()), "no map update / delete on the registry found: shape not modelled")
		return
	}
	same := len(a) == len(r)
	if same {
		for i := range a {
			if a[i] != r[i] {
				same = false
			}
		}
	}
	c.Check(rule, "register and unregister address the same pool", l.Pos(pf.release.Pos()), same, "both through "+strings.Join(a, ","),
		fmt.Sprintf("children are registered on %v but unregistered on %v (paths from the receiver of the outermost pool method): a released child VM stays in the registry of its old root, whose Abort later aborts an unrelated run that got the VM from the pool", a, r))
}

// ---- C14/child-bc-own (also C08) ------------------------------------------------------------------------
// Every value stored into VM.bytecode is storage of that VM alone: a fresh
// allocation, a parameter (the embedder's program), or the VM's own previous
// header; never the address of a package-level variable or another shared
// value (two child VMs would then run each other's Main).
func ruleChildBytecodeOwn(c *Ctx, rule string, vf *vmFacts) {
	l := c.L
	fBC := vf.field("bytecode")
	if !c.Anchor(rule, "VM.bytecode", fBC >= 0) {
		return
	}
	n := 0
	var ok1 func(v ssa.Value, d int) bool
	ok1 = func(v ssa.Value, d int) bool {
		if d > 6 {
			return false
		}
		switch x := v.(type) {
		case *ssa.Alloc, *ssa.Parameter:
			return true
		case *ssa.Const:
			return x.IsNil()
		case *ssa.UnOp:
			if fa, ok := vf.isVMFieldAddr(x.X); ok && fa.Field == fBC {
				return true
			}
			// a local variable holding one of the above
			if al, ok := x.X.(*ssa.Alloc); ok && al.Referrers() != nil {
				for _, r := range *al.Referrers() {
					if st, ok := r.(*ssa.Store); ok && st.Addr == ssa.Value(al) && !ok1(st.Val, d+1) {
						return false
					}
				}
				return true
			}
			return false
		case *ssa.Phi:
			for _, e := range x.Edges {
				if e != v && !ok1(e, d+1) {
					return false
				}
			}
			return true
		case *ssa.ChangeType:
			return ok1(x.X, d+1)
		case *ssa.Convert:
			return ok1(x.X, d+1)
		case *ssa.Call:
			// a repository constructor returning a fresh header
			if f := x.Call.StaticCallee(); f != nil && len(f.Blocks) > 0 && funcPkgPath(f) == modPath && f.Signature.Results().Len() == 1 {
				all := true
				for _, b := range f.Blocks {
					if ret, ok := b.Instrs[len(b.Instrs)-1].(*ssa.Return); ok {
						if _, fresh := ret.Results[0].(*ssa.Alloc); !fresh {
							all = false
						}
					}
				}
				return all
			}
		}
		return false
	}
	for _, fn := range l.RepoFuncs(func(pp string) bool { return pp == modPath }) {
		eachInstr(fn, func(ins ssa.Instruction) {
			st, ok := ins.(*ssa.Store)
			if !ok {
				return
			}
			fa, ok := vf.isVMFieldAddr(st.Addr)
			if !ok || fa.Field != fBC {
				return
			}
			n++
			c.Check(rule, fnName(fn)+" | vm.bytecode = "+describe(st.Val), l.Pos(st.Pos()), ok1(st.Val, 0), "the header is this VM's own (fresh, caller's, or its previous one)",
				"a VM's Bytecode header is a value shared beyond this VM (package-level variable, field of another object): the pool writes Main/Constants into it for every child, so two live child VMs run each other's function")
		})
	}
	if n == 0 {
		c.Und(rule, "stores to VM.bytecode", "-", "no store to VM.bytecode found: anchor lost")
	}
}

// ---- C12/fixup-always --------------------------------------------------------------------------------
// Every function of package encoder that receives the module map and returns
// an error reaches the module fix-up (the method that looks modules up in the
// map) before any return whose error result is the constant nil: a decoded
// program that names a module the host does not provide must be refused at
// load time.
func ruleFixupAlways(c *Ctx, rule string) {
	l := c.L
	mmT := l.NamedType(modPath, "ModuleMap")
	if !c.Anchor(rule, "type ModuleMap", mmT != nil) {
		return
	}
	get := l.Method(modPath, "ModuleMap", "Get")
	if !c.Anchor(rule, "ModuleMap.Get", get != nil) {
		return
	}
	takesMap := func(fn *ssa.Function) int {
		for i, p := range fn.Params {
			if pt, ok := p.Type().(*types.Pointer); ok && types.Identical(pt.Elem(), mmT) {
				return i
			}
		}
		return -1
	}
	var fns []*ssa.Function
	fixers := map[*ssa.Function]bool{}
	for _, fn := range l.RepoFuncs(func(pp string) bool { return pp == encPath }) {
		if fn.Parent() != nil || takesMap(fn) < 0 {
			continue
		}
		fns = append(fns, fn)
		eachInstr(fn, func(ins ssa.Instruction) {
			if ci, ok := ins.(ssa.CallInstruction); ok && ci.Common().StaticCallee() == get {
				fixers[fn] = true
			}
		})
	}
	if !c.Anchor(rule, "the encoder method that resolves modules through ModuleMap.Get", len(fixers) > 0) {
		return
	}
	passesOn := func(ins ssa.Instruction) bool {
		ci, ok := ins.(*ssa.Call)
		if !ok {
			return false
		}
		f := ci.Call.StaticCallee()
		if f == nil {
			return false
		}
		if fixers[f] {
			return true
		}
		// delegation to another function that takes the map
		return funcPkgPath(f) == encPath && takesMap(f) >= 0
	}
	for _, fn := range fns {
		if fixers[fn] {
			continue
		}
		ei := -1
		res := fn.Signature.Results()
		for i := 0; i < res.Len(); i++ {
			if n, ok := res.At(i).Type().(*types.Named); ok && n.Obj().Pkg() == nil && n.Obj().Name() == "error" {
				ei = i
			}
		}
		if ei < 0 {
			continue
		}
		target := func(ins ssa.Instruction) bool {
			r, ok := ins.(*ssa.Return)
			if !ok || ei >= len(r.Results) {
				return false
			}
			k, ok := r.Results[ei].(*ssa.Const)
			return ok && k.IsNil()
		}
		bad, ok := mustPassBefore(fn.Blocks[0].Instrs[0], passesOn, target)
		pos := l.Pos(fn.Pos())
		if bad != nil {
			pos = l.Pos(bad.Pos())
		}
		c.Check(rule, fnName(fn)+" | success only after the module fix-up", pos, ok, "every success return follows the fix-up (or a delegate that takes the map)",
			"a path returns success without resolving the decoded program's builtin modules against the host's module map: an unknown module is not reported at load time and the first call into it fails at run time")
	}
}

// ---- C16/copy-fields (also C07) ----------------------------------------------------------------------
// A Copy method that builds a new value of its own struct type gives it every
// field of the receiver (locks aside): RuntimeError.Copy without the file set
// yields errors whose trace prints no positions.
func ruleCopyFields(c *Ctx, rule string, only ...string) {
	l := c.L
	n := 0
	for _, fn := range l.RepoFuncs(func(pp string) bool { return pp == modPath }) {
		if fn.Name() != "Copy" || fn.Signature.Recv() == nil || fn.Parent() != nil {
			continue
		}
		pt, ok := fn.Signature.Recv().Type().(*types.Pointer)
		if !ok {
			continue
		}
		st, ok := pt.Elem().Underlying().(*types.Struct)
		if !ok {
			continue
		}
		name := recvName(pt)
		if len(only) > 0 {
			keep := false
			for _, o := range only {
				if o == name {
					keep = true
				}
			}
			if !keep {
				continue
			}
		}
		eachInstr(fn, func(ins ssa.Instruction) {
			al, ok := ins.(*ssa.Alloc)
			if !ok || !types.Identical(al.Type().(*types.Pointer).Elem(), pt.Elem()) || al.Referrers() == nil {
				return
			}
			set := map[int]bool{}
			whole := false
			for _, r := range *al.Referrers() {
				switch x := r.(type) {
				case *ssa.FieldAddr:
					if x.Referrers() != nil {
						for _, rr := range *x.Referrers() {
							if s, ok := rr.(*ssa.Store); ok && s.Addr == ssa.Value(x) {
								set[x.Field] = true
							}
						}
					}
				case *ssa.Store:
					if x.Addr == ssa.Value(al) {
						whole = true
					}
				}
			}
			var missing []string
			for i := 0; i < st.NumFields(); i++ {
				f := st.Field(i)
				if whole || set[i] {
					continue
				}
				if nt := namedOf(f.Type()); nt != nil && nt.Obj().Pkg() != nil && nt.Obj().Pkg().Path() == "sync" {
					continue // a lock is never copied
				}
				missing = append(missing, f.Name())
			}
			n++
			c.Check(rule, name+".Copy | new "+name, l.Pos(al.Pos()), len(missing) == 0, "every field of the receiver is carried over",
				"the copy is built without "+strings.Join(missing, ", ")+": e.g. a RuntimeError copied by err.New(...) / copy(err) loses its file set and every trace position prints as '-'")
		})
	}
	if n == 0 {
		c.Und(rule, "Copy methods that allocate their own struct", "-", "none found: anchor lost")
	}
}

// ---- C06/json-depth (also C17) ---------------------------------------------------------------------------
// Every growth of the JSON scanner's nesting stack is followed, on every path
// to a return, by the comparison of its length with the maximum depth: the
// decoder recurses once per level and a document nested millions deep would
// exhaust the Go stack (a fatal error recover() cannot stop).
func ruleJSONDepth(c *Ctx, rule string) {
	l := c.L
	jp := modPath + "/stdlib/json"
	_, fPS := l.structField(jp, "scanner", "parseState")
	maxDepth, okK := constOf(l, jp, "maxNestingDepth")
	if !c.Anchor(rule, "json scanner.parseState / maxNestingDepth", fPS >= 0 && okK) {
		return
	}
	n := 0
	for _, fn := range l.RepoFuncs(func(pp string) bool { return pp == jp }) {
		eachInstr(fn, func(ins ssa.Instruction) {
			st, ok := ins.(*ssa.Store)
			if !ok {
				return
			}
			if _, ok := isFieldAddrOf(st.Addr, jp, "scanner", fPS); !ok {
				return
			}
			cl, ok := st.Val.(*ssa.Call)
			if !ok {
				return
			}
			if bi, ok := cl.Call.Value.(*ssa.Builtin); !ok || bi.Name() != "append" {
				return
			}
			n++
			via := func(x ssa.Instruction) bool {
				iff, ok := x.(*ssa.If)
				if !ok {
					return false
				}
				bo, ok := iff.Cond.(*ssa.BinOp)
				if !ok {
					return false
				}
				for _, v := range []ssa.Value{bo.X, bo.Y} {
					if k, ok := constInt64(v); ok && k == maxDepth {
						return true
					}
				}
				return false
			}
			_, ok2 := mustPassBefore(st, via, isReturn)
			c.Check(rule, fnName(fn)+" | parseState = append(parseState, ...)", l.Pos(st.Pos()), ok2, "followed by the depth test on every path",
				"the nesting stack grows without the test against maxNestingDepth: a deeply nested document passes validation and the recursive decoder exhausts the Go stack, a fatal error that recovery cannot turn into a script error")
		})
	}
	if n == 0 {
		c.Und(rule, "append to scanner.parseState", "-", "no push onto the nesting stack found: anchor lost")
	}
}

// ---- C15/map-equal-presence -----------------------------------------------------------------------------------
// Map.Equal decides membership of each key of the receiver in the other map by
// a comma-ok lookup whose ok result is tested: looking the key up through
// IndexGet (absent -> undefined) makes {a: undefined} equal to {b: 1} but not
// the other way round.
func ruleMapEqualPresence(c *Ctx, rule string) {
	l := c.L
	eq := l.Method(modPath, "Map", "Equal")
	if !c.Anchor(rule, "Map.Equal", eq != nil) {
		return
	}
	tested := false
	eachInstr(eq, func(ins ssa.Instruction) {
		lk, ok := ins.(*ssa.Lookup)
		if !ok || !lk.CommaOk || lk.Referrers() == nil {
			return
		}
		if _, isMap := lk.X.Type().Underlying().(*types.Map); !isMap {
			return
		}
		for _, r := range *lk.Referrers() {
			ex, ok := r.(*ssa.Extract)
			if !ok || ex.Index != 1 || ex.Referrers() == nil {
				continue
			}
			for _, rr := range *ex.Referrers() {
				if _, ok := rr.(*ssa.If); ok {
					tested = true
				}
			}
		}
	})
	c.Check(rule, "Map.Equal | key presence", l.Pos(eq.Pos()), tested, "comma-ok lookup with the ok result tested",
		"Map.Equal does not test whether a key of the receiver is present in the other map: maps with different key sets compare equal in one direction only")
}

// ---- C20/global-write --------------------------------------------------------------------------------------------
// The conversion functions and the registry lookups they reach store to no
// package-level variable: conversions run concurrently on many goroutines
// (every VM converts values), and a cache written without synchronisation
// pairs one goroutine's type with another's converter (a panic in the unchecked
// assertion of the converter).
func ruleConvGlobalWrite(c *Ctx, rule string) {
	l := c.L
	var roots []*ssa.Function
	for _, n := range []string{"ToObject", "ToObjectAlt", "ToInterface"} {
		if f := l.Func(modPath, n); f != nil {
			roots = append(roots, f)
		}
	}
	for _, n := range []string{"ToObject", "ToInterface"} {
		if f := l.Func(modPath+"/registry", n); f != nil {
			roots = append(roots, f)
		}
	}
	if !c.Anchor(rule, "ToObject / ToObjectAlt / ToInterface and the registry lookups", len(roots) == 5) {
		return
	}
	// static reach inside the repository (registered converters are called
	// dynamically; their bodies are covered by the VTA graph)
	reach := Reach(l.VTA(), func(f *ssa.Function) bool { return !strings.HasPrefix(funcPkgPath(f), modPath) }, roots...)
	var fns []*ssa.Function
	for f := range reach {
		if strings.HasPrefix(funcPkgPath(f), modPath) && len(f.Blocks) > 0 {
			fns = append(fns, f)
		}
	}
	sort.Slice(fns, func(i, j int) bool { return fnName(fns[i]) < fnName(fns[j]) })
	n := 0
	for _, fn := range fns {
		eachInstr(fn, func(ins ssa.Instruction) {
			var addr ssa.Value
			switch st := ins.(type) {
			case *ssa.Store:
				addr = st.Addr
			case *ssa.MapUpdate:
				addr = st.Map
			default:
				return
			}
			g := globalRoot(addr, 0)
			if g == nil {
				return
			}
			n++
			c.Bad(rule, fnName(fn)+" | store to "+g.Name(), l.Pos(ins.Pos()), "a conversion path writes the package-level variable "+g.Name()+" without synchronisation: concurrent conversions race on it")
		})
	}
	c.extra["conversion_reach_functions"] = len(fns)
	if n == 0 {
		c.Ok(rule, "no package-level store on the conversion paths", "-", fmt.Sprintf("%d functions reachable from the conversion entry points", len(fns)))
	}
}

// globalRoot: the package-level variable an address or map value is rooted in.
func globalRoot(v ssa.Value, d int) *ssa.Global {
	if d > 6 {
		return nil
	}
	switch x := v.(type) {
	case *ssa.Global:
		return x
	case *ssa.FieldAddr:
		return globalRoot(x.X, d+1)
	case *ssa.IndexAddr:
		return globalRoot(x.X, d+1)
	case *ssa.UnOp:
		if x.Op == token.MUL {
			return globalRoot(x.X, d+1)
		}
	}
	return nil
}

// ---- C04/full-read --------------------------------------------------------------------------------------
// Every direct call of Read on an io.Reader in package encoder uses the byte
// count it returns: a reader may deliver fewer bytes than asked (a pipe, a
// network connection), and a decoder that assumes its buffer was filled
// corrupts the header of a stream that arrives in pieces.
func ruleFullRead(c *Ctx, rule string) {
	l := c.L
	n := 0
	for _, fn := range l.RepoFuncs(func(pp string) bool { return pp == encPath }) {
		eachInstr(fn, func(ins ssa.Instruction) {
			cl, ok := ins.(*ssa.Call)
			if !ok || !cl.Call.IsInvoke() || cl.Call.Method.Name() != "Read" {
				return
			}
			sig, ok := cl.Call.Method.Type().(*types.Signature)
			if !ok || sig.Params().Len() != 1 || sig.Results().Len() != 2 {
				return
			}
			n++
			used := false
			if cl.Referrers() != nil {
				for _, r := range *cl.Referrers() {
					if ex, ok := r.(*ssa.Extract); ok && ex.Index == 0 && ex.Referrers() != nil {
						for _, rr := range *ex.Referrers() {
							if _, isDbg := rr.(*ssa.DebugRef); !isDbg {
								used = true
							}
						}
					}
				}
			}
			c.Check(rule, fnName(fn)+" | r.Read(buf)", l.Pos(cl.Pos()), used, "the byte count is used",
				"the number of bytes Read returned is ignored: for a reader that delivers the stream in pieces the buffer is only partly filled and decoding fails (signature mismatch) although the encoding is valid")
		})
	}
	if n == 0 {
		c.Ok(rule, "no direct Read on a reader", "-", "the decoders read through io.ReadFull / io.Copy / ReadByte")
	}
}

// ---- C04/scalar-accept --------------------------------------------------------------------------------------
// The decoder of an integer scalar (Int, Uint, Char) rejects, on the ground of
// the decoded VALUE, only values outside the range of the Go type the encoder
// writes: every value of that type must decode (a negative Char produced by
// constant folding, the full int64 range of Int).
func ruleScalarAccept(c *Ctx, rule string) {
	l := c.L
	pb := ptrBitsOf(l)
	n := 0
	for _, tn := range []string{"Int", "Uint", "Char"} {
		fn := l.Method(encPath, tn, "UnmarshalBinary")
		T := l.NamedType(modPath, tn)
		if !c.Anchor(rule, "encoder."+tn+".UnmarshalBinary / ugo."+tn, fn != nil && T != nil) {
			continue
		}
		R := typeRange(T.Underlying(), pb)
		// the decoded value: result 0 of the varint reader
		var v ssa.Value
		eachInstr(fn, func(ins ssa.Instruction) {
			ex, ok := ins.(*ssa.Extract)
			if !ok || ex.Index != 0 {
				return
			}
			if cl, ok := ex.Tuple.(*ssa.Call); ok {
				if f := cl.Call.StaticCallee(); f != nil && f.Pkg != nil && f.Pkg.Pkg.Path() == "encoding/binary" && (f.Name() == "Varint" || f.Name() == "Uvarint") {
					v = ex
				}
			}
		})
		if v == nil {
			c.Und(rule, tn+".UnmarshalBinary | decoded value", l.Pos(fn.Pos()), "no binary.Varint/Uvarint result found: shape not modelled")
			continue
		}
		vr := typeRange(v.Type(), pb)
		var bad []string
		for _, b := range fn.Blocks {
			ret, ok := b.Instrs[len(b.Instrs)-1].(*ssa.Return)
			if !ok || len(ret.Results) != 1 || !definitelyNonNilErr(ret.Results[0], 0) {
				continue
			}
			paths, ok := pathGuardSets(b)
			if !ok {
				c.Und(rule, tn+".UnmarshalBinary | error path", l.Pos(ret.Pos()), "paths to this error return cannot be enumerated (loop): shape not modelled")
				continue
			}
			for _, path := range paths {
				r := vr
				idiomOK, idiomBad := false, ""
				for _, g := range path {
					applyCond(&r, v, g.If.Cond, g.Truth, pb)
					// the round-trip idiom  T2(T1(v)) != v  (true): v is outside T1
					if bo, ok := g.If.Cond.(*ssa.BinOp); ok && (bo.Op == token.NEQ || bo.Op == token.EQL) && (bo.Op == token.NEQ) == g.Truth {
						for _, pr := range [][2]ssa.Value{{bo.X, bo.Y}, {bo.Y, bo.X}} {
							if pr[1] != v {
								continue
							}
							if c2, ok := pr[0].(*ssa.Convert); ok {
								if c1, ok := c2.X.(*ssa.Convert); ok && c1.X == v {
									t1 := typeRange(c1.Type(), pb)
									if t1.lo <= R.lo && t1.hi >= R.hi {
										idiomOK = true
									} else {
										idiomBad = tstr(c1.Type())
									}
								}
							}
						}
					}
				}
				if idiomOK {
					continue
				}
				if idiomBad != "" {
					bad = append(bad, fmt.Sprintf("%s: rejects values that do not fit %s, narrower than %s", l.Pos(ret.Pos()), idiomBad, tstr(T.Underlying())))
					continue
				}
				if r.lo == vr.lo && r.hi == vr.hi {
					continue // this error does not depend on the value
				}
				if r.lo <= R.hi && r.hi >= R.lo {
					bad = append(bad, fmt.Sprintf("%s: rejects decoded values in [%s,%s], which intersects the range of %s", l.Pos(ret.Pos()), showBound(r.lo), showBound(r.hi), tstr(T.Underlying())))
				}
			}
		}
		n++
		c.Check(rule, tn+".UnmarshalBinary | value checks", l.Pos(fn.Pos()), len(bad) == 0, "value-dependent errors are raised only outside the range of "+tstr(T.Underlying()),
			strings.Join(bad, "; ")+": a value the encoder writes cannot be decoded again")
	}
	_ = n
}

// ---- C01/fold-range-agree ---------------------------------------------------------------------------------------
// For the integer operators whose right operand is restricted (/ % << >>), the
// folding table folds only right operands for which the VM's operator computes
// a value: the range of the right operand at the folding instruction is
// contained in its range at the VM's instruction.
func ruleFoldRangeAgree(c *Ctx, rule string) {
	l := c.L
	pb := ptrBitsOf(l)
	fold := l.Method(modPath, "SimpleOptimizer", "binaryopInts")
	vm := l.Method(modPath, "Int", "BinaryOp")
	intT := l.NamedType(modPath, "Int")
	if !c.Anchor(rule, "SimpleOptimizer.binaryopInts / Int.BinaryOp", fold != nil && vm != nil && intT != nil) {
		return
	}
	type site struct {
		bo *ssa.BinOp
		r  ival
	}
	collect := func(fn *ssa.Function, onlyInt bool) map[token.Token][]site {
		out := map[token.Token][]site{}
		eachInstr(fn, func(ins ssa.Instruction) {
			bo, ok := ins.(*ssa.BinOp)
			if !ok {
				return
			}
			switch bo.Op {
			case token.QUO, token.REM, token.SHL, token.SHR:
			default:
				return
			}
			if _, _, isInt := isIntegerType(bo.X.Type()); !isInt {
				return
			}
			if onlyInt && !(types.Identical(bo.X.Type(), intT) && types.Identical(bo.Y.Type(), intT)) {
				return
			}
			if _, isConst := bo.Y.(*ssa.Const); isConst {
				return
			}
			out[bo.Op] = append(out[bo.Op], site{bo, rangeAt(bo.Y, bo.Block(), pb)})
		})
		return out
	}
	fs, vs := collect(fold, false), collect(vm, true)
	// the VM's instructions may live in helpers the method was split into
	eachInstrDeep(vm, 2, func(ins ssa.Instruction) {
		h := ins.Parent()
		if h == vm || ownerFn(l, h) != vm {
			return
		}
		if _, done := vs[token.ILLEGAL]; done {
			return
		}
	})
	for _, h := range l.RepoFuncs(func(pp string) bool { return pp == modPath }) {
		if h != vm && ownerFn(l, h) == vm {
			for op, sites := range collect(h, true) {
				vs[op] = append(vs[op], sites...)
			}
		}
	}
	n := 0
	for _, op := range []token.Token{token.QUO, token.REM, token.SHL, token.SHR} {
		for _, f := range fs[op] {
			if len(vs[op]) == 0 {
				continue
			}
			n++
			okAll := true
			var why string
			for _, v := range vs[op] {
				sub := f.r.lo >= v.r.lo && f.r.hi <= v.r.hi && (!v.r.nonZero() || f.r.nonZero())
				if !sub {
					okAll = false
					why = fmt.Sprintf("folds right operands in [%s,%s]%s, the VM's %s computes a value only for [%s,%s]%s", showBound(f.r.lo), showBound(f.r.hi), nz(f.r), op, showBound(v.r.lo), showBound(v.r.hi), nz(v.r))
				}
			}
			c.Check(rule, fmt.Sprintf("binaryopInts | %s", op), l.Pos(f.bo.Pos()), okAll, "folded operand range is within the VM's", why+": the optimized script returns a value where the unoptimized one raises the operator's error")
		}
	}
	if n == 0 {
		c.Und(rule, "restricted integer operators in the folding table", l.Pos(fold.Pos()), "no / % << >> found in both the folding table and Int.BinaryOp: anchor lost")
	}
}

func nz(r ival) string {
	if r.nonZero() {
		return " without 0"
	}
	return ""
}

// ---- C01/init-always -----------------------------------------------------------------------------------------------
// The init statement of an if/for statement is compiled whatever the
// statement's condition is: the optimizer turns a constant condition into a
// literal, and a compiler that skips the init statement for a literally false
// condition drops the init's side effects only in optimized code.
func ruleInitAlways(c *Ctx, rule string) {
	l := c.L
	compile := l.Method(modPath, "Compiler", "Compile")
	if !c.Anchor(rule, "Compiler.Compile", compile != nil) {
		return
	}
	fieldNamed := func(v ssa.Value, name string) bool {
		return derivesFrom(v, func(x ssa.Value) bool {
			fa, ok := x.(*ssa.FieldAddr)
			if !ok {
				return false
			}
			st, ok := fa.X.Type().Underlying().(*types.Pointer).Elem().Underlying().(*types.Struct)
			return ok && st.Field(fa.Field).Name() == name
		}, 6)
	}
	n := 0
	for _, fn := range l.RepoFuncs(func(pp string) bool { return pp == modPath }) {
		if r := fn.Signature.Recv(); r == nil || !isNamed(r.Type(), modPath, "Compiler") {
			continue
		}
		eachInstr(fn, func(ins ssa.Instruction) {
			cl, ok := ins.(*ssa.Call)
			if !ok || cl.Call.StaticCallee() != compile || len(cl.Call.Args) < 2 {
				return
			}
			if !fieldNamed(cl.Call.Args[1], "Init") {
				return
			}
			n++
			dep := ""
			// data dependence of the guard on node.Cond, or control dependence:
			// a phi among the guard's inputs whose incoming edges are selected by
			// a branch on node.Cond (`dead = !lit.Value && node.Else == nil`)
			var dependsOnCond func(v ssa.Value, d int) bool
			seenPhi := map[ssa.Value]bool{}
			dependsOnCond = func(v ssa.Value, d int) bool {
				if d > 4 {
					return false
				}
				if fieldNamed(v, "Cond") {
					return true
				}
				found := false
				derivesFrom(v, func(x ssa.Value) bool {
					phi, ok := x.(*ssa.Phi)
					if !ok || seenPhi[phi] || found {
						return false
					}
					seenPhi[phi] = true
					for _, pred := range phi.Block().Preds {
						for _, g := range guardEdges(pred) {
							if dependsOnCond(g.If.Cond, d+1) {
								found = true
							}
						}
						if iff, ok := pred.Instrs[len(pred.Instrs)-1].(*ssa.If); ok && dependsOnCond(iff.Cond, d+1) {
							found = true
						}
					}
					return false
				}, 6)
				return found
			}
			for _, g := range guardEdges(cl.Block()) {
				if dependsOnCond(g.If.Cond, 0) {
					dep = "Cond"
				}
			}
			c.Check(rule, fnName(fn)+" | Compile(node.Init)", l.Pos(cl.Pos()), dep == "", "guarded only by the presence of the init statement",
				"whether the init statement is compiled depends on the statement's condition: for a condition the optimizer folded to a literal the init statement (a call, a global update, a division by zero) is dropped, in optimized code only")
		})
	}
	if n == 0 {
		c.Und(rule, "Compile(node.Init) calls", "-", "none found: anchor lost")
	}
}

// ---- C02/define-fresh --------------------------------------------------------------------------------------------------
// The routine that compiles `name := value` for a local never emits the
// assignment opcodes: every executed declaration creates a fresh variable
// (OpDefineLocal resets the slot's cell), also when the name already exists in
// the block (destructuring re-declaration).
func ruleDefineFresh(c *Ctx, rule string) {
	l := c.L
	def := l.Method(modPath, "Compiler", "compileDefine")
	opDef, ok1 := constOf(l, modPath, "OpDefineLocal")
	opSetL, ok2 := constOf(l, modPath, "OpSetLocal")
	opSetF, ok3 := constOf(l, modPath, "OpSetFree")
	if !c.Anchor(rule, "Compiler.compileDefine / OpDefineLocal / OpSetLocal / OpSetFree", def != nil && ok1 && ok2 && ok3) {
		return
	}
	emit := l.Method(modPath, "Compiler", "emit")
	defines, assigns := false, ""
	var pos token.Pos
	eachInstr(def, func(ins ssa.Instruction) {
		cl, ok := ins.(*ssa.Call)
		if !ok || cl.Call.StaticCallee() != emit || len(cl.Call.Args) < 3 {
			return
		}
		k, ok := constInt64(cl.Call.Args[2])
		if !ok {
			return
		}
		switch k {
		case opDef:
			defines = true
		case opSetL:
			assigns, pos = "OpSetLocal", cl.Pos()
		case opSetF:
			assigns, pos = "OpSetFree", cl.Pos()
		}
	})
	if !c.Anchor(rule, "compileDefine emits OpDefineLocal", defines) {
		return
	}
	p := l.Pos(def.Pos())
	if pos != token.NoPos {
		p = l.Pos(pos)
	}
	c.Check(rule, "Compiler.compileDefine | opcodes emitted for a local", p, assigns == "", "only OpDefineLocal", "a declaration is compiled to "+assigns+": the existing variable is assigned instead of a fresh one being created, so a closure that captured the earlier variable sees (and shares) the new value")
}

// ---- C17/array-nonnil ---------------------------------------------------------------------------------------------------
// The JSON decoder builds arrays on a non-nil empty Array: the encoder writes
// `null` for a nil Array, so "[]" decoded into a nil Array would marshal back
// as "null" and the round trip (and agreement with encoding/json) is lost.
func ruleArrayNonNil(c *Ctx, rule string) {
	l := c.L
	arrT := l.NamedType(modPath, "Array")
	if !c.Anchor(rule, "type Array", arrT != nil) {
		return
	}
	n := 0
	for _, fn := range l.RepoFuncs(func(pp string) bool { return pp == jsonPath }) {
		if r := fn.Signature.Recv(); r == nil || !isNamed(r.Type(), jsonPath, "decodeState") {
			continue
		}
		for _, b := range fn.Blocks {
			ret, ok := b.Instrs[len(b.Instrs)-1].(*ssa.Return)
			if !ok || len(ret.Results) == 0 {
				continue
			}
			mi, ok := ret.Results[0].(*ssa.MakeInterface)
			if !ok || !types.Identical(mi.X.Type(), arrT) {
				continue
			}
			n++
			nilRoot := false
			seen := map[ssa.Value]bool{}
			var walk func(v ssa.Value, d int)
			walk = func(v ssa.Value, d int) {
				if v == nil || seen[v] || d > 12 {
					return
				}
				seen[v] = true
				switch x := v.(type) {
				case *ssa.Const:
					if x.IsNil() {
						nilRoot = true
					}
				case *ssa.ChangeType:
					walk(x.X, d+1)
				case *ssa.Slice:
					walk(x.X, d+1)
				case *ssa.Phi:
					for _, e := range x.Edges {
						walk(e, d+1)
					}
				case *ssa.Call:
					if bi, ok := x.Call.Value.(*ssa.Builtin); ok && bi.Name() == "append" {
						walk(x.Call.Args[0], d+1)
					}
				}
			}
			walk(mi.X, 0)
			c.Check(rule, fnName(fn)+" | returned Array", l.Pos(ret.Pos()), !nilRoot, "built on a non-nil empty Array", "the decoded array starts from a nil Array: an empty JSON array decodes to a nil value, which Marshal writes as null instead of []")
		}
	}
	if n == 0 {
		c.Und(rule, "decodeState methods returning an Array", "-", "none found: anchor lost")
	}
}

// ---- C06/throw-reentry (also C16, C02) ------------------------------------------------------------------------
// The unwinding routine VM.throw is not re-entered from the functions it calls:
// it moves frameIndex, the current frame, the instruction slice and ip in
// separate steps, and a nested throw started between those steps (from the
// handler-dispatch function, for a handler that is already consumed) walks the
// frames with a half-switched VM: wrong trace, a corrupted ip ("unknown opcode",
// index out of range in the dispatch loop) or a lost error.
func ruleThrowReentry(c *Ctx, rule string) {
	l := c.L
	throw := l.Method(modPath, "VM", "throw")
	if !c.Anchor(rule, "VM.throw", throw != nil) {
		return
	}
	// static reach from throw's callees back to throw
	var path []string
	seen := map[*ssa.Function]bool{}
	var reach func(f *ssa.Function, d int) bool
	reach = func(f *ssa.Function, d int) bool {
		if seen[f] || d > 8 || len(f.Blocks) == 0 {
			return false
		}
		seen[f] = true
		found := false
		eachInstr(f, func(ins ssa.Instruction) {
			if found {
				return
			}
			ci, ok := ins.(ssa.CallInstruction)
			if !ok {
				return
			}
			g := ci.Common().StaticCallee()
			if g == nil || funcPkgPath(g) != modPath {
				return
			}
			if g == throw {
				path = append(path, fnName(f)+" at "+l.Pos(ins.Pos()))
				found = true
				return
			}
			if reach(g, d+1) {
				path = append(path, fnName(f))
				found = true
			}
		})
		return found
	}
	re := false
	var at ssa.Instruction
	eachInstr(throw, func(ins ssa.Instruction) {
		if re {
			return
		}
		ci, ok := ins.(ssa.CallInstruction)
		if !ok {
			return
		}
		g := ci.Common().StaticCallee()
		if g == nil || funcPkgPath(g) != modPath {
			return
		}
		if g == throw || reach(g, 0) {
			re, at = true, ins
		}
	})
	pos := l.Pos(throw.Pos())
	if at != nil {
		pos = l.Pos(at.Pos())
	}
	c.Check(rule, "VM.throw | not re-entered from its callees", pos, !re, "no callee of throw reaches throw",
		"throw can be re-entered through "+strings.Join(path, " <- ")+": a nested unwinding runs while frameIndex, the current frame and ip are only partly switched (a caller frame whose try/catch has already completed, then a failing callee: corrupted trace, 'unknown opcode', index out of range in the dispatch loop)")
}

// ---- C10/compile-rollback (also C05) ------------------------------------------------------------------------------
// In Eval.Run, the compile call updates the session's module store in place
// while the constants come back by value and are stored only on success.  On
// every path from the compile call to a return either the constants are stored
// (success) or the module store is rolled back (a call of one of its methods
// that writes it): otherwise a fragment that fails to compile after an import
// leaves a module registered whose constant does not exist, and the next
// fragment that imports it makes Compile panic (index out of range).
func ruleCompileRollback(c *Ctx, rule string, run *ssa.Function, compileCall ssa.Instruction) {
	l := c.L
	// the module store is what the compile call receives by pointer as its last argument
	var msT types.Type
	if args := compileCall.(ssa.CallInstruction).Common().Args; len(args) > 0 {
		if pt, ok := args[len(args)-1].Type().Underlying().(*types.Pointer); ok {
			msT = pt.Elem()
		}
	}
	if !c.Anchor(rule, "type of the module store passed to the compile call", msT != nil) {
		return
	}
	isStoreField := func(v ssa.Value) bool {
		fa, ok := v.(*ssa.FieldAddr)
		if !ok {
			return false
		}
		pt, ok := fa.X.Type().Underlying().(*types.Pointer)
		return ok && types.Identical(pt.Elem(), msT)
	}
	writesStore := func(f *ssa.Function) bool {
		r := f.Signature.Recv()
		if r == nil {
			return false
		}
		rt := r.Type()
		if pt, ok := rt.(*types.Pointer); ok {
			rt = pt.Elem()
		}
		if !types.Identical(rt, msT) {
			return false
		}
		w := false
		eachInstr(f, func(ins ssa.Instruction) {
			switch x := ins.(type) {
			case *ssa.Store:
				if isStoreField(x.Addr) {
					w = true
				}
			case *ssa.MapUpdate:
				w = true
			case *ssa.Call:
				if bi, ok := x.Call.Value.(*ssa.Builtin); ok && bi.Name() == "delete" {
					w = true
				}
			}
		})
		return w
	}
	via := func(ins ssa.Instruction) bool {
		if storesStructField(l, modPath, "CompilerOptions", "Constants")(ins) {
			return true
		}
		if cl, ok := ins.(*ssa.Call); ok {
			if f := cl.Call.StaticCallee(); f != nil && writesStore(f) {
				return true
			}
		}
		return false
	}
	bad, ok := mustPassBefore(compileCall, via, isReturn)
	pos := l.Pos(compileCall.Pos())
	if bad != nil {
		pos = l.Pos(bad.Pos())
	}
	c.Check(rule, "Eval.Run | module store consistent with the constants after the compile call", pos, ok, "every path stores the constants or rolls the module store back",
		"a path from the compile call to a return (the compile-error path) neither stores the new constants nor rolls back the module store: a module registered by the failed fragment refers to a constant that does not exist, and the next fragment importing it makes Compile panic")
}

// ruleCompileRollbackAuto locates Eval.Run and its compile call itself (used by C05).
func ruleCompileRollbackAuto(c *Ctx, rule string) {
	l := c.L
	run := l.Method(modPath, "Eval", "Run")
	if !c.Anchor(rule, "Eval.Run", run != nil) {
		return
	}
	var compileCall ssa.Instruction
	eachInstr(run, func(ins ssa.Instruction) {
		if ci, ok := ins.(ssa.CallInstruction); ok {
			if f := ci.Common().StaticCallee(); f != nil && f.Name() == "compileScript" {
				compileCall = ins
			}
		}
	})
	if !c.Anchor(rule, "the compile call inside Eval.Run", compileCall != nil) {
		return
	}
	ruleCompileRollback(c, rule, run, compileCall)
}

// ---- C19/field-init ----------------------------------------------------------------------------------------------------
// Library objects whose interface- or pointer-typed field is used without a nil
// test (scanArg.argValue.Arg()) are completely built by the functions that hand
// them out: from the allocation of such a struct, every path to a return that
// can carry a nil error stores the field.  An empty `case` arm in the
// constructor's switch yields an object that panics (nil dereference) when it
// is passed to the function that uses it.
func ruleFieldInit(c *Ctx, rule string) {
	l := c.L
	inScope := func(pp string) bool { return strings.HasPrefix(pp, modPath+"/stdlib") }
	type tf struct {
		t *types.Named
		f int
	}
	required := map[tf]string{}
	fieldOf := func(fa *ssa.FieldAddr) (tf, bool) {
		pt, ok := fa.X.Type().Underlying().(*types.Pointer)
		if !ok {
			return tf{}, false
		}
		nt, ok := pt.Elem().(*types.Named)
		if !ok || nt.Obj().Pkg() == nil || !inScope(nt.Obj().Pkg().Path()) {
			return tf{}, false
		}
		st, ok := nt.Underlying().(*types.Struct)
		if !ok {
			return tf{}, false
		}
		switch st.Field(fa.Field).Type().Underlying().(type) {
		case *types.Interface, *types.Pointer:
			return tf{nt, fa.Field}, true
		}
		return tf{}, false
	}
	for _, fn := range l.RepoFuncs(inScope) {
		eachInstr(fn, func(ins ssa.Instruction) {
			fa, ok := ins.(*ssa.FieldAddr)
			if !ok || fa.Referrers() == nil {
				return
			}
			k, ok := fieldOf(fa)
			if !ok {
				return
			}
			for _, r := range *fa.Referrers() {
				ld, ok := r.(*ssa.UnOp)
				if !ok || ld.Op != token.MUL || ld.Referrers() == nil {
					continue
				}
				for _, u := range *ld.Referrers() {
					used := false
					switch x := u.(type) {
					case *ssa.Call:
						used = x.Call.IsInvoke() && x.Call.Value == ssa.Value(ld)
					case *ssa.FieldAddr:
						used = x.X == ssa.Value(ld)
					}
					if !used {
						continue
					}
					guarded := false
					for _, g := range guardEdges(u.(ssa.Instruction).Block()) {
						if bo, ok := g.If.Cond.(*ssa.BinOp); ok && (bo.Op == token.NEQ || bo.Op == token.EQL) {
							for _, pr := range [][2]ssa.Value{{bo.X, bo.Y}, {bo.Y, bo.X}} {
								if k2, ok := pr[1].(*ssa.Const); ok && k2.IsNil() && (pr[0] == ssa.Value(ld) || exprEq(pr[0], ld)) && (bo.Op == token.NEQ) == g.Truth {
									guarded = true
								}
							}
						}
					}
					if !guarded {
						if _, had := required[k]; !had {
							required[k] = fnName(fn)
						}
					}
				}
			}
		})
	}
	n := 0
	for _, fn := range l.RepoFuncs(inScope) {
		ei := errResultIndex(fn)
		eachInstr(fn, func(ins ssa.Instruction) {
			al, ok := ins.(*ssa.Alloc)
			if !ok || !al.Heap {
				return
			}
			nt, ok := al.Type().(*types.Pointer).Elem().(*types.Named)
			if !ok {
				return
			}
			for k, user := range required {
				if k.t != nt {
					continue
				}
				// only allocations that are returned
				returned := false
				for _, b := range fn.Blocks {
					if ret, ok := b.Instrs[len(b.Instrs)-1].(*ssa.Return); ok {
						for _, rv := range ret.Results {
							if derivesFrom(rv, func(v ssa.Value) bool { return v == ssa.Value(al) }, 3) {
								returned = true
							}
						}
					}
				}
				if !returned {
					continue
				}
				n++
				via := func(x ssa.Instruction) bool {
					st, ok := x.(*ssa.Store)
					if !ok {
						return false
					}
					if fa, ok := st.Addr.(*ssa.FieldAddr); ok && fa.X == ssa.Value(al) && fa.Field == k.f {
						if kk, isC := st.Val.(*ssa.Const); isC && kk.IsNil() {
							return false
						}
						return true
					}
					// whole-struct store
					return st.Addr == ssa.Value(al)
				}
				target := func(x ssa.Instruction) bool {
					ret, ok := x.(*ssa.Return)
					if !ok {
						return false
					}
					if ei >= 0 && ei < len(ret.Results) && definitelyNonNilErr(ret.Results[ei], 0) {
						return false
					}
					return true
				}
				_, ok2 := mustPassBefore(al, via, target)
				fname := nt.Underlying().(*types.Struct).Field(k.f).Name()
				c.Check(rule, fmt.Sprintf("%s | new %s: field %s", fnName(fn), nt.Obj().Name(), fname), l.Pos(al.Pos()), ok2, "stored on every path to a successful return (used unchecked by "+user+")",
					"a path returns a "+nt.Obj().Name()+" whose "+fname+" was never set; "+user+" uses the field without a nil test: the object panics (nil dereference) when it is used")
			}
		})
	}
	c.extra["stdlib_fields_used_unchecked"] = len(required)
	if n == 0 {
		c.Ok(rule, "no returned library object with a field used unchecked", "-", fmt.Sprintf("%d fields used without a nil test", len(required)))
	}
}

// ---- C19/invoker-assert (also C14) ---------------------------------------------------------------------------
// Every unchecked type assertion in the methods of Invoker is reached only
// where a flag field of the Invoker is true that is stored, everywhere in the
// package, with the ok result of a comma-ok assertion of the same field to the
// same type (a cached assertion).  Library functions hand any callable to
// NewInvoker - also when a Go program calls them directly without a VM - and
// an assertion that is not covered by the flag panics for a builtin callee.
func ruleInvokerAssert(c *Ctx, rule string) {
	l := c.L
	invT := l.NamedType(modPath, "Invoker")
	if !c.Anchor(rule, "type Invoker", invT != nil) {
		return
	}
	st, _ := invT.Underlying().(*types.Struct)
	if !c.Anchor(rule, "Invoker is a struct", st != nil) {
		return
	}
	isInvField := func(v ssa.Value) (*ssa.FieldAddr, bool) {
		u, ok := v.(*ssa.UnOp)
		if !ok || u.Op != token.MUL {
			return nil, false
		}
		fa, ok := u.X.(*ssa.FieldAddr)
		if !ok {
			return nil, false
		}
		pt, ok := fa.X.Type().Underlying().(*types.Pointer)
		if !ok || !types.Identical(pt.Elem(), invT) {
			return nil, false
		}
		return fa, true
	}
	// flagFor[B] = (F, T): field B caches "field F holds a T"
	type cached struct {
		f int
		t types.Type
	}
	flagFor := map[int]*cached{}
	bad := map[int]bool{}
	for _, fn := range l.RepoFuncs(func(pp string) bool { return pp == modPath }) {
		eachInstr(fn, func(ins ssa.Instruction) {
			s, ok := ins.(*ssa.Store)
			if !ok {
				return
			}
			fa, ok := s.Addr.(*ssa.FieldAddr)
			if !ok {
				return
			}
			pt, ok := fa.X.Type().Underlying().(*types.Pointer)
			if !ok || !types.Identical(pt.Elem(), invT) {
				return
			}
			if b, ok := st.Field(fa.Field).Type().Underlying().(*types.Basic); !ok || b.Kind() != types.Bool {
				return
			}
			ex, ok := s.Val.(*ssa.Extract)
			if !ok || ex.Index != 1 {
				// a constant false is harmless (it only disables the fast path)
				if k, isC := s.Val.(*ssa.Const); isC && k.Value != nil && k.Value.String() == "false" {
					return
				}
				bad[fa.Field] = true
				return
			}
			ta, ok := ex.Tuple.(*ssa.TypeAssert)
			if !ok || !ta.CommaOk {
				bad[fa.Field] = true
				return
			}
			srcField := -1
			if src, ok := isInvField(ta.X); ok && (src.X == fa.X || exprEq(src.X, fa.X)) {
				srcField = src.Field
			} else {
				// the asserted value is the very value stored into a field of the
				// same Invoker in this function (a composite literal)
				eachInstr(fn, func(i2 ssa.Instruction) {
					if s2, ok := i2.(*ssa.Store); ok && s2.Val == ta.X {
						if fa2, ok := s2.Addr.(*ssa.FieldAddr); ok && fa2.X == fa.X {
							srcField = fa2.Field
						}
					}
				})
			}
			if srcField < 0 {
				bad[fa.Field] = true
				return
			}
			if cur := flagFor[fa.Field]; cur != nil && (cur.f != srcField || !types.Identical(cur.t, ta.AssertedType)) {
				bad[fa.Field] = true
				return
			}
			flagFor[fa.Field] = &cached{srcField, ta.AssertedType}
		})
	}
	n := 0
	for _, fn := range l.RepoFuncs(func(pp string) bool { return pp == modPath }) {
		r := fn.Signature.Recv()
		if r == nil || !isNamed(r.Type(), modPath, "Invoker") {
			continue
		}
		eachInstr(fn, func(ins ssa.Instruction) {
			ta, ok := ins.(*ssa.TypeAssert)
			if !ok || ta.CommaOk {
				return
			}
			n++
			good := assertGuarded(ta)
			if src, ok := isInvField(ta.X); ok && !good {
				for _, g := range guardEdges(ta.Block()) {
					cond, truth := g.If.Cond, g.Truth
					for {
						if u, ok := cond.(*ssa.UnOp); ok && u.Op == token.NOT {
							cond, truth = u.X, !truth
							continue
						}
						break
					}
					fl, ok := isInvField(cond)
					if !ok || !truth || bad[fl.Field] {
						continue
					}
					if cch := flagFor[fl.Field]; cch != nil && cch.f == src.Field && types.Identical(cch.t, ta.AssertedType) && (fl.X == src.X || exprEq(fl.X, src.X)) {
						good = true
					}
				}
			}
			c.Check(rule, fmt.Sprintf("%s | %s.(%s)", fnName(fn), describe(ta.X), tstr(ta.AssertedType)), l.Pos(ta.Pos()), good, "reached only where the cached assertion flag is true",
				"an unchecked assertion on the callee of an Invoker is reachable for a callee of another type (a builtin function handed to a library function that a Go program calls without a VM): interface conversion panic")
		})
	}
	if n == 0 {
		c.Ok(rule, "no unchecked assertion in the methods of Invoker", "-", "")
	}
}

// afterStartedRun: the instruction from which "after the VM ran" is judged.
// When the session's runner reports, in a bool result, whether it started the
// VM at all (a run refused because the context was already done leaves the VM
// untouched: there is nothing to take back), and the caller branches on that
// result, it is the first instruction of the "started" branch - provided the
// runner returns true on every path on which it starts the VM.  Otherwise the
// call itself.
func afterStartedRun(l *Loaded, vmRunCall ssa.Instruction) ssa.Instruction {
	cl, ok := vmRunCall.(*ssa.Call)
	if !ok {
		return vmRunCall
	}
	callee := cl.Call.StaticCallee()
	if callee == nil || len(callee.Blocks) == 0 || cl.Referrers() == nil {
		return vmRunCall
	}
	vmRun := l.Method(modPath, "VM", "Run")
	for _, r := range *cl.Referrers() {
		ex, ok := r.(*ssa.Extract)
		if !ok || ex.Referrers() == nil {
			continue
		}
		if b, ok := ex.Type().Underlying().(*types.Basic); !ok || b.Kind() != types.Bool {
			continue
		}
		// the runner's result ex.Index is true wherever the VM is started
		good := true
		starts := func(ins ssa.Instruction) bool {
			found := false
			if ci, ok := ins.(ssa.CallInstruction); ok {
				g := ci.Common().StaticCallee()
				if g == nil {
					if mc, ok := ci.Common().Value.(*ssa.MakeClosure); ok {
						g, _ = mc.Fn.(*ssa.Function)
					}
				}
				if g == vmRun {
					found = true
				} else if g != nil && g.Parent() == callee {
					eachInstr(g, func(x ssa.Instruction) {
						if xc, ok := x.(ssa.CallInstruction); ok && xc.Common().StaticCallee() == vmRun {
							found = true
						}
					})
				}
			}
			return found
		}
		var startBlocks []*ssa.BasicBlock
		eachInstr(callee, func(ins ssa.Instruction) {
			if starts(ins) {
				startBlocks = append(startBlocks, ins.Block())
			}
		})
		if len(startBlocks) == 0 {
			continue
		}
		eachInstr(callee, func(ins ssa.Instruction) {
			ret, ok := ins.(*ssa.Return)
			if !ok || ex.Index >= len(ret.Results) || !ret.Pos().IsValid() {
				return
			}
			v := returnedValue(ret, ex.Index)
			// per incoming path: a phi edge whose predecessor is reached from a start block must be true
			isTrue := func(x ssa.Value) bool {
				k, ok := x.(*ssa.Const)
				return ok && k.Value != nil && k.Value.Kind() == constant.Bool && constant.BoolVal(k.Value)
			}
			if phi, ok := v.(*ssa.Phi); ok {
				for i, e := range phi.Edges {
					p := phi.Block().Preds[i]
					for _, sb := range startBlocks {
						if (sb == p || blockReaches(sb, p)) && !isTrue(e) {
							good = false
						}
					}
				}
			} else {
				for _, sb := range startBlocks {
					if (sb == ret.Block() || blockReaches(sb, ret.Block())) && !isTrue(v) {
						good = false
					}
				}
			}
		})
		if !good {
			continue
		}
		for _, rr := range *ex.Referrers() {
			if iff, ok := rr.(*ssa.If); ok {
				return iff.Block().Succs[0].Instrs[0]
			}
		}
	}
	return vmRunCall
}
