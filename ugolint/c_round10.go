package main

import (
	"fmt"
	"go/ast"
	"go/constant"
	gotoken "go/token"
	"go/types"
	"sort"
	"strings"

	"golang.org/x/tools/go/ssa"
)

// ---- C05/scan-loop-eof --------------------------------------------------------------------------------------------------------------------
// At the end of the input the scanner's current character is a negative
// sentinel and stays that (reading on does not move).  A loop of the scanner
// must be left in that state: with every read of the current character taken
// to be the sentinel, some exit of the loop must not be provably closed.  A
// loop whose every exit tests for a closing delimiter ('*' followed by '/', a
// newline) and none for the end of the input spins for ever on a construct
// that the input leaves open (`a := f(1) /* TODO` at the end of a file).
func ruleScanLoopEOF(c *Ctx, rule string) {
	l := c.L
	_, fCh := l.structField(parserPath, "Scanner", "ch")
	next := l.Method(parserPath, "Scanner", "next")
	if !c.Anchor(rule, "parser.Scanner.ch / Scanner.next", fCh >= 0 && next != nil) {
		return
	}
	// the sentinel: the negative constant next() stores into ch
	var eof int64
	found := false
	eachInstr(next, func(ins ssa.Instruction) {
		if st, ok := ins.(*ssa.Store); ok {
			if _, ok := isFieldAddrOf(st.Addr, parserPath, "Scanner", fCh); ok {
				if k, ok := constInt64(st.Val); ok && k < 0 {
					eof, found = k, true
				}
			}
		}
	})
	if !c.Anchor(rule, "the end-of-input sentinel stored by Scanner.next", found) {
		return
	}
	type val struct {
		known bool
		isB   bool
		b     bool
		i     int64
	}
	n := 0
	for _, fn := range l.RepoFuncs(func(p string) bool { return p == parserPath }) {
		r := fn.Signature.Recv()
		if r == nil || !isNamed(r.Type(), parserPath, "Scanner") {
			continue
		}
		var eval func(v ssa.Value, d int) val
		eval = func(v ssa.Value, d int) val {
			if d > 8 {
				return val{}
			}
			switch x := v.(type) {
			case *ssa.Const:
				if x.Value == nil {
					return val{}
				}
				if x.Value.Kind() == constant.Bool {
					return val{known: true, isB: true, b: constant.BoolVal(x.Value)}
				}
				if k, ok := constInt64(x); ok {
					return val{known: true, i: k}
				}
			case *ssa.UnOp:
				if x.Op == gotoken.MUL {
					if _, ok := isFieldAddrOf(x.X, parserPath, "Scanner", fCh); ok {
						return val{known: true, i: eof}
					}
				}
				if x.Op == gotoken.NOT {
					if a := eval(x.X, d+1); a.known && a.isB {
						return val{known: true, isB: true, b: !a.b}
					}
				}
			case *ssa.Convert:
				return eval(x.X, d+1)
			case *ssa.ChangeType:
				return eval(x.X, d+1)
			case *ssa.Phi:
				var first val
				for i, e := range x.Edges {
					a := eval(e, d+1)
					if !a.known {
						return val{}
					}
					if i == 0 {
						first = a
					} else if a != first {
						return val{}
					}
				}
				return first
			case *ssa.BinOp:
				a, b := eval(x.X, d+1), eval(x.Y, d+1)
				if !a.known || !b.known || a.isB != b.isB {
					return val{}
				}
				if a.isB {
					switch x.Op {
					case gotoken.EQL:
						return val{known: true, isB: true, b: a.b == b.b}
					case gotoken.NEQ:
						return val{known: true, isB: true, b: a.b != b.b}
					}
					return val{}
				}
				switch x.Op {
				case gotoken.EQL:
					return val{known: true, isB: true, b: a.i == b.i}
				case gotoken.NEQ:
					return val{known: true, isB: true, b: a.i != b.i}
				case gotoken.LSS:
					return val{known: true, isB: true, b: a.i < b.i}
				case gotoken.LEQ:
					return val{known: true, isB: true, b: a.i <= b.i}
				case gotoken.GTR:
					return val{known: true, isB: true, b: a.i > b.i}
				case gotoken.GEQ:
					return val{known: true, isB: true, b: a.i >= b.i}
				case gotoken.ADD:
					return val{known: true, i: a.i + b.i}
				case gotoken.SUB:
					return val{known: true, i: a.i - b.i}
				}
			}
			return val{}
		}
		for _, h := range fn.Blocks {
			isHeader := false
			for _, p := range h.Preds {
				if h.Dominates(p) {
					isHeader = true
				}
			}
			if !isHeader {
				continue
			}
			inL := func(x *ssa.BasicBlock) bool { return (x == h || h.Dominates(x)) && blockReaches(x, h) }
			// does the loop read characters at all? (a call of next, directly or in a callee of the scanner)
			reads := false
			for _, b := range fn.Blocks {
				if !inL(b) {
					continue
				}
				for _, ins := range b.Instrs {
					if ci, ok := ins.(ssa.CallInstruction); ok {
						if g := ci.Common().StaticCallee(); g != nil && g.Signature.Recv() != nil && isNamed(g.Signature.Recv().Type(), parserPath, "Scanner") {
							reads = true
						}
					}
				}
			}
			if !reads {
				continue
			}
			n++
			// exits reachable from the header along edges not closed at the end of the input
			canExit := false
			seen := map[*ssa.BasicBlock]bool{}
			var walk func(b *ssa.BasicBlock)
			walk = func(b *ssa.BasicBlock) {
				if seen[b] || canExit {
					return
				}
				seen[b] = true
				last := b.Instrs[len(b.Instrs)-1]
				switch t := last.(type) {
				case *ssa.Return, *ssa.Panic:
					canExit = true
					return
				case *ssa.If:
					a := eval(t.Cond, 0)
					for i, s := range b.Succs {
						if a.known && a.isB && ((i == 0) != a.b) {
							continue // this edge is not taken at the end of the input
						}
						if !inL(s) {
							canExit = true
							return
						}
						walk(s)
					}
					return
				}
				for _, s := range b.Succs {
					if !inL(s) {
						canExit = true
						return
					}
					walk(s)
				}
			}
			walk(h)
			pos := l.Pos(fn.Pos())
			for _, ins := range h.Instrs {
				if ins.Pos().IsValid() {
					pos = l.Pos(ins.Pos())
					break
				}
			}
			c.Check(rule, fmt.Sprintf("%s | loop at block %d", fnName(fn), h.Index), pos, canExit, "an exit stays open when every character read is the end-of-input sentinel",
				"with every read of the current character taken to be the end-of-input sentinel, every exit of this loop is closed: the scanner spins for ever when the input ends inside the construct the loop scans (Compile never returns)")
		}
	}
	if n < 8 {
		c.Und(rule, "character-reading loops of the scanner", "-", fmt.Sprintf("only %d found", n))
	}
}

// ---- C15/precedence-agree (also C02) -------------------------------------------------------------------------------------------------------
// "The result of the corresponding Go operation" includes how an expression
// with several operators groups.  The binary operators uGO shares with Go (by
// spelling) have, in token.Precedence, the precedence go/token gives them.
func rulePrecedenceAgree(c *Ctx, rule string) {
	l := c.L
	tp := l.ByPath[modPath+"/token"]
	if !c.Anchor(rule, "package token", tp != nil) {
		return
	}
	var fd *ast.FuncDecl
	for _, f := range tp.Syntax {
		for _, d := range f.Decls {
			if x, ok := d.(*ast.FuncDecl); ok && x.Name.Name == "Precedence" && x.Recv != nil {
				fd = x
			}
		}
	}
	if !c.Anchor(rule, "token.Token.Precedence", fd != nil && fd.Body != nil) {
		return
	}
	// spelling of a token constant: tokens[Const] = "..." in the package's table
	spell := map[types.Object]string{}
	for _, f := range tp.Syntax {
		ast.Inspect(f, func(n ast.Node) bool {
			cl, ok := n.(*ast.CompositeLit)
			if !ok {
				return true
			}
			for _, el := range cl.Elts {
				kv, ok := el.(*ast.KeyValueExpr)
				if !ok {
					continue
				}
				id, ok1 := kv.Key.(*ast.Ident)
				lit, ok2 := kv.Value.(*ast.BasicLit)
				if ok1 && ok2 && lit.Kind == gotoken.STRING {
					if o, ok := tp.TypesInfo.Uses[id].(*types.Const); ok {
						if s, err := strconvUnquote(lit.Value); err == nil {
							spell[o] = s
						}
					}
				}
			}
			return true
		})
	}
	goPrec := map[string]int{}
	for t := gotoken.ADD; t <= gotoken.TILDE; t++ {
		if p := t.Precedence(); p > 0 {
			goPrec[t.String()] = p
		}
	}
	prec := map[string]int{}
	ast.Inspect(fd.Body, func(n ast.Node) bool {
		cc, ok := n.(*ast.CaseClause)
		if !ok {
			return true
		}
		p := -1
		for _, st := range cc.Body {
			if rs, ok := st.(*ast.ReturnStmt); ok && len(rs.Results) == 1 {
				if tv, ok := tp.TypesInfo.Types[rs.Results[0]]; ok && tv.Value != nil {
					if k, ok := constant.Int64Val(tv.Value); ok {
						p = int(k)
					}
				}
			}
		}
		for _, x := range cc.List {
			if id, ok := x.(*ast.Ident); ok {
				if s, ok := spell[tp.TypesInfo.Uses[id]]; ok && p >= 0 {
					prec[s] = p
				}
			}
		}
		return true
	})
	if len(prec) == 0 {
		// the precedences kept in a table indexed by token (`precedences[tok]`): the table
		// the function's body refers to
		used := map[types.Object]bool{}
		ast.Inspect(fd.Body, func(n ast.Node) bool {
			if id, ok := n.(*ast.Ident); ok {
				if o := tp.TypesInfo.Uses[id]; o != nil {
					used[o] = true
				}
			}
			return true
		})
		for _, f := range tp.Syntax {
			for _, d := range f.Decls {
				gd, ok := d.(*ast.GenDecl)
				if !ok {
					continue
				}
				for _, sp := range gd.Specs {
					vs, ok := sp.(*ast.ValueSpec)
					if !ok {
						continue
					}
					for i, nm := range vs.Names {
						if !used[tp.TypesInfo.Defs[nm]] || i >= len(vs.Values) {
							continue
						}
						cl, ok := vs.Values[i].(*ast.CompositeLit)
						if !ok {
							continue
						}
						for _, el := range cl.Elts {
							kv, ok := el.(*ast.KeyValueExpr)
							if !ok {
								continue
							}
							id, ok := kv.Key.(*ast.Ident)
							if !ok {
								continue
							}
							tv, ok := tp.TypesInfo.Types[kv.Value]
							if !ok || tv.Value == nil || tv.Value.Kind() != constant.Int {
								continue
							}
							if sp2, ok := spell[tp.TypesInfo.Uses[id]]; ok {
								k, _ := constant.Int64Val(tv.Value)
								prec[sp2] = int(k)
							}
						}
					}
				}
			}
		}
	}
	var ops []string
	for s := range goPrec {
		ops = append(ops, s)
	}
	sort.Strings(ops)
	n := 0
	for _, s := range ops {
		p, ok := prec[s]
		if !ok {
			continue // an operator uGO does not have as a binary operator
		}
		n++
		c.Check(rule, "operator "+s, l.Pos(fd.Pos()), p == goPrec[s], fmt.Sprintf("precedence %d, as in Go", p),
			fmt.Sprintf("token.Precedence gives the operator %s the precedence %d, Go gives it %d: an expression mixing it with other operators groups differently from the same expression in Go (each single operation is still right)", s, p, goPrec[s]))
	}
	if n < 15 {
		c.Und(rule, "binary operators shared with Go", "-", fmt.Sprintf("only %d found in token.Precedence", n))
	}
}

func strconvUnquote(s string) (string, error) {
	if len(s) >= 2 && (s[0] == '"' || s[0] == '`') {
		v := constant.MakeFromLiteral(s, gotoken.STRING, 0)
		if v.Kind() == constant.String {
			return constant.StringVal(v), nil
		}
	}
	return "", fmt.Errorf("not a string literal")
}

// ---- C04/gob-register-init -------------------------------------------------------------------------------------------------------------------
// gob needs the concrete types registered in the process that DEcodes.  Every
// gob.Register / RegisterName of the encoder package happens during package
// initialisation (in init or a function init calls), not lazily on the
// encoding side: a process that only decodes has not encoded anything yet.
func ruleGobRegisterInit(c *Ctx, rule string) {
	l := c.L
	sp := l.SPkg(encPath)
	if !c.Anchor(rule, "package encoder", sp != nil) {
		return
	}
	var inits []*ssa.Function
	for _, fn := range l.RepoFuncs(func(p string) bool { return p == encPath }) {
		if strings.HasPrefix(fn.Name(), "init") && fn.Signature.Recv() == nil && fn.Signature.Params().Len() == 0 && fn.Parent() == nil {
			inits = append(inits, fn)
		}
	}
	if f := sp.Func("init"); f != nil {
		inits = append(inits, f)
	}
	initReach := map[*ssa.Function]bool{}
	for _, f := range staticReach(inits, func(f *ssa.Function) bool { return funcPkgPath(f) == encPath && len(f.Blocks) > 0 }) {
		initReach[f] = true
	}
	for _, f := range inits {
		initReach[f] = true
	}
	n := 0
	for _, fn := range l.RepoFuncs(func(p string) bool { return p == encPath }) {
		eachInstr(fn, func(ins ssa.Instruction) {
			ci, ok := ins.(ssa.CallInstruction)
			if !ok {
				return
			}
			g := ci.Common().StaticCallee()
			if g == nil || funcPkgPath(g) != "encoding/gob" || !strings.HasPrefix(g.Name(), "Register") {
				return
			}
			n++
			host := fn
			for host.Parent() != nil {
				host = host.Parent()
			}
			what := "a type"
			if len(ci.Common().Args) > 0 {
				if mi, ok := ci.Common().Args[len(ci.Common().Args)-1].(*ssa.MakeInterface); ok {
					what = tstr(mi.X.Type())
				}
			}
			c.Check(rule, fmt.Sprintf("gob registration of %s", what), l.Pos(ins.Pos()), initReach[host], "during package initialisation",
				"the type is registered with gob outside package initialisation (lazily, from the encoding side): a process that decodes without having encoded first fails with 'gob: name not registered for interface'")
		})
	}
	if n < 3 {
		c.Und(rule, "gob registrations", "-", fmt.Sprintf("only %d found", n))
	}
}

// ---- C19/json-value-nonnil (also C17) ----------------------------------------------------------------------------------------------------------
// The json decoder hands uGO values to scripts: a function of the decoder whose
// first result is an Object never returns a nil Object together with a nil
// error (JSON null is the Undefined value).  A Go nil inside a decoded array or
// map is dereferenced by the first builtin that looks at it.
func ruleJSONValueNonNil(c *Ctx, rule string) {
	l := c.L
	n := 0
	for _, fn := range l.RepoFuncs(func(p string) bool { return p == jsonPath }) {
		r := fn.Signature.Recv()
		if r == nil || !isNamed(r.Type(), jsonPath, "decodeState") || fn.Signature.Results().Len() == 0 {
			continue
		}
		if !isNamed(fn.Signature.Results().At(0).Type(), modPath, "Object") {
			continue
		}
		for _, b := range fn.Blocks {
			ret, ok := b.Instrs[len(b.Instrs)-1].(*ssa.Return)
			if !ok || len(ret.Results) == 0 {
				continue
			}
			if len(ret.Results) == 2 {
				if k, isK := ret.Results[1].(*ssa.Const); !isK || !k.IsNil() {
					continue // an error return
				}
			}
			n++
			var leafBad func(v ssa.Value, d int) bool
			leafBad = func(v ssa.Value, d int) bool {
				if d > 5 {
					return false
				}
				switch x := v.(type) {
				case *ssa.Const:
					return x.IsNil()
				case *ssa.Phi:
					for _, e := range x.Edges {
						if leafBad(e, d+1) {
							return true
						}
					}
				}
				return false
			}
			c.Check(rule, fmt.Sprintf("%s | return #%d", fnName(fn), n), l.Pos(ret.Pos()), !leafBad(returnedValue(ret, 0), 0), "not the nil Object",
				"a decoding function returns a nil Object with a nil error: nested in an array or map it reaches scripts as a Go nil, and string(v), v == w or contains(v, x) dereference it")
		}
	}
	if n < 5 {
		c.Und(rule, "success returns of Object-valued decoder functions", "-", fmt.Sprintf("only %d found", n))
	}
}

// ---- C17/marshaler-validated --------------------------------------------------------------------------------------------------------------------
// Bytes produced by a value's own MarshalJSON reach the output only through the
// validating copy (compact): whatever else is done with them - written as they
// are, on some option - can put a malformed document into the output.
func ruleMarshalerValidated(c *Ctx, rule string) {
	l := c.L
	compact := l.Func(jsonPath, "compact")
	if !c.Anchor(rule, "json.compact", compact != nil) {
		return
	}
	n := 0
	for _, fn := range l.RepoFuncs(func(p string) bool { return p == jsonPath }) {
		eachInstr(fn, func(ins ssa.Instruction) {
			cl, ok := ins.(*ssa.Call)
			if !ok || !cl.Call.IsInvoke() || cl.Call.Method.Name() != "MarshalJSON" || cl.Referrers() == nil {
				return
			}
			for _, r := range *cl.Referrers() {
				ex, ok := r.(*ssa.Extract)
				if !ok || ex.Index != 0 || ex.Referrers() == nil {
					continue
				}
				n++
				var bad []string
				for _, u := range *ex.Referrers() {
					switch x := u.(type) {
					case *ssa.DebugRef:
					case ssa.CallInstruction:
						if x.Common().StaticCallee() == compact {
							continue
						}
						if b, ok := x.Common().Value.(*ssa.Builtin); ok && (b.Name() == "len" || b.Name() == "cap") {
							continue
						}
						bad = append(bad, l.Pos(x.Pos()))
					default:
						bad = append(bad, l.Pos(u.Pos()))
					}
				}
				c.Check(rule, fmt.Sprintf("%s | bytes returned by MarshalJSON", fnName(fn)), l.Pos(cl.Pos()), len(bad) == 0, "only handed to the validating copy",
					"the bytes a value's MarshalJSON returned are used other than through the validating copy (at "+strings.Join(bad, ", ")+"): invalid JSON from a Marshaler (a raw message) is written into the document as it is")
			}
		})
	}
	if n == 0 {
		c.Und(rule, "calls of MarshalJSON", "-", "none found in the json package")
	}
}

// ---- C13/define-scope, set-monotone (delete clause), C01+C13/reset-total, C14/frame-clear-init -----------------------------------------------

// ruleDefineGlobalScope: the symbol DefineGlobal hands back for the caller to
// fill in (the caller stores the constant index of the name into it) is a
// global: freshly made with ScopeGlobal, or an existing symbol tested to be of
// that scope.  A cached builtin symbol handed back would be re-indexed, and the
// next use of the name emits OpGetBuiltin with a number the script chose.
func ruleDefineGlobalScope(c *Ctx, rule string) {
	l := c.L
	dg := l.Method(modPath, "SymbolTable", "DefineGlobal")
	_, fScope := l.structField(modPath, "Symbol", "Scope")
	kGlobal, okG := constOf(l, modPath, "ScopeGlobal")
	if !c.Anchor(rule, "SymbolTable.DefineGlobal / Symbol.Scope / ScopeGlobal", dg != nil && fScope >= 0 && okG) {
		return
	}
	n := 0
	for _, b := range dg.Blocks {
		ret, ok := b.Instrs[len(b.Instrs)-1].(*ssa.Return)
		if !ok || len(ret.Results) == 0 {
			continue
		}
		v := returnedValue(ret, 0)
		if k, isK := v.(*ssa.Const); isK && k.IsNil() {
			continue
		}
		n++
		good := false
		if al, ok := v.(*ssa.Alloc); ok && al.Referrers() != nil {
			for _, r := range *al.Referrers() {
				if fa, ok := r.(*ssa.FieldAddr); ok && fa.Field == fScope && fa.Referrers() != nil {
					for _, rr := range *fa.Referrers() {
						if st, ok := rr.(*ssa.Store); ok {
							if k, ok := constInt64(st.Val); ok && k == kGlobal {
								good = true
							}
						}
					}
				}
			}
		}
		for _, g := range guardEdges(b) {
			bo, ok := g.If.Cond.(*ssa.BinOp)
			if !ok || (bo.Op != gotoken.EQL && bo.Op != gotoken.NEQ) || (bo.Op == gotoken.EQL) != g.Truth {
				continue
			}
			for _, pr := range [][2]ssa.Value{{bo.X, bo.Y}, {bo.Y, bo.X}} {
				if k, ok := constInt64(pr[1]); !ok || k != kGlobal {
					continue
				}
				if u, ok := pr[0].(*ssa.UnOp); ok {
					if fa, ok := isFieldAddrOf(u.X, modPath, "Symbol", fScope); ok && (fa.X == v || exprEq(fa.X, v)) {
						good = true
					}
				}
			}
		}
		c.Check(rule, fmt.Sprintf("SymbolTable.DefineGlobal | return #%d", n), l.Pos(ret.Pos()), good, "a new global symbol, or one tested to be global",
			"DefineGlobal hands back a symbol that is not known to be a global (a builtin symbol cached by Resolve): the declaration re-indexes it, and later uses of the name emit OpGetBuiltin with the constant index - any builtin, a disabled one included, is reachable by choosing the number of constants")
	}
	if n == 0 {
		c.Und(rule, "symbol returns of DefineGlobal", "-", "none found")
	}
}

// ruleDisabledNeverDeleted: nothing removes a name from a table's disabled set
// except the table's own reset (which empties the evaluator's scratch table).
func ruleDisabledNeverDeleted(c *Ctx, rule string, roles *symtabRoles) {
	l := c.L
	n := 0
	for _, fn := range l.RepoFuncs(func(p string) bool { return p == modPath }) {
		eachInstr(fn, func(ins ssa.Instruction) {
			ci, ok := ins.(ssa.CallInstruction)
			if !ok {
				return
			}
			b, ok := ci.Common().Value.(*ssa.Builtin)
			if !ok || (b.Name() != "delete" && b.Name() != "clear") || len(ci.Common().Args) == 0 {
				return
			}
			isDisabled := derivesFrom(ci.Common().Args[0], func(v ssa.Value) bool {
				u, ok := v.(*ssa.UnOp)
				if !ok || u.Op != gotoken.MUL {
					return false
				}
				_, ok = isFieldAddrOf(u.X, modPath, "SymbolTable", roles.fDisabled)
				return ok
			}, 3)
			if !isDisabled {
				return
			}
			n++
			c.Check(rule, fmt.Sprintf("%s | delete from disabledBuiltins", fnName(fn)), l.Pos(ins.Pos()), fn == roles.reset, "only the table's own reset empties the set",
				"a name is removed from a symbol table's set of disabled builtins outside reset: a builtin the host disabled becomes available again (after a scope that merely re-used the name ends)")
		})
	}
	c.Ok(rule, "deletions from disabledBuiltins", "-", fmt.Sprintf("%d found", n))
}

// ruleResetTotal: reset empties the symbol store unconditionally: the deletion
// in its loop over the store depends on nothing but the loop (or the store is
// replaced).  A reset that keeps some symbols - the builtins Resolve cached -
// lets a builtin resolved in an earlier evaluation win over the names copied
// into the disabled set afterwards.
func ruleResetTotal(c *Ctx, rule string, roles *symtabRoles) {
	l := c.L
	_, fStore := l.structField(modPath, "SymbolTable", "store")
	if !c.Anchor(rule, "SymbolTable.reset / SymbolTable.store", roles.reset != nil && fStore >= 0) {
		return
	}
	n := 0
	good := false
	why := "the store is neither replaced nor emptied"
	eachInstr(roles.reset, func(ins ssa.Instruction) {
		// replaced by a fresh map?
		if st, ok := ins.(*ssa.Store); ok {
			if _, ok := isFieldAddrOf(st.Addr, modPath, "SymbolTable", fStore); ok {
				if _, isMake := st.Val.(*ssa.MakeMap); isMake {
					good = true
					n++
				}
			}
		}
		ci, ok := ins.(ssa.CallInstruction)
		if !ok {
			return
		}
		b, ok := ci.Common().Value.(*ssa.Builtin)
		if !ok || len(ci.Common().Args) == 0 {
			return
		}
		isStore := derivesFrom(ci.Common().Args[0], func(v ssa.Value) bool {
			u, ok := v.(*ssa.UnOp)
			if !ok || u.Op != gotoken.MUL {
				return false
			}
			_, ok = isFieldAddrOf(u.X, modPath, "SymbolTable", fStore)
			return ok
		}, 4)
		if !isStore {
			return
		}
		switch b.Name() {
		case "clear":
			good = true
			n++
		case "delete":
			n++
			// unconditional inside its range loop: walking up the dominator tree from the
			// delete to the range step, the only branch passed is the range's own "more?" test
			blk := ins.Block()
			cond := false
			for x := blk; x != nil; x = x.Idom() {
				hasNext := false
				for _, i2 := range x.Instrs {
					if _, ok := i2.(*ssa.Next); ok {
						hasNext = true
					}
				}
				if hasNext {
					break
				}
				if id := x.Idom(); id != nil {
					if _, isIf := id.Instrs[len(id.Instrs)-1].(*ssa.If); isIf {
						nx := false
						for _, i2 := range id.Instrs {
							if _, ok := i2.(*ssa.Next); ok {
								nx = true
							}
						}
						if !nx {
							cond = true
						}
					}
				}
			}
			if cond {
				why = "the deletion in the loop over the store is conditional: some symbols survive the reset"
			} else {
				good = true
			}
		}
	})
	c.Check(rule, "SymbolTable.reset | store emptied", l.Pos(roles.reset.Pos()), good && n > 0, "every symbol is removed (or the store replaced)",
		why+": a builtin symbol cached by an earlier evaluation is found before the disabled and shadowed names are consulted - a call of the script's own function of that name is folded as the builtin")
}

// ruleFrameClearInit: what the end of a run clears in the first frame, the
// start of a run establishes again: the fields clearCurrentFrame stores are
// stored by initCurrentFrame too.  Bound once when a child VM is acquired, the
// captured variables of the callee survive exactly one invocation.
func ruleFrameClearInit(c *Ctx, rule string) {
	l := c.L
	clr := l.Method(modPath, "VM", "clearCurrentFrame")
	ini := l.Method(modPath, "VM", "initCurrentFrame")
	fs, _ := l.structField(modPath, "frame", "fn")
	if !c.Anchor(rule, "VM.clearCurrentFrame / VM.initCurrentFrame / frame", clr != nil && ini != nil && fs != nil) {
		return
	}
	stored := func(fn *ssa.Function) map[int]bool {
		out := map[int]bool{}
		eachInstrDeep(fn, 1, func(ins ssa.Instruction) {
			if st, ok := ins.(*ssa.Store); ok {
				if fa, ok := st.Addr.(*ssa.FieldAddr); ok {
					if pt, ok := fa.X.Type().Underlying().(*types.Pointer); ok && isNamed(pt.Elem(), modPath, "frame") {
						out[fa.Field] = true
					}
				}
			}
		})
		return out
	}
	cs, is := stored(clr), stored(ini)
	var fields []int
	for f := range cs {
		fields = append(fields, f)
	}
	sort.Ints(fields)
	for _, f := range fields {
		name := fs.Field(f).Name()
		c.Check(rule, "frame."+name, l.Pos(ini.Pos()), is[f], "cleared at the end of a run and set again at the start of the next",
			"clearCurrentFrame resets frame."+name+" at the end of every run but initCurrentFrame does not establish it at the start of the next one: whatever set it (the pool, when the child VM was acquired) holds for one run only - a closure invoked twice through one Invoker loses its captured variables")
	}
	if len(fields) == 0 {
		c.Und(rule, "fields cleared by clearCurrentFrame", "-", "none found")
	}
}

// ---- C04/module-name-stamped (also C12) ---------------------------------------------------------------------------------------------------------
// The encoder re-binds the objects of a builtin module by the module name that
// Import stamps into the copy of the attributes.  Every successful return of
// BuiltinModule.Import passes the assignment of that key: a copy that keeps a
// name it already carried (a module derived from another module's exports) is
// re-bound, after decoding, to the other module.
func ruleModuleNameStamped(c *Ctx, rule string) {
	l := c.L
	imp := l.Method(modPath, "BuiltinModule", "Import")
	up := l.ByPath[modPath]
	if !c.Anchor(rule, "BuiltinModule.Import", imp != nil && up != nil) {
		return
	}
	key, _ := up.Types.Scope().Lookup("AttrModuleName").(*types.Const)
	if !c.Anchor(rule, "AttrModuleName", key != nil) {
		return
	}
	want := constant.StringVal(key.Val())
	stamps := func(ins ssa.Instruction) bool {
		mu, ok := ins.(*ssa.MapUpdate)
		if !ok {
			return false
		}
		k := mu.Key
		if mi, ok := k.(*ssa.MakeInterface); ok {
			k = mi.X
		}
		if cv, ok := k.(*ssa.Convert); ok {
			k = cv.X
		}
		kc, ok := k.(*ssa.Const)
		return ok && kc.Value != nil && kc.Value.Kind() == constant.String && constant.StringVal(kc.Value) == want
	}
	n := 0
	for _, b := range imp.Blocks {
		ret, ok := b.Instrs[len(b.Instrs)-1].(*ssa.Return)
		if !ok || len(ret.Results) != 2 {
			continue
		}
		if k, isK := ret.Results[1].(*ssa.Const); !isK || !k.IsNil() {
			continue
		}
		n++
		_, ok2 := mustPassBefore(imp.Blocks[0].Instrs[0], viaDeep(stamps), func(x ssa.Instruction) bool { return x == ssa.Instruction(ret) })
		c.Check(rule, fmt.Sprintf("BuiltinModule.Import | success return #%d", n), l.Pos(ret.Pos()), ok2, "the module name is assigned on every path",
			"a path returns the copied attributes without assigning the module name key (the assignment is conditional): a copy that already carries another module's name keeps it, and the encoder re-binds the decoded objects against that other module")
	}
	if n == 0 {
		c.Und(rule, "success returns of BuiltinModule.Import", "-", "none found")
	}
}

// ---- C12/module-cache-opaque ------------------------------------------------------------------------------------------------------------------------
// "The body of a source module executes at most once": whether the body runs is
// decided by the cache slot being empty, and by nothing about the value in it.
// A value read from the VM's module cache is only compared with nil, stored
// (pushed on the stack) or copied: it is never inspected (no type assertion, no
// method call).  Re-loading a module because its value "looks like a failure"
// runs its body once per import.
func ruleModuleCacheOpaque(c *Ctx, rule string, vf *vmFacts) {
	l := c.L
	fMC := vf.field("modulesCache")
	if !c.Anchor(rule, "VM.modulesCache", fMC >= 0) {
		return
	}
	n := 0
	for _, fn := range vf.reachFns {
		if funcPkgPath(fn) != modPath {
			continue
		}
		eachInstr(fn, func(ins ssa.Instruction) {
			ld, ok := ins.(*ssa.UnOp)
			if !ok || ld.Op != gotoken.MUL {
				return
			}
			ia, ok := ld.X.(*ssa.IndexAddr)
			if !ok {
				return
			}
			base, ok := ia.X.(*ssa.UnOp)
			if !ok {
				return
			}
			fa, ok := vf.isVMFieldAddr(base.X)
			if !ok || fa.Field != fMC {
				return
			}
			n++
			var bad []string
			seen := map[ssa.Value]bool{}
			var walk func(v ssa.Value)
			walk = func(v ssa.Value) {
				if seen[v] || v.Referrers() == nil {
					return
				}
				seen[v] = true
				for _, r := range *v.Referrers() {
					switch x := r.(type) {
					case *ssa.BinOp, *ssa.Store, *ssa.DebugRef, *ssa.If:
					case *ssa.Phi:
						walk(x)
					case *ssa.TypeAssert:
						bad = append(bad, "type assertion at "+l.Pos(x.Pos()))
					case ssa.CallInstruction:
						if x.Common().IsInvoke() && x.Common().Value == v {
							bad = append(bad, x.Common().Method.Name()+"() at "+l.Pos(x.Pos()))
						}
					}
				}
			}
			walk(ld)
			c.Check(rule, fmt.Sprintf("%s | value read from the module cache", fnName(fn)), l.Pos(ld.Pos()), len(bad) == 0, "compared with nil, stored or copied only",
				"the value read from the module cache is inspected ("+strings.Join(bad, ", ")+"): whether a module's body runs again then depends on what the module returned, not on the slot being empty - the body of such a module runs once per import")
		})
	}
	if n == 0 {
		c.Und(rule, "reads of the module cache", "-", "none found in the code reachable from Run")
	}
}

// ---- C20/global-lock-callback --------------------------------------------------------------------------------------------------------------------------
// Converters registered by the host are called by ToObject / ToInterface and may
// convert nested values (call back into ToObject) or register further
// converters.  No package-level mutex of the library is held across a dynamic
// call: a read lock held while the converter runs dead-locks the nested call
// as soon as a writer waits, and a registration from inside a converter at once.
func ruleGlobalLockCallback(c *Ctx, rule string) {
	l := c.L
	n, locks := 0, 0
	for _, fn := range l.RepoFuncs(func(p string) bool { return isLibPkg(p) }) {
		eachInstr(fn, func(ins ssa.Instruction) {
			if _, isDefer := ins.(*ssa.Defer); isDefer {
				return
			}
			ci, ok := ins.(ssa.CallInstruction)
			if !ok {
				return
			}
			f := ci.Common().StaticCallee()
			if f == nil || funcPkgPath(f) != "sync" || (f.Name() != "Lock" && f.Name() != "RLock") || len(ci.Common().Args) == 0 {
				return
			}
			g, isGlobal := ci.Common().Args[0].(*ssa.Global)
			if !isGlobal {
				return
			}
			locks++
			// held until an explicit release of the same mutex, or (deferred) to the end of the function
			var bad []string
			seen := map[*ssa.BasicBlock]bool{}
			var walk func(b *ssa.BasicBlock, from int)
			walk = func(b *ssa.BasicBlock, from int) {
				for _, x := range b.Instrs[from:] {
					xc, isCall := x.(ssa.CallInstruction)
					if !isCall {
						continue
					}
					if _, isDefer := x.(*ssa.Defer); isDefer {
						continue
					}
					if uf := xc.Common().StaticCallee(); uf != nil && funcPkgPath(uf) == "sync" && (uf.Name() == "Unlock" || uf.Name() == "RUnlock") && len(xc.Common().Args) > 0 && xc.Common().Args[0] == ssa.Value(g) {
						return
					}
					if _, isB := xc.Common().Value.(*ssa.Builtin); isB {
						continue
					}
					if xc.Common().StaticCallee() == nil {
						if _, isClosure := xc.Common().Value.(*ssa.MakeClosure); !isClosure {
							bad = append(bad, l.Pos(x.Pos()))
						}
					}
				}
				for _, s := range b.Succs {
					if !seen[s] {
						seen[s] = true
						walk(s, 0)
					}
				}
			}
			for i, x := range ins.Block().Instrs {
				if x == ins {
					walk(ins.Block(), i+1)
				}
			}
			n++
			c.Check(rule, fmt.Sprintf("%s | %s of package-level %s", fnName(fn), f.Name(), g.Name()), l.Pos(ins.Pos()), len(bad) == 0, "no dynamic call while the package-level lock is held",
				"a package-level mutex is held across a call through a function value (at "+strings.Join(bad, ", ")+"): a callback that re-enters the package (a converter converting a nested value, or registering another converter) dead-locks, and every later conversion in the process with it")
		})
	}
	c.Ok(rule, "package-level mutexes of the library", "-", fmt.Sprintf("%d lock sites on package-level mutexes examined", locks))
}

// ---- C06/throw-then-continue (also C02) ---------------------------------------------------------------------------------------------------------
// When a dispatch arm hands an error to the unwinding routine and the routine
// reports it handled (nil result), the VM state is the handler's: stack pointer
// at the handler's level, instruction pointer at the catch block.  The arm must
// go straight back to the head of the dispatch loop; falling into the rest of
// the arm pops operands that are no longer there and clears locals of the
// handling frame.  In every function of the dispatch loop, the "handled" edge
// after a throw leads to the loop head through empty blocks only.
func ruleThrowThenContinue(c *Ctx, rule string, vf *vmFacts) {
	l := c.L
	throwers := map[*ssa.Function]bool{}
	for _, nm := range []string{"throwGenErr", "throw"} {
		if f := l.Method(modPath, "VM", nm); f != nil {
			throwers[f] = true
		}
	}
	if !c.Anchor(rule, "VM.throwGenErr / VM.throw", len(throwers) == 2 && vf.loop != nil) {
		return
	}
	fn := vf.loop
	n := 0
	eachInstr(fn, func(ins ssa.Instruction) {
		cl, ok := ins.(*ssa.Call)
		if !ok || !throwers[cl.Call.StaticCallee()] || cl.Referrers() == nil {
			return
		}
		// the branch on the result
		for _, r := range *cl.Referrers() {
			bo, ok := r.(*ssa.BinOp)
			if !ok || (bo.Op != gotoken.NEQ && bo.Op != gotoken.EQL) || bo.Referrers() == nil {
				continue
			}
			for _, rr := range *bo.Referrers() {
				iff, ok := rr.(*ssa.If)
				if !ok {
					continue
				}
				handled := iff.Block().Succs[1] // err != nil false
				if bo.Op == gotoken.EQL {
					handled = iff.Block().Succs[0]
				}
				n++
				// follow empty blocks
				b := handled
				okc := false
				for i := 0; i < 6 && b != nil; i++ {
					isHead := false
					for _, p := range b.Preds {
						if b.Dominates(p) {
							isHead = true
						}
					}
					if isHead && (b == cl.Block() || b.Dominates(cl.Block())) {
						okc = true
						break
					}
					if len(b.Instrs) == 1 {
						if _, isJump := b.Instrs[0].(*ssa.Jump); isJump {
							b = b.Succs[0]
							continue
						}
					}
					break
				}
				c.Check(rule, fmt.Sprintf("VM.loop | handled %s", cl.Call.StaticCallee().Name()), l.Pos(cl.Pos()), okc, "straight back to the head of the dispatch loop",
					"after the unwinding routine reported the error handled the arm does not return to the head of the dispatch loop: it runs on with the handler's stack pointer, pops operands a second time and clears locals of the handling frame (a caught error turns into a nil result or a nil dereference)")
			}
		}
	})
	if n < 5 {
		c.Und(rule, "handled-throw branches in the dispatch loop", "-", fmt.Sprintf("only %d found", n))
	}
}

// ---- C16/lookahead-restore -------------------------------------------------------------------------------------------------------------------------
// The scanner looks ahead (to decide whether a comment ends the line) and then
// rewinds itself in a deferred closure.  What has to be rewound is the state the
// stepping function depends on: the fields of Scanner that `next` reads before
// it writes them, and writes at all (the read offset and the current character:
// the character decides whether a line start is recorded).  A closure that
// restores the offsets (it stores readOffset) restores every one of them: with
// the current character left as the look-ahead found it - a newline inside a
// block comment - the re-read records a line start that does not exist, and
// every later position is reported one line too low in the file.
func ruleLookaheadRestore(c *Ctx, rule string) {
	l := c.L
	next := l.Method(parserPath, "Scanner", "next")
	st, _ := l.structField(parserPath, "Scanner", "readOffset")
	_, fRO := l.structField(parserPath, "Scanner", "readOffset")
	if !c.Anchor(rule, "parser.Scanner.next / Scanner.readOffset", next != nil && st != nil && fRO >= 0) {
		return
	}
	scannerField := func(addr ssa.Value) (int, bool) {
		fa, ok := addr.(*ssa.FieldAddr)
		if !ok {
			return 0, false
		}
		pt, ok := fa.X.Type().Underlying().(*types.Pointer)
		if !ok || !isNamed(pt.Elem(), parserPath, "Scanner") {
			return 0, false
		}
		return fa.Field, true
	}
	// input state of next: read before written, and written
	written := map[int]bool{}
	var stores []*ssa.Store
	eachInstr(next, func(ins ssa.Instruction) {
		if s, ok := ins.(*ssa.Store); ok {
			if f, ok := scannerField(s.Addr); ok {
				written[f] = true
				stores = append(stores, s)
			}
		}
	})
	input := map[int]bool{}
	eachInstr(next, func(ins ssa.Instruction) {
		ld, ok := ins.(*ssa.UnOp)
		if !ok || ld.Op != gotoken.MUL {
			return
		}
		f, ok := scannerField(ld.X)
		if !ok || !written[f] {
			return
		}
		covered := false
		for _, s := range stores {
			if sf, _ := scannerField(s.Addr); sf == f && instrDominates(s, ld) {
				covered = true
			}
		}
		if !covered {
			input[f] = true
		}
	})
	if !c.Anchor(rule, "state that Scanner.next reads before writing (found none)", len(input) > 0) {
		return
	}
	n := 0
	for _, fn := range l.RepoFuncs(func(p string) bool { return p == parserPath }) {
		if fn.Parent() == nil {
			continue
		}
		// a closure run by a defer of its parent
		deferred := false
		eachInstr(fn.Parent(), func(ins ssa.Instruction) {
			if d, ok := ins.(*ssa.Defer); ok {
				if mc, ok := d.Call.Value.(*ssa.MakeClosure); ok && mc.Fn == ssa.Value(fn) {
					deferred = true
				}
			}
		})
		if !deferred {
			continue
		}
		storedHere := map[int]bool{}
		eachInstr(fn, func(ins ssa.Instruction) {
			if s, ok := ins.(*ssa.Store); ok {
				if f, ok := scannerField(s.Addr); ok {
					storedHere[f] = true
				}
			}
		})
		if !storedHere[fRO] {
			continue // not a rewind
		}
		n++
		var missing []string
		for f := range input {
			if !storedHere[f] {
				missing = append(missing, st.Field(f).Name())
			}
		}
		sort.Strings(missing)
		c.Check(rule, fnName(fn)+" | scanner rewound after a look-ahead", l.Pos(fn.Pos()), len(missing) == 0, "restores every field the stepping function reads before writing",
			"the rewind restores the offsets but not "+strings.Join(missing, ", ")+", which Scanner.next reads before writing: re-reading after the look-ahead starts from a stale value (a newline seen inside a block comment records a line start that does not exist, and every later error position names the wrong line)")
	}
	if n == 0 {
		c.Und(rule, "deferred rewinds of the scanner", "-", "none found")
	}
}
