package main

import (
	"go/ast"
	"go/constant"
	"go/token"
	"go/types"

	"golang.org/x/tools/go/ssa"
)

// Element ranges: an interval that contains every element of an integer slice
// or array value, established structurally:
//
//   - a slice made in this function (make): zero joined with every value
//     stored through an index on it, provided the slice is otherwise only read
//     (indexed, ranged, measured, re-sliced) or passed to repository functions
//     that only read the parameter;
//   - a parameter of a function whose call sites are all known (unexported,
//     never used as a value): the join over the arguments of all call sites;
//   - an element of a package-level table initialised by a composite literal
//     and never written by repository code: the join of the integer constants
//     of the literal.
//
// Assumption (recorded in the evidence): programs embedding the library do not
// assign to the exported opcode tables.

var elemRangeMemo = map[ssa.Value]*ival{}

func elemRange(v ssa.Value, ptrBits, depth int) (ival, bool) {
	if depth > 4 || gL == nil {
		return fullRange(), false
	}
	if r, ok := elemRangeMemo[v]; ok {
		if r == nil {
			return fullRange(), false
		}
		return *r, true
	}
	elemRangeMemo[v] = nil // recursion guard
	r, ok := elemRange1(v, ptrBits, depth)
	if ok {
		rr := ival{lo: r.lo, hi: r.hi}
		elemRangeMemo[v] = &rr
		return rr, true
	}
	return fullRange(), false
}

func elemIsInt(t types.Type) bool {
	var et types.Type
	switch u := t.Underlying().(type) {
	case *types.Slice:
		et = u.Elem()
	case *types.Array:
		et = u.Elem()
	case *types.Pointer:
		if a, ok := u.Elem().Underlying().(*types.Array); ok {
			et = a.Elem()
		}
	}
	if et == nil {
		return false
	}
	_, _, ok := isIntegerType(et)
	return ok
}

func elemRange1(v ssa.Value, ptrBits, depth int) (ival, bool) {
	if !elemIsInt(v.Type()) {
		return fullRange(), false
	}
	// make([]T, constant) is compiled to a slice of a fresh array
	if sl, ok := v.(*ssa.Slice); ok {
		if al, ok := sl.X.(*ssa.Alloc); ok && al.Referrers() != nil && len(*al.Referrers()) == 1 {
			return madeSliceRange(sl, ptrBits)
		}
	}
	switch x := v.(type) {
	case *ssa.MakeSlice:
		return madeSliceRange(x, ptrBits)
	case *ssa.Index:
		// a row of a (copied) package-level table
		if u, ok := x.X.(*ssa.UnOp); ok && u.Op == token.MUL {
			if g, ok := u.X.(*ssa.Global); ok {
				return tableLeafRange(g)
			}
		}
	}
	switch x := v.(type) {
	case *ssa.Slice:
		return elemRange(x.X, ptrBits, depth+1)
	case *ssa.Parameter:
		fn := x.Parent()
		if fn == nil || fn.Parent() != nil || gL.AddressTaken(fn) || gL.mayBeInvoked(fn) {
			return fullRange(), false
		}
		idx := -1
		for k, q := range fn.Params {
			if q == x {
				idx = k
			}
		}
		cs := gL.RealCallers(fn)
		if idx < 0 || len(cs) == 0 {
			return fullRange(), false
		}
		j := ival{lo: posInf, hi: negInf}
		for _, ci := range cs {
			args := ci.Common().Args
			if idx >= len(args) {
				return fullRange(), false
			}
			ar, ok := elemRange(args[idx], ptrBits, depth+1)
			if !ok {
				return fullRange(), false
			}
			if ar.lo < j.lo {
				j.lo = ar.lo
			}
			if ar.hi > j.hi {
				j.hi = ar.hi
			}
		}
		return j, j.lo <= j.hi
	case *ssa.UnOp:
		if x.Op != token.MUL {
			return fullRange(), false
		}
		// an element (row) of a package-level table of integer slices
		if ia, ok := x.X.(*ssa.IndexAddr); ok {
			if g, ok := ia.X.(*ssa.Global); ok {
				return tableLeafRange(g)
			}
		}
		if g, ok := x.X.(*ssa.Global); ok {
			return tableLeafRange(g)
		}
	case *ssa.Global:
		return tableLeafRange(x)
	}
	return fullRange(), false
}

// readOnlyExceptStores: the slice value is used only by element stores in its
// own function, reads, and calls whose parameter is read-only.
func readOnlyExceptStores(v ssa.Value, depth int) bool {
	return sliceUses(v, depth, true)
}

var roParamMemo = map[*ssa.Parameter]int{}

// sliceUses checks every use of the slice (or pointer-to-array) value v.
func sliceUses(v ssa.Value, depth int, allowStores bool) bool {
	if depth > 4 || v.Referrers() == nil {
		return false
	}
	for _, r := range *v.Referrers() {
		switch u := r.(type) {
		case *ssa.IndexAddr:
			if u.X != v || u.Referrers() == nil {
				return false
			}
			for _, rr := range *u.Referrers() {
				switch w := rr.(type) {
				case *ssa.UnOp:
					if w.Op != token.MUL {
						return false
					}
				case *ssa.Store:
					if w.Addr != ssa.Value(u) || !allowStores {
						return false
					}
				default:
					return false
				}
			}
		case *ssa.Index:
		case *ssa.Slice:
			if u.X != v || !sliceUses(u, depth+1, false) {
				return false
			}
		case *ssa.Range, *ssa.DebugRef:
		case *ssa.Phi:
			if !sliceUses(u, depth+1, false) {
				return false
			}
		case *ssa.BinOp: // comparison with nil
		case ssa.CallInstruction:
			com := u.Common()
			if bi, ok := com.Value.(*ssa.Builtin); ok {
				switch bi.Name() {
				case "len", "cap":
					continue
				case "copy", "append":
					if len(com.Args) == 2 && com.Args[1] == v && com.Args[0] != v {
						continue // source operand only
					}
				}
				return false
			}
			f := com.StaticCallee()
			if f == nil || len(f.Blocks) == 0 {
				return false
			}
			for i, a := range com.Args {
				if a != v {
					continue
				}
				if i >= len(f.Params) || !readOnlyParam(f.Params[i], depth+1) {
					return false
				}
			}
		default:
			return false
		}
	}
	return true
}

func readOnlyParam(p *ssa.Parameter, depth int) bool {
	if r, ok := roParamMemo[p]; ok {
		return r == 1
	}
	roParamMemo[p] = 2
	if sliceUses(p, depth, false) {
		roParamMemo[p] = 1
		return true
	}
	return false
}

var tableLeafMemo = map[*ssa.Global]*ival{}

// tableLeafRange: the join of all integer constants in the composite literal
// that initialises the package-level variable g, provided no repository code
// outside the package initialiser writes g or anything reached from it.
func tableLeafRange(g *ssa.Global) (ival, bool) {
	if r, ok := tableLeafMemo[g]; ok {
		if r == nil {
			return fullRange(), false
		}
		return *r, true
	}
	tableLeafMemo[g] = nil
	if g.Pkg == nil {
		return fullRange(), false
	}
	p := gL.ByPath[g.Pkg.Pkg.Path()]
	if p == nil {
		return fullRange(), false
	}
	lit := globalInitLit(g)
	if lit == nil {
		return fullRange(), false
	}
	j := ival{lo: 0, hi: 0} // missing keys of an array literal are zero rows / zero elements
	okAll := true
	var walk func(e ast.Expr)
	walk = func(e ast.Expr) {
		e = ast.Unparen(e)
		if cl, ok := e.(*ast.CompositeLit); ok {
			for _, el := range cl.Elts {
				if kv, ok := el.(*ast.KeyValueExpr); ok {
					walk(kv.Value)
				} else {
					walk(el)
				}
			}
			return
		}
		tv, ok := p.TypesInfo.Types[e]
		if !ok || tv.Value == nil || tv.Value.Kind() != constant.Int {
			okAll = false
			return
		}
		k, exact := constant.Int64Val(tv.Value)
		if !exact {
			okAll = false
			return
		}
		if k < j.lo {
			j.lo = k
		}
		if k > j.hi {
			j.hi = k
		}
	}
	walk(lit)
	if !okAll {
		return fullRange(), false
	}
	// no writer: every use of the global in repository code (outside the
	// package initialiser) only reads
	for _, fn := range gL.RepoFuncs(nil) {
		if fn.Synthetic != "" && fn.Name() == "init" {
			continue
		}
		bad := false
		eachInstr(fn, func(ins ssa.Instruction) {
			var ops []*ssa.Value
			for _, op := range ins.Operands(ops) {
				if op == nil || *op != ssa.Value(g) {
					continue
				}
				switch u := ins.(type) {
				case *ssa.UnOp: // load of the whole table (a copy for arrays; for slices the rows are shared)
					if u.Op != token.MUL || !tableValueReadOnly(u, 0) {
						bad = true
					}
				case *ssa.IndexAddr:
					if !tableAddrReadOnly(u, 0) {
						bad = true
					}
				default:
					bad = true
				}
			}
		})
		if bad {
			return fullRange(), false
		}
	}
	tableLeafMemo[g] = &j
	return j, true
}

// tableAddrReadOnly: &table[i] is only loaded from, and the loaded row (if it
// is a slice) is only read.
func tableAddrReadOnly(ia *ssa.IndexAddr, depth int) bool {
	if ia.Referrers() == nil || depth > 3 {
		return false
	}
	for _, r := range *ia.Referrers() {
		u, ok := r.(*ssa.UnOp)
		if !ok || u.Op != token.MUL {
			if _, isDbg := r.(*ssa.DebugRef); isDbg {
				continue
			}
			return false
		}
		if !tableValueReadOnly(u, depth+1) {
			return false
		}
	}
	return true
}

// tableValueReadOnly: a value loaded from the table (a row slice, a copy of
// the array, or an integer) is only read.
func tableValueReadOnly(v ssa.Value, depth int) bool {
	switch v.Type().Underlying().(type) {
	case *types.Slice:
		return sliceUses(v, depth, false)
	case *types.Array:
		// a copy: its own uses cannot write the table, but rows extracted from
		// it are still shared
		if v.Referrers() == nil {
			return false
		}
		for _, r := range *v.Referrers() {
			switch u := r.(type) {
			case *ssa.Index:
				if !tableValueReadOnly(u, depth+1) {
					return false
				}
			case *ssa.Range, *ssa.DebugRef:
			case ssa.CallInstruction:
				if bi, ok := u.Common().Value.(*ssa.Builtin); !ok || (bi.Name() != "len" && bi.Name() != "cap") {
					return false
				}
			case *ssa.Store:
				// stored into a local copy (range over an array copies it)
				al, ok := u.Addr.(*ssa.Alloc)
				if !ok || u.Val != v || !localArrayReadOnly(al, depth+1) {
					return false
				}
			default:
				return false
			}
		}
		return true
	default:
		return true // scalars
	}
}

func localArrayReadOnly(al *ssa.Alloc, depth int) bool {
	if al.Referrers() == nil || depth > 4 {
		return false
	}
	for _, r := range *al.Referrers() {
		switch u := r.(type) {
		case *ssa.Store:
			if u.Addr != ssa.Value(al) {
				return false
			}
		case *ssa.IndexAddr:
			if !tableAddrReadOnly(u, depth) {
				return false
			}
		case *ssa.UnOp, *ssa.DebugRef, *ssa.Range:
		case ssa.CallInstruction:
			if bi, ok := u.Common().Value.(*ssa.Builtin); !ok || (bi.Name() != "len" && bi.Name() != "cap") {
				return false
			}
		default:
			return false
		}
	}
	return true
}

// globalInitLit: the composite literal initialising the package-level variable g.
func globalInitLit(g *ssa.Global) *ast.CompositeLit {
	if g.Pkg == nil {
		return nil
	}
	p := gL.ByPath[g.Pkg.Pkg.Path()]
	if p == nil {
		return nil
	}
	var lit *ast.CompositeLit
	for _, f := range p.Syntax {
		for _, d := range f.Decls {
			gd, ok := d.(*ast.GenDecl)
			if !ok || gd.Tok != token.VAR {
				continue
			}
			for _, sp := range gd.Specs {
				vs := sp.(*ast.ValueSpec)
				for i, n := range vs.Names {
					if p.TypesInfo.Defs[n] == g.Object() && i < len(vs.Values) {
						lit, _ = ast.Unparen(vs.Values[i]).(*ast.CompositeLit)
					}
				}
			}
		}
	}
	return lit
}

// madeSliceRange: zero joined with every value stored into the freshly made
// slice x, provided x is otherwise only read.
func madeSliceRange(x ssa.Value, ptrBits int) (ival, bool) {
	if !readOnlyExceptStores(x, 0) {
		return fullRange(), false
	}
	j := ival{lo: 0, hi: 0}
	okAll := true
	for _, r := range *x.Referrers() {
		ia, ok := r.(*ssa.IndexAddr)
		if !ok || ia.X != ssa.Value(x) || ia.Referrers() == nil {
			continue
		}
		for _, rr := range *ia.Referrers() {
			st, ok := rr.(*ssa.Store)
			if !ok || st.Addr != ssa.Value(ia) {
				continue
			}
			sr := rangeAtD(st.Val, st.Block(), ptrBits, 2)
			if sr.lo == negInf && sr.hi == posInf {
				okAll = false
			}
			if sr.lo < j.lo {
				j.lo = sr.lo
			}
			if sr.hi > j.hi {
				j.hi = sr.hi
			}
		}
	}
	return j, okAll
}

var mapLeafMemo = map[*ssa.Global]*ival{}

// mapLeafRange: join of zero and the constant VALUES of the map literal that
// initialises g, provided repository code outside the package initialiser
// only reads the map (lookups, len, range) and never passes it on.
func mapLeafRange(g *ssa.Global) (ival, bool) {
	if r, ok := mapLeafMemo[g]; ok {
		if r == nil {
			return fullRange(), false
		}
		return *r, true
	}
	mapLeafMemo[g] = nil
	if gL == nil || g.Pkg == nil {
		return fullRange(), false
	}
	p := gL.ByPath[g.Pkg.Pkg.Path()]
	lit := globalInitLit(g)
	if p == nil || lit == nil {
		return fullRange(), false
	}
	j := ival{lo: 0, hi: 0}
	for _, el := range lit.Elts {
		kv, ok := el.(*ast.KeyValueExpr)
		if !ok {
			return fullRange(), false
		}
		tv, ok := p.TypesInfo.Types[kv.Value]
		if !ok || tv.Value == nil || tv.Value.Kind() != constant.Int {
			return fullRange(), false
		}
		k, exact := constant.Int64Val(tv.Value)
		if !exact {
			return fullRange(), false
		}
		if k < j.lo {
			j.lo = k
		}
		if k > j.hi {
			j.hi = k
		}
	}
	for _, fn := range gL.RepoFuncs(nil) {
		if fn.Synthetic != "" && fn.Name() == "init" {
			continue
		}
		bad := false
		eachInstr(fn, func(ins ssa.Instruction) {
			var ops []*ssa.Value
			for _, op := range ins.Operands(ops) {
				if op == nil || *op != ssa.Value(g) {
					continue
				}
				u, ok := ins.(*ssa.UnOp)
				if !ok || u.Op != token.MUL || u.Referrers() == nil {
					bad = true
					continue
				}
				for _, r := range *u.Referrers() {
					switch x := r.(type) {
					case *ssa.Lookup, *ssa.Range, *ssa.DebugRef:
					case ssa.CallInstruction:
						if bi, ok := x.Common().Value.(*ssa.Builtin); !ok || bi.Name() != "len" {
							bad = true
						}
					default:
						bad = true
					}
				}
			}
		})
		if bad {
			return fullRange(), false
		}
	}
	mapLeafMemo[g] = &j
	return j, true
}
