package main

// Rules added after the third round of independently seeded changes.

import (
	"fmt"
	"go/ast"
	"go/token"
	"go/types"
	"strings"

	"golang.org/x/tools/go/ssa"
)

// ---- deep-copy discipline (C08, C12) -------------------------------------------------
// In every Copy method of a Copier type, a component of the result whose
// type itself implements Copier (map elements, Map / *Error fields, ...) must
// come from a Copy() call (or be freshly built), never be the receiver's own
// component: a shallow copy shares mutable state between VMs.
func ruleDeepCopy(c *Ctx, rule string) {
	l := c.L
	copier := l.NamedType(modPath, "Copier")
	if !c.Anchor(rule, "interface Copier", copier != nil) {
		return
	}
	ci := copier.Underlying().(*types.Interface)
	implements := func(t types.Type) bool {
		if t == nil {
			return false
		}
		if _, isI := t.Underlying().(*types.Interface); isI {
			return false
		}
		return types.Implements(t, ci) || types.Implements(types.NewPointer(t), ci)
	}
	n := 0
	for _, T := range objectTypes(l, modPath) {
		if !types.Implements(T, ci) {
			continue
		}
		fn := l.Method(modPath, namedOf(T).Obj().Name(), "Copy")
		if fn == nil || len(fn.Blocks) == 0 {
			continue
		}
		recv := fn.Params[0]
		// stores of struct fields of a freshly allocated result
		eachInstr(fn, func(ins ssa.Instruction) {
			st, ok := ins.(*ssa.Store)
			if !ok {
				return
			}
			fa, ok := st.Addr.(*ssa.FieldAddr)
			if !ok {
				return
			}
			if _, fresh := fa.X.(*ssa.Alloc); !fresh {
				return
			}
			ft := st.Val.Type()
			if !implements(ft) {
				return
			}
			// only mutable components matter: maps, slices, pointers
			switch ft.Underlying().(type) {
			case *types.Map, *types.Slice, *types.Pointer:
			default:
				return
			}
			n++
			stt := fa.X.Type().Underlying().(*types.Pointer).Elem().Underlying().(*types.Struct)
			key := fmt.Sprintf("%s.Copy | field %s", tstr(T), stt.Field(fa.Field).Name())
			// the value must not be a plain load of the receiver's field
			shared := false
			if u, ok := stripChange(st.Val).(*ssa.UnOp); ok && u.Op == token.MUL {
				if rfa, ok := u.X.(*ssa.FieldAddr); ok && rfa.X == ssa.Value(recv) {
					shared = true
				}
			}
			if f, ok := stripChange(st.Val).(*ssa.Field); ok && f.X == ssa.Value(recv) {
				shared = true
			}
			c.Check(rule, key, l.Pos(st.Pos()), !shared, "component is copied (Copy() or rebuilt)", "the copy shares this mutable component with the original: a script's change through one VM's copy is visible in every other copy (and in the Bytecode constant)")
		})
	}
	// elements of containers: an element of the receiver placed into the result as it
	// is must have failed the Copier test (it is a scalar); a bulk copy() of the
	// receiver's elements tests nothing
	for _, T := range objectTypes(l, modPath) {
		if !types.Implements(T, ci) {
			continue
		}
		fn := l.Method(modPath, namedOf(T).Obj().Name(), "Copy")
		if fn == nil || len(fn.Blocks) == 0 {
			continue
		}
		recv := fn.Params[0]
		fromRecv := func(x ssa.Value) bool {
			return derivesFrom(x, func(v ssa.Value) bool { return v == ssa.Value(recv) }, 4)
		}
		isElem := func(v ssa.Value) bool {
			switch x := v.(type) {
			case *ssa.Extract:
				if nx, ok := x.Tuple.(*ssa.Next); ok && x.Index == 2 {
					if rg, ok := nx.Iter.(*ssa.Range); ok {
						return fromRecv(rg.X)
					}
				}
			case *ssa.UnOp:
				if ia, ok := x.X.(*ssa.IndexAddr); ok && x.Op == token.MUL {
					return fromRecv(ia.X)
				}
			case *ssa.Lookup:
				return fromRecv(x.X)
			}
			return false
		}
		notCopier := func(v ssa.Value, at *ssa.BasicBlock) bool {
			for _, g := range guardEdges(at) {
				ex, ok := g.If.Cond.(*ssa.Extract)
				if !ok || ex.Index != 1 || g.Truth {
					continue
				}
				if ta, ok := ex.Tuple.(*ssa.TypeAssert); ok && ta.CommaOk && ta.X == v && types.Identical(ta.AssertedType, copier) {
					return true
				}
			}
			return false
		}
		eachInstr(fn, func(ins ssa.Instruction) {
			var val ssa.Value
			switch x := ins.(type) {
			case *ssa.MapUpdate:
				val = x.Value
			case *ssa.Store:
				if _, ok := x.Addr.(*ssa.IndexAddr); ok {
					val = x.Val
				}
			case *ssa.Call:
				if b, ok := x.Call.Value.(*ssa.Builtin); ok && b.Name() == "copy" && len(x.Call.Args) == 2 && fromRecv(x.Call.Args[1]) {
					if sl, ok := x.Call.Args[1].Type().Underlying().(*types.Slice); ok {
						if _, isI := sl.Elem().Underlying().(*types.Interface); isI {
							n++
							c.Bad(rule, fmt.Sprintf("%s.Copy | copy() of the receiver's elements", tstr(T)), l.Pos(x.Pos()), "the elements of the receiver are copied in bulk: nested arrays and maps are shared between the copy and the original (a builtin module's nested values are then shared by every VM)")
						}
					}
				}
				return
			default:
				return
			}
			if val == nil || !isElem(val) {
				return
			}
			if _, isI := val.Type().Underlying().(*types.Interface); !isI {
				return // plain data (positions, numbers): nothing to share
			}
			n++
			c.Check(rule, fmt.Sprintf("%s.Copy | element of the receiver placed into the result", tstr(T)), l.Pos(ins.Pos()), notCopier(val, ins.Block()), "only on the branch where the element is not a Copier",
				"an element of the receiver is placed into the copy as it is without having failed the Copier test: nested containers are shared between the copy and the original")
		})
	}
	if n == 0 {
		c.Und(rule, "Copy methods", "-", "no Copier-typed component found in any Copy method")
	}
}

// ---- defer-unlock (C06, C07) -----------------------------------------------------------
// A mutex taken in a function that afterwards calls code which can panic
// must be released by a deferred Unlock: an explicit Unlock is skipped when a
// panic unwinds through the function and the object stays locked forever.
func ruleDeferUnlock(c *Ctx, rule string, fns []*ssa.Function) {
	l := c.L
	n := 0
	for _, fn := range fns {
		eachInstr(fn, func(ins ssa.Instruction) {
			cl, ok := ins.(*ssa.Call)
			if !ok {
				return
			}
			f := cl.Call.StaticCallee()
			if f == nil || f.Pkg == nil || f.Pkg.Pkg.Path() != "sync" || (f.Name() != "Lock" && f.Name() != "RLock") {
				// wrappers such as (*SyncMap).RLock
				if f == nil || !(f.Name() == "Lock" || f.Name() == "RLock") || !strings.HasPrefix(funcPkgPath(f), modPath) {
					return
				}
			}
			if len(cl.Call.Args) == 0 {
				return
			}
			mu := cl.Call.Args[0]
			unlockName := "Unlock"
			if f.Name() == "RLock" {
				unlockName = "RUnlock"
			}
			deferred := false
			var explicit []ssa.Instruction
			eachInstr(fn, func(x ssa.Instruction) {
				ci, ok := x.(ssa.CallInstruction)
				if !ok {
					return
				}
				uf := ci.Common().StaticCallee()
				if uf == nil || uf.Name() != unlockName || len(ci.Common().Args) == 0 {
					return
				}
				a0 := ci.Common().Args[0]
				same := a0 == mu || exprEq(a0, mu) || samePath(a0, mu)
				if phi, ok := a0.(*ssa.Phi); ok {
					for _, e := range phi.Edges {
						if e == mu {
							same = true
						}
					}
				}
				if !same {
					return
				}
				if _, isDefer := x.(*ssa.Defer); isDefer {
					deferred = true
				} else {
					explicit = append(explicit, x)
				}
			})
			if deferred || len(explicit) == 0 {
				return
			}
			// explicit unlock(s): any call that can panic between the lock and an unlock?
			risky := ""
			eachInstr(fn, func(x ssa.Instruction) {
				ci, ok := x.(ssa.CallInstruction)
				if !ok || x == ssa.Instruction(cl) {
					return
				}
				if _, isB := ci.Common().Value.(*ssa.Builtin); isB {
					return
				}
				isUnlock := false
				for _, e := range explicit {
					if e == x {
						isUnlock = true
					}
				}
				if isUnlock {
					return
				}
				after := false
				if x.Block() == cl.Block() {
					after = instrIndex(x) > instrIndex(cl)
				} else {
					after = blockReaches(cl.Block(), x.Block())
				}
				if !after {
					return
				}
				// before some explicit unlock?
				for _, e := range explicit {
					before := false
					if x.Block() == e.Block() {
						before = instrIndex(x) < instrIndex(e)
					} else {
						before = blockReaches(x.Block(), e.Block())
					}
					if before {
						if cf := ci.Common().StaticCallee(); cf != nil {
							risky = cf.Name()
						} else {
							risky = "dynamic call"
						}
					}
				}
			})
			if risky == "" {
				return // only field and builtin operations under the lock
			}
			n++
			c.Bad(rule, fmt.Sprintf("%s | %s without deferred %s", fnName(fn), f.Name(), unlockName), l.Pos(cl.Pos()),
				"the lock is released by explicit "+unlockName+" calls while "+risky+"() runs under it: a panic unwinding through this function (recovered further up) leaves the object locked and the next use blocks forever")
		})
	}
	c.Ok(rule, "lock sites scanned", "-", fmt.Sprintf("%d functions scanned, %d lock(s) released only explicitly around calls", len(fns), n))
}

// ---- unary operators (C15) -----------------------------------------------------------------
// In the VM's unary-operator routine every (token, type) arm applies the Go
// unary operator of its token to the operand itself.
func ruleUnary(c *Ctx, rule string) {
	l := c.L
	p := l.ByPath[modPath]
	info := p.TypesInfo
	toks := tokenConsts(l)
	want := map[int64]token.Token{toks["Sub"]: token.SUB, toks["Xor"]: token.XOR}
	// the routine: VM method whose body switches over token constants Not/Sub/Xor/Add
	var fd *ast.FuncDecl
	for _, f := range p.Syntax {
		for _, d := range f.Decls {
			x, ok := d.(*ast.FuncDecl)
			if !ok || x.Body == nil || x.Recv == nil {
				continue
			}
			hits := 0
			ast.Inspect(x.Body, func(n ast.Node) bool {
				if cl, ok := n.(*ast.CaseClause); ok {
					for _, e := range cl.List {
						if tv, ok := info.Types[e]; ok && tv.Value != nil && isNamed(tv.Type, modPath+"/token", "Token") {
							if k, ok := constInt(tv); ok && (k == toks["Not"] || k == toks["Xor"]) {
								hits++
							}
						}
					}
				}
				return true
			})
			if hits >= 2 && isNamed(info.TypeOf(x.Recv.List[0].Type), modPath, "VM") {
				fd = x
			}
		}
	}
	if !c.Anchor(rule, "the VM's unary-operator routine (switch over token.Not / Sub / Xor)", fd != nil) {
		return
	}
	ast.Inspect(fd.Body, func(n ast.Node) bool {
		cl, ok := n.(*ast.CaseClause)
		if !ok || len(cl.List) != 1 {
			return true
		}
		tv, ok := info.Types[cl.List[0]]
		if !ok || tv.Value == nil || !isNamed(tv.Type, modPath+"/token", "Token") {
			return true
		}
		k, _ := constInt(tv)
		gop, ok := want[k]
		if !ok {
			return true
		}
		// inner type switch arms for numeric operand types
		ast.Inspect(cl, func(m ast.Node) bool {
			tc, ok := m.(*ast.CaseClause)
			if !ok || tc == cl || len(tc.List) != 1 {
				return true
			}
			ot := info.TypeOf(tc.List[0])
			if ot == nil || namedOf(ot) == nil {
				return true
			}
			name := namedOf(ot).Obj().Name()
			if name == "Bool" {
				return true // constants per truth value
			}
			for _, s := range tc.Body {
				as, ok := s.(*ast.AssignStmt)
				if !ok || len(as.Rhs) != 1 {
					continue
				}
				x := stripConv(info, as.Rhs[0])
				u, isU := x.(*ast.UnaryExpr)
				good := isU && u.Op == gop
				c.Check(rule, fmt.Sprintf("unary %s %s", gop, name), l.Pos(as.Pos()), good, "applies the Go unary operator "+gop.String(),
					fmt.Sprintf("unary %s on %s is computed as %s instead of applying the Go operator to the operand (e.g. 0 - x loses the sign of a float zero)", gop, name, exprShape(info, as.Rhs[0], nil)))
			}
			return true
		})
		return true
	})
}

// ---- gob-iface (C04) ---------------------------------------------------------------------------
// Values without a dedicated marshaler are written with gob as INTERFACE
// values (Encode(&v) with v of interface type), because the reader decodes
// into an interface; Encode(v) writes a concrete value the reader rejects.
func ruleGobIface(c *Ctx, rule string) {
	l := c.L
	n := 0
	for _, fn := range l.RepoFuncs(func(pp string) bool { return pp == encPath }) {
		eachInstr(fn, func(ins ssa.Instruction) {
			cl, ok := ins.(*ssa.Call)
			if !ok {
				return
			}
			f := cl.Call.StaticCallee()
			if f == nil || f.Pkg == nil || f.Pkg.Pkg.Path() != "encoding/gob" || f.Name() != "Encode" || len(cl.Call.Args) != 2 {
				return
			}
			n++
			arg := cl.Call.Args[1]
			good := false
			if mi, ok := arg.(*ssa.MakeInterface); ok {
				if pt, ok := mi.X.Type().Underlying().(*types.Pointer); ok {
					if _, isI := pt.Elem().Underlying().(*types.Interface); isI {
						good = true
					}
				}
			}
			c.Check(rule, fnName(fn)+" | gob Encode", l.Pos(cl.Pos()), good, "encodes a pointer to an interface value", "gob.Encode is given the concrete value instead of a pointer to the interface: the decoder, which decodes into an interface, rejects the stream ('can only be decoded from remote interface type')")
		})
	}
	if n == 0 {
		c.Und(rule, "gob fallback", "-", "no gob.Encode call found in the codec")
	}
}

// ---- copy-all-fields (C11, C04) -----------------------------------------------------------------
// A function that publishes one Bytecode into another field by field must
// copy every field.
func ruleCopyAllFields(c *Ctx, rule string) {
	l := c.L
	n := 0
	for _, fn := range l.RepoFuncs(func(pp string) bool { return pp == encPath }) {
		// field-wise copies: stores d.f = s.f between two values of one struct layout
		type pairKey struct {
			d, s ssa.Value
		}
		type info struct {
			st     *types.Struct
			name   string
			copied map[int]bool
			pos    token.Pos
		}
		copies := map[pairKey]*info{}
		var order []pairKey
		eachInstr(fn, func(ins ssa.Instruction) {
			s, ok := ins.(*ssa.Store)
			if !ok {
				return
			}
			dfa, ok := s.Addr.(*ssa.FieldAddr)
			if !ok {
				return
			}
			dpt, ok := dfa.X.Type().Underlying().(*types.Pointer)
			if !ok {
				return
			}
			dst, ok := dpt.Elem().Underlying().(*types.Struct)
			if !ok {
				return
			}
			u, ok := stripChange(s.Val).(*ssa.UnOp)
			if !ok {
				return
			}
			sfa, ok := u.X.(*ssa.FieldAddr)
			if !ok || sfa.Field != dfa.Field || sfa.X == dfa.X {
				return
			}
			spt, ok := sfa.X.Type().Underlying().(*types.Pointer)
			if !ok || !types.Identical(spt.Elem().Underlying(), dst) {
				return
			}
			k := pairKey{dfa.X, sfa.X}
			if copies[k] == nil {
				copies[k] = &info{st: dst, name: tstr(dpt.Elem()), copied: map[int]bool{}}
				order = append(order, k)
			}
			copies[k].copied[dfa.Field] = true
			copies[k].pos = s.Pos()
		})
		for _, k := range order {
			in := copies[k]
			if len(in.copied) < 2 {
				continue
			}
			n++
			var missing []string
			for i := 0; i < in.st.NumFields(); i++ {
				f := in.st.Field(i)
				if es, ok := f.Type().Underlying().(*types.Struct); ok && es.NumFields() == 0 {
					continue // an embedded empty struct (ObjectImpl) carries nothing
				}
				if !in.copied[i] {
					missing = append(missing, f.Name())
				}
			}
			key := fnName(fn) + " | field-wise copy of a " + in.name
			if kk := countKey(key); kk > 1 {
				key += fmt.Sprintf(" #%d", kk)
			}
			c.Check(rule, key, l.Pos(in.pos), len(missing) == 0, "all fields copied", "a "+in.name+" is copied field by field but "+strings.Join(missing, ", ")+" is left out: the decoded value loses it (a Bytecode its file set, so errors report no positions; a builtin function its ValueEx, so `globals` no longer sees the VM)")
		}
	}
	resetKeyCount()
	if n == 0 {
		c.Ok(rule, "no field-wise struct copies", "-", "decoders copy whole struct values or fill the caller's value directly")
	}
}

// ---- conv-nil (C20) ------------------------------------------------------------------------------
// A converter registered for a pointer type must test the pointer for nil
// before dereferencing it (a typed nil pointer is a legal Go value).
func ruleConvNil(c *Ctx, rule string) {
	l := c.L
	reg := l.Func(modPath+"/registry", "RegisterObjectConverter")
	regAny := l.Func(modPath+"/registry", "RegisterAnyConverter")
	if !c.Anchor(rule, "registry.RegisterObjectConverter / RegisterAnyConverter", reg != nil && regAny != nil) {
		return
	}
	n := 0
	for _, ci := range append(append([]ssa.CallInstruction{}, l.StaticCallers(reg)...), l.StaticCallers(regAny)...) {
		args := ci.Common().Args
		if len(args) != 2 {
			continue
		}
		var conv *ssa.Function
		switch v := args[1].(type) {
		case *ssa.MakeClosure:
			conv, _ = v.Fn.(*ssa.Function)
		case *ssa.Function:
			conv = v
		case *ssa.ChangeType:
			if f, ok := v.X.(*ssa.Function); ok {
				conv = f
			}
			if mc, ok := v.X.(*ssa.MakeClosure); ok {
				conv, _ = mc.Fn.(*ssa.Function)
			}
		}
		if conv == nil {
			continue
		}
		eachInstr(conv, func(ins ssa.Instruction) {
			ta, ok := ins.(*ssa.TypeAssert)
			if !ok {
				return
			}
			if _, isPtr := ta.AssertedType.Underlying().(*types.Pointer); !isPtr {
				return
			}
			var val ssa.Value = ta
			if ta.CommaOk {
				val = nil
				if ta.Referrers() != nil {
					for _, r := range *ta.Referrers() {
						if ex, ok := r.(*ssa.Extract); ok && ex.Index == 0 {
							val = ex
						}
					}
				}
			}
			if val == nil || val.Referrers() == nil {
				return
			}
			for _, r := range *val.Referrers() {
				// a dereference of the asserted pointer: *p, or p.field
				var u ssa.Instruction
				switch x := r.(type) {
				case *ssa.UnOp:
					if x.Op == token.MUL && x.X == val {
						u = x
					}
				case *ssa.FieldAddr:
					if x.X == val {
						u = x
					}
				}
				if u == nil {
					continue
				}
				n++
				guarded := false
				for _, g := range guardEdges(u.Block()) {
					bo, ok := g.If.Cond.(*ssa.BinOp)
					if !ok {
						continue
					}
					for _, pr := range [][2]ssa.Value{{bo.X, bo.Y}, {bo.Y, bo.X}} {
						if cst, ok := pr[1].(*ssa.Const); ok && cst.IsNil() && pr[0] == val {
							if (bo.Op == token.NEQ && g.Truth) || (bo.Op == token.EQL && !g.Truth) {
								guarded = true
							}
						}
					}
				}
				c.Check(rule, fmt.Sprintf("%s | converter for %s", fnName(ci.Parent()), tstr(ta.AssertedType)), l.Pos(u.Pos()), guarded, "dereference dominated by a nil test", "the converter dereferences the asserted pointer without a nil test: a typed nil pointer of this type makes ToObject / ToInterface panic instead of returning a value or an error")
			}
		})
	}
	if n == 0 {
		c.Ok(rule, "registered converters", "-", "no converter dereferences a pointer operand")
	}
}

// ---- release-clears (C14) ---------------------------------------------------------------------------
func ruleReleaseClears(c *Ctx, rule string) {
	l := c.L
	rel := l.Method(modPath, "Invoker", "Release")
	if !c.Anchor(rule, "Invoker.Release", rel != nil) {
		return
	}
	_, ok := mustPassBefore(rel.Blocks[0].Instrs[0], storesFieldIdx(l, modPath, "Invoker", invokerChildField(l)), isReturn)
	c.Check(rule, "Invoker.Release", l.Pos(rel.Pos()), ok, "inv.child is cleared on every path", "Release can return without clearing the invoker's child: a later Invoke runs on a VM that is back in the pool (wiped, or already handed to another invoker)")
}

func invokerChildField(l *Loaded) int {
	_, f := l.invokerVMFields()
	return f
}
